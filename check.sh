#!/bin/sh
# usage: ./check.sh <property> <quick|thorough>
# Rebuilds the analyzer from the vendored sources if needed, then analyses /repo's working tree.
set -e
cd "$(dirname "$0")"
export GOFLAGS=-mod=vendor GOPROXY=off GOSUMDB=off GOTOOLCHAIN=local CGO_ENABLED=0
unset GOWORK
(cd checker && go build -o ../bin/evalsa ./cmd/evalsa) >&2
exec ./bin/evalsa -prop "$1" -tier "${2:-quick}" -repo "${EVAL_REPO:-/repo}" -verif "$(pwd)"
