#!/usr/bin/env python3
"""Regenerates the seeded-change table of DESIGN.md section 10.3 from seeded/*/meta.json."""
import json, glob, os, re
ROOT = os.path.dirname(os.path.dirname(os.path.abspath(__file__)))
rows = []
for f in sorted(glob.glob(os.path.join(ROOT, "seeded", "*", "meta.json"))):
    m = json.load(open(f))
    rules = ", ".join(m["rules_that_fired"][:4]) + (" …" if len(m["rules_that_fired"]) > 4 else "")
    rows.append("| %s | %s | %s | %s | %s | %s |" % (m["seed_id"], m["property_broken"], m["summary"], m["needs_to_manifest"], m["first_run"], rules or "— (missed)"))
table = "| Seed | Breaks | Change | Needs | First run | Caught now by (rules) |\n|---|---|---|---|---|---|\n" + "\n".join(rows)
p = os.path.join(ROOT, "DESIGN.md")
s = open(p).read()
start = s.find("<!-- seed-table:start -->")
end = s.find("<!-- seed-table:end -->")
block = "<!-- seed-table:start -->\n" + table + "\n<!-- seed-table:end -->"
if start >= 0 and end >= 0:
    s = s[:start] + block + s[end + len("<!-- seed-table:end -->"):]
else:
    s = s.replace("SEED_TABLE_PLACEHOLDER", block)
open(p, "w").write(s)
print("%d seeds" % len(rows))
