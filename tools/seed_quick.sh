#!/bin/bash
# usage: tools/seed_quick.sh <tree> : all 20 quick analyses against <tree> (not /repo), outputs in a scratch dir; prints alarms per property
T=$1; O=$(mktemp -d /tmp/sq.XXXXXX); mkdir -p $O/evidence $O/replay; cp /verif/KNOWN_FINDINGS.txt $O/
B=${EVALSA:-/verif/bin/evalsa}
for p in C01 C02 C03 C04 C05 C06 C07 C08 C09 C10 C11 C12 C13 C14 C15 C16 C17 C18 C19 C20; do
  ( out=$($B -prop $p -tier quick -repo $T -verif $O 2>&1); rc=$?; if [ $rc -ne 0 ]; then echo "$p rc=$rc"; echo "$out" | grep -E "^VIOLATION|NO VERDICT|panic" | sed -e 's/replay=[^ ]* //' | cut -c1-300 | head -${SQ_LINES:-3}; fi ) > $O/$p.out &
done; wait
cat $O/C*.out; rm -rf $O
