#!/bin/bash
# usage: tools/benign_eval.sh <dir with patch.diff (a behaviour-preserving refactoring)>
# confirms the pinned suite passes with it (scratch worktree), applies it to /repo, runs every registered quick check,
# undoes it; any non-zero exit is a FALSE ALARM of the checks.
set -u
export GOFLAGS=-mod=mod GOPROXY=off GOSUMDB=off GOTOOLCHAIN=local
unset GOWORK
D=$(cd "$1" && pwd)
VERIF=$(cd "$(dirname "$0")/.." && pwd)
WT=$(mktemp -d /tmp/benchk.XXXXXX)
trap 'git -C /repo worktree remove --force "$WT" >/dev/null 2>&1; rm -rf "$WT"' EXIT
git -C /repo worktree add -f --detach "$WT" HEAD -q || exit 2
( cd "$WT" && git apply "$D/patch.diff" ) || { echo "patch does not apply"; exit 2; }
( cd "$WT" && go build ./... && go test -vet=off -count=1 ./... >/tmp/ben_suite.log 2>&1 ); SUITE=$?
echo "pinned suite with the refactoring: exit $SUITE (want 0)"
if ! git -C /repo diff --quiet; then echo "/repo has local changes, refusing"; exit 2; fi
git -C /repo apply "$D/patch.diff" || exit 2
ALARMS=""
for p in C01 C02 C03 C04 C05 C06 C07 C08 C09 C10 C11 C12 C13 C14 C15 C16 C17 C18 C19 C20; do
  out=$("$VERIF/check.sh" "$p" quick 2>/dev/null); rc=$?
  if [ $rc -ne 0 ]; then
    ALARMS="$ALARMS $p"
    echo "$out" | grep -E "^VIOLATION|NO VERDICT" | sed -e 's/replay=[^ ]* //' | cut -c1-330 | head -6
  fi
done
git -C /repo checkout -- .
if [ -z "${SEED_NO_RESTORE:-}" ]; then for p in C01 C02 C03 C04 C05 C06 C07 C08 C09 C10 C11 C12 C13 C14 C15 C16 C17 C18 C19 C20; do "$VERIF/check.sh" "$p" quick >/dev/null 2>&1; done; fi
echo "== benign: suite=$SUITE ; false alarms:${ALARMS:- NONE}"
rm -f /tmp/ben_suite.log
