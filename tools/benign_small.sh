#!/bin/bash
# evaluates benign/small/<Sxx>_<k>.diff: scratch worktree, pinned suite, all quick checks with the current binary
cd /verif
export GOFLAGS=-mod=mod GOPROXY=off GOSUMDB=off GOTOOLCHAIN=local; unset GOWORK
mkdir -p /tmp/sw; cp ${EVALSA:-bin/evalsa} /tmp/sw/evalsa_small
one() {
  f=$(readlink -f $1); id=$(basename $f .diff)
  wt=/tmp/sw/small_$id
  rm -rf $wt; git -C /repo worktree add -f --detach $wt HEAD -q 2>/dev/null
  if ! git -C $wt apply $f 2>/dev/null; then echo "$id PATCH-FAIL"; git -C /repo worktree remove --force $wt; return; fi
  suite=SKIP
  if [ -n "${SUITE:-}" ]; then ( cd $wt && go build ./... && go test -vet=off -count=1 ./... >/dev/null 2>&1 ) && suite=ok || suite=FAIL; fi
  mkdir -p /tmp/sw/o_$id/evidence /tmp/sw/o_$id/replay; cp /verif/KNOWN_FINDINGS.txt /tmp/sw/o_$id/
  alarms=""; rules=""
  for p in C01 C02 C03 C04 C05 C06 C07 C08 C09 C10 C11 C12 C13 C14 C15 C16 C17 C18 C19 C20; do
    out=$(/tmp/sw/evalsa_small -prop $p -tier quick -repo $wt -verif /tmp/sw/o_$id 2>/dev/null) || { alarms="$alarms $p"; rules="$rules $(echo "$out" | grep -oE 'rule=[A-Z0-9-]+' | sort -u | tr '\n' ',' | sed 's/rule=//g')"; }
  done
  echo "$id suite=$suite alarms:${alarms:- NONE} rules: $(echo $rules | tr ' ,' '\n\n' | sort -u | tr '\n' ' ')"
  rm -rf /tmp/sw/o_$id; git -C /repo worktree remove --force $wt >/dev/null 2>&1
}
export -f one
ls ${1:-benign/small}/*.diff | xargs -P 6 -I{} bash -c 'one {}' | sort
