#!/bin/bash
# usage: tools/seed_eval.sh <dir containing patch.diff and seed_demo_test.go> [props...]
# 1. confirms the seeded change in a scratch worktree of /repo (outside /repo and /verif):
#    builds, the pinned suite passes with it, the demonstration fails with it and passes without it;
# 2. applies the patch to /repo, runs the registered quick checks, and undoes it straight afterwards;
# 3. prints which checks raised a VIOLATION.
# EVALSA=<binary>: use that analyser binary instead of ./check.sh (which rebuilds bin/evalsa from the sources being edited)
set -u
export GOFLAGS=-mod=mod GOPROXY=off GOSUMDB=off GOTOOLCHAIN=local
unset GOWORK
SEED=$(cd "$1" && pwd); shift
PROPS=${*:-"C01 C02 C03 C04 C05 C06 C07 C08 C09 C10 C11 C12 C13 C14 C15 C16 C17 C18 C19 C20"}
VERIF=$(cd "$(dirname "$0")/.." && pwd)
WT=$(mktemp -d /tmp/seedchk.XXXXXX)
trap 'git -C /repo worktree remove --force "$WT" >/dev/null 2>&1; rm -rf "$WT"' EXIT
git -C /repo worktree add -f --detach "$WT" HEAD -q || exit 2

# SEED_PHASE=confirm : only step 1 (safe to run for several seeds in parallel; prints the confirmation lines)
# SEED_PHASE=apply   : only steps 2-3 (needs /repo for itself; expects the confirmation lines in $SEED/confirm.log)
if [ "${SEED_PHASE:-}" = "apply" ]; then
  cat "$SEED/confirm.log"
  CLEAN=$(grep -oE "unchanged tree: exit [0-9]+" "$SEED/confirm.log" | grep -oE "[0-9]+$"); MUT=$(grep -oE "with the change:   exit [0-9]+" "$SEED/confirm.log" | grep -oE "[0-9]+$"); SUITE=$(grep -oE "suite with the change: exit [0-9]+" "$SEED/confirm.log" | grep -oE "[0-9]+$")
else
echo "== confirm in scratch worktree $WT"
cp "$SEED/seed_demo_test.go" "$WT/" || exit 2
( cd "$WT" && go test -vet=off -count=1 -run TestSeedDemo ./... >$WT.clean.log 2>&1 ); CLEAN=$?
echo "demo on unchanged tree: exit $CLEAN (want 0)"
( cd "$WT" && git apply "$SEED/patch.diff" ) || { echo "patch does not apply"; exit 2; }
( cd "$WT" && go build ./... ) || { echo "does not build"; exit 2; }
( cd "$WT" && go test -vet=off -count=1 -run TestSeedDemo ./... >$WT.mut.log 2>&1 ); MUT=$?
echo "demo with the change:   exit $MUT (want non-zero)"
mv "$WT/seed_demo_test.go" "$WT/seed_demo_test.go.off"
( cd "$WT" && go test -vet=off -count=1 ./... >$WT.suite.log 2>&1 ); SUITE=$?
echo "pinned suite with the change: exit $SUITE (want 0)"
tail -1 $WT.suite.log
fi
if [ "${SEED_PHASE:-}" = "confirm" ]; then exit 0; fi

echo "== run the registered checks against /repo with the change applied"
if ! git -C /repo diff --quiet; then echo "/repo has local changes, refusing"; exit 2; fi
git -C /repo apply "$SEED/patch.diff" || exit 2
CAUGHT=""
for p in $PROPS; do
  if [ -n "${EVALSA:-}" ]; then out=$("$EVALSA" -prop "$p" -tier quick -repo /repo -verif "$VERIF" 2>/dev/null); rc=$?
  else out=$("$VERIF/check.sh" "$p" quick 2>/dev/null); rc=$?; fi
  if [ $rc -ne 0 ]; then
    CAUGHT="$CAUGHT $p"
    echo "$out" | grep -E "^VIOLATION|NO VERDICT" | sed -e 's/replay=[^ ]* //' | cut -c1-260 | head -4
  fi
done
git -C /repo checkout -- .
# restore evidence of the unchanged tree
if [ -z "${SEED_NO_RESTORE:-}" ]; then for p in $PROPS; do "$VERIF/check.sh" "$p" quick >/dev/null 2>&1; done; fi
echo "== confirmed: clean=$CLEAN mutant=$MUT suite=$SUITE ; caught by:${CAUGHT:- NONE}"
rm -f $WT.clean.log $WT.mut.log $WT.suite.log
