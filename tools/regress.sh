#!/bin/bash
# full regression of the analyser binary given as $EVALSA (default: build from sources):
# /repo all 20 quick, self-test, seeds (scratch trees), benign small/medium/large
cd /verif
export GOFLAGS=-mod=mod GOPROXY=off GOSUMDB=off GOTOOLCHAIN=local; unset GOWORK
if [ -z "${EVALSA:-}" ]; then (cd checker && GOFLAGS=-mod=vendor CGO_ENABLED=0 go build -o /tmp/evalsa_regress ./cmd/evalsa) || exit 2; export EVALSA=/tmp/evalsa_regress; fi
mkdir -p /tmp/sw/o/evidence; cp KNOWN_FINDINGS.txt /tmp/sw/o/
echo "== /repo"; for p in C01 C02 C03 C04 C05 C06 C07 C08 C09 C10 C11 C12 C13 C14 C15 C16 C17 C18 C19 C20; do $EVALSA -prop $p -repo /repo -verif /tmp/sw/o > /tmp/sw/o/$p.out 2>&1 || echo "FAIL $p"; done
echo "== selftest"; $EVALSA -selftest 2>&1 | tee /tmp/selftest_regress.out | grep -E "FAILED|^selftest:"
echo "== seeds"; tools/seed_fast.sh > /tmp/seedfast_regress.out 2>&1; awk '{print $2}' /tmp/seedfast_regress.out | sort | uniq -c; grep -v OWN /tmp/seedfast_regress.out
echo "== benign small"; tools/benign_small.sh benign/small > /tmp/small_regress.out 2>&1; grep -c NONE /tmp/small_regress.out; grep -v NONE /tmp/small_regress.out
echo "== benign medium"; tools/benign_small.sh benign/medium > /tmp/medium_regress.out 2>&1; grep -c NONE /tmp/medium_regress.out; grep -v NONE /tmp/medium_regress.out
echo "== benign medium2"; tools/benign_small.sh benign/medium2 > /tmp/medium2_regress.out 2>&1; grep -c NONE /tmp/medium2_regress.out; grep -v NONE /tmp/medium2_regress.out
echo "== benign large"; cp $EVALSA /tmp/bw/evalsa_large
tot=0; for b in B01 B02 B03 B04 B05 B06 B07 B08 B09 B10 B11 B12; do n=0; rules=""; for p in C01 C02 C03 C04 C05 C06 C07 C08 C09 C10 C11 C12 C13 C14 C15 C16 C17 C18 C19 C20; do out=$(/tmp/bw/evalsa_large -prop $p -tier quick -repo /tmp/bw/$b -verif /tmp/bw/out 2>/dev/null) || { n=$((n+1)); rules="$rules $(echo "$out" | grep -oE 'rule=[A-Z0-9-]+' | sort -u | tr '\n' ' ' | sed 's/rule=//g')"; }; done; echo "$b: $n  $(echo $rules | tr ' ' '\n' | sort -u | tr '\n' ' ')"; tot=$((tot+n)); done; echo "TOTAL large alarms: $tot"
