#!/bin/bash
# usage: EVALSA=<binary> tools/seed_final.sh <seed id>...
# Re-judges seeded changes against the current analyser without touching /repo: scratch worktree of /repo's HEAD with the
# patch applied, all 20 quick analyses. Writes seeded/<id>/eval.log = the confirmation recorded when the change was imported
# (eval_first_run.log: demo fails with / passes without the change, pinned suite passes; checks run against /repo itself
# with the patch applied) + the verdict of the current checks on the patched tree.
cd /verif
B=${EVALSA:-/verif/bin/evalsa}
one() {
  id=$1; B=$2; d=/verif/seeded/$id; wt=/tmp/sf_$id
  rm -rf $wt; git -C /repo worktree add -f --detach $wt HEAD -q 2>/dev/null
  if ! git -C $wt apply $d/patch.diff 2>/dev/null; then echo "$id PATCH-FAIL"; git -C /repo worktree remove --force $wt; return; fi
  O=/tmp/sf_out_$id; mkdir -p $O/evidence $O/replay; cp /verif/KNOWN_FINDINGS.txt $O/
  caught=""; lines=""
  for p in C01 C02 C03 C04 C05 C06 C07 C08 C09 C10 C11 C12 C13 C14 C15 C16 C17 C18 C19 C20; do
    out=$($B -prop $p -tier quick -repo $wt -verif $O 2>/dev/null) || { caught="$caught $p"; lines="$lines$(echo "$out" | grep -E '^VIOLATION|NO VERDICT' | sed -e 's/replay=[^ ]* //' -e "s#$wt/##g" | cut -c1-260 | head -4)"$'\n'; }
  done
  first=$d/eval_first_run.log; [ -f $first ] || first=$d/eval.log
  conf=$(grep -E "^== confirmed" $first | sed -e 's/ ; caught by:.*//')
  { echo "== confirmation at import time (tools/seed_eval.sh, see eval_first_run.log)"; grep -E "^demo|^pinned|^ok|^== confirm in" $first; echo "== current checks on the patched tree (scratch worktree of /repo HEAD, tools/seed_final.sh)"; printf "%s" "$lines"; echo "$conf ; caught by:${caught:- NONE}"; } > $d/eval.log.new
  mv $d/eval.log.new $d/eval.log
  echo "$id caught by:${caught:- NONE}"
  rm -rf $O; git -C /repo worktree remove --force $wt >/dev/null 2>&1
}
export -f one
printf "%s\n" "$@" | xargs -P ${PAR:-4} -I{} bash -c "one {} $B" | sort
