#!/usr/bin/env python3-vt
"""Validates MANIFEST.json and every evidence file against the harness schemas (development aid)."""
import json, glob, sys, jsonschema
ok = True
m = json.load(open('/verif/MANIFEST.json')); s = json.load(open('/root/.vp/MANIFEST.schema.json'))
jsonschema.validate(m, s); print("manifest valid:", len(m['checks']), "checks,", len(m.get('not_applicable', [])), "not applicable")
es = json.load(open('/root/.vp/EVIDENCE.schema.json'))
for c in m['checks']:
    p = '/verif/' + c['evidence_file']
    try:
        e = json.load(open(p)); jsonschema.validate(e, es)
        cov = e['coverage']
        if e['level'] != c['level_claimed']['category']:
            print("LEVEL MISMATCH", p); ok = False
        print("evidence valid:", c['property_id'], e['tier'], "obligations", cov.get('obligations'), "discharged", cov.get('discharged'), "violations", e.get('violations'), "wall %.1fs" % e['wall_s'])
    except Exception as ex:
        ok = False; print("INVALID", p, str(ex)[:300])
sys.exit(0 if ok else 1)
