#!/usr/bin/env python3
"""Generates /verif/MANIFEST.json from the claim table below.

The claim table is the single place where a property is marked claimed (with
level, text, technique) or not applicable (with the reason)."""
import json, os, sys

HERE = os.path.dirname(os.path.dirname(os.path.abspath(__file__)))

TRUST = ("Trusted: go/types, go/packages, x/tools v0.29.0 go/ssa + VTA call graph, and the evalsa rules "
         "(self-tested both ways by witness mutants/benign variants). Assumes A1 well-behaved callbacks, "
         "A2 no unsafe/cgo/linkname and inspection-only reflection (checked each run). Scope: non-test files of the package.")

CLAIMS = {}
NA = {}

def claim(pid, category, text, technique, design_ref, note=TRUST):
    CLAIMS[pid] = dict(category=category, text=text, technique=technique, design_ref=design_ref, note=note)

def na(pid, reason):
    NA[pid] = reason

# ---------------------------------------------------------------------------
exec(open(os.path.join(HERE, "tools", "claims.py")).read())
# ---------------------------------------------------------------------------

ALL = ["C%02d" % i for i in range(1, 21)]
checks = []
for pid in ALL:
    if pid in CLAIMS:
        c = CLAIMS[pid]
        checks.append({
            "property_id": pid,
            "quick_cmd": "./check.sh %s quick" % pid,
            "thorough_cmd": "./check.sh %s thorough" % pid,
            "evidence_file": "evidence/%s.json" % pid,
            "replay_cmd_template": "bin/evalsa -explain {path}",
            "engine": "evalsa",
            "level_claimed": {"category": c["category"], "text": c["text"], "design_ref": c["design_ref"]},
            "level_note": c["note"],
            "technique": c["technique"],
        })
missing = [p for p in ALL if p not in CLAIMS and p not in NA]
if missing:
    sys.exit("properties neither claimed nor not_applicable: %s" % missing)

manifest = {
    "version": 1,
    "setup_cmd": "cd checker && GOFLAGS=-mod=vendor GOPROXY=off GOSUMDB=off GOTOOLCHAIN=local CGO_ENABLED=0 go build -o ../bin/evalsa ./cmd/evalsa",
    "hooks": {
        "guard": "verif",
        "enable": "none needed: static analysis reads the source; the thorough tier also analyses with -tags verif and GOARCH=386 to show the verdicts do not depend on build configuration",
        "baseline_off_cmd": "cd /repo && go test -vet=off -count=1 ./...",
        "source_commits": [],
        "add_only": True,
    },
    "engines": [{
        "name": "evalsa",
        "path": "checker/cmd/evalsa",
        "serves_properties": sorted(CLAIMS),
        "kind_free_text": "repository-specific static analyzer over go/types + go/ssa + VTA call graph (x/tools v0.29.0, vendored): effect/ownership, gate/dominance, guard dataflow, table extraction and call-site census rules; nothing is executed",
    }],
    "checks": checks,
    "not_applicable": [{"property_id": p, "reason": NA[p]} for p in ALL if p in NA],
    "notes": "Technique family: static analysis only. Every verdict is computed from /repo's working tree on each run. Known findings: KNOWN_FINDINGS.txt. Design: DESIGN.md.",
}
with open(os.path.join(HERE, "MANIFEST.json"), "w") as f:
    json.dump(manifest, f, indent=1)
    f.write("\n")
print("MANIFEST.json: %d claimed, %d not applicable" % (len(CLAIMS), len(NA)))
