#!/bin/bash
# probes detection with mechanical "loop leaves after K iterations" mutants (checker/cmd/mutloop):
# for every loop of the library: scratch worktree, build, pinned suite; mutants that survive the suite are run
# against all 20 quick checks. usage: EVALSA=<binary> tools/mutloop_run.sh [K]   (output: one line per mutant)
cd /verif
export GOFLAGS=-mod=mod GOPROXY=off GOSUMDB=off GOTOOLCHAIN=local; unset GOWORK
K=${1:-2}
(cd checker && GOFLAGS=-mod=vendor go build -o /tmp/mutloop ./cmd/mutloop) || exit 2
mkdir -p /tmp/mw; cp ${EVALSA:-bin/evalsa} /tmp/mw/evalsa
one() {
  k=$1; K=$2; wt=/tmp/mw/m$k
  rm -rf $wt; git -C /repo worktree add -f --detach $wt HEAD -q 2>/dev/null
  id=$(/tmp/mutloop -src $wt -k $k -limit $K -dst $wt 2>&1)
  if ! (cd $wt && go build ./... 2>/dev/null); then echo "$id BUILD-FAIL"; git -C /repo worktree remove --force $wt; return; fi
  if ! (cd $wt && go test -vet=off -count=1 ./... >/dev/null 2>&1); then echo "$id killed-by-suite"; git -C /repo worktree remove --force $wt; return; fi
  mkdir -p /tmp/mw/o$k/evidence /tmp/mw/o$k/replay; cp /verif/KNOWN_FINDINGS.txt /tmp/mw/o$k/
  alarms=""; rules=""
  for p in C01 C02 C03 C04 C05 C06 C07 C08 C09 C10 C11 C12 C13 C14 C15 C16 C17 C18 C19 C20; do
    out=$(/tmp/mw/evalsa -prop $p -tier quick -repo $wt -verif /tmp/mw/o$k 2>/dev/null) || { alarms="$alarms $p"; rules="$rules $(echo "$out" | grep -oE 'rule=[A-Z0-9-]+' | sort -u | tr '\n' ' ' | sed 's/rule=//g')"; }
  done
  echo "$id survives-suite alarms:${alarms:- NONE} rules: $(echo $rules | tr ' ' '\n' | sort -u | tr '\n' ' ')"
  rm -rf /tmp/mw/o$k; git -C /repo worktree remove --force $wt >/dev/null 2>&1
}
export -f one
n=$(/tmp/mutloop -src /repo -list | wc -l)
seq 0 $((n-1)) | xargs -P 6 -I{} bash -c "one {} $K" | sort -n
