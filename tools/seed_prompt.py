#!/usr/bin/env python3
"""usage: tools/seed_prompt.py <wave letter> [focus]  -> writes /tmp/seed/prompt<wave>_Cnn.txt (one per property).
The prompt holds only the property text, the agent's own worktree path and generic instructions — nothing from /verif."""
import json, sys
wave = sys.argv[1]
focus = {
 'core': 'Prefer a change inside the core machinery where the property allows it — the compile-time computation of the jump / stack / parent-index tables, the evaluator loops (Eval, TryEval and their helpers), the optimizer passes, the parser algorithms, config copying/registration — rather than flipping a constant in a table or editing a single built-in operator. Changes where two sites cooperate, or where only one of two sibling code paths is changed, are especially welcome.',
 'indirect': 'Prefer a change in code the property depends on only INDIRECTLY — a helper, predicate, constructor, option handler, lookup table builder, copy routine, classification function or error path that several callers share — or a NEW fast path / cache / early exit / pre-check added in front of existing logic and guarded by a condition that is almost always, but not always, equivalent to the slow path. Changes that need two cooperating edits (each harmless alone), or that only misbehave on the second use of some object (second Compile with a config, second Eval with a context, a config derived from another), or only for one of several aliases / notations / option combinations, are especially welcome. Avoid deleting a guard outright or flipping a single table constant.',
 'invariant': 'Prefer a change in a PRODUCER of some internal data structure or invariant that a distant CONSUMER relies on (node order, parent indexes, child counts, stack slots, jump targets, flag bits, key tables, token lists, cost fields, option maps): the producer change looks locally reasonable, the consumer is untouched, and only certain shapes make the consumer misbehave. Also welcome: off-by-one at capacity boundaries, integer width / overflow / truncation / sign handling, empty or singleton collections, Unicode versus byte lengths, dependence on map iteration order, aliasing of slices (append sharing a backing array), zero value versus absent entry, and a sibling code path (the other evaluator, the other notation, the other fetcher, event mode) that is not updated together with the one you change.',
 'sibling': 'Prefer a change in the LESS-TRAVELLED of two sibling code paths that must agree: TryEval versus Eval, event-reporting mode versus plain mode, infix notation versus S-expression notation, the ;;;; directive line versus CompileOptions, a config produced by CopyConfig versus a fresh one, the indexed variable fetcher versus the map fetcher, the cached selector key versus the string key, the Dump/DumpTable/HandleDebugEvent diagnostics versus the engine they describe, the random expression generator versus the parser that must accept its output. Change only one of the two so that they silently disagree on a rare shape; the common path and everything the existing tests sample stay right. Avoid deleting a guard outright or flipping a single table constant.',
 'value': 'Prefer a change that keeps the overall structure intact — every loop still runs to its end, every error is still propagated, every guard is still present — but makes some computed VALUE wrong in a rare case: an index or offset expression, an arithmetic/bit expression, an operand of a comparison, which of two similar variables is used, a value carried from one iteration to the next, an initial value, what is stored into a table versus what is later read from it. Also welcome: a wrong interplay between two features that are each right alone (event mode + an optimisation, infix + directives, config copying + a later registration, a cache + a second call), or a change to a rarely used branch of a helper shared by several callers.',
}[sys.argv[2] if len(sys.argv) > 2 else 'core']
tmpl = '''You are helping test a verification setup for the Go library github.com/onheap/eval (an S-expression / infix expression engine: lexer, parser, AST optimizer, flat stack-based evaluator with short-circuit jumps). You have your own scratch git worktree of the library at {wt} (a detached checkout; work ONLY inside that directory; do not read or touch /verif or /repo).

Environment for every shell command (no network): export GOFLAGS=-mod=mod GOPROXY=off GOSUMDB=off GOTOOLCHAIN=local; unset GOWORK
The existing test suite is run with: cd {wt} && go test -vet=off -count=1 ./...   (takes ~7 s; it passes on the unchanged tree; one test is randomised, so run the suite 3 times when you check that it stays green).

Here is a property the library is supposed to satisfy:

  [{id}] {title}
  Statement: {statement}
  It must hold: {quant}

YOUR TASK: make a realistic change to the NON-TEST source files of the library (the kind of change a developer could plausibly make: an optimisation, a refactoring slip, a "simplification", an off-by-one, a caching shortcut, a reordered condition...) such that
  (1) the library still compiles,
  (2) the existing test suite still passes completely, unedited,
  (3) the property above is now violated, and
  (4) the violation needs something specific to manifest — a particular unusual input shape, a multi-step sequence of operations, a particular size/boundary, a particular option combination, a particular interleaving, or two cooperating sites that each look fine alone — NOT something ordinary use would expose at once.
Keep the change small (ideally 1-15 changed lines, one or two sites). Read the source first. IMPORTANT for diversity: do NOT take the most obvious site. {focus}

Then write a demonstration: a NEW Go test file {wt}/seed_demo_test.go (package eval) with one test function TestSeedDemo that FAILS with your change applied and PASSES on the unchanged tree. Verify both directions yourself:
  - with the change: `go test -vet=off -count=1 -run TestSeedDemo ./...` fails, and the full existing suite passes (run it with seed_demo_test.go temporarily moved away, 3 times);
  - without the change (save it with `git diff -- '*.go' ':!*_test.go' > /tmp/<your worktree name>.patch`, undo it with `git apply -R` of that file, keep the demo file, re-apply with `git apply` afterwards; do NOT use `git stash`, the stash is shared between all worktrees of the repository): TestSeedDemo passes.

When done, leave the worktree with your source change applied (uncommitted) and seed_demo_test.go present, and ALSO write:
  {wt}/SEED_PATCH.diff   = output of `git diff -- '*.go' ':!*_test.go'` (the source change only)
  {wt}/SEED_META.txt     = 5-10 lines: what you changed, why it breaks the property, what exactly is needed for it to manifest, and the commands you ran with their outcomes.
Reply with a short summary (the diff, what manifests it, confirmation of the test outcomes). If after a serious attempt (at most ~{mins} minutes) you cannot find a change that keeps the existing suite green, say so and describe the closest attempt. If while reading you notice that the UNCHANGED library already violates the property on some input, report that too (with the input).'''
for l in open('/verif/properties.jsonl'):
    p = json.loads(l); pid = p['id']
    wt = f'/tmp/seed/{pid}-{wave}'
    open(f'/tmp/seed/prompt{wave}_{pid}.txt', 'w').write(tmpl.format(wt=wt, id=pid, title=p['title'], statement=p['statement'], quant=p['quantifier']['text'], focus=focus, mins=(sys.argv[3] if len(sys.argv)>3 else '40')))
print('ok')
