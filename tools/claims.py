# Claim table (executed by gen_manifest.py). One entry per property.

PENDING = "not claimed in this revision: the static rules for it are designed (DESIGN.md section 5) but not yet built and validated both ways"

claim("C18", "other",
      "Decides the structural clauses of the scalar-operator algebra for every operand count and value, from the source: alias identity in the operator table, a dominating non-zero test before every integer division with an error on the zero edge, arity guards before every params[k], type mismatches reach only error returns, fold direction and operator-per-mode tables read from the implementations, safe interface equality. Does not decide numeric results (Go's int64 semantics). Added: R-BOOLARITY — for and/or the arity error is enforced where the node is built, because the engine can decide them without calling the operator.",
      "table extraction + SSA gate/dominance + forward must-dataflow on len(params) + canonical term recovery",
      "DESIGN.md 5/C18")

claim("C07", "proof",
      "A sound effect/ownership analysis over the whole evaluation closure (Eval, EvalBool, TryEval, TryEvalBool, Dump, DumpTable and every in-package function they can reach through static or VTA-resolved dynamic calls) proves that no instruction writes memory that outlives the call except by sending on Expr.EventChan, that no package variable read there is ever written after initialisation, and that the closure contains no goroutine/select/receive/sync use. Every execution of that code is covered by construction; what is trusted is listed in the evidence (type checker, go/ssa, VTA, the frozen library summaries, well-behaved callbacks).",
      "interprocedural field/type-based ownership and effect analysis on SSA (label propagation to a fixpoint) + whole-package writer census + instruction census",
      "DESIGN.md 5/C07")

claim("C08", "proof",
      "The same effect engine, with the label 'reachable from Compile's *Config argument', proves that nothing reachable from Compile writes the caller's config or any package variable and that no container of the config is retained by the program, the parser or a closure; structural rules prove copyConfig copies every Config field element-wise into fresh containers (so CopyConfig/ExtendConf share nothing) and that the closure has no source of nondeterminism (map iteration only with order-independent bodies, no random/time/os callee, stable sort only).",
      "interprocedural taint/ownership analysis on SSA + SSA pattern rules on copyConfig/NewConfig + nondeterminism-source census",
      "DESIGN.md 5/C08")

claim("C01", "other",
      "Decides the clause 'the error is the very one the fetcher or operator returned' completely (value-origin analysis of every error reaching a return of the evaluation entry points), plus structural necessary conditions of the semantics: errors are tested before values are used, name resolution order const > variable > undefined variable, node-kind invariants at every writer, every kind has a handler in every dispatch, flag bit groups disjoint, and/or polarity tables agree for every alias. Does not decide the value semantics of the stack machine (jump/stack tables are run-time data). Added: per arm of Eval's main loop the pushed value is exactly the literal / the fetch of that node / result #0 of the node's own operator, and the operand vector is the popped stack region in source order (R-STEPRES, R-STEPARGS). Shape of the compile-time tables: stack-height recurrence uses one adjusted predecessor in every arm and the evaluator's own per-kind deltas (R-STACKREC); short-circuit table stores are gated only by the parent and the position, never by the node's own kind, climbing is justified by (ancestor.flag & flag) == flag, loop directions (R-SCFLAGS, R-SCCLIMB); every site agrees that a fast operator is followed by two inlined operands (R-FASTLAYOUT); marker comparisons use the stored dynamic type (R-KWTYPE). Still not decided: the contents of scIdx for every tree shape, hence value equality for all programs. Also: an and/or node is never built with fewer than two operands (R-BOOLARITY; the tree as found violated it: D14, repaired).",
      "SSA value-origin analysis + gate/dominance rules + writer census of node fields + table extraction",
      "DESIGN.md 5/C01")

claim("C03", "other",
      "Decides where the observable effects of evaluation can occur: census of every VariableFetcher.Get and operator call in Eval with the arm (node kind) that dominates it, the node it addresses relative to the single loop counter, exclusivity and at-most-counts per step, operand order into the fast operator, the gates of the cond jump and of the short-circuit jump, and the if/fi closures. Does not decide that the compile-time jump targets skip exactly the decided operands. Added: per arm of Eval's main loop the pushed value is exactly the literal / the fetch of that node / result #0 of the node's own operator, and the operand vector is the popped stack region in source order (R-STEPRES, R-STEPARGS). Every child of an and/or node gets polarity flag and jump target whatever its own kind (R-SCFLAGS, R-SCCLIMB, R-FASTLAYOUT, R-KWTYPE). R-PAIRBOOL (every alias of and/or is recognised by the short-circuit predicates) is run here too.",
      "call-site census on SSA with edge-dominance facts over node-kind tests + loop-shape recovery",
      "DESIGN.md 5/C03")

claim("C04", "other",
      "Decides the three gates a definite TryEval answer rests on: operators never see a DNE operand (the only operator application in TryEval's own code is behind contains(params, DNE) == false, plus the cond arm), shortcut polarity of the operator proxy, fetch only under Cached == true for the same keys; and that the polarity tables used by the climbing loop agree with the compiler's. Does not decide the upward propagation itself. Added: per arm of TryEval's main loop the pushed value is exactly the literal / fetchVariableValueProxy(curt) / executeOperatorProxy(curt, operands); operands are built as in Eval, fast-arm slot k is getNodeValueProxy(nodes[i+1+k]) and nothing else (R-STEPRES, R-STEPARGS). Added: R-CACHEDGET — for every fetcher of the package Cached == true excludes every error condition of Get. Added by mutation probing: R-CONTAINS — the membership helper the proxy decides with is exact (true only under list[i]==x, false only after the whole list).",
      "call-site census + edge-dominance facts (with phi-&& expansion) + table extraction",
      "DESIGN.md 5/C04")

claim("C05", "other",
      "Decides the ordering and 'DNE is not an error' clauses: shortcuts are reached independently of DNE poisoning, the not-cached edge yields (DNE, nil), TryEvalBool maps DNE to ErrDNE before asserting bool, the fast-operator arm goes through both proxies. Does not decide Kleene completeness of the propagation. Added: per arm of TryEval's main loop the pushed value is exactly the literal / fetchVariableValueProxy(curt) / executeOperatorProxy(curt, operands); operands are built as in Eval, fast-arm slot k is getNodeValueProxy(nodes[i+1+k]) and nothing else (R-STEPRES, R-STEPARGS). Added: R-CACHEDGET — for every fetcher of the package Cached == true excludes every error condition of Get (an unavailable variable never becomes a fetcher error).",
      "edge-dominance facts over the proxy functions + SSA shape rules",
      "DESIGN.md 5/C05")

claim("C10", "other",
      "Decides who may call an operator at compile time and under which gate (census of dynamic Operator calls in the compile closure, tied to isStatelessOp's answer), what isStatelessOp can approve, that the tree is rewritten only on success or by the gated and/or absorption, that only constant children are folded, and that optimizers have no failure channel. Does not decide that a folded value equals the run-time value. Added: R-OPRESOLVE — the function a fold applies is the function the node runs (parser and folder resolve names in the same order).",
      "call-site census over the VTA compile closure + edge-dominance facts + loop-shape rules + table extraction",
      "DESIGN.md 5/C10")

claim("C16", "other",
      "Decides the structural core of every sentence: the reordering pass only stores cost and sorts children under isBoolOpNode of the same node (permutation only), the sort is stable, the comparator is strict less on cost of the sorted slice, the cost dataflow is monotone in configured costs (float +, math.Max, phi only) with per-name entries taking precedence, and the and/or predicates cover exactly the aliases of the table. Does not decide NaN costs or concrete numbers. Added: R-COSTALL — the cost of an `if` reads exactly its operand children (not the fi marker) and every other node adds every child's cost.",
      "effect analysis of the reordering closure + SSA dataflow over float operations + comparator shape + table extraction",
      "DESIGN.md 5/C16")

claim("C09", "other",
      "Decides placement and width of the capacity checks: check(ast) with its error tested dominates buildExpr and no tree-rewriting call can run between them; the limits check enforces fit every narrower integer type a children count or program length/index is converted to; writers of Expr.nodes are enumerated and any growth after check (event nodes) is followed by a final length test before Compile returns; no narrow signed arithmetic on lengths; stack allocation classes are large enough and agree between Eval and TryEval. Does not decide that calAndSetStackSize computes a true upper bound, nor results at the limits. Added: R-STACKMAX (running maximum over every node) and R-STACKREC (recurrence shape and per-kind deltas equal to the evaluator's stack effects).",
      "must-pass-through / call-order rules on the CFG + narrowing-conversion census matched to extracted limits + writer census + sibling agreement",
      "DESIGN.md 5/C09")

claim("C11", "other",
      "Decides the registration and selection clauses: GetOrRegisterKey writes only an absent name and only a key shown unused (set of all current keys, exhausted-scan pigeonhole shape), no other in-package writer of VariableKeyMap; the slice-backed fetcher is constructed only under the min/max gate computed over all keys and indexes only under its bound test; unifyType normalises every listed type with the stated conversion and both fetcher constructors go through it; variable nodes pair a name with the key registered under that same name. Does not decide end-to-end values under permuted layouts.",
      "edge-dominance facts + loop-shape rules + type-switch table extraction + literal field census",
      "DESIGN.md 5/C11")

claim("C12", "other",
      "Decides non-interference and payload clauses: every container-typed component of a sent Event is allocated in the sending function and never written after the send (no aliasing of engine buffers), the operator wrapper is a transparent forwarder that reports the call's own result/error, the event arm of Eval/TryEval is a no-op on every loop-carried variable, Dump skips event nodes, and instrumentation is installed only under ReportEvent/Debug. Does not decide the remapped jump indices of event mode. Added: R-EVREMAP — the event-mode node array and parent table are rebuilt entry by entry in step, every appended node records its position in the table keyed by its original index, and the relabelling loop reads the right table under the -1 guards. R-WRAPID also requires the reported arguments to be a copy taken before the operator is applied (D15, repaired). Added by mutation probing: R-EVSTACK — the LOOP event's Stack is a complete copy of os[0..osTop] made before the send.",
      "SSA value-root analysis of send payloads + closure shape rule + phi inspection on the loop latch + edge-dominance facts",
      "DESIGN.md 5/C12")

claim("C13", "other",
      "Decides the literal-codec clause (Dump escapes iff the lexer unescapes; today neither), that every constant type the parser creates has a printing case in a re-readable form (quotes, parenthesised space-separated lists, base-10 integers), that Dump's selection of `if` children agrees with the compiler's emission order, and that event nodes are skipped. Does not decide equivalence of the recompiled program. Added: R-DUMPVERBATIM (rendered text is never re-indented) and R-EVREMAP (event-mode parent table is an exact relabelling, so Dump rebuilds the same tree in event mode). Added: R-FMTDATA (format strings of every fmt call are built from constants and integers only; program text is an operand) and R-INTBASE (every integer parse of the lexer/parser reads base 10). Constants of Go types the lexer cannot produce are outside the property's literal domain.",
      "callee census over the lex and Dump closures + type-switch/print-grammar extraction + sibling agreement on child order",
      "DESIGN.md 5/C13")

claim("C14", "other",
      "Decides token-class agreement (every verbatim class of the lexer — opening rune and terminator — has a copy-through state with the same terminator in the formatter), the shared space predicate and delimiter constants, and that directives are read only from leading comment tokens while all comment tokens are removed before parsing. Does not decide token-sequence equality under arbitrary re-layout. Added by mutation probing: the formatter's copy-through loops have no exit but the terminator and the end of the input, and the result is produced only after the main loop over the runes ended. Added after seeding wave 7: the copy-through state is entered for every occurrence of the opening rune, independent of the formatter's own state (previous token class, indentation).",
      "rune-comparison extraction from lexer closures and formatter loop states + edge-dominance facts",
      "DESIGN.md 5/C14")

claim("C15", "other",
      "Decides the operator-table clause (documented precedence levels and arities read from the getInfixOpInfo switch, coverage of every symbolic operator of the operator table, aliases on one level) and the associativity rule (reduction stops only for a strictly tighter operator; comparePrecedence direction; operands popped last to first). Does not decide the shunting-yard algorithm as a whole. Added: R-REDUCEGATE — an operator is built only on the losing edge of the precedence comparison against the arriving token, the matched parenthesis ends the reduction, and an arriving prefix operator reduces nothing (the tree as found violated the last clause: D13, repaired). Added: R-OPNAMES — a name is read as an undefined variable only when the operator-node builder's own resolver does not know it. Added by mutation probing: R-INFIXWHOLE — the infix parser's main loop ends only when no token is left and every operator node is built from all operands popped for it.",
      "switch-table extraction from typed syntax + SSA term recovery and loop-exit condition rule",
      "DESIGN.md 5/C15")

claim("C17", "other",
      "Decides the dispatch clauses by abstract interpretation of in/overlap over operand types: overlap's outcome matrix is symmetric, same-typed lists give a value, mismatches are errors except the empty literal on either side; in's matrix accepts exactly the documented collections; plus structural necessary conditions of the set semantics (true only under element equality / set hit between the two operands, loops over whole operands, false only at loop exit or for the empty literal). Does not decide the value relation nor scan/hash agreement. Added: R-INTBASE — list elements and scalar probes are read with the same base (10).",
      "CFG walk with type tests resolved by assumed operand types + edge-dominance facts + loop-shape rules",
      "DESIGN.md 5/C17")

claim("C19", "other",
      "Decides constant agreement of the version encoding (one radix, admitted component bound below the radix, admitted length range containing every default, no int64 overflow, positional accumulation, parse failure is an error) and the time-zone clause (time.Parse only, Unix seconds of that parse, error returned), plus which layout each time operator parses with for each arity. Does not decide the order relation over all pairs. Added: version components are parsed base 10.",
      "constant and bound extraction from branch facts + callee census + may-analysis of mode/arity sets",
      "DESIGN.md 5/C19")

claim("C20", "other",
      "Decides the mechanisms the generator's in-line oracle rests on: execOp has the same three-valued decision table as the engine's operator proxy (sibling agreement, shortcuts before poisoning), the generated `if` reports the chosen branch, division operators are chosen only under a correctly maintained no-zero-divisor flag, listed operators exist, and n-ary nodes report execOp of the rendered operator over all children. Does not decide equality with a reference evaluator on every seed. Added: R-GENOPT — generator option closures store into no captured variable (no state between applications).",
      "decision-table extraction by edge-dominance facts (two siblings compared) + phi/flag dataflow rules + constant list extraction",
      "DESIGN.md 5/C20")

claim("C06", "other",
      "A panic-site obligation ledger over the whole API closure (Compile, Eval, TryEval, Dump, DumpTable, IndentByParentheses and everything they reach): every index, slice expression, single-result type assertion, integer division, interface comparison, non-constant make and call of a table-held function value gets exactly one verdict — discharged by a sound guard dataflow (difference constraints over registers, variables and fields with inductively verified non-negativity invariants, mod-set kills, predicate summaries) or by kind/type/zero/comparability gates; listed as invariant-governed (compile-time table indices: not decided, never an alarm); covered by a frozen-table entry with its reason; or reported. Plus arity/type-error discipline of all built-ins, never (nil, nil) from Compile, no panic/exit/go in the closure. On the pinned tree it reports exactly the five panic defects that were then repaired. Does not decide termination nor the table-indexed sites of the evaluator. Added by mutation probing: R-ERRDROP — no return of the API closure reports success on the non-nil edge of an error obtained from a call (a swallowed parser error is how a nil node reaches a dereference; the ledger does not model nil dereferences itself).",
      "obligation ledger: forward must-dataflow over a difference-constraint domain on SSA + edge-dominance gates + frozen table",
      "DESIGN.md 5/C06")

claim("C02", "other",
      "C02 as a whole (value equality across 16 optimisation subsets for all programs and inputs) is NOT decided. Decided are structural necessary conditions of it: ReduceNesting only splices same-kind bool children and keeps every operand in order (R-FLATTEN); optimize runs exactly the enabled-or-absent passes (R-OPTGATE); the ;;;; directive parser and the Optimizations option write CompileOptions identically (R-DIREQ, sibling agreement); plus the per-pass conditions shared with C10 (fold only constants through approved stateless operators, only on success), C16 (reordering permutes and/or operands only, stably) and C01 (fast marking only for two-leaf operators). A change that breaks one of these breaks C02; a change that only alters which value a re-derived jump/stack table holds is out of reach. Added: R-OPRESOLVE — the parser consults Config.OperatorMap only when the built-in table has no entry, so the function folded at compile time is the function the node runs. Added: the fast-operator arm of both evaluators (what FastEvaluation switches to) fetches each inlined operand itself with its own keys and passes them in order (R-CALLSITES, R-FASTORDER, R-STEPRES/R-STEPARGS, R-FASTLAYOUT, R-FASTPROXY).",
      "SSA loop-shape and gate rules on the optimizer passes + sibling agreement on option writers + re-run of the C10/C16/C01 pass rules",
      "DESIGN.md 5/C02")
