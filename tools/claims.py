# Claim table (executed by gen_manifest.py). One entry per property.

PENDING = "not claimed in this revision: the static rules for it are designed (DESIGN.md section 5) but not yet built and validated both ways"

claim("C18", "other",
      "Decides the structural clauses of the scalar-operator algebra for every operand count and value, from the source: alias identity in the operator table, a dominating non-zero test before every integer division with an error on the zero edge, arity guards before every params[k], type mismatches reach only error returns, fold direction and operator-per-mode tables read from the implementations, safe interface equality. Does not decide numeric results (Go's int64 semantics).",
      "table extraction + SSA gate/dominance + forward must-dataflow on len(params) + canonical term recovery",
      "DESIGN.md 5/C18")

for p in ["C01","C03","C04","C05","C06","C07","C08","C09","C10","C11","C12","C13","C14","C15","C16","C17","C19","C20"]:
    na(p, PENDING)

na("C02", "semantic equivalence of two programs over all inputs and 16 optimisation subsets is a run-time relation on values computed by folding and re-derived jump tables; no structural clause is a necessary condition on its own (its structural parts are decided under C08, C10, C16); an honest not-applicable for static analysis")
