# Claim table (executed by gen_manifest.py). One entry per property.

PENDING = "not claimed in this revision: the static rules for it are designed (DESIGN.md section 5) but not yet built and validated both ways"

claim("C18", "other",
      "Decides the structural clauses of the scalar-operator algebra for every operand count and value, from the source: alias identity in the operator table, a dominating non-zero test before every integer division with an error on the zero edge, arity guards before every params[k], type mismatches reach only error returns, fold direction and operator-per-mode tables read from the implementations, safe interface equality. Does not decide numeric results (Go's int64 semantics).",
      "table extraction + SSA gate/dominance + forward must-dataflow on len(params) + canonical term recovery",
      "DESIGN.md 5/C18")

claim("C07", "proof",
      "A sound effect/ownership analysis over the whole evaluation closure (Eval, EvalBool, TryEval, TryEvalBool, Dump, DumpTable and every in-package function they can reach through static or VTA-resolved dynamic calls) proves that no instruction writes memory that outlives the call except by sending on Expr.EventChan, that no package variable read there is ever written after initialisation, and that the closure contains no goroutine/select/receive/sync use. Every execution of that code is covered by construction; what is trusted is listed in the evidence (type checker, go/ssa, VTA, the frozen library summaries, well-behaved callbacks).",
      "interprocedural field/type-based ownership and effect analysis on SSA (label propagation to a fixpoint) + whole-package writer census + instruction census",
      "DESIGN.md 5/C07")

claim("C08", "proof",
      "The same effect engine, with the label 'reachable from Compile's *Config argument', proves that nothing reachable from Compile writes the caller's config or any package variable and that no container of the config is retained by the program, the parser or a closure; structural rules prove copyConfig copies every Config field element-wise into fresh containers (so CopyConfig/ExtendConf share nothing) and that the closure has no source of nondeterminism (map iteration only with order-independent bodies, no random/time/os callee, stable sort only).",
      "interprocedural taint/ownership analysis on SSA + SSA pattern rules on copyConfig/NewConfig + nondeterminism-source census",
      "DESIGN.md 5/C08")

for p in ["C01","C03","C04","C05","C06","C09","C10","C11","C12","C13","C14","C15","C16","C17","C19","C20"]:
    na(p, PENDING)

na("C02", "semantic equivalence of two programs over all inputs and 16 optimisation subsets is a run-time relation on values computed by folding and re-derived jump tables; no structural clause is a necessary condition on its own (its structural parts are decided under C08, C10, C16); an honest not-applicable for static analysis")
