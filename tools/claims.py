# Claim table (executed by gen_manifest.py). One entry per property.

PENDING = "not claimed in this revision: the static rules for it are designed (DESIGN.md section 5) but not yet built and validated both ways"

claim("C18", "other",
      "Decides the structural clauses of the scalar-operator algebra for every operand count and value, from the source: alias identity in the operator table, a dominating non-zero test before every integer division with an error on the zero edge, arity guards before every params[k], type mismatches reach only error returns, fold direction and operator-per-mode tables read from the implementations, safe interface equality. Does not decide numeric results (Go's int64 semantics).",
      "table extraction + SSA gate/dominance + forward must-dataflow on len(params) + canonical term recovery",
      "DESIGN.md 5/C18")

claim("C07", "proof",
      "A sound effect/ownership analysis over the whole evaluation closure (Eval, EvalBool, TryEval, TryEvalBool, Dump, DumpTable and every in-package function they can reach through static or VTA-resolved dynamic calls) proves that no instruction writes memory that outlives the call except by sending on Expr.EventChan, that no package variable read there is ever written after initialisation, and that the closure contains no goroutine/select/receive/sync use. Every execution of that code is covered by construction; what is trusted is listed in the evidence (type checker, go/ssa, VTA, the frozen library summaries, well-behaved callbacks).",
      "interprocedural field/type-based ownership and effect analysis on SSA (label propagation to a fixpoint) + whole-package writer census + instruction census",
      "DESIGN.md 5/C07")

claim("C08", "proof",
      "The same effect engine, with the label 'reachable from Compile's *Config argument', proves that nothing reachable from Compile writes the caller's config or any package variable and that no container of the config is retained by the program, the parser or a closure; structural rules prove copyConfig copies every Config field element-wise into fresh containers (so CopyConfig/ExtendConf share nothing) and that the closure has no source of nondeterminism (map iteration only with order-independent bodies, no random/time/os callee, stable sort only).",
      "interprocedural taint/ownership analysis on SSA + SSA pattern rules on copyConfig/NewConfig + nondeterminism-source census",
      "DESIGN.md 5/C08")

claim("C01", "other",
      "Decides the clause 'the error is the very one the fetcher or operator returned' completely (value-origin analysis of every error reaching a return of the evaluation entry points), plus structural necessary conditions of the semantics: errors are tested before values are used, name resolution order const > variable > undefined variable, node-kind invariants at every writer, every kind has a handler in every dispatch, flag bit groups disjoint, and/or polarity tables agree for every alias. Does not decide the value semantics of the stack machine (jump/stack tables are run-time data).",
      "SSA value-origin analysis + gate/dominance rules + writer census of node fields + table extraction",
      "DESIGN.md 5/C01")

claim("C03", "other",
      "Decides where the observable effects of evaluation can occur: census of every VariableFetcher.Get and operator call in Eval with the arm (node kind) that dominates it, the node it addresses relative to the single loop counter, exclusivity and at-most-counts per step, operand order into the fast operator, the gates of the cond jump and of the short-circuit jump, and the if/fi closures. Does not decide that the compile-time jump targets skip exactly the decided operands.",
      "call-site census on SSA with edge-dominance facts over node-kind tests + loop-shape recovery",
      "DESIGN.md 5/C03")

claim("C04", "other",
      "Decides the three gates a definite TryEval answer rests on: operators never see a DNE operand (the only operator application in TryEval's own code is behind contains(params, DNE) == false, plus the cond arm), shortcut polarity of the operator proxy, fetch only under Cached == true for the same keys; and that the polarity tables used by the climbing loop agree with the compiler's. Does not decide the upward propagation itself.",
      "call-site census + edge-dominance facts (with phi-&& expansion) + table extraction",
      "DESIGN.md 5/C04")

claim("C05", "other",
      "Decides the ordering and 'DNE is not an error' clauses: shortcuts are reached independently of DNE poisoning, the not-cached edge yields (DNE, nil), TryEvalBool maps DNE to ErrDNE before asserting bool, the fast-operator arm goes through both proxies. Does not decide Kleene completeness of the propagation.",
      "edge-dominance facts over the proxy functions + SSA shape rules",
      "DESIGN.md 5/C05")

claim("C10", "other",
      "Decides who may call an operator at compile time and under which gate (census of dynamic Operator calls in the compile closure, tied to isStatelessOp's answer), what isStatelessOp can approve, that the tree is rewritten only on success or by the gated and/or absorption, that only constant children are folded, and that optimizers have no failure channel. Does not decide that a folded value equals the run-time value.",
      "call-site census over the VTA compile closure + edge-dominance facts + loop-shape rules + table extraction",
      "DESIGN.md 5/C10")

claim("C16", "other",
      "Decides the structural core of every sentence: the reordering pass only stores cost and sorts children under isBoolOpNode of the same node (permutation only), the sort is stable, the comparator is strict less on cost of the sorted slice, the cost dataflow is monotone in configured costs (float +, math.Max, phi only) with per-name entries taking precedence, and the and/or predicates cover exactly the aliases of the table. Does not decide NaN costs or concrete numbers.",
      "effect analysis of the reordering closure + SSA dataflow over float operations + comparator shape + table extraction",
      "DESIGN.md 5/C16")

for p in ["C06","C09","C11","C12","C13","C14","C15","C17","C19","C20"]:
    na(p, PENDING)

na("C02", "semantic equivalence of two programs over all inputs and 16 optimisation subsets is a run-time relation on values computed by folding and re-derived jump tables; no structural clause is a necessary condition on its own (its structural parts are decided under C08, C10, C16); an honest not-applicable for static analysis")
