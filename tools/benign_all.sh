#!/bin/bash
# fast loop: run every property against scratch trees /tmp/bw/Bxx (refactoring applied), evidence to /tmp/bw/out
cd /verif
(cd checker && GOFLAGS=-mod=vendor GOPROXY=off GOSUMDB=off GOTOOLCHAIN=local CGO_ENABLED=0 go build -o ../bin/evalsa ./cmd/evalsa) || exit 2
tot=0
for b in ${BENIGN:-B01 B02 B03 B04 B05 B06 B07 B08 B09 B10 B11 B12}; do
  n=0; rules=""
  for p in C01 C02 C03 C04 C05 C06 C07 C08 C09 C10 C11 C12 C13 C14 C15 C16 C17 C18 C19 C20; do
    out=$(./bin/evalsa -prop $p -tier quick -repo /tmp/bw/$b -verif /tmp/bw/out 2>/dev/null); rc=$?
    if [ $rc -ne 0 ]; then n=$((n+1)); rules="$rules $(echo "$out" | grep -oE 'rule=[A-Z0-9-]+' | sort -u | tr '\n' ',' | sed 's/rule=//g')"; [ -n "${VERBOSE:-}" ] && echo "$out" | grep -E "^VIOLATION|NO VERDICT" | sed -e 's/replay=[^ ]* //' | cut -c1-${W:-300}; fi
  done
  echo "$b: $n properties alarm; rules: $(echo $rules | tr ' ,' '\n\n' | sort -u | tr '\n' ' ')"
  tot=$((tot+n))
done
echo "TOTAL property alarms: $tot"
