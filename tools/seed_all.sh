#!/bin/bash
# re-evaluates every seeded change against the current checks; writes seeded/<id>/eval.log
cd /verif
for d in seeded/C*/; do
  id=$(basename $d)
  SEED_NO_RESTORE=1 tools/seed_eval.sh $d > $d/eval.log 2>&1
  grep -E "^== confirmed" $d/eval.log | sed "s/^/$id /"
done
for p in C01 C02 C03 C04 C05 C06 C07 C08 C09 C10 C11 C12 C13 C14 C15 C16 C17 C18 C19 C20; do ./check.sh $p quick >/dev/null 2>&1 || echo "RESTORE FAILED $p"; done
python3 tools/seed_meta.py >/dev/null && python3 tools/seed_table.py >/dev/null
echo ALL-DONE
