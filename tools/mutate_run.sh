#!/bin/bash
# probes detection with mechanical mutants (checker/cmd/mutloop), one per site of the library's non-test source:
#   break K  : loop leaves after K iterations      skip K : loop skips iteration K+1
#   lit      : integer literal + 1                 errnil : `return …, err` returns nil     cmp : < <-> <=, > <-> >=
#   del      : assignment / call statement dropped  neg : if condition negated   andor : && <-> ||   eq : == <-> !=
#   arith    : + <-> -                              ctl : break <-> continue
# every mutant: scratch worktree, build, pinned suite (2 min timeout); mutants that survive the suite are run against
# all 20 quick checks. usage: EVALSA=<binary> tools/mutate_run.sh MODE [K]   (one line per mutant on stdout)
cd /verif
export GOFLAGS=-mod=mod GOPROXY=off GOSUMDB=off GOTOOLCHAIN=local; unset GOWORK
MODE=${1:-break}; K=${2:-2}
(cd checker && GOFLAGS=-mod=vendor go build -o /tmp/mutloop_bin ./cmd/mutloop) || exit 2
mkdir -p /tmp/mw; cp ${EVALSA:-bin/evalsa} /tmp/mw/evalsa_$MODE
one() {
  k=$1; MODE=$2; K=$3; wt=/tmp/mw/${MODE}_$k
  rm -rf $wt; git -C /repo worktree add -f --detach $wt HEAD -q 2>/dev/null
  id=$(/tmp/mutloop_bin -src $wt -mode $MODE -k $k -limit $K -dst $wt 2>/dev/null) || { echo "$k - - not-applicable"; git -C /repo worktree remove --force $wt; return; }
  if ! (cd $wt && go build ./... 2>/dev/null); then echo "$id BUILD-FAIL"; git -C /repo worktree remove --force $wt; return; fi
  if ! (cd $wt && go test -vet=off -count=1 -timeout 120s ./... >/dev/null 2>&1); then echo "$id killed-by-suite"; git -C /repo worktree remove --force $wt; return; fi
  mkdir -p /tmp/mw/o_${MODE}_$k/evidence /tmp/mw/o_${MODE}_$k/replay; cp /verif/KNOWN_FINDINGS.txt /tmp/mw/o_${MODE}_$k/
  alarms=""; rules=""
  for p in C01 C02 C03 C04 C05 C06 C07 C08 C09 C10 C11 C12 C13 C14 C15 C16 C17 C18 C19 C20; do
    out=$(/tmp/mw/evalsa_$MODE -prop $p -tier quick -repo $wt -verif /tmp/mw/o_${MODE}_$k 2>/dev/null) || { alarms="$alarms $p"; rules="$rules $(echo "$out" | grep -oE 'rule=[A-Z0-9-]+' | sort -u | tr '\n' ' ' | sed 's/rule=//g')"; }
  done
  echo "$id survives-suite alarms:${alarms:- NONE} rules: $(echo $rules | tr ' ' '\n' | sort -u | tr '\n' ' ')"
  rm -rf /tmp/mw/o_${MODE}_$k; git -C /repo worktree remove --force $wt >/dev/null 2>&1
}
export -f one
n=$(/tmp/mutloop_bin -src /repo -mode $MODE -list | wc -l)
seq 0 $((n-1)) | xargs -P ${PAR:-6} -I{} bash -c "one {} $MODE $K" | sort -n
