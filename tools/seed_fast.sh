#!/bin/bash
# regression loop: every seeded change applied in its own scratch worktree (/tmp/sw/<id>), checked with a snapshot
# of the analyser binary (does not touch /repo, safe while the checker sources are being edited)
cd /verif
mkdir -p /tmp/sw/out/evidence /tmp/sw/out/replay; cp KNOWN_FINDINGS.txt /tmp/sw/out/
cp ${EVALSA:-bin/evalsa} /tmp/sw/evalsa_snapshot
one() {
  id=$1
  if [ ! -d /tmp/sw/$id ]; then git -C /repo worktree add -f --detach /tmp/sw/$id HEAD -q 2>/dev/null && git -C /tmp/sw/$id apply /verif/seeded/$id/patch.diff || { echo "$id PATCH-FAIL"; return; }; fi
  own=$(python3 -c "import json;print(json.load(open('/verif/seeded/INFO.json'))['$id']['property'])")
  mkdir -p /tmp/sw/out_$id/evidence /tmp/sw/out_$id/replay; cp /verif/KNOWN_FINDINGS.txt /tmp/sw/out_$id/
  caught=""
  for p in C01 C02 C03 C04 C05 C06 C07 C08 C09 C10 C11 C12 C13 C14 C15 C16 C17 C18 C19 C20; do
    /tmp/sw/evalsa_snapshot -prop $p -tier quick -repo /tmp/sw/$id -verif /tmp/sw/out_$id >/dev/null 2>&1 || caught="$caught $p"
  done
  case " $caught " in *" $own "*) st=OWN;; *) if [ -n "$caught" ]; then st=OTHER; else st=MISSED; fi;; esac
  echo "$id $st caught by:$caught"
  rm -rf /tmp/sw/out_$id
}
export -f one
ls seeded | grep -v INFO | xargs -P 5 -I{} bash -c 'one {}' | sort
