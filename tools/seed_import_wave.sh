#!/bin/bash
# usage: EVALSA=<binary> tools/seed_import_wave.sh <wave letter>
# imports /tmp/seed/Cnn-<wave> for all 20 properties: the confirmations (demo fails with / passes without the change,
# pinned suite passes) run in parallel in scratch worktrees; applying each patch to /repo and running the registered
# checks against it is done one seed at a time.
cd /verif
W=$1
ids=""
for i in 01 02 03 04 05 06 07 08 09 10 11 12 13 14 15 16 17 18 19 20; do
  s=/tmp/seed/C$i-$W; d=seeded/C$i-$W
  [ -f $s/SEED_PATCH.diff ] && [ -f $s/seed_demo_test.go ] || { echo "C$i-$W: no seed"; continue; }
  mkdir -p $d; cp $s/SEED_PATCH.diff $d/patch.diff; cp $s/seed_demo_test.go $d/; cp $s/SEED_META.txt $d/agent_notes.txt 2>/dev/null
  ids="$ids C$i-$W"
done
printf "%s\n" $ids | xargs -P 5 -I{} bash -c 'SEED_PHASE=confirm /verif/tools/seed_eval.sh /verif/seeded/{} > /verif/seeded/{}/confirm.log 2>&1'
for id in $ids; do
  SEED_PHASE=apply SEED_NO_RESTORE=1 tools/seed_eval.sh seeded/$id > seeded/$id/eval.log 2>&1
  cp seeded/$id/eval.log seeded/$id/eval_first_run.log
  echo "$id $(grep -E '^== confirmed' seeded/$id/eval.log)"
done
echo ALLDONE
