#!/usr/bin/env python3
"""Writes seeded/<id>/meta.json from eval.log + the table below (what the change needs to manifest)."""
import json, os, re, sys
ROOT = os.path.dirname(os.path.dirname(os.path.abspath(__file__)))
INFO = json.load(open(os.path.join(ROOT, "seeded", "INFO.json")))
for sid, info in sorted(INFO.items()):
    d = os.path.join(ROOT, "seeded", sid)
    log = open(os.path.join(d, "eval.log")).read() if os.path.exists(os.path.join(d, "eval.log")) else ""
    m = re.search(r"== confirmed: clean=(\d+) mutant=(\d+) suite=(\d+) ; caught by:(.*)", log)
    caught = m.group(4).split() if m else []
    if caught == ["NONE"]:
        caught = []
    rules = sorted(set(re.findall(r"property=(C\d+) rule=([A-Z0-9-]+)", log)))
    meta = {
        "seed_id": sid,
        "property_broken": info["property"],
        "summary": info["summary"],
        "needs_to_manifest": info["needs"],
        "source": "independent sub-agent given only the property text and a scratch worktree (nothing from /verif)",
        "confirmed_by_me": {
            "how": "tools/seed_eval.sh seeded/%s: scratch worktree of /repo under /tmp; demo passes on the unchanged tree, fails with the patch; pinned suite passes with the patch; then patch applied to /repo, registered quick checks run, patch undone" % sid,
            "demo_on_unchanged_tree_exit": int(m.group(1)) if m else None,
            "demo_with_change_exit": int(m.group(2)) if m else None,
            "pinned_suite_with_change_exit": int(m.group(3)) if m else None,
        },
        "caught_by_checks": caught,
        "rules_that_fired": ["%s %s" % (p, r) for p, r in rules],
        "first_run": info.get("first_run", "caught"),
        "strengthening": info.get("strengthening", ""),
        "note": info.get("note", ""),
    }
    json.dump(meta, open(os.path.join(d, "meta.json"), "w"), indent=1)
    print(sid, info["property"], "caught by", caught or "NONE", "|", info.get("first_run", "caught"))
