#!/bin/bash
# usage: tools/seed_import.sh <agent worktree> <seed id>   (copies patch + demo into /verif/seeded/<id>/ and evaluates it)
set -u
WT=$1; ID=$2
D=/verif/seeded/$ID
mkdir -p $D
cp $WT/SEED_PATCH.diff $D/patch.diff || exit 2
cp $WT/seed_demo_test.go $D/seed_demo_test.go || exit 2
cp $WT/SEED_META.txt $D/agent_notes.txt 2>/dev/null
/verif/tools/seed_eval.sh $D 2>&1 | tee $D/eval.log | grep -E "^demo|^pinned|^VIOLATION|^== confirmed|does not|NO VERDICT"
