package main

// C04 / C05 — TryEval: the proxy layer (operator proxy, variable proxy,
// TryEvalBool) and the polarity tables shared with the compiler.

import (
	"fmt"
	"go/token"
	"go/types"
	"sort"
	"strings"

	"golang.org/x/tools/go/ssa"
)

func init() {
	register(&Property{
		ID:    "C04",
		Level: "other",
		Explanation: "Soundness of a definite TryEval answer rests on three gates that are visible in the code, and these are decided: (R-PROXYGATE) in TryEval's own code (its static-call closure) every dynamic Operator call other than the cond arm's is the one inside executeOperatorProxy, and that call executes only on the false edge of contains(params, DNE): an operator never sees an unavailable operand (otherwise `(= x 1)` with x unavailable would answer a definite false); the operator's result and error are returned unchanged; " +
			"(R-SHORTCUT) executeOperatorProxy returns constant false only under isAndOpNode(n) && contains(params,false), constant true only under isOrOpNode(n) && contains(params,true), DNE only under contains(params,DNE); (R-CACHEDGATE) every VariableFetcher.Get in that closure executes only on the true edge of Cached on the same fetcher with the same (varKey,strKey) of one node, and the other edge returns (DNE, nil); " +
			"(R-PAIR) the polarity tables agree: matchesShortCircuit (andOp: res==false, orOp: res==true, else res==DNE), calAndSetShortCircuitForRCO (and-parent: andOp, or-parent: orOp), calAndSetShortCircuit (and-parent: scIfFalse, or-parent: scIfTrue), and the flag bit groups are disjoint (R-BITS). (R-STEPRES / R-STEPARGS on TryEval) per arm the pushed value is exactly the node literal / fetchVariableValueProxy(ctx, curt)#0 / executeOperatorProxy(ctx, curt, operands)#0 applied in that arm; the operand vector is built exactly as in Eval (sibling agreement); fast-arm slot k is getNodeValueProxy(ctx, nodes[i+1+k])#0 and nothing else. (R-CACHEDGET) for every fetcher of the package, Cached == true excludes every error condition of Get: a variable reported as available can be fetched. (R-TRYSCMUST) a step result is pushed only over an edge on which matchesShortCircuit(result, node) was false — the exit of the climbing loop or the escape out of an if-condition — so a propagating result always climbs: otherwise `(and false (/ 1 0))` fails in TryEval and is false in Eval, and an unavailable if-condition reaches the if/fi closure. NOT decided: how far the climbing loop goes (parentNode/stack reset), i.e. that a decided value is attributed to the right ancestor. (R-CONTAINS) contains(list, x), which the proxy decides with, is true only under list[i] == x and false only after the whole list.",
		Run:       runC04,
		Witnesses: c04Witnesses,
	})
	register(&Property{
		ID:    "C05",
		Level: "other",
		Explanation: "Decides the ordering and 'DNE is not an error' clauses: (R-PROXYORDER) in executeOperatorProxy the two shortcut returns are reached under exactly their own two conditions (and-node with a false operand / or-node with a true operand) and nothing else — in particular not under 'no operand is DNE' — so an `and` with any available false operand is false wherever the unavailable operands sit; " +
			"(R-DNE-NOT-ERR) the not-cached edge of the variable proxy returns the DNE marker with a nil error; (R-DNEBOOL) TryEvalBool maps res == DNE to ErrDNE before it asserts bool; (R-FASTPROXY) the fast-operator arm of TryEval obtains both operands through the value proxy (constant: the literal; variable: the cached-gated fetch) and applies the operator proxy; (R-PAIR/R-BITS) as in C04. " +
			"(R-STEPRES / R-STEPARGS on TryEval) per arm the pushed value is exactly the node literal / fetchVariableValueProxy(ctx, curt)#0 / executeOperatorProxy(ctx, curt, operands)#0 applied in that arm; the operand vector is built exactly as in Eval (sibling agreement); fast-arm slot k is getNodeValueProxy(ctx, nodes[i+1+k])#0 and nothing else. " +
			"(R-CACHEDGET) for every fetcher of the package, Cached == true excludes every error condition of Get. NOT decided: that every Kleene-definite expression yields a definite answer (propagation through nested shapes, deciding operands after unavailable ones).",
		Run:       runC05,
		Witnesses: c05Witnesses,
	})
}

// tryEvalStaticClosure: TryEval's own code (static calls only).
func staticClosure(w *World, entry *ssa.Function) map[*ssa.Function]bool {
	seen := map[*ssa.Function]bool{}
	var visit func(fn *ssa.Function)
	visit = func(fn *ssa.Function) {
		if fn == nil || !w.InPkg(fn) || seen[fn] {
			return
		}
		seen[fn] = true
		EachInstr(fn, func(in ssa.Instruction) {
			if ci, ok := in.(ssa.CallInstruction); ok {
				if callee := ci.Common().StaticCallee(); callee != nil {
					visit(callee)
				}
			}
		})
	}
	visit(entry)
	return seen
}

// proxyAtom classifies a branch condition of the operator proxy / generator.
//
//	"and" / "or"          isAndOpNode(n) / isOrOpNode(n)   (or op == "and" / "or")
//	"has:false|true|DNE"  contains(params, X)
func proxyAtom(v ssa.Value) string {
	if c, callee := staticCallee(v); c != nil && callee != nil {
		switch nm(callee) {
		case "isAndOpNode":
			return "and"
		case "isOrOpNode":
			return "or"
		case "contains":
			if len(c.Call.Args) == 2 {
				return "has:" + markerName(c.Call.Args[1])
			}
		}
	}
	if bo, ok := v.(*ssa.BinOp); ok && bo.Op == token.EQL {
		if s, ok := constString(bo.Y); ok && (s == "and" || s == "or") {
			return s
		}
		if s, ok := constString(bo.X); ok && (s == "and" || s == "or") {
			return s
		}
	}
	return ""
}

// markerName names the boxed constant false/true or the DNE marker.
func markerName(v ssa.Value) string {
	x := unwrapIface(v)
	if b, ok := constBool(x); ok {
		if b {
			return "true"
		}
		return "false"
	}
	if a, ok := isLoad(x); ok {
		if g, ok := a.(*ssa.Global); ok {
			return g.Name()
		}
	}
	return "?" + describe(v)
}

// proxyFacts renders the proxy-relevant branch facts at a block as a sorted list like "and=T has:false=T".
func proxyFacts(b *ssa.BasicBlock) []string {
	set := map[string]bool{}
	for _, f := range factsAt(b) {
		if a := proxyAtom(f.Cond); a != "" {
			t := "F"
			if f.Truth {
				t = "T"
			}
			set[a+"="+t] = true
		}
	}
	var out []string
	for k := range set {
		out = append(out, k)
	}
	sort.Strings(out)
	return out
}

func hasAll(facts []string, want ...string) bool {
	m := map[string]bool{}
	for _, f := range facts {
		m[f] = true
	}
	for _, w := range want {
		if !m[w] {
			return false
		}
	}
	return true
}

// proxyReturnKind classifies what a return of the proxy yields.
func proxyReturnKind(ret *ssa.Return) string {
	if len(ret.Results) < 1 {
		return "?"
	}
	v := ret.Results[0]
	m := markerName(v)
	if m == "true" || m == "false" || m == "DNE" {
		return m
	}
	if ex, ok := v.(*ssa.Extract); ok && ex.Index == 0 {
		if c, ok := ex.Tuple.(*ssa.Call); ok && isDynamicCall(&c.Call) {
			return "operator"
		}
	}
	return "?" + describe(v)
}

func ruleProxyTable(w *World, r *Report, wantShortcut, wantOrder, wantGate bool) {
	fn := w.MustFn(r, "R-SHORTCUT", "executeOperatorProxy")
	if fn == nil {
		return
	}
	name := w.Name(fn)
	if wantShortcut {
		r.Rule("R-SHORTCUT", "the operator proxy returns false only for an and-node with a false operand, true only for an or-node with a true operand, DNE only when an operand is DNE", 3)
	}
	if wantOrder {
		r.Rule("R-PROXYORDER", "the shortcut returns are reached under exactly their own two conditions: shortcuts are tested before (and independently of) DNE poisoning", 2)
	}
	if wantGate {
		r.Rule("R-PROXYGATE", "an operator is applied only when no operand is DNE, and its result and error are returned unchanged", 2)
	}
	seen := map[string]int{}
	for _, ret := range allReturns(fn) {
		kind := proxyReturnKind(ret)
		facts := proxyFacts(ret.Block())
		pos := w.InstrPos(ret)
		what := fmt.Sprintf("return %s under [%s]", kind, strings.Join(facts, " "))
		seen[kind]++
		errNil := len(ret.Results) == 2 && isNilConst(ret.Results[1])
		switch kind {
		case "false":
			if wantShortcut {
				r.Check(hasAll(facts, "and=T", "has:false=T") && errNil, "R-SHORTCUT", pos, name, what, "definite false only for an and-node that has a false operand", "a definite false is returned without (and-node && false operand)")
			}
			if wantOrder {
				ok := hasAll(facts, "and=T", "has:false=T")
				for _, f := range facts {
					if strings.HasPrefix(f, "has:") && f != "has:false=T" {
						ok = false
					}
				}
				r.Check(ok, "R-PROXYORDER", pos, name, what, "reached under {and-node, false operand} and no other condition on the operands", "the and-shortcut depends on further operand conditions (e.g. tested after DNE poisoning): `(and DNE false)` would not be false")
			}
		case "true":
			if wantShortcut {
				r.Check(hasAll(facts, "or=T", "has:true=T") && errNil, "R-SHORTCUT", pos, name, what, "definite true only for an or-node that has a true operand", "a definite true is returned without (or-node && true operand)")
			}
			if wantOrder {
				ok := hasAll(facts, "or=T", "has:true=T")
				for _, f := range facts {
					if strings.HasPrefix(f, "has:") && f != "has:true=T" {
						ok = false
					}
				}
				r.Check(ok, "R-PROXYORDER", pos, name, what, "reached independently of whether an operand is DNE", "the or-shortcut is tested after DNE poisoning: `(or DNE true)` would not be true")
			}
		case "DNE":
			if wantShortcut {
				r.Check(hasAll(facts, "has:DNE=T") && errNil, "R-SHORTCUT", pos, name, what, "DNE only when an operand is DNE", "DNE is returned although no operand is DNE")
			}
		case "operator":
			if wantGate {
				good := hasAll(facts, "has:DNE=F")
				// error passed through unchanged
				if len(ret.Results) == 2 {
					ex0, _ := ret.Results[0].(*ssa.Extract)
					ex1, ok1 := ret.Results[1].(*ssa.Extract)
					if !(ok1 && ex0 != nil && ex1.Tuple == ex0.Tuple && ex1.Index == 1) {
						good = false
					}
				}
				r.Check(good, "R-PROXYGATE", pos, name, what, "the operator runs only on the false edge of contains(params, DNE); its (value, error) pair is returned as is", "an operator can be applied to a DNE operand (it would answer a definite value or a type error), or its results are altered")
			}
		default:
			if wantShortcut {
				r.Fail("R-SHORTCUT", pos, name, what, "unexpected kind of value returned by the operator proxy")
			}
		}
	}
	if wantShortcut {
		for _, k := range []string{"false", "true", "DNE"} {
			if seen[k] == 0 {
				r.Unresolved("R-SHORTCUT", "the operator proxy has no `return "+k+"` shortcut")
			}
		}
	}
	if wantGate {
		// the operator called is the node's own
		EachInstr(fn, func(in ssa.Instruction) {
			c, ok := in.(*ssa.Call)
			if !ok || !isOperatorCall(w, &c.Call) {
				return
			}
			base, okf := loadOfField(c.Call.Value, "node", "operator")
			okArgs := len(fn.Params) == 3 && len(c.Call.Args) == 2 && c.Call.Args[0] == ssa.Value(fn.Params[0]) && c.Call.Args[1] == ssa.Value(fn.Params[2])
			r.Check(okf && base == ssa.Value(fn.Params[1]) && okArgs, "R-PROXYGATE", w.InstrPos(c), name, describe(c), "the node's own operator, applied to the proxy's own (ctx, params)", "the proxy applies a different function or different arguments")
		})
		if seen["operator"] == 0 {
			r.Unresolved("R-PROXYGATE", "the operator proxy never applies the operator")
		}
	}
}

// ruleProxyCensus: operator calls and fetches in TryEval's own code.
func ruleProxyCensus(w *World, r *Report) {
	const rule = "R-PROXYGATE"
	te := w.MustFn(r, rule, "(*Expr).TryEval")
	proxy := w.Fn("executeOperatorProxy")
	if te == nil {
		return
	}
	k := loadNodeKinds(w)
	set := staticClosure(w, te)
	r.Extra["closure_TRYEVAL_static"] = w.SortedNames(set)
	for _, fn := range w.SortedFuncs(set) {
		EachInstr(fn, func(in ssa.Instruction) {
			c, ok := in.(*ssa.Call)
			if !ok || !isOperatorCall(w, &c.Call) {
				return
			}
			pos := w.InstrPos(c)
			if fn == proxy {
				return // checked by the proxy table
			}
			if fn == te {
				// only the cond arm may call the node's operator directly
				base, okf := loadOfField(c.Call.Value, "node", "operator")
				condArm := false
				if okf {
					poss := k.kindsPossibleAt(c.Block(), func(n ssa.Value) bool { return n == base || sameValueShape(n, base) })
					condArm = poss != nil && len(poss) == 1 && poss[k.cond]
				}
				r.Check(condArm, rule, pos, w.Name(fn), describe(c), "the cond arm applies the if/fi closure to the condition value (kind == cond)", "TryEval applies an operator directly, bypassing the DNE gate of the operator proxy")
				return
			}
			r.Fail(rule, pos, w.Name(fn), describe(c), "an operator is applied outside executeOperatorProxy in TryEval's code: the DNE gate is bypassed")
		})
	}
}

func ruleCachedGate(w *World, r *Report) {
	const rule = "R-CACHEDGATE"
	r.Rule(rule, "every VariableFetcher.Get in TryEval's own code executes only on the true edge of Cached on the same fetcher with the same (varKey, strKey) of one node; the other edge returns (DNE, nil)", 1)
	te := w.MustFn(r, rule, "(*Expr).TryEval")
	if te == nil {
		return
	}
	set := staticClosure(w, te)
	for _, fn := range w.SortedFuncs(set) {
		EachInstr(fn, func(in ssa.Instruction) {
			c, ok := in.(*ssa.Call)
			if !ok || !c.Call.IsInvoke() || nm(c.Call.Method) != "Get" || typeNameOf(c.Call.Value.Type()) != "VariableFetcher" {
				return
			}
			pos := w.InstrPos(c)
			gated := false
			var gateIf *ssa.If
			for _, f := range factsAt(c.Block()) {
				cc, ok := f.Cond.(*ssa.Call)
				if !ok || !f.Truth || !cc.Call.IsInvoke() || nm(cc.Call.Method) != "Cached" {
					continue
				}
				if !(cc.Call.Value == c.Call.Value || sameValueShape(cc.Call.Value, c.Call.Value)) {
					continue
				}
				if len(cc.Call.Args) == 2 && len(c.Call.Args) == 2 &&
					(cc.Call.Args[0] == c.Call.Args[0] || sameValueShape(cc.Call.Args[0], c.Call.Args[0])) &&
					(cc.Call.Args[1] == c.Call.Args[1] || sameValueShape(cc.Call.Args[1], c.Call.Args[1])) {
					gated = true
					gateIf = f.If
				}
			}
			// both keys come from the same node
			sameNode := false
			if len(c.Call.Args) == 2 {
				n1, ok1 := loadOfField(c.Call.Args[0], "node", "varKey")
				var n2 ssa.Value
				ok2 := false
				if ta, ok := c.Call.Args[1].(*ssa.TypeAssert); ok {
					n2, ok2 = loadOfField(ta.X, "node", "value")
				}
				sameNode = ok1 && ok2 && n1 == n2
			}
			r.Check(gated && sameNode, rule, pos, w.Name(fn), describe(c), "dominated by Cached(varKey, strKey) == true on the same fetcher; both keys are fields of one node", "a variable is fetched without the fetcher having said it is available (or with keys of different nodes)")
			if gateIf != nil {
				// the not-cached edge returns (DNE, nil)
				nb := gateIf.Block().Succs[1]
				if c0, truth := stripNot(gateIf.Cond, true); !truth {
					_ = c0
					nb = gateIf.Block().Succs[0]
				}
				ret := blockReturn(nb)
				good := ret != nil && len(ret.Results) == 2 && markerName(ret.Results[0]) == "DNE" && isNilConst(ret.Results[1])
				r.Check(good, "R-DNE-NOT-ERR", w.InstrPos(gateIf), w.Name(fn), "not-cached edge of the variable proxy", "returns (DNE, nil)", "an unavailable variable is not reported as (DNE, nil)")
			}
		})
	}
}

// ---- R-PAIR / R-BITS ----------------------------------------------------------

func ruleBits(w *World, r *Report) {
	const rule = "R-BITS"
	r.Rule(rule, "node flag constants: six distinct kinds inside nodeTypeMask; scIfFalse|scIfTrue == scMask; andOp|orOp == parentOpMask; the three masks are pairwise disjoint", 4)
	get := func(n string) (int64, bool) { return w.ConstInt(n) }
	names := []string{"nodeTypeMask", "constant", "variable", "operator", "fastOperator", "cond", "event", "scMask", "scIfFalse", "scIfTrue", "parentOpMask", "andOp", "orOp"}
	v := map[string]int64{}
	for _, n := range names {
		x, ok := get(n)
		if !ok {
			r.Unresolved(rule, "constant "+n+" not found")
			return
		}
		v[n] = x
	}
	pos := "-"
	if c := w.ConstObj("nodeTypeMask"); c != nil {
		pos = w.Pos(c.Pos())
	}
	kinds := []string{"constant", "variable", "operator", "fastOperator", "cond", "event"}
	distinct := true
	seen := map[int64]string{}
	for _, kn := range kinds {
		if prev, dup := seen[v[kn]]; dup {
			distinct = false
			_ = prev
		}
		seen[v[kn]] = kn
		if v[kn]&^v["nodeTypeMask"] != 0 || v[kn] == 0 {
			distinct = false
		}
	}
	r.Check(distinct, rule, pos, "const", "kinds constant, variable, operator, fastOperator, cond, event", "six distinct non-zero values inside nodeTypeMask", "two kinds coincide, or a kind has bits outside nodeTypeMask: dispatch on the kind is ambiguous")
	r.Check(v["scIfFalse"]|v["scIfTrue"] == v["scMask"] && v["scIfFalse"]&v["scIfTrue"] == 0 && v["scIfFalse"] != 0 && v["scIfTrue"] != 0, rule, pos, "const", "scIfFalse | scIfTrue == scMask", "two distinct bits forming the mask", "short-circuit bits do not partition scMask")
	r.Check(v["andOp"]|v["orOp"] == v["parentOpMask"] && v["andOp"]&v["orOp"] == 0 && v["andOp"] != 0 && v["orOp"] != 0, rule, pos, "const", "andOp | orOp == parentOpMask", "two distinct bits forming the mask", "parent-operator bits do not partition parentOpMask")
	disjoint := v["nodeTypeMask"]&v["scMask"] == 0 && v["nodeTypeMask"]&v["parentOpMask"] == 0 && v["scMask"]&v["parentOpMask"] == 0 &&
		(v["nodeTypeMask"]|v["scMask"]|v["parentOpMask"]) <= 0xFF
	r.Check(disjoint, rule, pos, "const", "nodeTypeMask, scMask, parentOpMask", "pairwise disjoint and within the uint8 flag", "flag bit groups overlap: setting a short-circuit bit would change the node kind")
}

// flagMaskTest matches `n.flag & MASK == K` and returns (MASK, K).
func flagMaskTest(v ssa.Value) (mask, k int64, eq bool, ok bool) {
	bo, isBO := v.(*ssa.BinOp)
	if !isBO || (bo.Op != token.EQL && bo.Op != token.NEQ) {
		return 0, 0, false, false
	}
	x, y := bo.X, bo.Y
	if _, isC := x.(*ssa.Const); isC {
		x, y = y, x
	}
	kc, okc := constInt(y)
	and, isAnd := x.(*ssa.BinOp)
	if !okc || !isAnd || and.Op != token.AND {
		return 0, 0, false, false
	}
	ax, ay := and.X, and.Y
	if _, isC := ax.(*ssa.Const); isC {
		ax, ay = ay, ax
	}
	m, okm := constInt(ay)
	if !okm {
		return 0, 0, false, false
	}
	if _, okf := loadOfField(ax, "node", "flag"); !okf {
		return 0, 0, false, false
	}
	return m, kc, bo.Op == token.EQL, true
}

func rulePair(w *World, r *Report) {
	const rule = "R-PAIR"
	r.Rule(rule, "the places that pair a boolean operator with a polarity agree: matchesShortCircuit, calAndSetShortCircuitForRCO, calAndSetShortCircuit", 7)
	andOp, _ := w.ConstInt("andOp")
	orOp, _ := w.ConstInt("orOp")
	pmask, _ := w.ConstInt("parentOpMask")
	scF, _ := w.ConstInt("scIfFalse")
	scT, _ := w.ConstInt("scIfTrue")

	// matchesShortCircuit
	if fn := w.MustFn(r, rule, "matchesShortCircuit"); fn != nil && len(fn.Params) == 2 {
		res := fn.Params[0]
		got := map[string]string{}
		for _, ret := range allReturns(fn) {
			bo, ok := ret.Results[0].(*ssa.BinOp)
			what := "?"
			if ok && bo.Op == token.EQL && (bo.X == ssa.Value(res) || bo.Y == ssa.Value(res)) {
				other := bo.Y
				if bo.Y == ssa.Value(res) {
					other = bo.X
				}
				what = "res==" + markerName(other)
			}
			// which case
			cs := "default"
			for _, f := range factsAt(ret.Block()) {
				if m, k, eq, ok := flagMaskTest(f.Cond); ok && m == pmask && eq == f.Truth {
					switch k {
					case andOp:
						cs = "andOp"
					case orOp:
						cs = "orOp"
					default:
						cs = fmt.Sprint("?", k)
					}
				}
			}
			if cs == "default" {
				// must have excluded both
				ex := 0
				for _, f := range factsAt(ret.Block()) {
					if m, k, eq, ok := flagMaskTest(f.Cond); ok && m == pmask && eq != f.Truth && (k == andOp || k == orOp) {
						ex++
					}
				}
				if ex < 2 {
					cs = "default(incomplete)"
				}
			}
			got[cs] = what
		}
		want := map[string]string{"andOp": "res==false", "orOp": "res==true", "default": "res==DNE"}
		for _, cs := range []string{"andOp", "orOp", "default"} {
			r.Check(got[cs] == want[cs], rule, w.Pos(fn.Pos()), "matchesShortCircuit", fmt.Sprintf("case %s returns %s", cs, got[cs]), "as the three-valued logic requires ("+want[cs]+")", "want "+want[cs]+": a child of an and-node propagates upward exactly when it is false, of an or-node when true, otherwise when DNE")
		}
	}

	// calAndSetShortCircuitForRCO and calAndSetShortCircuit: flag |= X under isAndOpNode(p)/isOrOpNode(p)
	type site struct {
		fn   string
		and  int64
		or   int64
		what string
	}
	for _, s := range []site{{"calAndSetShortCircuitForRCO", andOp, orOp, "parent-operator bit"}, {"calAndSetShortCircuit", scF, scT, "short-circuit polarity bit"}} {
		fn := w.MustFn(r, rule, s.fn)
		if fn == nil {
			continue
		}
		gotAnd, gotOr := map[int64]bool{}, map[int64]bool{}
		// isBoolOpNode(p) == isAndOpNode(p) || isOrOpNode(p) (R-PAIRBOOL): under it, "not and" means "or"
		boolAtoms := func(fs []Fact) []string {
			var out []string
			for _, f := range fs {
				if c, callee := staticCallee(f.Cond); c != nil && callee != nil && nm(callee) == "isBoolOpNode" && f.Truth {
					out = append(out, "bool=T")
				}
			}
			return out
		}
		isAnd := func(facts []string) bool { return hasAll(facts, "and=T") || hasAll(facts, "bool=T", "or=F") }
		isOr := func(facts []string) bool { return hasAll(facts, "or=T") || hasAll(facts, "bool=T", "and=F") }
		EachInstr(fn, func(in ssa.Instruction) {
			bo, ok := in.(*ssa.BinOp)
			if !ok || bo.Op != token.OR {
				return
			}
			c, okc := constInt(bo.Y)
			if !okc {
				return
			}
			facts := append(proxyFacts(bo.Block()), boolAtoms(factsAt(bo.Block()))...)
			if isAnd(facts) {
				gotAnd[c] = true
			}
			if isOr(facts) {
				gotOr[c] = true
			}
		})
		// the same with a plain assignment (flag = X): the constant arrives at a join from the and / or branch
		EachInstr(fn, func(in ssa.Instruction) {
			p, ok := in.(*ssa.Phi)
			if !ok || !isIntegerType(p.Type()) {
				return
			}
			for i, e := range p.Edges {
				c, okc := constInt(e)
				if !okc || c == 0 {
					continue
				}
				pred := p.Block().Preds[i]
				facts := append(proxyFacts(pred), boolAtoms(factsAt(pred))...)
				for _, f := range factsAtEdgeTo(pred, p.Block()) {
					if a := proxyAtom(f.Cond); a != "" {
						if f.Truth {
							facts = append(facts, a+"=T")
						} else {
							facts = append(facts, a+"=F")
						}
					}
				}
				if isAnd(facts) {
					gotAnd[c] = true
				}
				if isOr(facts) {
					gotOr[c] = true
				}
			}
		})
		r.Check(len(gotAnd) == 1 && gotAnd[s.and], rule, w.Pos(fn.Pos()), s.fn, fmt.Sprintf("under isAndOpNode(parent): flag |= %v", keysInt(gotAnd)), s.what+" of an and-parent", fmt.Sprintf("want |= %d under isAndOpNode(parent)", s.and))
		r.Check(len(gotOr) == 1 && gotOr[s.or], rule, w.Pos(fn.Pos()), s.fn, fmt.Sprintf("under isOrOpNode(parent): flag |= %v", keysInt(gotOr)), s.what+" of an or-parent", fmt.Sprintf("want |= %d under isOrOpNode(parent)", s.or))
	}
}

func keysInt(m map[int64]bool) []int64 {
	var out []int64
	for k := range m {
		out = append(out, k)
	}
	sort.Slice(out, func(i, j int) bool { return out[i] < out[j] })
	return out
}

func runC04(w *World, r *Report) {
	ruleNodeFresh(w, r)
	ruleProxyTable(w, r, true, false, true)
	ruleProxyCensus(w, r)
	ruleCachedGate(w, r)
	rulePair(w, r)
	ruleBits(w, r)
	rulePairBool(w, r)
	ruleStepArgs(w, r, ruleStepRes(w, r, "(*Expr).TryEval"))
	ruleCachedGet(w, r)
	ruleFastProxy(w, r)
	ruleContains(w, r)
	ruleTryScMust(w, r)
}

// ---- C05 ----------------------------------------------------------------------

func runC05(w *World, r *Report) {
	ruleNodeFresh(w, r)
	ruleContains(w, r)
	r.Rule("R-DNE-NOT-ERR", "the not-cached edge of the variable proxy returns the DNE marker with a nil error", 1)
	ruleProxyTable(w, r, false, true, false)
	ruleCachedGate(w, r)
	ruleDneBool(w, r)
	ruleFastProxy(w, r)
	rulePair(w, r)
	ruleBits(w, r)
	rulePairBool(w, r)
	ruleStepArgs(w, r, ruleStepRes(w, r, "(*Expr).TryEval"))
	ruleCachedGet(w, r)
	ruleTryScMust(w, r)
}

func ruleDneBool(w *World, r *Report) {
	const rule = "R-DNEBOOL"
	r.Rule(rule, "TryEvalBool returns ErrDNE exactly under res == DNE and asserts bool only on the other edge; TryEval's error passes through", 3)
	fn := w.MustFn(r, rule, "(*Expr).TryEvalBool")
	if fn == nil {
		return
	}
	name := w.Name(fn)
	var res ssa.Value
	EachInstr(fn, func(in ssa.Instruction) {
		if c, ok := in.(*ssa.Call); ok {
			if callee := c.Call.StaticCallee(); callee != nil && nm(callee) == "TryEval" {
				for _, ref := range referrers(c) {
					if ex, ok := ref.(*ssa.Extract); ok && ex.Index == 0 {
						res = ex
					}
				}
			}
		}
	})
	if res == nil {
		r.Unresolved(rule, "TryEvalBool does not call TryEval")
		return
	}
	isDneTest := func(f Fact) (bool, bool) {
		bo, ok := f.Cond.(*ssa.BinOp)
		if !ok || (bo.Op != token.EQL && bo.Op != token.NEQ) {
			return false, false
		}
		other := bo.Y
		if bo.Y == res {
			other = bo.X
		} else if bo.X != res {
			return false, false
		}
		if markerName(other) != "DNE" {
			return false, false
		}
		return true, (bo.Op == token.EQL) == f.Truth
	}
	errDneRet := 0
	for _, ret := range allReturns(fn) {
		if a, ok := isLoad(ret.Results[1]); ok {
			if g, ok := a.(*ssa.Global); ok && nm(g) == "ErrDNE" {
				errDneRet++
				under := false
				for _, f := range factsAt(ret.Block()) {
					if is, eq := isDneTest(f); is && eq {
						under = true
					}
				}
				r.Check(under, rule, w.InstrPos(ret), name, "return false, ErrDNE", "only under res == DNE", "ErrDNE is returned without res == DNE")
			}
		}
	}
	if errDneRet == 0 {
		r.Fail(rule, w.Pos(fn.Pos()), name, "ErrDNE mapping", "TryEvalBool never returns ErrDNE: an undecided result surfaces as a type error or a default value")
	}
	EachInstr(fn, func(in ssa.Instruction) {
		ta, ok := in.(*ssa.TypeAssert)
		if !ok || ta.X != res {
			return
		}
		after := false
		for _, f := range factsAt(ta.Block()) {
			if is, eq := isDneTest(f); is && !eq {
				after = true
			}
		}
		r.Check(after, rule, w.InstrPos(ta), name, describe(ta), "the bool assertion runs only when res != DNE", "the bool assertion precedes the DNE test: an undecided result is reported as 'invalid result type'")
	})
	// no value return with nil error unless the assertion succeeded
	for _, ret := range allReturns(fn) {
		if !isNilConst(ret.Results[1]) {
			continue
		}
		good := false
		if ex, ok := ret.Results[0].(*ssa.Extract); ok && ex.Index == 0 {
			if ta, ok := ex.Tuple.(*ssa.TypeAssert); ok && ta.X == res {
				for _, f := range factsAt(ret.Block()) {
					if e1, ok := f.Cond.(*ssa.Extract); ok && e1.Tuple == ex.Tuple && e1.Index == 1 && f.Truth {
						good = true
					}
				}
			}
		}
		r.Check(good, rule, w.InstrPos(ret), name, "return "+describe(ret.Results[0])+", nil", "the asserted bool of TryEval's result, under ok", "a value is returned that is not the successfully asserted result (a default for DNE)")
	}
}

// ruleFastProxy: the fast arm of TryEval goes through the proxies.
func ruleFastProxy(w *World, r *Report) {
	const rule = "R-FASTPROXY"
	r.Rule(rule, "in TryEval's fast-operator arm both operands come from getNodeValueProxy(nodes[i+1]) / (nodes[i+2]) and the operator is applied by executeOperatorProxy; getNodeValueProxy yields the literal for constants and the gated fetch otherwise", 4)
	te := w.MustFn(r, rule, "(*Expr).TryEval")
	gp := w.MustFn(r, rule, "getNodeValueProxy")
	fp := w.MustFn(r, rule, "fetchVariableValueProxy")
	if te == nil || gp == nil || fp == nil {
		return
	}
	k := loadNodeKinds(w)
	var offsets []int64
	EachInstr(te, func(in ssa.Instruction) {
		c, ok := in.(*ssa.Call)
		if !ok || c.Call.StaticCallee() != gp || len(c.Call.Args) != 2 {
			return
		}
		addr, ok := isLoad(c.Call.Args[1])
		if !ok {
			return
		}
		ia, ok := addr.(*ssa.IndexAddr)
		if !ok {
			return
		}
		off := int64(-1)
		if bo, ok := ia.Index.(*ssa.BinOp); ok && bo.Op == token.ADD {
			if c, ok := constInt(bo.Y); ok {
				if _, isPhi := bo.X.(*ssa.Phi); isPhi {
					off = c
				}
			}
		}
		offsets = append(offsets, off)
	})
	sort.Slice(offsets, func(i, j int) bool { return offsets[i] < offsets[j] })
	r.Check(len(offsets) == 2 && offsets[0] == 1 && offsets[1] == 2, rule, w.Pos(te.Pos()), w.Name(te), fmt.Sprintf("getNodeValueProxy applied to nodes[i+k], k = %v", offsets), "the two inlined leaf operands, in order", "the fast arm does not take its operands from nodes[i+1] and nodes[i+2] through the value proxy")
	// getNodeValueProxy
	name := w.Name(gp)
	n := gp.Params[1]
	sawConst, sawFetch := false, false
	for _, ret := range allReturns(gp) {
		// named results: the returned value is a phi of the two arms
		vals := []ssa.Value{ret.Results[0]}
		if p, ok := ret.Results[0].(*ssa.Phi); ok {
			vals = p.Edges
		}
		for i, v := range vals {
			blk := ret.Block()
			if p, ok := ret.Results[0].(*ssa.Phi); ok {
				blk = p.Block().Preds[i]
			}
			poss := k.kindsPossibleAt(blk, func(x ssa.Value) bool { return x == ssa.Value(n) })
			if base, ok := loadOfField(v, "node", "value"); ok && base == ssa.Value(n) {
				sawConst = true
				// the proxy is only applied to the two children of a fast operator, which are
				// leaves (constant or variable) by R-KIND: only those two kinds need separating
				leafOnly := poss != nil && poss[k.constant] && !poss[k.variable]
				r.Check(leafOnly, rule, w.InstrPos(ret), name, "yields n.value", "only for a constant leaf (fast-operator children are constant or variable, R-KIND)", "the literal value field of a variable node (its name) is used as its value")
				continue
			}
			if ex, ok := v.(*ssa.Extract); ok && ex.Index == 0 {
				if c, ok := ex.Tuple.(*ssa.Call); ok && c.Call.StaticCallee() == fp && c.Call.Args[1] == ssa.Value(n) {
					sawFetch = true
					r.OK(rule, w.InstrPos(c), name, "yields fetchVariableValueProxy(ctx, n)", "the Cached-gated fetch")
					continue
				}
			}
			r.Fail(rule, w.InstrPos(ret), name, "yields "+describe(v), "unexpected operand source in the value proxy")
		}
	}
	if !sawConst || !sawFetch {
		r.Unresolved(rule, "getNodeValueProxy no longer has a constant arm and a fetch arm")
	}
	// the fast arm applies the proxy
	applied := false
	EachInstr(te, func(in ssa.Instruction) {
		c, ok := in.(*ssa.Call)
		if !ok || c.Call.StaticCallee() == nil || nm(c.Call.StaticCallee()) != "executeOperatorProxy" {
			return
		}
		base := c.Call.Args[1]
		poss := k.kindsPossibleAt(c.Block(), func(x ssa.Value) bool { return x == base || sameValueShape(x, base) })
		if poss != nil && len(poss) == 1 && poss[k.fastOperator] {
			applied = true
		}
	})
	r.Check(applied, rule, w.Pos(te.Pos()), w.Name(te), "fast arm applies executeOperatorProxy(ctx, curt, param2[:])", "the operator proxy (shortcuts and DNE gate) also guards fast operators", "the fast-operator arm bypasses the operator proxy")
}

var _ = types.Typ

var c04Witnesses = append(append(stepWitnessesTry, tryScMustWitnesses...), []Witness{
	{Name: "contains-scan-leaves-after-eight", Rule: "R-CONTAINS", Edits: []Edit{
		{File: "util.go", Old: "	for _, v := range params {\n		if v == target {\n			return true\n		}\n	}\n	return false\n}", New: "	for i, v := range params {\n		if i > 7 {\n			break\n		}\n		if v == target {\n			return true\n		}\n	}\n	return false\n}"}}},
	{Name: "contains-true-for-nil-element", Rule: "R-CONTAINS", Edits: []Edit{
		{File: "util.go", Old: "	for _, v := range params {\n		if v == target {\n			return true\n		}\n	}\n	return false\n}", New: "	for _, v := range params {\n		if v == target || v == nil {\n			return true\n		}\n	}\n	return false\n}"}}},
	{Name: "operator-before-dne-test", Rule: "R-PROXYGATE", Edits: []Edit{
		{File: "engine.go", Old: "	case contains(params, DNE):\n		return DNE, nil\n	}\n	return n.operator(ctx, params)", New: "	}\n	res, err := n.operator(ctx, params)\n	if err != nil && contains(params, DNE) {\n		return DNE, nil\n	}\n	return res, err"}}},
	{Name: "or-node-returns-false-shortcut", Rule: "R-SHORTCUT", Edits: []Edit{
		{File: "engine.go", Old: "	case isAndOpNode(n) && contains(params, false):\n		return false, nil", New: "	case isOrOpNode(n) && contains(params, false):\n		return false, nil"}}},
	{Name: "and-shortcut-without-and-test", Rule: "R-SHORTCUT", Edits: []Edit{
		{File: "engine.go", Old: "	case isAndOpNode(n) && contains(params, false):\n		return false, nil", New: "	case contains(params, false) && !isOrOpNode(n):\n		return false, nil"}}},
	{Name: "get-without-cached", Rule: "R-CACHEDGATE", Edits: []Edit{
		{File: "engine.go", Old: "	if !ctx.Cached(varKey, strKey) {\n		return DNE, nil\n	}\n\n	return ctx.Get(varKey, strKey)", New: "	if v, err := ctx.Get(varKey, strKey); err == nil {\n		return v, nil\n	}\n	return DNE, nil"}}},
	{Name: "tryeval-fast-arm-calls-operator-directly", Rule: "R-PROXYGATE", Edits: []Edit{
		{File: "engine.go", Old: "			res, err = executeOperatorProxy(ctx, curt, param2[:])\n			if err != nil {\n				return\n			}\n			i += 2", New: "			if isBoolOpNode(curt) {\n				res, err = executeOperatorProxy(ctx, curt, param2[:])\n			} else {\n				res, err = curt.operator(ctx, param2[:])\n			}\n			if err != nil {\n				return\n			}\n			i += 2"}}},
	{Name: "matches-shortcircuit-or-on-false", Rule: "R-PAIR", Edits: []Edit{
		{File: "engine.go", Old: "	case orOp:\n		return res == true", New: "	case orOp:\n		return res == false"}}},
	{Name: "rco-flags-swapped", Rule: "R-PAIR", Edits: []Edit{
		{File: "compiler.go", Old: "		case isAndOpNode(p):\n			n.flag |= andOp\n		case isOrOpNode(p):\n			n.flag |= orOp", New: "		case isAndOpNode(p):\n			n.flag |= orOp\n		case isOrOpNode(p):\n			n.flag |= andOp"}}},
	{Name: "sc-polarity-swapped", Rule: "R-PAIR", Edits: []Edit{
		{File: "compiler.go", Old: "		case isAndOpNode(p):\n			flag |= scIfFalse\n		case isOrOpNode(p):\n			flag |= scIfTrue", New: "		case isAndOpNode(p):\n			flag |= scIfTrue\n		case isOrOpNode(p):\n			flag |= scIfFalse"}}},
	{Name: "kind-overlaps-sc-bit", Rule: "R-BITS", Edits: []Edit{
		{File: "engine.go", Old: "	scIfFalse = uint8(0b00001000)", New: "	scIfFalse = uint8(0b00000100)"}}},
	{Name: "benign-proxy-as-if-chain", Benign: true, Edits: []Edit{
		{File: "engine.go", Old: "	switch {\n	case isAndOpNode(n) && contains(params, false):\n		return false, nil\n	case isOrOpNode(n) && contains(params, true):\n		return true, nil\n	case contains(params, DNE):\n		return DNE, nil\n	}\n	return n.operator(ctx, params)", New: "	if isAndOpNode(n) {\n		if contains(params, false) {\n			return false, nil\n		}\n	} else if isOrOpNode(n) && contains(params, true) {\n		return true, nil\n	}\n	if !contains(params, DNE) {\n		return n.operator(ctx, params)\n	}\n	return DNE, nil"}}},
}...)

var c05Witnesses = append(wave4WitnessesC05, []Witness{
	{Name: "dne-poisons-before-shortcuts", Rule: "R-PROXYORDER", Edits: []Edit{
		{File: "engine.go", Old: "	switch {\n	case isAndOpNode(n) && contains(params, false):\n		return false, nil\n	case isOrOpNode(n) && contains(params, true):\n		return true, nil\n	case contains(params, DNE):\n		return DNE, nil\n	}", New: "	switch {\n	case contains(params, DNE):\n		return DNE, nil\n	case isAndOpNode(n) && contains(params, false):\n		return false, nil\n	case isOrOpNode(n) && contains(params, true):\n		return true, nil\n	}"}}},
	{Name: "and-shortcut-only-without-dne", Rule: "R-PROXYORDER", Edits: []Edit{
		{File: "engine.go", Old: "	case isAndOpNode(n) && contains(params, false):", New: "	case isAndOpNode(n) && contains(params, false) && !contains(params, DNE):"}}},
	{Name: "not-cached-is-an-error", Rule: "R-DNE-NOT-ERR", Edits: []Edit{
		{File: "engine.go", Old: "	if !ctx.Cached(varKey, strKey) {\n		return DNE, nil\n	}", New: "	if !ctx.Cached(varKey, strKey) {\n		return DNE, ErrDNE\n	}"}}},
	{Name: "tryevalbool-asserts-before-dne-test", Rule: "R-DNEBOOL", Edits: []Edit{
		{File: "engine.go", Old: "	if res == DNE {\n		return false, ErrDNE\n	}\n\n	b, ok := res.(bool)\n	if !ok {\n		return false, errors.New(\"invalid result type error\")\n	}\n	return b, nil\n}", New: "	b, ok := res.(bool)\n	if !ok {\n		if res == DNE {\n			return false, nil\n		}\n		return false, errors.New(\"invalid result type error\")\n	}\n	return b, nil\n}"}}},
	{Name: "fast-arm-reads-variable-name-as-value", Rule: "R-FASTPROXY", Edits: []Edit{
		{File: "engine.go", Old: "	if n.flag&nodeTypeMask == constant {\n		res = n.value\n	} else {", New: "	if n.flag&nodeTypeMask != operator {\n		res = n.value\n	} else {"}}},
	{Name: "benign-value-proxy-tests-not-variable", Benign: true, Edits: []Edit{
		{File: "engine.go", Old: "	if n.flag&nodeTypeMask == constant {\n		res = n.value\n	} else {", New: "	if n.flag&nodeTypeMask != variable {\n		res = n.value\n	} else {"}}},
	{Name: "benign-tryevalbool-switch", Benign: true, Edits: []Edit{
		{File: "engine.go", Old: "	if res == DNE {\n		return false, ErrDNE\n	}\n\n	b, ok := res.(bool)\n	if !ok {\n		return false, errors.New(\"invalid result type error\")\n	}\n	return b, nil\n}", New: "	if res != DNE {\n		if b, ok := res.(bool); ok {\n			return b, nil\n		}\n		return false, errors.New(\"invalid result type error\")\n	}\n	return false, ErrDNE\n}"}}},
}...)

// ruleContains: the membership helper the proxies (and the generator's oracle) decide with — `contains(list, x)` is
// true exactly when some element equals x: `true` is returned only under element == x for an element of a loop over
// the whole list, `false` only when that loop ran to its end.
func ruleContains(w *World, r *Report) {
	const rule = "R-CONTAINS"
	r.Rule(rule, "contains(list, x) returns true only under list[i] == x and false only after the loop over the whole list", 2)
	fn := w.MustFn(r, rule, "contains")
	if fn == nil || len(fn.Params) != 2 {
		return
	}
	name := w.Name(fn)
	list, target := ssa.Value(fn.Params[0]), ssa.Value(fn.Params[1])
	var hdrs []*ssa.BasicBlock
	var falseRets []*ssa.Return
	for _, ret := range allReturns(fn) {
		pos := w.InstrPos(ret)
		b, isConst := constBool(ret.Results[0])
		if !isConst {
			r.Fail(rule, pos, name, "return "+describe(ret.Results[0]), "the answer is not a constant decided by the scan")
			continue
		}
		if !b {
			falseRets = append(falseRets, ret)
			continue
		}
		found := false
		for _, f := range factsAt(ret.Block()) {
			bo, ok := f.Cond.(*ssa.BinOp)
			if !ok || bo.Op != token.EQL || !f.Truth {
				continue
			}
			x, y := bo.X, bo.Y
			if y != target {
				x, y = y, x
			}
			if y != target {
				continue
			}
			if h, _, okE := rangeElemOf(x, list); okE {
				found = true
				hdrs = append(hdrs, h)
			}
		}
		r.Check(found, rule, pos, name, "return true", "only under list[i] == x for an element of the loop over the list", "true is returned without an element having been found equal to x")
	}
	for _, ret := range falseRets {
		complete := false
		for _, h := range hdrs {
			if edgeDominates(h, 1, ret.Block()) {
				complete = true
			}
		}
		r.Check(complete, rule, w.InstrPos(ret), name, "return false", "only when the loop over the whole list ran to its end", "false is returned although not every element was compared: a deciding operand further back is missed")
	}
	if len(falseRets) == 0 {
		r.Unresolved(rule, "contains has no `false` answer")
	}
}
