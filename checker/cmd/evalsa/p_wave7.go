package main

// Rules added after the seventh and eighth seeding waves.

import (
	"fmt"
	"go/constant"
	"go/token"
	"go/types"

	"golang.org/x/tools/go/ssa"
)

// ---- R-NODEFRESH ----------------------------------------------------------------
//
// The compile-time tables live IN the node records: calAndSetNodes / calAndSetStackSize / calAndSetShortCircuit(ForRCO)
// write childCnt, osTop, scIdx and the short-circuit and parent-operator flag bits of the position a node occupies.
// A node record that sits at two positions of one program (or of two programs) gets the union of the flags and the
// target of whichever position was written last. Every tree position must therefore own its node record:
// whatever is stored into astNode.node is a node allocated right there (a `&node{…}` of the same function
// activation), stored into exactly one astNode, and not kept anywhere else (no cache, no map, no field).
func ruleNodeFresh(w *World, r *Report) {
	const rule = "R-NODEFRESH"
	r.Rule(rule, "every store into astNode.node stores a node record allocated by the same activation, which is stored into no other astNode and kept in no other container: each position of the program owns the record the compile-time tables are written into", 3)
	isNodeAlloc := func(v ssa.Value) (*ssa.Alloc, bool) {
		al, ok := v.(*ssa.Alloc)
		if !ok || !al.Heap {
			return nil, false
		}
		return al, typeNameOf(deref(al.Type())) == "node"
	}
	for _, fn := range w.SortedFuncs(funcSet(w.Funcs)) {
		EachInstr(fn, func(in ssa.Instruction) {
			st, ok := in.(*ssa.Store)
			if !ok {
				return
			}
			tn, fld, _, okf := fieldOf(st.Addr)
			if !okf || tn != "astNode" || fld != "node" {
				return
			}
			what := fmt.Sprintf("astNode.node = %s", describe(st.Val))
			al, fresh := isNodeAlloc(st.Val)
			if !fresh {
				r.Check(false, rule, w.InstrPos(st), w.Name(fn), what, "",
					"the record put at this position is not allocated here (it comes from a lookup, a field, a parameter or another call): two positions can share one record, and the flags, jump target and stack slot written for one position overwrite the other's")
				return
			}
			// the same record is put into one astNode only, once per allocation, and escapes nowhere else
			okOnce, why := true, ""
			for _, ref := range *al.Referrers() {
				switch x := ref.(type) {
				case *ssa.Store:
					if x.Val != ssa.Value(al) {
						continue
					}
					if x == st {
						continue
					}
					okOnce, why = false, "the record is also stored at "+w.InstrPos(x)
				case *ssa.MapUpdate:
					if x.Value == ssa.Value(al) || x.Key == ssa.Value(al) {
						okOnce, why = false, "the record is also kept in a map at "+w.InstrPos(x)
					}
				case *ssa.MakeInterface, *ssa.Send:
					okOnce, why = false, "the record also escapes at "+w.InstrPos(ref)
				case *ssa.Phi:
					okOnce, why = false, "the record is merged with other records at "+w.InstrPos(ref)
				}
			}
			if okOnce && st.Block() != al.Block() {
				// the store must not be able to repeat without a new allocation
				avoid := func(b *ssa.BasicBlock) bool { return b == al.Block() }
				for _, sx := range st.Block().Succs {
					if sx == al.Block() {
						continue
					}
					if sx == st.Block() || reachableAvoiding(sx, st.Block(), avoid) {
						okOnce, why = false, "the store can execute several times for one allocation"
					}
				}
			}
			r.Check(okOnce, rule, w.InstrPos(st), w.Name(fn), what, "a record allocated by this activation, stored here and nowhere else", why+": two positions can share one record, and the flags, jump target and stack slot written for one position overwrite the other's")
		})
	}
}


// ---- R-LEAFFIRST ----------------------------------------------------------------
//
// In prefix notation an identifier in operand position is a leaf (constant, variable) whatever else carries the same
// name; only the first element of a list is looked up as an operator. The infix parser gets the same reading by trying
// the leaf parsers first at every token: a token is consumed as an operator / bracket / comma (p.next() in the main
// loop) only after buildLeafNode has declined it in the same iteration.
func ruleLeafFirst(w *World, r *Report) {
	const rule = "R-LEAFFIRST"
	r.Rule(rule, "in the infix parser's main loop a token is taken as an operator (p.next()) only on the edge where buildLeafNode returned no leaf for it: names resolve as in prefix notation, constant > variable > operator", 1)
	fn := w.MustFn(r, rule, "(*parser).parseInfixExpression")
	if fn == nil {
		return
	}
	n := 0
	EachInstr(fn, func(in ssa.Instruction) {
		c, ok := in.(*ssa.Call)
		if !ok || c.Call.StaticCallee() == nil || nm(c.Call.StaticCallee()) != "next" {
			return
		}
		n++
		declined := false
		for _, f := range factsAt(c.Block()) {
			x, isNil, okn := factIsNil(f)
			if !okn || !isNil {
				continue
			}
			if ex, okx := x.(*ssa.Extract); okx && ex.Index == 0 {
				if lc, okc := ex.Tuple.(*ssa.Call); okc && lc.Call.StaticCallee() != nil && nm(lc.Call.StaticCallee()) == "buildLeafNode" {
					declined = true
				}
			}
		}
		r.Check(declined, rule, w.InstrPos(c), w.Name(fn), "p.next() in the main loop", "reached only after buildLeafNode() returned nil for the same token",
			"a token can be consumed as an operator without the leaf parsers having been tried: a constant or variable named like an operator or keyword is read as a call in infix notation and as a value in prefix notation")
	})
	if n == 0 {
		r.Unresolved(rule, "no p.next() call in parseInfixExpression")
	}
}

var nodeFreshWitnesses = []Witness{
	{Name: "named-constant-shares-one-node-per-expression", Rule: "R-NODEFRESH", Doc: "seeded changes C01-h / C03-h", Edits: []Edit{
		{File: "parser.go", Old: "	leafNodeParser []func() (*astNode, error)\n}", New: "	leafNodeParser []func() (*astNode, error)\n	constNodes     map[string]*node\n}"},
		{File: "parser.go", Old: "	if val, ok := p.conf.ConstantMap[t.val]; ok {\n		p.walk()\n		return p.valNode(val), nil\n	}\n	return nil, nil", New: "	if n, ok := p.constNodes[t.val]; ok {\n		p.walk()\n		return &astNode{node: n}, nil\n	}\n	if val, ok := p.conf.ConstantMap[t.val]; ok {\n		p.walk()\n		ast := p.valNode(val)\n		if p.constNodes == nil {\n			p.constNodes = make(map[string]*node)\n		}\n		p.constNodes[t.val] = ast.node\n		return ast, nil\n	}\n	return nil, nil"}}},
	{Name: "literal-true-false-nodes-are-package-singletons", Rule: "R-NODEFRESH", Edits: []Edit{
		{File: "parser.go", Old: "func (p *parser) valNode(v Value) *astNode {\n	return &astNode{\n		node: &node{\n			flag:  constant,\n			value: v,\n		},\n	}\n}", New: "var sharedNil = &node{flag: constant}\n\nfunc (p *parser) valNode(v Value) *astNode {\n	if v == nil {\n		return &astNode{node: sharedNil}\n	}\n	return &astNode{\n		node: &node{\n			flag:  constant,\n			value: v,\n		},\n	}\n}"}}},
	{Name: "benign-valnode-builds-node-first", Benign: true, Edits: []Edit{
		{File: "parser.go", Old: "func (p *parser) valNode(v Value) *astNode {\n	return &astNode{\n		node: &node{\n			flag:  constant,\n			value: v,\n		},\n	}\n}", New: "func (p *parser) valNode(v Value) *astNode {\n	n := &node{flag: constant}\n	n.value = v\n	res := &astNode{}\n	res.node = n\n	return res\n}"}}},
}

var leafFirstWitnesses = []Witness{
	{Name: "infix-operator-names-skip-the-leaf-parsers", Rule: "R-LEAFFIRST", Doc: "seeded change C15-h", Edits: []Edit{
		{File: "parser.go", Old: "	for p.hasNext() {\n		ast, err := p.buildLeafNode()\n		if err != nil {\n			return nil, err\n		}\n		if ast != nil {\n			push(ast)\n			continue\n		}\n\n		car, err := p.next()", New: "	for p.hasNext() {\n		if _, isOp := p.getOperator(p.tokens[p.idx].val); !isOp {\n			ast, err := p.buildLeafNode()\n			if err != nil {\n				return nil, err\n			}\n			if ast != nil {\n				push(ast)\n				continue\n			}\n		}\n\n		car, err := p.next()"}}},
	{Name: "benign-infix-leaf-attempt-respelled", Benign: true, Edits: []Edit{
		{File: "parser.go", Old: "		ast, err := p.buildLeafNode()\n		if err != nil {\n			return nil, err\n		}\n		if ast != nil {\n			push(ast)\n			continue\n		}\n\n		car, err := p.next()", New: "		leaf, lerr := p.buildLeafNode()\n		switch {\n		case lerr != nil:\n			return nil, lerr\n		case leaf != nil:\n			push(leaf)\n			continue\n		}\n\n		car, err := p.next()"}}},
}

// ---- R-WRAPALL ------------------------------------------------------------------
//
// "Every operator application is reported": when events are installed, every node of kind operator AND every node of
// kind fastOperator gets the OP_EXEC wrapper. Path rule over one iteration of calAndSetEventNode's node loop: tracking
// the set of kinds the current node can still have (refined at every test of its kind), no path reaches the end of the
// iteration with operator or fastOperator still possible unless it passed a store into that node's `operator` field.
func ruleWrapAll(w *World, r *Report) {
	const rule = "R-WRAPALL"
	r.Rule(rule, "in calAndSetEventNode every path through one iteration of the node loop on which the node can be an operator or a fast operator stores the event wrapper into node.operator", 1)
	fn := w.MustFn(r, rule, "calAndSetEventNode")
	if fn == nil {
		return
	}
	k := loadNodeKinds(w)
	var stores []*ssa.Store
	EachInstr(fn, func(in ssa.Instruction) {
		if st, ok := in.(*ssa.Store); ok {
			if tn, fld, _, okf := fieldOf(st.Addr); okf && tn == "node" && fld == "operator" {
				stores = append(stores, st)
			}
		}
	})
	if len(stores) == 0 {
		r.Unresolved(rule, "no store into node.operator in calAndSetEventNode")
		return
	}
	// the innermost loop header around the first wrapper store
	var hdr *ssa.BasicBlock
	for _, b := range fn.Blocks {
		if len(b.Succs) == 2 && b.Dominates(stores[0].Block()) && reachable(stores[0].Block(), b) {
			back := false
			for _, p := range b.Preds {
				if b.Dominates(p) {
					back = true
				}
			}
			if back && (hdr == nil || hdr.Dominates(b)) {
				hdr = b
			}
		}
	}
	if hdr == nil {
		r.Unresolved(rule, "node loop of calAndSetEventNode not found")
		return
	}
	wraps := map[*ssa.BasicBlock]bool{}
	for _, st := range stores {
		wraps[st.Block()] = true
	}
	type state struct {
		b        *ssa.BasicBlock
		op, fast bool
	}
	var bad *state
	for _, body := range hdr.Succs {
		if !reachable(body, hdr) {
			continue
		}
		start := state{body, true, true}
		seen := map[state]bool{start: true}
		stack := []state{start}
		for len(stack) > 0 && bad == nil {
			x := stack[len(stack)-1]
			stack = stack[:len(stack)-1]
			if wraps[x.b] {
				continue
			}
			for _, sx := range x.b.Succs {
				nx := state{sx, x.op, x.fast}
				for _, f := range factsAtEdgeTo(x.b, sx) {
					if _, c, isEq, ok := k.kindTest(f.Cond); ok {
						if isEq == f.Truth {
							nx.op = nx.op && c == k.operator
							nx.fast = nx.fast && c == k.fastOperator
						} else {
							if c == k.operator {
								nx.op = false
							}
							if c == k.fastOperator {
								nx.fast = false
							}
						}
					}
				}
				if !nx.op && !nx.fast {
					continue
				}
				if sx == hdr || !reachable(sx, hdr) {
					cp := x
					cp.op, cp.fast = nx.op, nx.fast
					bad = &cp
					break
				}
				if !seen[nx] {
					seen[nx] = true
					stack = append(stack, nx)
				}
			}
		}
	}
	what, where := "", w.Pos(fn.Pos())
	if bad != nil {
		if len(bad.b.Instrs) > 0 {
			where = w.InstrPos(bad.b.Instrs[len(bad.b.Instrs)-1])
		}
		if bad.op {
			what = "operator"
		}
		if bad.fast {
			if what != "" {
				what += " / "
			}
			what += "fastOperator"
		}
	}
	r.Check(bad == nil, rule, where, w.Name(fn), "event wrapper installed for every operator and fast-operator node", "every path of an iteration on which the node can be an operator or a fast operator stores the wrapper",
		"an iteration of the node loop can end for a node of kind "+what+" without the event wrapper being stored into it: applications of such operators are not reported")
}

var wrapAllWitnesses = []Witness{
	{Name: "plain-operators-get-no-event-wrapper", Rule: "R-WRAPALL", Doc: "mechanical mutant (statement dropped) that survives the suite", Edits: []Edit{
		{File: "compiler.go", Old: "		case operator:\n			realNode.operator = wrapOpEvent(realNode)\n		case fastOperator:", New: "		case operator:\n		case fastOperator:"}}},
	{Name: "event-wrapper-only-for-nodes-with-operands", Rule: "R-WRAPALL", Edits: []Edit{
		{File: "compiler.go", Old: "		case operator:\n			realNode.operator = wrapOpEvent(realNode)\n		case fastOperator:", New: "		case operator:\n			if realNode.childCnt > 0 {\n				realNode.operator = wrapOpEvent(realNode)\n			}\n		case fastOperator:"}}},
	{Name: "benign-event-wrapper-stored-before-the-kind-switch", Benign: true, Edits: []Edit{
		{File: "compiler.go", Old: "		switch realNode.flag & nodeTypeMask {\n		case operator:\n			realNode.operator = wrapOpEvent(realNode)\n		case fastOperator:\n			realNode.operator = wrapOpEvent(realNode)\n			// append", New: "		if kind := realNode.flag & nodeTypeMask; kind == operator || kind == fastOperator {\n			realNode.operator = wrapOpEvent(realNode)\n		}\n		switch realNode.flag & nodeTypeMask {\n		case fastOperator:\n			// append"}}},
}

// mechanical "statement dropped" mutants that survive the pinned suite (tools/mutate_run.sh del), one per clause they led to
var delWitnessesC06 = []Witness{
	{Name: "parse-ignores-the-directive-error", Rule: "R-ERRDROP", Edits: []Edit{
		{File: "parser.go", Old: "	err = p.parseConfig()\n", New: "	_ = p.parseConfig()\n"}}},
	{Name: "infix-ignores-the-reduction-error-at-a-comma", Rule: "R-ERRDROP", Edits: []Edit{
		{File: "parser.go", Old: "		case comma:\n			err = buildTopOperators(car)\n", New: "		case comma:\n			_ = buildTopOperators(car)\n"}}},
}

var delWitnessesC11 = []Witness{
	{Name: "map-fetcher-branch-forgets-to-assign", Rule: "R-FETCHGATE", Edits: []Edit{
		{File: "variable.go", Old: "	} else {\n		fetcher = NewMapVarFetcher(vals)\n	}", New: "	} else {\n		_ = NewMapVarFetcher(vals)\n	}"}}},
}

var delWitnessesC13 = []Witness{
	{Name: "dump-if-selection-thrown-away", Rule: "R-IFLAYOUT", Edits: []Edit{
		{File: "util.go", Old: "			res = []int16{\n				res[0], // condition node", New: "			_ = []int16{\n				res[0], // condition node"}}},
}

var delWitnessesC12 = []Witness{
	{Name: "fast-operand-position-not-recorded", Rule: "R-EVREMAP", Edits: []Edit{
		{File: "compiler.go", Old: "			realIdxes[i+1] = int16(len(res) - 2)\n", New: "			_ = int16(len(res) - 2)\n"}}},
}

var statelessShapeWitnesses = []Witness{
	{Name: "benign-stateless-answer-is-entry-not-nil", Benign: true, Doc: "benign patch P03_3", Edits: []Edit{
		{File: "compiler.go", Old: "		if so == op {\n			if fn := c.OperatorMap[op]; fn != nil {\n				return true, fn\n			}\n			break\n		}", New: "		if so != op {\n			continue\n		}\n		fn := c.OperatorMap[op]\n		return fn != nil, fn"}}},
	{Name: "stateless-answer-entry-not-nil-for-any-registered-name", Rule: "R-STATELESS", Edits: []Edit{
		{File: "compiler.go", Old: "	for _, so := range c.StatelessOperators {\n		if so == op {\n			if fn := c.OperatorMap[op]; fn != nil {\n				return true, fn\n			}\n			break\n		}\n	}\n\n	return false, nil", New: "	for _, so := range c.StatelessOperators {\n		if so == op {\n			break\n		}\n	}\n	fn := c.OperatorMap[op]\n	return fn != nil, fn"}}},
}

var infixMapTableWitnesses = []Witness{
	{Name: "benign-infix-table-as-map-literal", Benign: true, Doc: "benign patch P08_2", Edits: []Edit{
		{File: "parser.go", Old: "func (p *parser) getInfixOpInfo(op string) infixOpInfo {\n\tswitch op {\n\tcase \"*\", \"/\", \"%\":\n\t\treturn infixOpInfo{precedence: 8, childCount: 2}\n\tcase \"+\", \"-\":\n\t\treturn infixOpInfo{precedence: 7, childCount: 2}\n\tcase \"!\":\n\t\treturn infixOpInfo{precedence: 6, childCount: 1}\n\tcase \"=\", \"==\", \"!=\", \"<\", \">\", \"<=\", \">=\":\n\t\treturn infixOpInfo{precedence: 5, childCount: 2}\n\tcase \"&\", \"&&\":\n\t\treturn infixOpInfo{precedence: 4, childCount: 2}\n\tcase \"|\", \"||\":\n\t\treturn infixOpInfo{precedence: 3, childCount: 2}\n\tcase \",\":\n\t\treturn infixOpInfo{precedence: 2, childCount: 0}\n\tcase \"(\", \")\":\n\t\treturn infixOpInfo{precedence: 1, childCount: 0}\n\tcase \"\":\n\t\treturn infixOpInfo{precedence: -1, childCount: 0}\n\tdefault:\n\t\treturn infixOpInfo{precedence: funcPrecedence, childCount: -1}\n\t}\n}\n", New: "var infixOpTable = map[string]infixOpInfo{\n\t\"*\":  {precedence: 8, childCount: 2},\n\t\"/\":  {precedence: 8, childCount: 2},\n\t\"%\":  {precedence: 8, childCount: 2},\n\t\"+\":  {precedence: 7, childCount: 2},\n\t\"-\":  {precedence: 7, childCount: 2},\n\t\"!\":  {precedence: 6, childCount: 1},\n\t\"=\":  {precedence: 5, childCount: 2},\n\t\"==\": {precedence: 5, childCount: 2},\n\t\"!=\": {precedence: 5, childCount: 2},\n\t\"<\":  {precedence: 5, childCount: 2},\n\t\">\":  {precedence: 5, childCount: 2},\n\t\"<=\": {precedence: 5, childCount: 2},\n\t\">=\": {precedence: 5, childCount: 2},\n\t\"&\":  {precedence: 4, childCount: 2},\n\t\"&&\": {precedence: 4, childCount: 2},\n\t\"|\":  {precedence: 3, childCount: 2},\n\t\"||\": {precedence: 3, childCount: 2},\n\t\",\":  {precedence: 2, childCount: 0},\n\t\"(\":  {precedence: 1, childCount: 0},\n\t\")\":  {precedence: 1, childCount: 0},\n\t\"\":   {precedence: -1, childCount: 0},\n}\n\nfunc (p *parser) getInfixOpInfo(op string) infixOpInfo {\n\tif info, ok := infixOpTable[op]; ok {\n\t\treturn info\n\t}\n\treturn infixOpInfo{precedence: funcPrecedence, childCount: -1}\n}\n"}}},
	{Name: "infix-map-table-percent-at-additive-level", Rule: "R-PREC", Edits: []Edit{
		{File: "parser.go", Old: "func (p *parser) getInfixOpInfo(op string) infixOpInfo {\n\tswitch op {\n\tcase \"*\", \"/\", \"%\":\n\t\treturn infixOpInfo{precedence: 8, childCount: 2}\n\tcase \"+\", \"-\":\n\t\treturn infixOpInfo{precedence: 7, childCount: 2}\n\tcase \"!\":\n\t\treturn infixOpInfo{precedence: 6, childCount: 1}\n\tcase \"=\", \"==\", \"!=\", \"<\", \">\", \"<=\", \">=\":\n\t\treturn infixOpInfo{precedence: 5, childCount: 2}\n\tcase \"&\", \"&&\":\n\t\treturn infixOpInfo{precedence: 4, childCount: 2}\n\tcase \"|\", \"||\":\n\t\treturn infixOpInfo{precedence: 3, childCount: 2}\n\tcase \",\":\n\t\treturn infixOpInfo{precedence: 2, childCount: 0}\n\tcase \"(\", \")\":\n\t\treturn infixOpInfo{precedence: 1, childCount: 0}\n\tcase \"\":\n\t\treturn infixOpInfo{precedence: -1, childCount: 0}\n\tdefault:\n\t\treturn infixOpInfo{precedence: funcPrecedence, childCount: -1}\n\t}\n}\n", New: "var infixOpTable = map[string]infixOpInfo{\n\t\"*\":  {precedence: 8, childCount: 2},\n\t\"/\":  {precedence: 8, childCount: 2},\n\t\"%\":  {precedence: 7, childCount: 2},\n\t\"+\":  {precedence: 7, childCount: 2},\n\t\"-\":  {precedence: 7, childCount: 2},\n\t\"!\":  {precedence: 6, childCount: 1},\n\t\"=\":  {precedence: 5, childCount: 2},\n\t\"==\": {precedence: 5, childCount: 2},\n\t\"!=\": {precedence: 5, childCount: 2},\n\t\"<\":  {precedence: 5, childCount: 2},\n\t\">\":  {precedence: 5, childCount: 2},\n\t\"<=\": {precedence: 5, childCount: 2},\n\t\">=\": {precedence: 5, childCount: 2},\n\t\"&\":  {precedence: 4, childCount: 2},\n\t\"&&\": {precedence: 4, childCount: 2},\n\t\"|\":  {precedence: 3, childCount: 2},\n\t\"||\": {precedence: 3, childCount: 2},\n\t\",\":  {precedence: 2, childCount: 0},\n\t\"(\":  {precedence: 1, childCount: 0},\n\t\")\":  {precedence: 1, childCount: 0},\n\t\"\":   {precedence: -1, childCount: 0},\n}\n\nfunc (p *parser) getInfixOpInfo(op string) infixOpInfo {\n\tif info, ok := infixOpTable[op]; ok {\n\t\treturn info\n\t}\n\treturn infixOpInfo{precedence: funcPrecedence, childCount: -1}\n}\n"}}},
	{Name: "infix-map-table-extended-at-run-time", Rule: "R-PREC", Edits: []Edit{
		{File: "parser.go", Old: "func (p *parser) getInfixOpInfo(op string) infixOpInfo {\n\tswitch op {\n\tcase \"*\", \"/\", \"%\":\n\t\treturn infixOpInfo{precedence: 8, childCount: 2}\n\tcase \"+\", \"-\":\n\t\treturn infixOpInfo{precedence: 7, childCount: 2}\n\tcase \"!\":\n\t\treturn infixOpInfo{precedence: 6, childCount: 1}\n\tcase \"=\", \"==\", \"!=\", \"<\", \">\", \"<=\", \">=\":\n\t\treturn infixOpInfo{precedence: 5, childCount: 2}\n\tcase \"&\", \"&&\":\n\t\treturn infixOpInfo{precedence: 4, childCount: 2}\n\tcase \"|\", \"||\":\n\t\treturn infixOpInfo{precedence: 3, childCount: 2}\n\tcase \",\":\n\t\treturn infixOpInfo{precedence: 2, childCount: 0}\n\tcase \"(\", \")\":\n\t\treturn infixOpInfo{precedence: 1, childCount: 0}\n\tcase \"\":\n\t\treturn infixOpInfo{precedence: -1, childCount: 0}\n\tdefault:\n\t\treturn infixOpInfo{precedence: funcPrecedence, childCount: -1}\n\t}\n}\n", New: "var infixOpTable = map[string]infixOpInfo{\n\t\"*\":  {precedence: 8, childCount: 2},\n\t\"/\":  {precedence: 8, childCount: 2},\n\t\"%\":  {precedence: 8, childCount: 2},\n\t\"+\":  {precedence: 7, childCount: 2},\n\t\"-\":  {precedence: 7, childCount: 2},\n\t\"!\":  {precedence: 6, childCount: 1},\n\t\"=\":  {precedence: 5, childCount: 2},\n\t\"==\": {precedence: 5, childCount: 2},\n\t\"!=\": {precedence: 5, childCount: 2},\n\t\"<\":  {precedence: 5, childCount: 2},\n\t\">\":  {precedence: 5, childCount: 2},\n\t\"<=\": {precedence: 5, childCount: 2},\n\t\">=\": {precedence: 5, childCount: 2},\n\t\"&\":  {precedence: 4, childCount: 2},\n\t\"&&\": {precedence: 4, childCount: 2},\n\t\"|\":  {precedence: 3, childCount: 2},\n\t\"||\": {precedence: 3, childCount: 2},\n\t\",\":  {precedence: 2, childCount: 0},\n\t\"(\":  {precedence: 1, childCount: 0},\n\t\")\":  {precedence: 1, childCount: 0},\n\t\"\":   {precedence: -1, childCount: 0},\n}\n\nfunc (p *parser) getInfixOpInfo(op string) infixOpInfo {\n\tif info, ok := infixOpTable[op]; ok {\n\t\treturn info\n\t}\n\treturn infixOpInfo{precedence: funcPrecedence, childCount: -1}\n}\n\nfunc init() { infixOpTable[\"^\"] = infixOpInfo{precedence: 9, childCount: 2} }\n"}}},
}

var keySetShapeWitnesses = []Witness{
	{Name: "benign-unify-int-list-built-by-append", Benign: true, Doc: "benign patch P12_4", Edits: []Edit{
		{File: "variable.go", Old: "\tcase []int32:\n\t\ttemp := make([]int64, len(v))\n\t\tfor i, iv := range v {\n\t\t\ttemp[i] = int64(iv)\n\t\t}\n\t\treturn temp\n", New: "\tcase []int32:\n\t\ttemp := make([]int64, 0, len(v))\n\t\tfor _, iv := range v {\n\t\t\ttemp = append(temp, int64(iv))\n\t\t}\n\t\treturn temp\n"}}},
	{Name: "unify-int-list-built-by-append-skips-negatives", Rule: "R-UNIFY", Edits: []Edit{
		{File: "variable.go", Old: "\tcase []int32:\n\t\ttemp := make([]int64, len(v))\n\t\tfor i, iv := range v {\n\t\t\ttemp[i] = int64(iv)\n\t\t}\n\t\treturn temp\n", New: "\tcase []int32:\n\t\ttemp := make([]int64, 0, len(v))\n\t\tfor _, iv := range v {\n\t\t\tif iv < 0 {\n\t\t\t\tcontinue\n\t\t\t}\n\t\t\ttemp = append(temp, int64(iv))\n\t\t}\n\t\treturn temp\n"}}},
	{Name: "unify-int-list-built-by-append-starts-with-zeros", Rule: "R-UNIFY", Edits: []Edit{
		{File: "variable.go", Old: "\tcase []int32:\n\t\ttemp := make([]int64, len(v))\n\t\tfor i, iv := range v {\n\t\t\ttemp[i] = int64(iv)\n\t\t}\n\t\treturn temp\n", New: "\tcase []int32:\n\t\ttemp := make([]int64, len(v))\n\t\tfor _, iv := range v {\n\t\t\ttemp = append(temp, int64(iv))\n\t\t}\n\t\treturn temp\n"}}},
	{Name: "benign-key-set-of-empty-structs", Benign: true, Doc: "benign patch P12_2", Edits: []Edit{
		{File: "variable.go", Old: "	keySet := make(map[VariableKey]bool, size)\n	for _, key := range cc.VariableKeyMap {\n		keySet[key] = true\n	}\n	for i := 1; i <= size; i++ {\n		key := VariableKey(i)\n		if !keySet[key] {", New: "	keySet := make(map[VariableKey]struct{}, size)\n	for _, key := range cc.VariableKeyMap {\n		keySet[key] = empty\n	}\n	for i := 1; i <= size; i++ {\n		key := VariableKey(i)\n		if _, used := keySet[key]; !used {"}}},
	{Name: "key-set-of-empty-structs-takes-a-used-key", Rule: "R-KEYSTABLE", Edits: []Edit{
		{File: "variable.go", Old: "	keySet := make(map[VariableKey]bool, size)\n	for _, key := range cc.VariableKeyMap {\n		keySet[key] = true\n	}\n	for i := 1; i <= size; i++ {\n		key := VariableKey(i)\n		if !keySet[key] {", New: "	keySet := make(map[VariableKey]struct{}, size)\n	for _, key := range cc.VariableKeyMap {\n		keySet[key] = empty\n	}\n	for i := 1; i <= size; i++ {\n		key := VariableKey(i)\n		if _, used := keySet[key]; used {"}}},
}

var piecewiseListWitnesses = []Witness{
	{Name: "benign-string-list-elements-written-in-pieces", Benign: true, Doc: "benign patch P11_3", Edits: []Edit{
		{File: "util.go", Old: "			sb.WriteString(`\"` + s + `\"`)", New: "			sb.WriteByte('\"')\n			sb.WriteString(s)\n			sb.WriteByte('\"')"}}},
	{Name: "string-list-elements-in-pieces-lose-the-closing-quote", Rule: "R-LEAFTYPES", Edits: []Edit{
		{File: "util.go", Old: "			sb.WriteString(`\"` + s + `\"`)", New: "			sb.WriteByte('\"')\n			sb.WriteString(s)"}}},
	{Name: "string-list-elements-in-pieces-closing-quote-only-for-short-ones", Rule: "R-LEAFTYPES", Edits: []Edit{
		{File: "util.go", Old: "			sb.WriteString(`\"` + s + `\"`)", New: "			sb.WriteByte('\"')\n			sb.WriteString(s)\n			if len(s) < 64 {\n				sb.WriteByte('\"')\n			}"}}},
}

var capturedLenWitnesses = []Witness{
	{Name: "benign-lexer-length-hoisted-into-a-captured-variable", Benign: true, Doc: "benign patch P06_4", Edits: []Edit{
		{File: "parser.go", Old: "	A, i := []rune(p.source), 0\n", New: "	A, i := []rune(p.source), 0\n	n := len(A)\n"},
		{File: "parser.go", Old: "			start := i\n			for ; i < len(A); i++ {\n				if A[i] == '\\n' {", New: "			start := i\n			for ; i < n; i++ {\n				if A[i] == '\\n' {"}}},
	{Name: "lexer-hoisted-length-is-one-too-large", Rule: "R-PANIC", Edits: []Edit{
		{File: "parser.go", Old: "	A, i := []rune(p.source), 0\n", New: "	A, i := []rune(p.source), 0\n	n := len(A) + 1\n"},
		{File: "parser.go", Old: "			start := i\n			for ; i < len(A); i++ {\n				if A[i] == '\\n' {", New: "			start := i\n			for ; i < n; i++ {\n				if A[i] == '\\n' {"}}},
	{Name: "lexer-hoisted-length-of-a-slice-that-is-cut-later", Rule: "R-PANIC", Edits: []Edit{
		{File: "parser.go", Old: "	A, i := []rune(p.source), 0\n", New: "	A, i := []rune(p.source), 0\n	n := len(A)\n	if n > 4096 {\n		A = A[:4096]\n	}\n"},
		{File: "parser.go", Old: "			start := i\n			for ; i < len(A); i++ {\n				if A[i] == '\\n' {", New: "			start := i\n			for ; i < n; i++ {\n				if A[i] == '\\n' {"}}},
}

// the comparability guard of eq/ne after the D17 repair
var valueWalkWitnesses = []Witness{
	{Name: "comparability-guard-trusts-the-type", Rule: "R-IFACEEQ", Doc: "revert of the D17 repair", Edits: []Edit{
		{File: "operator.go", Old: "	return comparableValue(reflect.ValueOf(v))\n}", New: "	return reflect.TypeOf(v).Comparable()\n}"}}},
	{Name: "value-walk-forgets-arrays", Rule: "R-IFACEEQ", Edits: []Edit{
		{File: "operator.go", Old: "	case reflect.Array:\n		for i := 0; i < v.Len(); i++ {\n			if !comparableValue(v.Index(i)) {\n				return false\n			}\n		}\n", New: ""}}},
	{Name: "value-walk-looks-at-the-first-field-only", Rule: "R-IFACEEQ", Edits: []Edit{
		{File: "operator.go", Old: "		for i := 0; i < v.NumField(); i++ {\n			if !comparableValue(v.Field(i)) {\n				return false\n			}\n		}", New: "		for i := 0; i < v.NumField(); i++ {\n			if !comparableValue(v.Field(i)) {\n				return false\n			}\n			break\n		}"}}},
	{Name: "value-walk-accepts-any-interface", Rule: "R-IFACEEQ", Edits: []Edit{
		{File: "operator.go", Old: "		return v.IsNil() || comparableValue(v.Elem())", New: "		return true"}}},
	{Name: "benign-value-walk-cases-reordered", Benign: true, Edits: []Edit{
		{File: "operator.go", Old: "	case reflect.Interface:\n		return v.IsNil() || comparableValue(v.Elem())\n	case reflect.Array:\n		for i := 0; i < v.Len(); i++ {\n			if !comparableValue(v.Index(i)) {\n				return false\n			}\n		}\n", New: "	case reflect.Array:\n		for i := 0; i < v.Len(); i++ {\n			if !comparableValue(v.Index(i)) {\n				return false\n			}\n		}\n	case reflect.Interface:\n		if v.IsNil() {\n			return true\n		}\n		return comparableValue(v.Elem())\n"}}},
}

// ---- R-SCMUST -------------------------------------------------------------------
//
// R-SCJUMP says the short-circuit jump is taken ONLY under (!b && scIfFalse) || (b && scIfTrue). This is the converse:
// a step's result is pushed (evaluation goes on with the next operand) only when the result is not a bool, or the
// matching flag test came out false. Without it, short-circuiting can be switched off altogether: well-typed programs
// keep their values (the operator is then applied to all operands), the suite stays green, but `(and false (/ 1 0))`
// fails and every "skipped" operand is fetched.
func ruleScMust(w *World, r *Report, l *evalLoop) {
	const rule = "R-SCMUST"
	r.Rule(rule, "in Eval a step's result is pushed only if it is not a bool, or the flag that lets its value decide the parent is not set: a deciding operand always takes the short-circuit jump", 1)
	scF, _ := w.ConstInt("scIfFalse")
	scT, _ := w.ConstInt("scIfTrue")
	var pushes []*ssa.Store
	EachInstr(l.fn, func(in ssa.Instruction) {
		st, ok := in.(*ssa.Store)
		if !ok {
			return
		}
		ia, ok := st.Addr.(*ssa.IndexAddr)
		if !ok {
			return
		}
		sl, ok := ia.X.Type().Underlying().(*types.Slice)
		if !ok || typeNameOf(sl.Elem()) != "Value" {
			return
		}
		// the push of the main loop stores the step result (a phi over the arms), not an operand copy
		if _, isPhi := st.Val.(*ssa.Phi); !isPhi {
			return
		}
		pushes = append(pushes, st)
	})
	if len(pushes) == 0 {
		r.Unresolved(rule, "push of the step result not found in "+w.Name(l.fn))
		return
	}
	isBoolAssert := func(v ssa.Value, idx int) bool {
		ex, ok := v.(*ssa.Extract)
		if !ok || ex.Index != idx {
			return false
		}
		ta, ok := ex.Tuple.(*ssa.TypeAssert)
		if !ok {
			return false
		}
		bt, ok := ta.AssertedType.Underlying().(*types.Basic)
		return ok && bt.Kind() == types.Bool
	}
	// path-sensitive walk from the bool assertion of the step result to the push: the asserted value b is tested more
	// than once (`(!b && …) || (b && …)`), so only the edges consistent with what is already known about b are followed
	for _, st := range pushes {
		var ta *ssa.TypeAssert
		for _, ref := range referrers(st.Val) {
			if x, ok := ref.(*ssa.TypeAssert); ok && x.CommaOk {
				if bt, okb := x.AssertedType.Underlying().(*types.Basic); okb && bt.Kind() == types.Bool {
					ta = x
				}
			}
		}
		if ta == nil {
			r.Fail(rule, w.InstrPos(st), w.Name(l.fn), "os[osTop+1] = res (evaluation goes on)", "the pushed result is never tested for being a deciding bool")
			continue
		}
		type state struct {
			b               *ssa.BasicBlock
			isBool, notBool bool
			bv              int8 // 0 unknown, 1 true, 2 false
			fFoff, fToff    bool
		}
		start := state{b: ta.Block()}
		seen := map[state]bool{start: true}
		stack := []state{start}
		var bad *state
		for len(stack) > 0 && bad == nil {
			x := stack[len(stack)-1]
			stack = stack[:len(stack)-1]
			if x.b == st.Block() && x.b != ta.Block() {
				if !(x.notBool || (x.bv == 1 && x.fToff) || (x.bv == 2 && x.fFoff)) {
					cp := x
					bad = &cp
				}
				continue
			}
			iff, isIf := x.b.Instrs[len(x.b.Instrs)-1].(*ssa.If)
			for k, sx := range x.b.Succs {
				nx := x
				nx.b = sx
				if isIf && x.b.Succs[0] != x.b.Succs[1] {
					cond, truth := stripNot(iff.Cond, k == 0)
					switch {
					case isBoolAssert(cond, 1) && cond.(*ssa.Extract).Tuple == ssa.Value(ta):
						if truth {
							nx.isBool = true
						} else {
							nx.notBool = true
						}
					case isBoolAssert(cond, 0) && cond.(*ssa.Extract).Tuple == ssa.Value(ta):
						want := int8(2)
						if truth {
							want = 1
						}
						if x.bv != 0 && x.bv != want {
							continue // infeasible: b was seen with the other value
						}
						nx.bv = want
					default:
						if m, kc, eq, ok := flagMaskTest(cond); ok && m == kc && eq != truth {
							if m == scF {
								nx.fFoff = true
							}
							if m == scT {
								nx.fToff = true
							}
						} else if mT, mF, eq, ok := flagMaskPhiTest(cond, func(v ssa.Value) bool {
							return isBoolAssert(v, 0) && v.(*ssa.Extract).Tuple == ssa.Value(ta)
						}); ok && eq != truth {
							// the mask chosen first: mask := b ? scIfTrue : scIfFalse; flag&mask == mask came out false
							if x.bv == 1 && mT == scT {
								nx.fToff = true
							}
							if x.bv == 2 && mF == scF {
								nx.fFoff = true
							}
						}
					}
				}
				// a new current node: what was learnt about the previous node's flags is void
				for _, in := range sx.Instrs {
					phi, isPhi := in.(*ssa.Phi)
					if !isPhi {
						break
					}
					if typeNameOf(deref(phi.Type())) == "node" && sx != st.Block() {
						nx.fFoff, nx.fToff = false, false
					}
				}
				if len(sx.Succs) == 0 && sx != st.Block() {
					continue // a return
				}
				if !(l.hdr.Dominates(sx) && reachable(sx, l.hdr)) {
					continue // left the main loop
				}
				if sx == l.hdr {
					continue // next step
				}
				if !seen[nx] {
					seen[nx] = true
					stack = append(stack, nx)
				}
			}
		}
		why := ""
		if bad != nil {
			why = fmt.Sprintf(" (a path reaches the push with bool=%v value=%d scIfFalse-off=%v scIfTrue-off=%v)", bad.isBool, bad.bv, bad.fFoff, bad.fToff)
		}
		r.Check(bad == nil, rule, w.InstrPos(st), w.Name(l.fn), "os[osTop+1] = res (evaluation goes on)", "only for a non-bool result, or a bool whose deciding flag is not set", "a bool result whose flag says it decides the parent can be pushed instead of jumping: short-circuit evaluation is (partly) switched off — later operands are evaluated, their failures and fetches become visible"+why)
	}
}

var scMustWitnesses = []Witness{
	{Name: "benign-short-circuit-mask-chosen-first", Benign: true, Doc: "large refactoring B01", Edits: []Edit{
		{File: "engine.go", Old: "		if b, ok := res.(bool); ok {\n			for (!b && curt.flag&scIfFalse == scIfFalse) ||\n				(b && curt.flag&scIfTrue == scIfTrue) {\n				i = curt.scIdx\n				if i == -1 {\n					return\n				}\n\n				curt = nodes[i]\n				osTop = curt.osTop - 1\n			}\n		}\n\n		os[osTop+1], osTop = res, osTop+1\n	}\n	return os[0], nil", New: "		if b, ok := res.(bool); ok {\n			scFlag := scIfFalse\n			if b {\n				scFlag = scIfTrue\n			}\n			for curt.flag&scFlag == scFlag {\n				i = curt.scIdx\n				if i == -1 {\n					return\n				}\n\n				curt = nodes[i]\n				osTop = curt.osTop - 1\n			}\n		}\n\n		os[osTop+1], osTop = res, osTop+1\n	}\n	return os[0], nil"}}},
	{Name: "short-circuit-mask-chosen-first-true-needs-both-flags", Rule: "R-SCMUST", Edits: []Edit{
		{File: "engine.go", Old: "		if b, ok := res.(bool); ok {\n			for (!b && curt.flag&scIfFalse == scIfFalse) ||\n				(b && curt.flag&scIfTrue == scIfTrue) {\n				i = curt.scIdx\n				if i == -1 {\n					return\n				}\n\n				curt = nodes[i]\n				osTop = curt.osTop - 1\n			}\n		}\n\n		os[osTop+1], osTop = res, osTop+1\n	}\n	return os[0], nil", New: "		if b, ok := res.(bool); ok {\n			scFlag := scIfFalse\n			if b {\n				scFlag = scMask\n			}\n			for curt.flag&scFlag == scFlag {\n				i = curt.scIdx\n				if i == -1 {\n					return\n				}\n\n				curt = nodes[i]\n				osTop = curt.osTop - 1\n			}\n		}\n\n		os[osTop+1], osTop = res, osTop+1\n	}\n	return os[0], nil"}}},
	{Name: "short-circuit-only-for-non-bool-results", Rule: "R-SCMUST", Doc: "mechanical mutant (negated condition) that survives the suite and every earlier rule", Edits: []Edit{
		{File: "engine.go", Old: "		if b, ok := res.(bool); ok {\n			for (!b && curt.flag&scIfFalse == scIfFalse) ||\n				(b && curt.flag&scIfTrue == scIfTrue) {\n				i = curt.scIdx\n				if i == -1 {\n					return\n				}\n\n				curt = nodes[i]\n				osTop = curt.osTop - 1\n			}\n		}\n\n		os[osTop+1], osTop = res, osTop+1\n	}\n	return os[0], nil", New: "		if b, ok := res.(bool); !ok {\n			for (!b && curt.flag&scIfFalse == scIfFalse) ||\n				(b && curt.flag&scIfTrue == scIfTrue) {\n				i = curt.scIdx\n				if i == -1 {\n					return\n				}\n\n				curt = nodes[i]\n				osTop = curt.osTop - 1\n			}\n		}\n\n		os[osTop+1], osTop = res, osTop+1\n	}\n	return os[0], nil"}}},
	{Name: "true-results-never-short-circuit", Rule: "R-SCMUST", Edits: []Edit{
		{File: "engine.go", Old: "			for (!b && curt.flag&scIfFalse == scIfFalse) ||\n				(b && curt.flag&scIfTrue == scIfTrue) {\n				i = curt.scIdx\n				if i == -1 {\n					return\n				}\n\n				curt = nodes[i]\n				osTop = curt.osTop - 1\n			}\n		}\n\n		os[osTop+1], osTop = res, osTop+1\n	}\n	return os[0], nil", New: "			for !b && curt.flag&scIfFalse == scIfFalse {\n				i = curt.scIdx\n				if i == -1 {\n					return\n				}\n\n				curt = nodes[i]\n				osTop = curt.osTop - 1\n			}\n		}\n\n		os[osTop+1], osTop = res, osTop+1\n	}\n	return os[0], nil"}}},
	{Name: "short-circuit-climbs-one-level-only", Rule: "R-SCMUST", Edits: []Edit{
		{File: "engine.go", Old: "			for (!b && curt.flag&scIfFalse == scIfFalse) ||\n				(b && curt.flag&scIfTrue == scIfTrue) {\n				i = curt.scIdx\n				if i == -1 {\n					return\n				}\n\n				curt = nodes[i]\n				osTop = curt.osTop - 1\n			}\n		}\n\n		os[osTop+1], osTop = res, osTop+1\n	}\n	return os[0], nil", New: "			if (!b && curt.flag&scIfFalse == scIfFalse) ||\n				(b && curt.flag&scIfTrue == scIfTrue) {\n				i = curt.scIdx\n				if i == -1 {\n					return\n				}\n\n				curt = nodes[i]\n				osTop = curt.osTop - 1\n			}\n		}\n\n		os[osTop+1], osTop = res, osTop+1\n	}\n	return os[0], nil"}}},
}

var wave9Witnesses15 = []Witness{
	{Name: "infix-stack-mark-narrowed-to-int8", Rule: "R-WIDTH", Doc: "seeded change C15-i", Edits: []Edit{
		{File: "parser.go", Old: "		l int   // output stack size", New: "		l int8  // output stack size"},
		{File: "parser.go", Old: "					cnt = len(outputStack) - top.l", New: "					cnt = len(outputStack) - int(top.l)"},
		{File: "parser.go", Old: "			operatorStack = append(operatorStack, op{t: car, l: len(outputStack)})\n		case lParen:\n			operatorStack = append(operatorStack, op{t: car, l: len(outputStack)})", New: "			operatorStack = append(operatorStack, op{t: car, l: int8(len(outputStack))})\n		case lParen:\n			operatorStack = append(operatorStack, op{t: car, l: int8(len(outputStack))})"}}},
}

var wave9Witnesses18 = []Witness{
	{Name: "folding-replaces-and-or-by-its-only-non-constant-operand", Rule: "R-FOLDOK", Doc: "seeded change C18-i", Edits: []Edit{
		{File: "compiler.go", Old: "				root.children = nil\n				return\n			}\n		}\n	}\n\n	params := make([]Value, len(root.children))", New: "				root.children = nil\n				return\n			}\n		}\n		var rest []*astNode\n		for _, child := range root.children {\n			if child.node.getNodeType() != constant {\n				rest = append(rest, child)\n			}\n		}\n		if len(rest) == 1 {\n			*root = *rest[0]\n			return\n		}\n	}\n\n	params := make([]Value, len(root.children))"}}},
}


// flagMaskPhiTest matches `node.flag & M == M` (or !=) where M is a phi of two constants chosen by the truth of a
// value accepted by isB (mask := b ? T : F); it returns the constant for b true and for b false.
func flagMaskPhiTest(v ssa.Value, isB func(ssa.Value) bool) (mT, mF int64, eq bool, ok bool) {
	bo, isBO := v.(*ssa.BinOp)
	if !isBO || (bo.Op != token.EQL && bo.Op != token.NEQ) {
		return 0, 0, false, false
	}
	for _, side := range [][2]ssa.Value{{bo.X, bo.Y}, {bo.Y, bo.X}} {
		and, okA := side[0].(*ssa.BinOp)
		mask, okP := side[1].(*ssa.Phi)
		if !okA || !okP || and.Op != token.AND {
			continue
		}
		var flagSide ssa.Value
		switch {
		case and.X == ssa.Value(mask):
			flagSide = and.Y
		case and.Y == ssa.Value(mask):
			flagSide = and.X
		default:
			continue
		}
		if _, okf := loadOfField(flagSide, "node", "flag"); !okf {
			continue
		}
		haveT, haveF := false, false
		good := true
		for i, e := range mask.Edges {
			if e == ssa.Value(mask) {
				continue
			}
			c, okc := constInt(e)
			if !okc {
				good = false
				continue
			}
			pred := mask.Block().Preds[i]
			known := false
			for _, pf := range append(factsAt(pred), factsAtEdgeTo(pred, mask.Block())...) {
				if isB(pf.Cond) {
					known = true
					if pf.Truth {
						mT, haveT = c, true
					} else {
						mF, haveF = c, true
					}
				}
			}
			if !known {
				good = false
			}
		}
		if good && haveT && haveF {
			return mT, mF, bo.Op == token.EQL, true
		}
	}
	return 0, 0, false, false
}

var listValuePhiWitnesses = []Witness{
	{Name: "benign-list-constant-held-in-an-interface-variable", Benign: true, Doc: "benign patch P07_3", Edits: []Edit{
		{File: "parser.go", Old: "		n := &node{flag: constant}\n		if typ == integer {", New: "		var val Value = strs\n		if typ == integer {"},
		{File: "parser.go", Old: "			n.value = ints\n		} else {\n			n.value = strs\n		}\n		p.idx = i + 1\n		return &astNode{\n			node: n,\n		}, nil", New: "			val = ints\n		}\n		p.idx = i + 1\n		return p.valNode(val), nil"}}},
	{Name: "list-constant-held-in-an-interface-variable-gains-a-float-list", Rule: "R-LEAFTYPES", Edits: []Edit{
		{File: "parser.go", Old: "		n := &node{flag: constant}\n		if typ == integer {", New: "		var val Value = strs\n		if len(strs) > 1000 {\n			val = make([]float64, len(strs))\n		} else if typ == integer {"},
		{File: "parser.go", Old: "			n.value = ints\n		} else {\n			n.value = strs\n		}\n		p.idx = i + 1\n		return &astNode{\n			node: n,\n		}, nil", New: "			val = ints\n		}\n		p.idx = i + 1\n		return p.valNode(val), nil"}}},
}

var betweenArrayWitnesses = []Witness{
	{Name: "benign-between-operands-collected-into-an-array", Benign: true, Doc: "benign patch P09_4", Edits: []Edit{
		{File: "operator.go", Old: "\tv, ok := params[0].(int64)\n\tif !ok {\n\t\treturn nil, errTypeInt(between, params[0])\n\t}\n\ta, ok := params[1].(int64)\n\tif !ok {\n\t\treturn nil, errTypeInt(between, params[1])\n\t}\n\tb, ok := params[2].(int64)\n\tif !ok {\n\t\treturn nil, errTypeInt(between, params[2])\n\t}\n", New: "\tvar ints [3]int64\n\tfor i, p := range params {\n\t\tn, ok := p.(int64)\n\t\tif !ok {\n\t\t\treturn nil, errTypeInt(between, p)\n\t\t}\n\t\tints[i] = n\n\t}\n\n\tv, a, b := ints[0], ints[1], ints[2]\n"}}},
	{Name: "between-array-form-value-and-lower-bound-swapped", Rule: "R-FOLD", Edits: []Edit{
		{File: "operator.go", Old: "\tv, ok := params[0].(int64)\n\tif !ok {\n\t\treturn nil, errTypeInt(between, params[0])\n\t}\n\ta, ok := params[1].(int64)\n\tif !ok {\n\t\treturn nil, errTypeInt(between, params[1])\n\t}\n\tb, ok := params[2].(int64)\n\tif !ok {\n\t\treturn nil, errTypeInt(between, params[2])\n\t}\n", New: "\tvar ints [3]int64\n\tfor i, p := range params {\n\t\tn, ok := p.(int64)\n\t\tif !ok {\n\t\t\treturn nil, errTypeInt(between, p)\n\t\t}\n\t\tints[i] = n\n\t}\n\n\tv, a, b := ints[1], ints[0], ints[2]\n"}}},
	{Name: "between-array-form-leaves-the-collecting-loop-early", Rule: "R-FOLD", Edits: []Edit{
		{File: "operator.go", Old: "\tv, ok := params[0].(int64)\n\tif !ok {\n\t\treturn nil, errTypeInt(between, params[0])\n\t}\n\ta, ok := params[1].(int64)\n\tif !ok {\n\t\treturn nil, errTypeInt(between, params[1])\n\t}\n\tb, ok := params[2].(int64)\n\tif !ok {\n\t\treturn nil, errTypeInt(between, params[2])\n\t}\n", New: "\tvar ints [3]int64\n\tfor i, p := range params {\n\t\tn, ok := p.(int64)\n\t\tif !ok {\n\t\t\treturn nil, errTypeInt(between, p)\n\t\t}\n\t\tints[i] = n\n\t\tif i == 1 {\n\t\t\tbreak\n\t\t}\n\t}\n\n\tv, a, b := ints[0], ints[1], ints[2]\n"}}},
}

// ---- R-PASSORDER ----------------------------------------------------------------
//
// optimize runs the passes in the order of the `optimizations` list (R-OPTGATE). Reordering sorts the operands of each
// and/or node; ReduceNesting splices the operands of a nested same-kind and/or into its parent. If the splice came after
// the sort, the flattened node would be a concatenation of separately sorted runs — not a stable cost order of its
// operands (C16), and the evaluation order would depend on nesting that ReduceNesting is meant to erase (C02's "guard
// patterns stay safe" is stated for Reordering off only; with it on, cost order is the contract). So the list — a
// literal of option constants that nothing writes — names ReduceNesting before Reordering.
func rulePassOrder(w *World, r *Report) {
	const rule = "R-PASSORDER"
	r.Rule(rule, "the optimizations list is a constant list that names ReduceNesting before Reordering: operands are sorted only after nested and/or groups were merged", 1)
	list, pos, err := w.StringList("optimizations")
	if err != nil {
		r.Unresolved(rule, err.Error())
		return
	}
	want := map[string]string{}
	for _, nm := range []string{"ReduceNesting", "Reordering"} {
		c := w.ConstObj(nm)
		if c == nil || c.Val().Kind() != constant.String {
			r.Unresolved(rule, "option constant "+nm+" not found")
			return
		}
		want[nm] = constant.StringVal(c.Val())
	}
	idx := func(v string) int {
		for i, x := range list {
			if x == v {
				return i
			}
		}
		return -1
	}
	ri, oi := idx(want["ReduceNesting"]), idx(want["Reordering"])
	r.Check(ri >= 0 && oi >= 0 && ri < oi, rule, w.Pos(pos), "optimizations", fmt.Sprintf("pass order %v", list), "nested and/or groups are merged before operands are sorted",
		"Reordering runs before ReduceNesting (or one of them is missing from the list): separately sorted groups are spliced together afterwards, the flattened and/or is not in cost order and equal-cost operands leave source order")
	// nothing writes the list after initialisation
	if g := w.GlobalVar("optimizations"); g != nil {
		for _, fn := range w.SortedFuncs(funcSet(w.Funcs)) {
			if fn.Name() == "init" && fn.Parent() == nil && fn.Signature.Recv() == nil {
				continue
			}
			EachInstr(fn, func(in ssa.Instruction) {
				st, ok := in.(*ssa.Store)
				if !ok {
					return
				}
				root := st.Addr
				if ia, okia := root.(*ssa.IndexAddr); okia {
					if a, okl := isLoad(ia.X); okl {
						root = a
					}
				}
				if root == ssa.Value(g) {
					r.Fail(rule, w.InstrPos(st), w.Name(fn), "write to the optimizations list", "the pass order is changed at run time")
				}
			})
		}
	}
}

var passOrderWitnesses = []Witness{
	{Name: "reduce-nesting-runs-after-reordering", Rule: "R-PASSORDER", Doc: "seeded change C16-j", Edits: []Edit{
		{File: "compiler.go", Old: "	optimizations = []CompileOption{ConstantFolding, ReduceNesting, FastEvaluation, Reordering}", New: "	optimizations = []CompileOption{ConstantFolding, FastEvaluation, Reordering, ReduceNesting}"}}},
	{Name: "benign-fast-evaluation-before-reduce-nesting", Benign: true, Edits: []Edit{
		{File: "compiler.go", Old: "	optimizations = []CompileOption{ConstantFolding, ReduceNesting, FastEvaluation, Reordering}", New: "	optimizations = []CompileOption{ConstantFolding, FastEvaluation, ReduceNesting, Reordering}"}}},
}

// ---- R-REDUCEALL ----------------------------------------------------------------
//
// R-REDUCEGATE says an operator is reduced ONLY after the arriving token lost the precedence comparison. The converse:
// the reduction goes on for as long as the arriving token loses — the loop of buildTopOperators is left only when the
// operator stack is empty, when `)` met its `(`, when the arriving token binds tighter than the stack top, or with an
// error. Any other way out leaves operators on the stack that the arriving operator should have taken as its left
// operand: `a && !b || c` groups as `a && (!b || c)`.
func ruleReduceAll(w *World, r *Report) {
	const rule = "R-REDUCEALL"
	r.Rule(rule, "the reduction loop of the infix parser is left only with an empty operator stack, after the parenthesis match, on winning the precedence comparison, or with an error", 3)
	pie := w.MustFn(r, rule, "(*parser).parseInfixExpression")
	if pie == nil {
		return
	}
	cmp, reduce := infixClosures(pie)
	if cmp == nil || reduce == nil {
		r.Unresolved(rule, "comparePrecedence / buildTopOperators closures not found")
		return
	}
	// the reduction loop: the outermost loop header of the closure
	var hdr *ssa.BasicBlock
	for _, b := range reduce.Blocks {
		back := false
		for _, p := range b.Preds {
			if b.Dominates(p) {
				back = true
			}
		}
		if back && len(b.Succs) == 2 && (hdr == nil || b.Dominates(hdr)) {
			hdr = b
		}
	}
	if hdr == nil {
		r.Unresolved(rule, "reduction loop not found in "+w.Name(reduce))
		return
	}
	inLoop := func(b *ssa.BasicBlock) bool { return hdr.Dominates(b) && reachable(b, hdr) }
	lp, _ := constStringNamed(w, "lParen")
	rp, _ := constStringNamed(w, "rParen")
	exits := 0
	for _, x := range reduce.Blocks {
		if !inLoop(x) {
			continue
		}
		for k, y := range x.Succs {
			if inLoop(y) {
				continue
			}
			exits++
			what := fmt.Sprintf("exit of the reduction loop at %s", w.InstrPos(x.Instrs[len(x.Instrs)-1]))
			// with an error
			if ret := blockReturn(y); ret != nil && len(ret.Results) == 1 && !isNilConst(ret.Results[0]) {
				r.OK(rule, w.InstrPos(ret), w.Name(reduce), what, "returns an error")
				continue
			}
			// the loop condition (operator stack empty)
			if x == hdr {
				if iff, ok := x.Instrs[len(x.Instrs)-1].(*ssa.If); ok {
					if bo, okb := iff.Cond.(*ssa.BinOp); okb {
						if c, okc := constInt(bo.Y); okc && c == 0 {
							r.OK(rule, w.InstrPos(iff), w.Name(reduce), what, "the operator stack is empty")
							continue
						}
					}
				}
			}
			facts := append(append([]Fact{}, factsAt(x)...), factsAtEdge(x, k)...)
			won, lpar, rpar := false, false, false
			for _, f := range facts {
				if call, stopTruth, ok := cmpStopFact(f.Cond, cmp); ok && f.Truth == stopTruth {
					if na := len(call.Call.Args); na >= 2 && varRoot(call.Call.Args[na-2]) == reduce.Params[0] {
						won = true
					}
				}
				if bo, ok := f.Cond.(*ssa.BinOp); ok && bo.Op == token.EQL && f.Truth {
					if _, okf := loadOfField(bo.X, "token", "typ"); okf {
						if s, oks := constString(bo.Y); oks {
							if s == lp {
								lpar = true
							}
							if s == rp {
								rpar = true
							}
						}
					}
				}
			}
			r.Check(won || (lpar && rpar), rule, w.InstrPos(x.Instrs[len(x.Instrs)-1]), w.Name(reduce), what,
				"taken on winning the precedence comparison, or after `)` met `(`",
				"the reduction can stop although the arriving token still loses against the operator on top of the stack: that operator is left for later and takes the wrong left operand (precedence and left associativity are lost)")
		}
	}
	if exits == 0 {
		r.Unresolved(rule, "the reduction loop has no exit")
	}
}

var wave10Witnesses15 = []Witness{
	{Name: "reduction-stops-after-a-prefix-operator", Rule: "R-REDUCEALL", Doc: "seeded change C15-j", Edits: []Edit{
		{File: "parser.go", Old: "				push(ast)\n			}\n			return nil\n		}\n	)", New: "				push(ast)\n\n				if p.getInfixOpInfo(top.t.val).childCount == 1 && car.typ == ident {\n					break\n				}\n			}\n			return nil\n		}\n	)"}}},
}

var wave10Witnesses14 = []Witness{
	{Name: "lexer-doubled-quote-continues-the-string", Rule: "R-FMTCLASS", Doc: "seeded change C14-j", Edits: []Edit{
		{File: "parser.go", Old: "				if A[i] == '\"' {\n					i++\n					return string(A[start:i]), nil\n				}", New: "				if A[i] == '\"' {\n					if i > start+1 && i+1 < len(A) && A[i+1] == '\"' {\n						i++\n						continue\n					}\n					i++\n					return string(A[start:i]), nil\n				}"}}},
}

var errPathWitnesses = []Witness{
	{Name: "benign-version-error-tests-merged-into-one-failure-return", Benign: true, Doc: "benign patch N10_2 (the part that concerns R-ERRDROP)", Edits: []Edit{
		{File: "operator.go", Old: "			if err != nil {\n				return nil, OpExecError(modeNames[c.mode], fmt.Errorf(\"version layout error, %s\", s))\n			}\n			if v >= 10000 {\n				return nil, OpExecError(modeNames[c.mode], fmt.Errorf(\"version layout error, %s\", s))\n			}", New: "			if err != nil || v >= 10000 {\n				return nil, OpExecError(modeNames[c.mode], fmt.Errorf(\"version layout error, %s\", s))\n			}"}}},
	{Name: "missing-close-paren-is-tested-and-ignored", Rule: "R-ERRDROP", Doc: "guard-deletion mutant of the mutation run (ifdel) in its source form", Edits: []Edit{
		{File: "parser.go", Old: "	err = p.eat(rParen)\n	if err != nil {\n		return nil, err\n	}\n\n	return p.buildParentNode(car, children)", New: "	err = p.eat(rParen)\n	if err != nil {\n		p.idx = len(p.tokens)\n	}\n\n	return p.buildParentNode(car, children)"}}},
	{Name: "benign-close-paren-error-test-inverted", Benign: true, Edits: []Edit{
		{File: "parser.go", Old: "	err = p.eat(rParen)\n	if err != nil {\n		return nil, err\n	}\n\n	return p.buildParentNode(car, children)", New: "	err = p.eat(rParen)\n	if err == nil {\n		return p.buildParentNode(car, children)\n	}\n	return nil, err"}}},
}
