package main

// Rules added after the seventh and eighth seeding waves.

import (
	"fmt"

	"golang.org/x/tools/go/ssa"
)

// ---- R-NODEFRESH ----------------------------------------------------------------
//
// The compile-time tables live IN the node records: calAndSetNodes / calAndSetStackSize / calAndSetShortCircuit(ForRCO)
// write childCnt, osTop, scIdx and the short-circuit and parent-operator flag bits of the position a node occupies.
// A node record that sits at two positions of one program (or of two programs) gets the union of the flags and the
// target of whichever position was written last. Every tree position must therefore own its node record:
// whatever is stored into astNode.node is a node allocated right there (a `&node{…}` of the same function
// activation), stored into exactly one astNode, and not kept anywhere else (no cache, no map, no field).
func ruleNodeFresh(w *World, r *Report) {
	const rule = "R-NODEFRESH"
	r.Rule(rule, "every store into astNode.node stores a node record allocated by the same activation, which is stored into no other astNode and kept in no other container: each position of the program owns the record the compile-time tables are written into", 3)
	isNodeAlloc := func(v ssa.Value) (*ssa.Alloc, bool) {
		al, ok := v.(*ssa.Alloc)
		if !ok || !al.Heap {
			return nil, false
		}
		return al, typeNameOf(deref(al.Type())) == "node"
	}
	for _, fn := range w.SortedFuncs(funcSet(w.Funcs)) {
		EachInstr(fn, func(in ssa.Instruction) {
			st, ok := in.(*ssa.Store)
			if !ok {
				return
			}
			tn, fld, _, okf := fieldOf(st.Addr)
			if !okf || tn != "astNode" || fld != "node" {
				return
			}
			what := fmt.Sprintf("astNode.node = %s", describe(st.Val))
			al, fresh := isNodeAlloc(st.Val)
			if !fresh {
				r.Check(false, rule, w.InstrPos(st), w.Name(fn), what, "",
					"the record put at this position is not allocated here (it comes from a lookup, a field, a parameter or another call): two positions can share one record, and the flags, jump target and stack slot written for one position overwrite the other's")
				return
			}
			// the same record is put into one astNode only, once per allocation, and escapes nowhere else
			okOnce, why := true, ""
			for _, ref := range *al.Referrers() {
				switch x := ref.(type) {
				case *ssa.Store:
					if x.Val != ssa.Value(al) {
						continue
					}
					if x == st {
						continue
					}
					okOnce, why = false, "the record is also stored at "+w.InstrPos(x)
				case *ssa.MapUpdate:
					if x.Value == ssa.Value(al) || x.Key == ssa.Value(al) {
						okOnce, why = false, "the record is also kept in a map at "+w.InstrPos(x)
					}
				case *ssa.MakeInterface, *ssa.Send:
					okOnce, why = false, "the record also escapes at "+w.InstrPos(ref)
				case *ssa.Phi:
					okOnce, why = false, "the record is merged with other records at "+w.InstrPos(ref)
				}
			}
			if okOnce && st.Block() != al.Block() {
				// the store must not be able to repeat without a new allocation
				avoid := func(b *ssa.BasicBlock) bool { return b == al.Block() }
				for _, sx := range st.Block().Succs {
					if sx == al.Block() {
						continue
					}
					if sx == st.Block() || reachableAvoiding(sx, st.Block(), avoid) {
						okOnce, why = false, "the store can execute several times for one allocation"
					}
				}
			}
			r.Check(okOnce, rule, w.InstrPos(st), w.Name(fn), what, "a record allocated by this activation, stored here and nowhere else", why+": two positions can share one record, and the flags, jump target and stack slot written for one position overwrite the other's")
		})
	}
}


// ---- R-LEAFFIRST ----------------------------------------------------------------
//
// In prefix notation an identifier in operand position is a leaf (constant, variable) whatever else carries the same
// name; only the first element of a list is looked up as an operator. The infix parser gets the same reading by trying
// the leaf parsers first at every token: a token is consumed as an operator / bracket / comma (p.next() in the main
// loop) only after buildLeafNode has declined it in the same iteration.
func ruleLeafFirst(w *World, r *Report) {
	const rule = "R-LEAFFIRST"
	r.Rule(rule, "in the infix parser's main loop a token is taken as an operator (p.next()) only on the edge where buildLeafNode returned no leaf for it: names resolve as in prefix notation, constant > variable > operator", 1)
	fn := w.MustFn(r, rule, "(*parser).parseInfixExpression")
	if fn == nil {
		return
	}
	n := 0
	EachInstr(fn, func(in ssa.Instruction) {
		c, ok := in.(*ssa.Call)
		if !ok || c.Call.StaticCallee() == nil || nm(c.Call.StaticCallee()) != "next" {
			return
		}
		n++
		declined := false
		for _, f := range factsAt(c.Block()) {
			x, isNil, okn := factIsNil(f)
			if !okn || !isNil {
				continue
			}
			if ex, okx := x.(*ssa.Extract); okx && ex.Index == 0 {
				if lc, okc := ex.Tuple.(*ssa.Call); okc && lc.Call.StaticCallee() != nil && nm(lc.Call.StaticCallee()) == "buildLeafNode" {
					declined = true
				}
			}
		}
		r.Check(declined, rule, w.InstrPos(c), w.Name(fn), "p.next() in the main loop", "reached only after buildLeafNode() returned nil for the same token",
			"a token can be consumed as an operator without the leaf parsers having been tried: a constant or variable named like an operator or keyword is read as a call in infix notation and as a value in prefix notation")
	})
	if n == 0 {
		r.Unresolved(rule, "no p.next() call in parseInfixExpression")
	}
}

var nodeFreshWitnesses = []Witness{
	{Name: "named-constant-shares-one-node-per-expression", Rule: "R-NODEFRESH", Doc: "seeded changes C01-h / C03-h", Edits: []Edit{
		{File: "parser.go", Old: "	leafNodeParser []func() (*astNode, error)\n}", New: "	leafNodeParser []func() (*astNode, error)\n	constNodes     map[string]*node\n}"},
		{File: "parser.go", Old: "	if val, ok := p.conf.ConstantMap[t.val]; ok {\n		p.walk()\n		return p.valNode(val), nil\n	}\n	return nil, nil", New: "	if n, ok := p.constNodes[t.val]; ok {\n		p.walk()\n		return &astNode{node: n}, nil\n	}\n	if val, ok := p.conf.ConstantMap[t.val]; ok {\n		p.walk()\n		ast := p.valNode(val)\n		if p.constNodes == nil {\n			p.constNodes = make(map[string]*node)\n		}\n		p.constNodes[t.val] = ast.node\n		return ast, nil\n	}\n	return nil, nil"}}},
	{Name: "literal-true-false-nodes-are-package-singletons", Rule: "R-NODEFRESH", Edits: []Edit{
		{File: "parser.go", Old: "func (p *parser) valNode(v Value) *astNode {\n	return &astNode{\n		node: &node{\n			flag:  constant,\n			value: v,\n		},\n	}\n}", New: "var sharedNil = &node{flag: constant}\n\nfunc (p *parser) valNode(v Value) *astNode {\n	if v == nil {\n		return &astNode{node: sharedNil}\n	}\n	return &astNode{\n		node: &node{\n			flag:  constant,\n			value: v,\n		},\n	}\n}"}}},
	{Name: "benign-valnode-builds-node-first", Benign: true, Edits: []Edit{
		{File: "parser.go", Old: "func (p *parser) valNode(v Value) *astNode {\n	return &astNode{\n		node: &node{\n			flag:  constant,\n			value: v,\n		},\n	}\n}", New: "func (p *parser) valNode(v Value) *astNode {\n	n := &node{flag: constant}\n	n.value = v\n	res := &astNode{}\n	res.node = n\n	return res\n}"}}},
}

var leafFirstWitnesses = []Witness{
	{Name: "infix-operator-names-skip-the-leaf-parsers", Rule: "R-LEAFFIRST", Doc: "seeded change C15-h", Edits: []Edit{
		{File: "parser.go", Old: "	for p.hasNext() {\n		ast, err := p.buildLeafNode()\n		if err != nil {\n			return nil, err\n		}\n		if ast != nil {\n			push(ast)\n			continue\n		}\n\n		car, err := p.next()", New: "	for p.hasNext() {\n		if _, isOp := p.getOperator(p.tokens[p.idx].val); !isOp {\n			ast, err := p.buildLeafNode()\n			if err != nil {\n				return nil, err\n			}\n			if ast != nil {\n				push(ast)\n				continue\n			}\n		}\n\n		car, err := p.next()"}}},
	{Name: "benign-infix-leaf-attempt-respelled", Benign: true, Edits: []Edit{
		{File: "parser.go", Old: "		ast, err := p.buildLeafNode()\n		if err != nil {\n			return nil, err\n		}\n		if ast != nil {\n			push(ast)\n			continue\n		}\n\n		car, err := p.next()", New: "		leaf, lerr := p.buildLeafNode()\n		switch {\n		case lerr != nil:\n			return nil, lerr\n		case leaf != nil:\n			push(leaf)\n			continue\n		}\n\n		car, err := p.next()"}}},
}

// ---- R-WRAPALL ------------------------------------------------------------------
//
// "Every operator application is reported": when events are installed, every node of kind operator AND every node of
// kind fastOperator gets the OP_EXEC wrapper. Path rule over one iteration of calAndSetEventNode's node loop: tracking
// the set of kinds the current node can still have (refined at every test of its kind), no path reaches the end of the
// iteration with operator or fastOperator still possible unless it passed a store into that node's `operator` field.
func ruleWrapAll(w *World, r *Report) {
	const rule = "R-WRAPALL"
	r.Rule(rule, "in calAndSetEventNode every path through one iteration of the node loop on which the node can be an operator or a fast operator stores the event wrapper into node.operator", 1)
	fn := w.MustFn(r, rule, "calAndSetEventNode")
	if fn == nil {
		return
	}
	k := loadNodeKinds(w)
	var stores []*ssa.Store
	EachInstr(fn, func(in ssa.Instruction) {
		if st, ok := in.(*ssa.Store); ok {
			if tn, fld, _, okf := fieldOf(st.Addr); okf && tn == "node" && fld == "operator" {
				stores = append(stores, st)
			}
		}
	})
	if len(stores) == 0 {
		r.Unresolved(rule, "no store into node.operator in calAndSetEventNode")
		return
	}
	// the innermost loop header around the first wrapper store
	var hdr *ssa.BasicBlock
	for _, b := range fn.Blocks {
		if len(b.Succs) == 2 && b.Dominates(stores[0].Block()) && reachable(stores[0].Block(), b) {
			back := false
			for _, p := range b.Preds {
				if b.Dominates(p) {
					back = true
				}
			}
			if back && (hdr == nil || hdr.Dominates(b)) {
				hdr = b
			}
		}
	}
	if hdr == nil {
		r.Unresolved(rule, "node loop of calAndSetEventNode not found")
		return
	}
	wraps := map[*ssa.BasicBlock]bool{}
	for _, st := range stores {
		wraps[st.Block()] = true
	}
	type state struct {
		b        *ssa.BasicBlock
		op, fast bool
	}
	var bad *state
	for _, body := range hdr.Succs {
		if !reachable(body, hdr) {
			continue
		}
		start := state{body, true, true}
		seen := map[state]bool{start: true}
		stack := []state{start}
		for len(stack) > 0 && bad == nil {
			x := stack[len(stack)-1]
			stack = stack[:len(stack)-1]
			if wraps[x.b] {
				continue
			}
			for _, sx := range x.b.Succs {
				nx := state{sx, x.op, x.fast}
				for _, f := range factsAtEdgeTo(x.b, sx) {
					if _, c, isEq, ok := k.kindTest(f.Cond); ok {
						if isEq == f.Truth {
							nx.op = nx.op && c == k.operator
							nx.fast = nx.fast && c == k.fastOperator
						} else {
							if c == k.operator {
								nx.op = false
							}
							if c == k.fastOperator {
								nx.fast = false
							}
						}
					}
				}
				if !nx.op && !nx.fast {
					continue
				}
				if sx == hdr || !reachable(sx, hdr) {
					cp := x
					cp.op, cp.fast = nx.op, nx.fast
					bad = &cp
					break
				}
				if !seen[nx] {
					seen[nx] = true
					stack = append(stack, nx)
				}
			}
		}
	}
	what, where := "", w.Pos(fn.Pos())
	if bad != nil {
		if len(bad.b.Instrs) > 0 {
			where = w.InstrPos(bad.b.Instrs[len(bad.b.Instrs)-1])
		}
		if bad.op {
			what = "operator"
		}
		if bad.fast {
			if what != "" {
				what += " / "
			}
			what += "fastOperator"
		}
	}
	r.Check(bad == nil, rule, where, w.Name(fn), "event wrapper installed for every operator and fast-operator node", "every path of an iteration on which the node can be an operator or a fast operator stores the wrapper",
		"an iteration of the node loop can end for a node of kind "+what+" without the event wrapper being stored into it: applications of such operators are not reported")
}

var wrapAllWitnesses = []Witness{
	{Name: "plain-operators-get-no-event-wrapper", Rule: "R-WRAPALL", Doc: "mechanical mutant (statement dropped) that survives the suite", Edits: []Edit{
		{File: "compiler.go", Old: "		case operator:\n			realNode.operator = wrapOpEvent(realNode)\n		case fastOperator:", New: "		case operator:\n		case fastOperator:"}}},
	{Name: "event-wrapper-only-for-nodes-with-operands", Rule: "R-WRAPALL", Edits: []Edit{
		{File: "compiler.go", Old: "		case operator:\n			realNode.operator = wrapOpEvent(realNode)\n		case fastOperator:", New: "		case operator:\n			if realNode.childCnt > 0 {\n				realNode.operator = wrapOpEvent(realNode)\n			}\n		case fastOperator:"}}},
	{Name: "benign-event-wrapper-stored-before-the-kind-switch", Benign: true, Edits: []Edit{
		{File: "compiler.go", Old: "		switch realNode.flag & nodeTypeMask {\n		case operator:\n			realNode.operator = wrapOpEvent(realNode)\n		case fastOperator:\n			realNode.operator = wrapOpEvent(realNode)\n			// append", New: "		if kind := realNode.flag & nodeTypeMask; kind == operator || kind == fastOperator {\n			realNode.operator = wrapOpEvent(realNode)\n		}\n		switch realNode.flag & nodeTypeMask {\n		case fastOperator:\n			// append"}}},
}

// mechanical "statement dropped" mutants that survive the pinned suite (tools/mutate_run.sh del), one per clause they led to
var delWitnessesC06 = []Witness{
	{Name: "parse-ignores-the-directive-error", Rule: "R-ERRDROP", Edits: []Edit{
		{File: "parser.go", Old: "	err = p.parseConfig()\n", New: "	_ = p.parseConfig()\n"}}},
	{Name: "infix-ignores-the-reduction-error-at-a-comma", Rule: "R-ERRDROP", Edits: []Edit{
		{File: "parser.go", Old: "		case comma:\n			err = buildTopOperators(car)\n", New: "		case comma:\n			_ = buildTopOperators(car)\n"}}},
}

var delWitnessesC11 = []Witness{
	{Name: "map-fetcher-branch-forgets-to-assign", Rule: "R-FETCHGATE", Edits: []Edit{
		{File: "variable.go", Old: "	} else {\n		fetcher = NewMapVarFetcher(vals)\n	}", New: "	} else {\n		_ = NewMapVarFetcher(vals)\n	}"}}},
}

var delWitnessesC13 = []Witness{
	{Name: "dump-if-selection-thrown-away", Rule: "R-IFLAYOUT", Edits: []Edit{
		{File: "util.go", Old: "			res = []int16{\n				res[0], // condition node", New: "			_ = []int16{\n				res[0], // condition node"}}},
}

var delWitnessesC12 = []Witness{
	{Name: "fast-operand-position-not-recorded", Rule: "R-EVREMAP", Edits: []Edit{
		{File: "compiler.go", Old: "			realIdxes[i+1] = int16(len(res) - 2)\n", New: "			_ = int16(len(res) - 2)\n"}}},
}
