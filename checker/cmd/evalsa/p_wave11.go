package main

import (
	"go/types"

	"golang.org/x/tools/go/ssa"
)

// ---- R-TRYSCMUST ----------------------------------------------------------------
//
// Sibling of R-SCMUST for the other evaluator. TryEval decides "does this result propagate upward" with
// matchesShortCircuit(res, node) instead of flag bits. The rule: a step's result is pushed (evaluation goes on with the
// next operand of the same parent) only over an edge on which matchesShortCircuit(<the pushed result>, _) was last
// seen false — the exit of the climbing loop, or the escape out of an if-condition. Without it an unavailable (DNE)
// condition value is pushed and handed to the if/fi closure, which is not behind the DNE gate of the operator proxy:
// `(if x a b)` with x unavailable then fails or picks a branch instead of answering "unknown"; and decided and/or
// operands stop skipping their siblings.
func ruleTryScMust(w *World, r *Report) {
	const rule = "R-TRYSCMUST"
	r.Rule(rule, "in TryEval a step's result is pushed only over an edge on which matchesShortCircuit(result, node) was false: a propagating result (decided and/or operand, unavailable value) always climbs", 1)
	fn := w.MustFn(r, rule, "(*Expr).TryEval")
	msc := w.MustFn(r, rule, "matchesShortCircuit")
	if fn == nil || msc == nil {
		return
	}
	var pushes []*ssa.Store
	EachInstr(fn, func(in ssa.Instruction) {
		st, ok := in.(*ssa.Store)
		if !ok {
			return
		}
		ia, ok := st.Addr.(*ssa.IndexAddr)
		if !ok {
			return
		}
		sl, ok := ia.X.Type().Underlying().(*types.Slice)
		if !ok || typeNameOf(sl.Elem()) != "Value" {
			return
		}
		if _, isPhi := st.Val.(*ssa.Phi); !isPhi {
			return
		}
		pushes = append(pushes, st)
	})
	if len(pushes) == 0 {
		r.Unresolved(rule, "push of the step result not found in "+w.Name(fn))
		return
	}
	for _, st := range pushes {
		ok := everyEdgeInto(st.Block(), func(facts []Fact) bool {
			return someFact(facts, func(f Fact) bool {
				c, isCall := f.Cond.(*ssa.Call)
				if !isCall || f.Truth || c.Call.StaticCallee() != msc || len(c.Call.Args) != 2 {
					return false
				}
				return c.Call.Args[0] == st.Val
			})
		})
		r.Check(ok, rule, w.InstrPos(st), w.Name(fn), "os[osTop+1] = res (evaluation goes on)", "only over edges where matchesShortCircuit(res, node) was false", "a result that matchesShortCircuit says must propagate can be pushed instead of climbing: an unavailable if-condition reaches the if/fi closure (not behind the operator proxy's DNE gate), decided and/or operands no longer skip their siblings")
	}
}

var tryScMustWitnesses = []Witness{
	{Name: "tryeval-climb-stops-at-constants", Rule: "R-TRYSCMUST", Edits: []Edit{
		{File: "engine.go", Old: "		for matchesShortCircuit(res, curt) {\n			// jump to parent node", New: "		for matchesShortCircuit(res, curt) && curt.flag&nodeTypeMask != constant {\n			// jump to parent node"}}},
	{Name: "tryeval-cond-escape-unconditional", Rule: "R-TRYSCMUST", Edits: []Edit{
		{File: "engine.go", Old: "			if curt.flag&nodeTypeMask == cond &&\n				!matchesShortCircuit(res, curt) {", New: "			if curt.flag&nodeTypeMask == cond {"}}},
	{Name: "tryeval-climb-only-for-dne", Rule: "R-TRYSCMUST", Edits: []Edit{
		{File: "engine.go", Old: "		for matchesShortCircuit(res, curt) {\n			// jump to parent node", New: "		for res == DNE && matchesShortCircuit(res, curt) {\n			// jump to parent node"}}},
	{Name: "benign-tryeval-climb-as-endless-loop-with-break", Benign: true, Edits: []Edit{
		{File: "engine.go", Old: "		for matchesShortCircuit(res, curt) {\n			// jump to parent node", New: "		for {\n			if !matchesShortCircuit(res, curt) {\n				break\n			}\n			// jump to parent node"}}},
}
