package main

// The C06 panic-site ledger: enumeration of every instruction that can panic
// and its single verdict.

import (
	"fmt"
	"go/ast"
	"go/token"
	"go/types"
	"os"
	"sort"
	"strings"

	"golang.org/x/tools/go/ssa"
)

type ledger struct {
	w      *World
	r      *Report
	set    map[*ssa.Function]bool
	bc     *boundsCtx
	kinds  nodeKinds
	counts map[string]int
	byKind map[string]int
}

func newLedger(w *World, r *Report, set map[*ssa.Function]bool) *ledger {
	return &ledger{w: w, r: r, set: set, bc: newBoundsCtx(w), kinds: loadNodeKinds(w), counts: map[string]int{}, byKind: map[string]int{}}
}

// frozenTable: input-facing sites whose safety needs an argument the guard
// dataflow does not make. Each entry was confirmed by reading the code; the
// key is function + obligation kind + operand shape (never a line number).
var frozenTable = map[string]string{
	// the leaf parsers run in a fixed order (R-LEAFORDER); parseInt is first and returns an error unless hasNext(),
	// so when the list parser (last in the list) runs, p.idx < len(p.tokens) still holds: no leaf parser before it
	// consumed a token without returning.
	"(*parser).parseList$1|index|$1.tokens[$1.idx]": "buildLeafNode calls the leaf parsers in list order and returns at the first answer; parseInt (first) fails unless p.idx < len(p.tokens), and a parser that walks returns a node, so the list parser (installed last) is entered with p.idx in range",
	// errNoNextToken passes len(source)-1, pos() clamps i into [0, len(A)) and returns early for empty A
	"(*parser).pos|index|$1[$2]":      "i is clamped to 0 unless 0 <= i < len(A), and the function returns before this point when len(A) == 0",
	"(*parser).pos|slice|$1[0:$2]":    "0 <= i < len(A) after the clamp",
	"(*parser).pos|slice|$1[$2:$3]":   "l = i - 30 >= 0 on this branch and i < len(A)",
	"(*parser).pos|slice|$1[$2+1:]":   "reached only when i < len(A)-1",
	"(*parser).pos|slice|$1[$2+1:$3]": "reached only when r = i+30 <= len(A)-1 and i+1 <= r",
	"(*parser).lex|slice|$1[1:]":      "reached only under strings.HasPrefix(t, \"!\"): len(t) >= 1",
	// lexer cursor: start <= i <= len(A). i starts at 0 and only ever advances by one, either under the loop guard
	// i < len(A) or right after a rune at i was read (i < len(A) there), so i <= len(A); start is a copy of an
	// earlier i (or i+1 under i < len(A)), and i never decreases.
	"(*parser).lex$1|slice|$1[$2:$2]":        "comment scan: start is the value of i at entry, the loop only increments i under i < len(A): start <= i <= len(A)",
	"(*parser).lex$3|slice|$1[$2:$3]":        "token scan: start <= i <= len(A) (start follows i past leading spaces, one step at a time, each under i < len(A); the final i += 1 happens only when start == i < len(A))",
	"(*parser).lex|slice|lex$3()#0[1:len-1]": "reached only under strings.HasPrefix(t, `\"`): such a token comes from the string scanner, which returns A[start:i] only after it advanced past the opening quote and consumed a closing quote: len(t) >= 2",
	// fetchVariableValueProxy is called from TryEval's variable arm (kind == variable) and from getNodeValueProxy's
	// non-constant arm, which is applied only to the two leaf children of a fast operator (C05 R-FASTPROXY); by R-KIND
	// a leaf that is not a constant is a variable, whose value is its name.
	"fetchVariableValueProxy|assert|$1.value.(string)": "n is a variable node at both call sites (TryEval's variable arm; the non-constant leaf child of a fast operator, C05 R-FASTPROXY + C01 R-KIND)",
	// (the slice-backed fetcher used to be listed here: it tested only the upper bound of its key and relied on
	// NewCtxFromVars never choosing it for negative keys; used directly with an undefined-variable program it panicked —
	// D18, repaired in /repo aff66af. Get/Set/Cached now carry their own lower-bound test and are proven by the dataflow.)
}

func (l *ledger) scan(fn *ssa.Function) {
	name := l.w.Name(fn)
	gov, isGov := invariantGoverned[name]
	// an extracted helper (one static call, used nowhere else) of an invariant-governed function is governed by the
	// same invariant: its index operands are the caller's
	for g, depth := fn, 0; !isGov && depth < 4; depth++ {
		c := l.w.UniqueCall(g)
		if c == nil {
			break
		}
		g = c.Parent()
		if why, ok := invariantGoverned[l.w.Name(g)]; ok {
			gov, isGov = why+" (through its extracted helper)", true
		}
	}
	var br *boundsResult
	getBR := func() *boundsResult {
		if br == nil {
			br = l.bc.analyse(fn)
		}
		return br
	}
	EachInstr(fn, func(in ssa.Instruction) {
		kind, what, shape := "", "", ""
		var check func() (bool, string)
		switch x := in.(type) {
		case *ssa.IndexAddr:
			kind = "index"
			what = describe(x)
			shape = shapeOf(x.X) + "[" + shapeOf(x.Index) + "]"
			check = func() (bool, string) {
				if ok, why := l.paramsConstIndex(fn, x); ok {
					return true, why
				}
				if ok, why := l.enumIndex(x); ok {
					return true, why
				}
				if ok, why := l.sortLessIndex(fn, x); ok {
					return true, why
				}
				return getBR().indexInRange(x, x.X, x.Index)
			}
		case *ssa.Index:
			// arrays, and strings: x/tools v0.29 represents s[i] on a string as Index (Lookup is for maps)
			if _, isArr := x.X.Type().Underlying().(*types.Array); isArr || isStringLike(x.X.Type()) {
				kind = "index"
				what = describe(x)
				shape = shapeOf(x.X) + "[" + shapeOf(x.Index) + "]"
				check = func() (bool, string) {
					if ok, why := literalStringElemIndex(x); ok {
						return true, why
					}
					return getBR().indexInRange(x, x.X, x.Index)
				}
			}
		case *ssa.Lookup:
			if isStringLike(x.X.Type()) {
				kind = "index"
				what = describe(x)
				shape = shapeOf(x.X) + "[" + shapeOf(x.Index) + "]"
				check = func() (bool, string) { return getBR().indexInRange(x, x.X, x.Index) }
			}
		case *ssa.Slice:
			if x.Low == nil && x.High == nil {
				return
			}
			kind = "slice"
			what = describe(x)
			shape = shapeOf(x.X) + "[" + shapeOpt(x.Low) + ":" + shapeOpt(x.High) + "]"
			check = func() (bool, string) { return getBR().sliceInRange(x) }
		case *ssa.TypeAssert:
			if x.CommaOk {
				return
			}
			kind = "assert"
			what = describe(x)
			shape = shapeOf(x.X) + ".(" + types.TypeString(x.AssertedType, relTo) + ")"
			check = func() (bool, string) { return l.assertSafe(x) }
		case *ssa.MakeSlice:
			if _, ok := constInt(x.Len); ok {
				return
			}
			kind = "make"
			what = describe(x)
			shape = "make(" + shapeOf(x.Len) + ")"
			check = func() (bool, string) { return getBR().nonNegative(x, x.Len) }
		case *ssa.BinOp:
			switch x.Op {
			case token.QUO, token.REM:
				bt, ok := x.Type().Underlying().(*types.Basic)
				if !ok || bt.Info()&types.IsInteger == 0 {
					return
				}
				kind = "div"
				what = describe(x)
				shape = what
				check = func() (bool, string) { return l.divSafe(x) }
			case token.EQL, token.NEQ:
				if !types.IsInterface(x.X.Type()) || !types.IsInterface(x.Y.Type()) || isNilConst(x.X) || isNilConst(x.Y) {
					return
				}
				if isErrorType(x.X.Type()) {
					return
				}
				kind = "ifaceeq"
				what = describe(x)
				shape = what
				check = func() (bool, string) { return l.ifaceEqSafe(x) }
			default:
				return
			}
		case *ssa.Call:
			if !isDynamicCall(&x.Call) || x.Call.IsInvoke() {
				return
			}
			kind = "nilcall"
			what = describeCall(&x.Call, 3)
			shape = shapeOf(x.Call.Value)
			check = func() (bool, string) { return l.funcValueNonNil(x) }
		default:
			return
		}
		if kind == "" {
			return
		}
		l.byKind[kind]++
		pos := l.w.InstrPos(in)
		const rule = "R-PANIC"
		// trivially safe forms first, also in invariant-governed code
		ok, why := check()
		if ok {
			l.counts["discharged"]++
			l.r.OK(rule, pos, name, kind+": "+what, why)
			return
		}
		// the invariants govern the program tables (node vectors, operand stack, index tables), never text: a string that is
		// indexed or cut in one of these functions is data (a label, a rendered value) and needs its own proof
		if isGov && (kind == "index" || kind == "slice" || kind == "make") && !stringBased(in) {
			l.counts["invariant-governed"]++
			l.r.Undecided(rule, pos, name, kind+": "+what, "invariant-governed ("+gov+"); "+why)
			return
		}
		shape, ashape := plainShape(shape), alphaShape(shape)
		if reason, okf := frozenTable[name+"|"+kind+"|"+ashape]; okf {
			l.counts["frozen-table"]++
			l.r.Add(Obligation{Rule: rule, Pos: pos, Func: name, What: kind + ": " + what, Verdict: Discharged, Why: "frozen table [" + shape + "]: " + reason})
			return
		}
		l.counts["violated"]++
		l.r.Fail(rule, pos, name, kind+": "+what, "input-facing site with no proof that it cannot panic ("+why+"); shape "+shape)
	})
}

// literalStringElemIndex: pair[k] with a constant k where pair is an element of a slice literal whose elements are all
// constant strings longer than k (`for _, pair := range []string{"[]", "()"} { pair[0] … pair[1] }`).
func literalStringElemIndex(x *ssa.Index) (bool, string) {
	k, ok := constInt(x.Index)
	if !ok || k < 0 || !isStringLike(x.X.Type()) {
		return false, ""
	}
	addr, ok := isLoad(x.X)
	if !ok {
		return false, ""
	}
	ia, ok := addr.(*ssa.IndexAddr)
	if !ok {
		return false, ""
	}
	sl, ok := ia.X.(*ssa.Slice)
	if !ok || sl.Low != nil || sl.High != nil {
		return false, ""
	}
	al, ok := sl.X.(*ssa.Alloc)
	if !ok {
		return false, ""
	}
	n, ok := constLenOf(deref(al.Type()))
	if !ok {
		return false, ""
	}
	// the array behind the literal: only element stores of constant strings and the one slicing
	set := map[int64]bool{}
	for _, ref := range referrers(al) {
		switch r := ref.(type) {
		case *ssa.Slice:
			if r != sl {
				return false, ""
			}
		case *ssa.IndexAddr:
			idx, okc := constInt(r.Index)
			if !okc {
				return false, ""
			}
			for _, rr := range referrers(r) {
				st, isSt := rr.(*ssa.Store)
				if !isSt || st.Addr != ssa.Value(r) {
					return false, ""
				}
				str, isStr := constString(st.Val)
				if !isStr || int64(len(str)) <= k {
					return false, ""
				}
				set[idx] = true
			}
		default:
			return false, ""
		}
	}
	// the slice itself is only ranged over / indexed (never written through)
	for _, ref := range referrers(sl) {
		switch r := ref.(type) {
		case *ssa.IndexAddr:
			for _, rr := range referrers(r) {
				if st, isSt := rr.(*ssa.Store); isSt && st.Addr == ssa.Value(r) {
					return false, ""
				}
			}
		case *ssa.Call:
			if b, isB := r.Call.Value.(*ssa.Builtin); !isB || b.Name() != "len" {
				return false, ""
			}
		case *ssa.DebugRef:
		default:
			return false, ""
		}
	}
	if int64(len(set)) != int64(n) {
		return false, ""
	}
	return true, fmt.Sprintf("element of a slice literal whose %d elements are all constant strings longer than %d", n, k)
}

// stringBased: the instruction indexes or slices a string.
func stringBased(in ssa.Instruction) bool {
	switch x := in.(type) {
	case *ssa.Lookup:
		return isStringLike(x.X.Type())
	case *ssa.Index:
		return isStringLike(x.X.Type())
	case *ssa.Slice:
		return isStringLike(x.X.Type())
	}
	return false
}

// plainShape strips the markers around local names (for messages).
func plainShape(s string) string {
	return strings.NewReplacer("\x01", "", "\x02", "").Replace(s)
}

// alphaShape replaces every local name by a positional placeholder ($1, $2, … in order of first
// occurrence), so that frozen-table keys survive a consistent renaming of locals and parameters.
func alphaShape(s string) string {
	var b strings.Builder
	names := map[string]string{}
	for i := 0; i < len(s); i++ {
		if s[i] != '\x01' {
			b.WriteByte(s[i])
			continue
		}
		j := strings.IndexByte(s[i:], '\x02')
		if j < 0 {
			break
		}
		n := s[i+1 : i+j]
		if _, ok := names[n]; !ok {
			names[n] = fmt.Sprintf("$%d", len(names)+1)
		}
		b.WriteString(names[n])
		i += j
	}
	return b.String()
}

func (l *ledger) summary() {
	l.r.Extra["ledger_verdicts"] = l.counts
	l.r.Extra["ledger_site_kinds"] = l.byKind
	var keys []string
	for k := range frozenTable {
		keys = append(keys, k)
	}
	sort.Strings(keys)
	l.r.Extra["frozen_table"] = frozenTable
}

// shapeOf renders an operand by the source variable it denotes (stable under
// renumbering of SSA registers): cell/field/parameter names, len, offsets.
func shapeOf(v ssa.Value) string {
	switch x := v.(type) {
	case nil:
		return ""
	case *ssa.Const:
		if x.Value == nil {
			return "nil"
		}
		return x.Value.ExactString()
	case *ssa.Parameter:
		return "\x01" + x.Name() + "\x02"
	case *ssa.FreeVar:
		return "\x01" + x.Name() + "\x02"
	case *ssa.Alloc:
		if x.Comment != "" {
			return "\x01" + x.Comment + "\x02"
		}
		return "local"
	case *ssa.Global:
		return x.Name()
	case *ssa.UnOp:
		if x.Op == token.MUL {
			return shapeOf(x.X)
		}
	case *ssa.FieldAddr:
		return shapeOf(x.X) + "." + fieldName(x.X.Type(), x.Field)
	case *ssa.Field:
		return shapeOf(x.X) + "." + fieldName(x.X.Type(), x.Field)
	case *ssa.Phi:
		if x.Comment != "" {
			return "\x01" + x.Comment + "\x02"
		}
		return "phi"
	case *ssa.BinOp:
		if c, ok := constInt(x.Y); ok {
			op := x.Op.String()
			return shapeOf(x.X) + op + fmt.Sprint(c)
		}
		return shapeOf(x.X) + x.Op.String() + shapeOf(x.Y)
	case *ssa.Call:
		if a, ok := lenArg(x); ok {
			_ = a
			return "len"
		}
		if f := x.Call.StaticCallee(); f != nil {
			return nm(f) + "()"
		}
		return "call"
	case *ssa.Convert:
		return shapeOf(x.X)
	case *ssa.ChangeType:
		return shapeOf(x.X)
	case *ssa.Extract:
		return shapeOf(x.Tuple) + "#" + fmt.Sprint(x.Index)
	case *ssa.Slice:
		return shapeOf(x.X) + "[:]"
	case *ssa.IndexAddr:
		return shapeOf(x.X) + "[]"
	case *ssa.Lookup:
		return shapeOf(x.X) + "[]"
	case *ssa.MakeSlice:
		return "make"
	}
	return "?"
}

func shapeOpt(v ssa.Value) string {
	if v == nil {
		return ""
	}
	return shapeOf(v)
}

// ---- per-kind discharge rules ---------------------------------------------------

// assertSafe: x.(T) without comma-ok.
func (l *ledger) assertSafe(ta *ssa.TypeAssert) (bool, string) {
	k := l.kinds
	// node.value.(string) under a kind that implies a string value (R-KIND)
	if base, ok := loadOfField(ta.X, "node", "value"); ok && isStringLike(ta.AssertedType) {
		poss := k.kindsUnionAt(ta.Block(), func(n ssa.Value) bool { return n == base || sameValueShape(n, base) })
		if poss != nil {
			good := true
			for kc := range poss {
				if kc != k.variable && kc != k.operator && kc != k.fastOperator {
					good = false
				}
			}
			if good && len(poss) > 0 {
				return true, "kind test dominates: variable/operator/fastOperator nodes carry a string (R-KIND)"
			}
		}
		// inside isAndOpNode/isOrOpNode style: `if kind != operator && kind != fastOperator { return }`
		if everyEdgeHasKind(ta.Block(), k, base) {
			return true, "reached only for kind variable, operator or fastOperator, whose value is a string (R-KIND)"
		}
		// the node is a parameter: every call site passes a node of such a kind (one level)
		if p, isParam := base.(*ssa.Parameter); isParam {
			if ok, why := l.callSitesPassStringKind(p); ok {
				return true, why
			}
		}
	}
	// node.value.(LoopEventData) under kind == event
	if base, ok := loadOfField(ta.X, "node", "value"); ok && typeNameOf(ta.AssertedType) == "LoopEventData" {
		poss := k.kindsUnionAt(ta.Block(), func(n ssa.Value) bool { return n == base || sameValueShape(n, base) })
		if poss != nil && len(poss) == 1 && poss[k.event] {
			return true, "kind == event dominates: event nodes carry LoopEventData (R-KIND)"
		}
	}
	// asserting to an interface the static type already implements, or identical types
	if types.IsInterface(ta.AssertedType) {
		if types.AssignableTo(ta.X.Type(), ta.AssertedType) {
			return true, "static type already satisfies the asserted interface"
		}
	}
	// dominated by a successful comma-ok test of the same operand against the same type
	for _, f := range factsAt(ta.Block()) {
		if ex, ok := f.Cond.(*ssa.Extract); ok && ex.Index == 1 && f.Truth {
			if t2, ok := ex.Tuple.(*ssa.TypeAssert); ok && (t2.X == ta.X || sameValueShape(t2.X, ta.X)) && types.Identical(t2.AssertedType, ta.AssertedType) {
				return true, "dominated by a successful comma-ok test of the same operand"
			}
		}
	}
	return false, "single-result type assertion without a dominating kind or type test"
}

// everyEdgeHasKind: all edges into the dominating region carry kind ∈ {operator, fastOperator}
// for the node (the `if a != X && a != Y { return }` idiom produces two entering edges).
func everyEdgeHasKind(b *ssa.BasicBlock, k nodeKinds, node ssa.Value) bool {
	same := func(n ssa.Value) bool { return n == node || sameValueShape(n, node) }
	// walk up the dominator chain to the first block with several predecessors
	for d := b; d != nil; d = d.Idom() {
		if len(d.Preds) < 2 {
			continue
		}
		ok := everyEdgeInto(d, func(facts []Fact) bool {
			for _, f := range facts {
				n, kc, isEq, okk := k.kindTest(f.Cond)
				if okk && same(n) && isEq == f.Truth && (kc == k.operator || kc == k.fastOperator || kc == k.variable) {
					return true
				}
			}
			return false
		})
		if ok {
			return true
		}
	}
	return false
}

func (l *ledger) divSafe(bo *ssa.BinOp) (bool, string) {
	if c, ok := constInt(bo.Y); ok {
		return c != 0, "constant divisor"
	}
	if n, ok := constLenOfCell(l.w, bo.Y); ok && n > 0 {
		return true, "divisor is the length of a non-empty literal that is never reassigned"
	}
	if g := nonZeroGuard(bo.Block(), bo.Y); g != nil {
		return true, "dominated by the non-zero edge of " + describe(g.If.Cond)
	}
	return false, "no dominating non-zero test of the divisor"
}

func (l *ledger) ifaceEqSafe(bo *ssa.BinOp) (bool, string) {
	if safeIfaceOperand(l.w, bo.X, 0) || safeIfaceOperand(l.w, bo.Y, 0) {
		return true, "one operand is a boxed value of statically comparable type"
	}
	fn := bo.Parent()
	if params := paramsParam(fn); params != nil {
		if ok, _ := checkComparableGuard(l.w); ok && guardedByComparableLoop(l.w, bo, params) {
			return true, "every operand passed the comparability guard"
		}
	}
	return false, "two arbitrary interface values are compared"
}

// funcValueNonNil: a called function value that cannot be nil.
func (l *ledger) funcValueNonNil(c *ssa.Call) (bool, string) {
	v := c.Call.Value
	switch x := v.(type) {
	case *ssa.MakeClosure, *ssa.Function:
		return true, "a closure literal"
	case *ssa.Parameter:
		// func-typed parameters of internal helpers: callers pass closures
		return l.paramAlwaysFunc(x)
	case *ssa.Extract:
		// fn from isStatelessOp under its true answer: R-STATELESS shows non-nil
		if call, ok := x.Tuple.(*ssa.Call); ok && call.Call.StaticCallee() != nil && nm(call.Call.StaticCallee()) == "isStatelessOp" {
			return true, "approved by isStatelessOp, which returns true only with a non-nil function (C10 R-STATELESS, R-STATELESS-TABLE)"
		}
	case *ssa.UnOp:
		if x.Op != token.MUL {
			break
		}
		// the options loop of NewConfig is dead in the compile closure (no options are ever passed there)
		if nm(c.Parent()) == "NewConfig" {
			if _, _, note := compileClosure(l.w, NewReport("", "", "", nil), "R-PANIC"); note != "" {
				return true, "dead in this context: " + note
			}
		}
		// captured func variable assigned exactly closures
		if cell := resolveCell(x.X); cell != nil {
			stores := cellStores(cell)
			all := len(stores) > 0
			fromNodeOp := len(stores) > 0
			for _, st := range stores {
				switch st.Val.(type) {
				case *ssa.MakeClosure, *ssa.Function:
				default:
					all = false
				}
				if _, okf := loadOfField(st.Val, "node", "operator"); !okf {
					fromNodeOp = false
				}
			}
			if all {
				return true, "a captured variable that only ever holds closure literals"
			}
			if fromNodeOp {
				return true, "captured copy of node.operator, which is set by the parser from an operator table entry found present, by the keyword closures, or by the event wrapper (R-KIND writers)"
			}
		}
		// element of the leaf parser list / fetcher table: filled with closures only
		if ia, ok := x.X.(*ssa.IndexAddr); ok {
			if ok2, why := l.sliceOfClosures(ia.X); ok2 {
				return true, why
			}
		}
		// field operator of a node
		if _, okf := loadOfField(x, "node", "operator"); okf {
			return true, "node.operator is set by the parser from an operator table entry found present, by the keyword closures, or by the event wrapper (R-KIND writers)"
		}
		if fa, ok := x.X.(*ssa.FieldAddr); ok {
			if ok2, why := l.structFieldOfClosures(fa); ok2 {
				return true, why
			}
		}
	case *ssa.Lookup:
		// optimizerMap[opt] for opt ranging over the optimizations list: every listed option has an entry
		if addr, ok := isLoad(x.X); ok {
			if g, ok := addr.(*ssa.Global); ok && nm(g) == "optimizerMap" {
				if ok2, why := l.optimizerMapTotal(); ok2 {
					return true, why
				}
			}
		}
	}
	return false, "a function value that may be nil is called"
}

func (l *ledger) paramAlwaysFunc(p *ssa.Parameter) (bool, string) {
	fn := p.Parent()
	idx := -1
	for i, q := range fn.Params {
		if q == p {
			idx = i
		}
	}
	node := l.w.VTA.Nodes[fn]
	if idx < 0 || node == nil || len(node.In) == 0 || fn.Object() != nil && fn.Object().Exported() {
		return false, ""
	}
	for _, e := range node.In {
		args := e.Site.Common().Args
		if idx >= len(args) {
			return false, ""
		}
		switch args[idx].(type) {
		case *ssa.MakeClosure, *ssa.Function:
		default:
			return false, ""
		}
	}
	return true, "every call site passes a closure literal"
}

// sliceOfClosures: a slice value all of whose elements are stored closures
// (literal + appends of closures), e.g. p.leafNodeParser, DumpTable's fetchers.
func (l *ledger) sliceOfClosures(v ssa.Value) (bool, string) {
	if base, ok := loadOfField(v, "parser", "leafNodeParser"); ok {
		_ = base
		fn := l.w.Fn("(*parser).setLeafNodeParsers")
		if fn == nil {
			return false, ""
		}
		all := true
		n := 0
		EachInstr(fn, func(in ssa.Instruction) {
			st, ok := in.(*ssa.Store)
			if !ok {
				return
			}
			ia, ok := st.Addr.(*ssa.IndexAddr)
			if !ok {
				return
			}
			if _, isFunc := st.Val.Type().Underlying().(*types.Signature); !isFunc {
				return
			}
			n++
			switch x := st.Val.(type) {
			case *ssa.MakeClosure, *ssa.Function:
			case *ssa.Call:
				// parseList(...) returns a closure literal on every path
				callee := x.Call.StaticCallee()
				if callee == nil {
					all = false
					return
				}
				for _, ret := range allReturns(callee) {
					if _, ok := ret.Results[0].(*ssa.MakeClosure); !ok {
						all = false
					}
				}
			default:
				all = false
			}
			_ = ia
		})
		// only setLeafNodeParsers writes the field
		writers := 0
		for _, g := range l.w.Funcs {
			EachInstr(g, func(in ssa.Instruction) {
				if st, ok := in.(*ssa.Store); ok {
					if tn, fld, _, okf := fieldOf(st.Addr); okf && tn == "parser" && fld == "leafNodeParser" && g != fn {
						writers++
					}
				}
			})
		}
		if all && n >= 5 && writers == 0 {
			return true, "p.leafNodeParser is written only by setLeafNodeParsers, with bound methods and the closure parseList returns"
		}
	}
	return false, ""
}

func (l *ledger) structFieldOfClosures(fa *ssa.FieldAddr) (bool, string) {
	// a field of a local table of structs whose literal elements all carry closure literals (DumpTable's fetchers)
	st := deref(fa.X.Type())
	fname := fieldName(fa.X.Type(), fa.Field)
	fn := fa.Parent()
	all := true
	n := 0
	EachInstr(fn, func(in ssa.Instruction) {
		s, ok := in.(*ssa.Store)
		if !ok {
			return
		}
		f2, ok := s.Addr.(*ssa.FieldAddr)
		if !ok || !types.Identical(deref(f2.X.Type()), st) || fieldName(f2.X.Type(), f2.Field) != fname {
			return
		}
		n++
		switch s.Val.(type) {
		case *ssa.MakeClosure, *ssa.Function:
		default:
			all = false
		}
	})
	if all && n > 0 {
		if arr, ok := arrayLenOfTable(fa); ok && int64(n) == arr {
			return true, fmt.Sprintf("all %d elements of the local table are initialised with closure literals", n)
		}
	}
	return false, ""
}

func arrayLenOfTable(fa *ssa.FieldAddr) (int64, bool) {
	if ia, ok := fa.X.(*ssa.IndexAddr); ok {
		return constLenOf(ia.X.Type())
	}
	// a local copy of one element (`for _, f := range table`): every assignment of the local is an element of
	// one fixed-size table
	if al, ok := fa.X.(*ssa.Alloc); ok {
		var n int64 = -1
		for _, ref := range referrers(al) {
			st, isStore := ref.(*ssa.Store)
			if !isStore || st.Addr != ssa.Value(al) {
				continue
			}
			var tbl ssa.Value
			switch x := st.Val.(type) {
			case *ssa.Index:
				tbl = x.X
			case *ssa.UnOp:
				if ia, okI := x.X.(*ssa.IndexAddr); okI && x.Op == token.MUL {
					tbl = ia.X
				}
			}
			if tbl == nil {
				return 0, false
			}
			k, okL := constLenOf(tbl.Type())
			if !okL || (n >= 0 && n != k) {
				return 0, false
			}
			n = k
		}
		if n >= 0 {
			return n, true
		}
	}
	return 0, false
}

// optimizerMapTotal: every element of the optimizations list is a key of optimizerMap with a non-nil value.
func (l *ledger) optimizerMapTotal() (bool, string) {
	init, _ := l.w.globalInit("optimizerMap")
	list, _ := l.w.globalInit("optimizations")
	if init == nil || list == nil {
		return false, ""
	}
	keys := map[string]bool{}
	if cl, ok := ast.Unparen(init).(*ast.CompositeLit); ok {
		for _, el := range cl.Elts {
			if kv, ok := el.(*ast.KeyValueExpr); ok {
				if tv := l.w.Info.Types[kv.Key]; tv.Value != nil {
					if f, okf := l.w.Info.Uses[identOf(kv.Value)].(*types.Func); okf && f != nil {
						keys[tv.Value.ExactString()] = true
					}
				}
			}
		}
	}
	if cl, ok := ast.Unparen(list).(*ast.CompositeLit); ok {
		if len(cl.Elts) == 0 {
			return false, ""
		}
		for _, el := range cl.Elts {
			tv := l.w.Info.Types[el]
			if tv.Value == nil || !keys[tv.Value.ExactString()] {
				return false, ""
			}
		}
		return true, fmt.Sprintf("every element of the optimizations list (%d) is a key of optimizerMap bound to a function", len(cl.Elts))
	}
	return false, ""
}

var _ = strings.Join

func identOf(e ast.Expr) *ast.Ident {
	id, _ := ast.Unparen(e).(*ast.Ident)
	return id
}

// paramsConstIndex: params[k] with constant k in an operator implementation,
// decided by the same len(params) must-dataflow as R-ARITY (including the
// infeasible no-case edge of a mode switch), or by R-CONDARG for the cond closures.
func (l *ledger) paramsConstIndex(fn *ssa.Function, ia *ssa.IndexAddr) (bool, string) {
	params := paramsParam(fn)
	if params == nil || ia.X != ssa.Value(params) {
		return false, ""
	}
	k, ok := constInt(ia.Index)
	if !ok || k < 0 {
		return false, ""
	}
	if isCondOperatorFn(l.w, fn) {
		if k == 0 {
			return true, "cond closure: applied only to a one-element argument literal (R-CONDARG)"
		}
		return false, ""
	}
	isLen := func(v ssa.Value) bool { return isLenOf(v, params) }
	infeasible, note := modeSwitchInfeasible(l.w, fn)
	in := minLenAnalysis(fn, isLen, infeasible)
	have := in[ia.Block().Index]
	if have == lenTop {
		return true, "unreachable under the feasible edges"
	}
	if have > k {
		why := fmt.Sprintf("len(params) >= %d proven on every feasible path (R-ARITY)", have)
		if note != "" && infeasible != nil {
			why += "; " + note
		}
		return true, why
	}
	return false, ""
}

// enumIndex: an array indexed by a value of an unexported integer type all of
// whose constants are valid indices, when no value of the type is ever
// produced by conversion or arithmetic in the package: every value of the
// type is then one of its constants (or zero).
func (l *ledger) enumIndex(ia *ssa.IndexAddr) (bool, string) {
	n, ok := constLenOf(ia.X.Type())
	if !ok {
		return false, ""
	}
	named, ok := ia.Index.Type().(*types.Named)
	if !ok || named.Obj().Exported() || named.Obj().Pkg() != l.w.Types {
		return false, ""
	}
	if bt, okb := named.Underlying().(*types.Basic); !okb || bt.Info()&types.IsInteger == 0 {
		return false, ""
	}
	consts := l.w.ConstsOfType(named.Obj().Name())
	if len(consts) == 0 {
		return false, ""
	}
	var max int64 = -1
	for _, v := range consts {
		c, okc := constantInt(v)
		if !okc || c < 0 {
			return false, ""
		}
		if c > max {
			max = c
		}
	}
	if max >= n {
		return false, ""
	}
	// no value of the type is manufactured
	clean := true
	for _, fn := range l.w.Funcs {
		EachInstr(fn, func(in ssa.Instruction) {
			switch x := in.(type) {
			case *ssa.Convert:
				if types.Identical(x.Type(), named) {
					if _, isConst := x.X.(*ssa.Const); !isConst {
						clean = false
					}
				}
			case *ssa.BinOp:
				if types.Identical(x.Type(), named) {
					clean = false
				}
			case *ssa.ChangeType:
				if types.Identical(x.Type(), named) {
					clean = false
				}
			}
		})
	}
	if !clean {
		return false, ""
	}
	return true, fmt.Sprintf("index of unexported enum type %s: all %d constants lie in [0, %d) and no value of the type is produced by conversion or arithmetic", named.Obj().Name(), len(consts), n)
}

// callSitesPassStringKind: every call of the parameter's function passes a
// node whose kind, at the call, is variable, operator or fastOperator.
func (l *ledger) callSitesPassStringKind(p *ssa.Parameter) (bool, string) {
	fn := p.Parent()
	idx := -1
	for i, q := range fn.Params {
		if q == p {
			idx = i
		}
	}
	node := l.w.VTA.Nodes[fn]
	if idx < 0 || node == nil || len(node.In) == 0 {
		return false, ""
	}
	if fn.Object() != nil && fn.Object().Exported() {
		return false, ""
	}
	k := l.kinds
	for _, e := range node.In {
		args := e.Site.Common().Args
		if idx >= len(args) {
			return false, ""
		}
		arg := args[idx]
		poss := k.kindsUnionAt(e.Site.Block(), func(n ssa.Value) bool { return n == arg || sameValueShape(n, arg) })
		if poss == nil || len(poss) == 0 {
			return false, ""
		}
		for kc := range poss {
			if kc != k.variable && kc != k.operator && kc != k.fastOperator {
				return false, ""
			}
		}
	}
	return true, fmt.Sprintf("all %d call site(s) pass a node whose kind is variable, operator or fastOperator at the call (R-KIND: its value is a string)", len(node.In))
}

// accessPath writes v as root + a string of loads and field selections.
func accessPath(v ssa.Value) (ssa.Value, string) {
	path := ""
	for {
		switch x := v.(type) {
		case *ssa.UnOp:
			if x.Op != token.MUL {
				return v, path
			}
			path = "*" + path
			v = x.X
		case *ssa.FieldAddr:
			path = fmt.Sprintf(".%d", x.Field) + path
			v = x.X
		default:
			return v, path
		}
	}
}

// sortLessIndex: library contract of sort.Slice / sort.SliceStable — less(i, j) is called with 0 <= i, j < len of
// the slice handed to the sort. An index S'[i] in the comparator is in range when fn is used only as the
// comparator of such sorts, i is one of the comparator's own index parameters, and S' is written in the comparator
// exactly as the sorted slice is written at the sort call, over the captured variable (closure literal) or the
// bound receiver (method value).
func (l *ledger) sortLessIndex(fn *ssa.Function, ia *ssa.IndexAddr) (bool, string) {
	sig := fn.Signature
	if sig.Params().Len() != 2 || sig.Results().Len() != 1 {
		return false, ""
	}
	np := len(fn.Params)
	if ia.Index != ssa.Value(fn.Params[np-2]) && ia.Index != ssa.Value(fn.Params[np-1]) {
		return false, ""
	}
	root, suffix := accessPath(ia.X)
	uses := 0
	bad := false
	for _, g := range l.w.Funcs {
		EachInstr(g, func(in ssa.Instruction) {
			if g == fn || strings.HasPrefix(g.Synthetic, "bound method wrapper") {
				return
			}
			mc, isMC := in.(*ssa.MakeClosure)
			var bound ssa.Value // what root denotes at the closure creation
			match := false
			if isMC {
				target := mc.Fn.(*ssa.Function)
				if target == fn {
					if fv, ok := root.(*ssa.FreeVar); ok {
						for k, v := range fn.FreeVars {
							if v == fv && k < len(mc.Bindings) {
								bound, match = mc.Bindings[k], true
							}
						}
					}
					if !match {
						bad = true
					}
				} else if strings.HasPrefix(target.Synthetic, "bound method wrapper") && len(mc.Bindings) == 1 {
					calls := false
					EachInstr(target, func(in2 ssa.Instruction) {
						if c, ok := in2.(*ssa.Call); ok && c.Call.StaticCallee() == fn {
							calls = true
						}
					})
					if calls {
						if len(fn.Params) == 3 && root == ssa.Value(fn.Params[0]) {
							bound, match = mc.Bindings[0], true
						} else {
							bad = true
						}
					}
				}
			}
			if !match {
				// any other reference to fn (a direct call, a stored function value) voids the contract
				for _, op := range in.Operands(nil) {
					if *op == ssa.Value(fn) {
						bad = true
					}
				}
				return
			}
			for _, ref := range referrers(mc) {
				c, ok := ref.(*ssa.Call)
				name := ""
				if ok {
					name = calleeFullName(&c.Call)
				}
				if !ok || (name != "sort.Slice" && name != "sort.SliceStable") || len(c.Call.Args) != 2 || c.Call.Args[1] != ssa.Value(mc) {
					bad = true
					continue
				}
				sroot, spath := accessPath(unwrapIface(c.Call.Args[0]))
				broot, bpath := accessPath(bound)
				if sroot != broot || spath != bpath+suffix {
					bad = true
					continue
				}
				uses++
			}
		})
	}
	if os.Getenv("EVALSA_DEBUG") != "" {
		fmt.Fprintln(os.Stderr, "sortLessIndex", fn.Name(), bad, uses, suffix)
	}
	if bad || uses == 0 {
		return false, ""
	}
	return true, "library contract: sort.Slice/SliceStable calls less(i, j) with 0 <= i, j < len of the slice it sorts, and this function is used only as the comparator of sorts of the very slice it indexes"
}
