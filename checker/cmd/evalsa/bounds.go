package main

// Q4: guard dataflow for bounds. A forward must-analysis over a small
// relational domain: difference constraints  A - B <= c  between symbolic
// integer terms. Terms are SSA registers (immutable), the contents of
// non-escaping local/captured variables ("cells"), struct fields read through
// a pointer, lengths of such values, and the constant zero. Branch conditions
// add constraints on their edges; stores and calls kill the constraints that
// mention what they may write (per-function mod sets, transitive over the
// call graph); the meet is the intersection of the closed constraint sets;
// loop heads are widened. No arithmetic solver: it proves the repository's
// own guard idioms and nothing cleverer.

import (
	"fmt"
	"go/token"
	"go/types"
	"os"
	"sort"
	"strings"

	"golang.org/x/tools/go/ssa"
)

const (
	zeroTerm = "0"
	bInf     = int64(1) << 50
)

type lin struct {
	key string
	off int64
	ok  bool
}

type pair struct{ a, b string }

// cstate: a - b <= bound
type cstate map[pair]int64

func (s cstate) clone() cstate {
	out := make(cstate, len(s))
	for k, v := range s {
		out[k] = v
	}
	return out
}

func (s cstate) add(a, b string, c int64) {
	if a == b {
		return
	}
	k := pair{a, b}
	if cur, ok := s[k]; !ok || c < cur {
		s[k] = c
	}
}

// kill removes every constraint that mentions the term (also inside len(...) or field paths).
func (s cstate) kill(term string) {
	for k := range s {
		if mentions(k.a, term) || mentions(k.b, term) {
			delete(s, k)
		}
	}
}

func mentions(key, term string) bool {
	if key == term {
		return true
	}
	i := strings.Index(key, term)
	for i >= 0 {
		end := i + len(term)
		// term boundaries: preceded by start or one of "(:. " and followed by end or one of ").,"
		okStart := i == 0 || strings.ContainsRune("(:.,", rune(key[i-1]))
		okEnd := end == len(key) || strings.ContainsRune(").,", rune(key[end]))
		if okStart && okEnd {
			return true
		}
		j := strings.Index(key[i+1:], term)
		if j < 0 {
			break
		}
		i = i + 1 + j
	}
	return false
}

func (s cstate) terms() []string {
	set := map[string]bool{}
	for k := range s {
		set[k.a] = true
		set[k.b] = true
	}
	var out []string
	for t := range set {
		out = append(out, t)
	}
	sort.Strings(out)
	return out
}

// close computes the transitive closure (Floyd–Warshall) with the len >= 0 axioms.
// nonNegAxioms is the set of verified "term >= 0" invariants consulted by close
// (set by the bounds context while an analysis runs).
var nonNegAxioms map[string]bool

func termNonNeg(t string) bool {
	if strings.HasPrefix(t, "len(") {
		return true
	}
	if nonNegAxioms == nil {
		return false
	}
	if nonNegAxioms[t] {
		return true
	}
	if strings.HasPrefix(t, "f:") {
		for suffix := range nonNegAxioms {
			if strings.HasPrefix(suffix, ".") && strings.HasSuffix(t, suffix) {
				return true
			}
		}
	}
	return false
}

func (s cstate) close() {
	ts := s.terms()
	for _, t := range ts {
		if termNonNeg(t) {
			s.add(zeroTerm, t, 0)
		}
	}
	ts = s.terms()
	if len(ts) > 140 {
		return // too large: skip closure (sound: fewer derived facts)
	}
	idx := map[string]int{}
	for i, t := range ts {
		idx[t] = i
	}
	n := len(ts)
	m := make([][]int64, n)
	for i := range m {
		m[i] = make([]int64, n)
		for j := range m[i] {
			if i == j {
				m[i][j] = 0
			} else {
				m[i][j] = bInf
			}
		}
	}
	for k, v := range s {
		m[idx[k.a]][idx[k.b]] = v
	}
	for k := 0; k < n; k++ {
		for i := 0; i < n; i++ {
			if m[i][k] >= bInf {
				continue
			}
			for j := 0; j < n; j++ {
				if m[k][j] >= bInf {
					continue
				}
				if d := m[i][k] + m[k][j]; d < m[i][j] {
					m[i][j] = d
				}
			}
		}
	}
	for i := 0; i < n; i++ {
		for j := 0; j < n; j++ {
			if i != j && m[i][j] < bInf {
				s[pair{ts[i], ts[j]}] = m[i][j]
			}
		}
	}
}

// le reports whether a + offA - (b + offB) <= c is implied.
func (s cstate) le(a lin, b lin, c int64) bool {
	if !a.ok || !b.ok {
		return false
	}
	need := c - a.off + b.off // a.key - b.key <= need
	if a.key == b.key {
		return 0 <= need
	}
	if v, ok := s[pair{a.key, b.key}]; ok && v <= need {
		return true
	}
	return false
}

func meet(a, b cstate) cstate {
	out := cstate{}
	// x - t <= c with t a term that is never negative (a length) is implied by x <= c, even when the other side
	// has not mentioned t yet (a length first read inside the loop the join heads)
	implied := func(s cstate, k pair) (int64, bool) {
		if w, ok := s[k]; ok {
			return w, true
		}
		if k.b != zeroTerm && termNonNeg(k.b) {
			if w, ok := s[pair{k.a, zeroTerm}]; ok {
				return w, true
			}
		}
		return 0, false
	}
	for k, v := range a {
		if w, ok := implied(b, k); ok {
			if w > v {
				v = w
			}
			out[k] = v
		}
	}
	for k, v := range b {
		if _, done := out[k]; done {
			continue
		}
		if w, ok := implied(a, k); ok {
			if w > v {
				v = w
			}
			out[k] = v
		}
	}
	return out
}

func equalState(a, b cstate) bool {
	if len(a) != len(b) {
		return false
	}
	for k, v := range a {
		if w, ok := b[k]; !ok || w != v {
			return false
		}
	}
	return true
}

// ---- mod sets ---------------------------------------------------------------

type modSet struct {
	cells  map[*ssa.Alloc]bool
	fields map[string]bool // "Type.field"
}

type boundsCtx struct {
	w    *World
	mods map[*ssa.Function]*modSet
	// cells whose address never escapes other than into closures
	cellOK map[*ssa.Alloc]bool
	// inductively verified invariants "memory term >= 0": cell ids and ".Type.field" suffixes
	nonNeg map[string]bool
	// package-level variables that no function of the package writes or takes the address of (only the package
	// initialiser assigns them): every load yields the same value
	unstableGlobal map[*ssa.Global]bool
}

func newBoundsCtx(w *World) *boundsCtx {
	bc := &boundsCtx{w: w, mods: map[*ssa.Function]*modSet{}, cellOK: map[*ssa.Alloc]bool{}, unstableGlobal: map[*ssa.Global]bool{}}
	for _, fn := range w.Funcs {
		if fn.Synthetic != "" && nm(fn) == "init" {
			continue // the package initialiser runs before anything else
		}
		EachInstr(fn, func(in ssa.Instruction) {
			for _, op := range in.Operands(nil) {
				if op == nil || *op == nil {
					continue
				}
				g, isG := (*op).(*ssa.Global)
				if !isG {
					continue
				}
				if u, isLoad := in.(*ssa.UnOp); isLoad && u.Op == token.MUL && u.X == ssa.Value(g) {
					continue
				}
				bc.unstableGlobal[g] = true // stored to, or its address is used in some other way
			}
		})
	}
	for _, fn := range w.Funcs {
		ms := &modSet{cells: map[*ssa.Alloc]bool{}, fields: map[string]bool{}}
		EachInstr(fn, func(in ssa.Instruction) {
			st, ok := in.(*ssa.Store)
			if !ok {
				return
			}
			switch a := st.Addr.(type) {
			case *ssa.FreeVar:
				if c := resolveCell(a); c != nil {
					ms.cells[c] = true
				}
			case *ssa.Alloc:
				ms.cells[a] = true
			case *ssa.FieldAddr:
				ms.fields[typeNameOf(deref(a.X.Type()))+"."+fieldName(a.X.Type(), a.Field)] = true
			}
		})
		bc.mods[fn] = ms
	}
	// transitive closure over in-package callees
	for changed := true; changed; {
		changed = false
		for _, fn := range w.Funcs {
			ms := bc.mods[fn]
			node := w.VTA.Nodes[fn]
			if node == nil {
				continue
			}
			for _, e := range node.Out {
				cm := bc.mods[e.Callee.Func]
				if cm == nil {
					continue
				}
				for c := range cm.cells {
					if !ms.cells[c] {
						ms.cells[c] = true
						changed = true
					}
				}
				for f := range cm.fields {
					if !ms.fields[f] {
						ms.fields[f] = true
						changed = true
					}
				}
			}
		}
	}
	bc.inferNonNeg()
	return bc
}

// inferNonNeg finds the integer cells and unexported-struct fields that are
// never negative: the greatest set S such that, assuming every member of S is
// >= 0 wherever it is read, every store to a member of S stores a value
// proven >= 0 (zero initialisation is the base case). This is an inductive
// invariant over all writers of the package.
func (bc *boundsCtx) inferNonNeg() {
	type site struct {
		st  *ssa.Store
		key string
	}
	sites := map[*ssa.Function][]site{}
	cand := map[string]bool{}
	te := &termEnv{bc: bc, subst: map[ssa.Value]lin{}}
	for _, fn := range bc.w.Funcs {
		EachInstr(fn, func(in ssa.Instruction) {
			st, ok := in.(*ssa.Store)
			if !ok {
				return
			}
			bt, okb := st.Val.Type().Underlying().(*types.Basic)
			if !okb || bt.Info()&types.IsInteger == 0 || bt.Info()&types.IsUnsigned != 0 {
				return
			}
			key := ""
			switch a := st.Addr.(type) {
			case *ssa.Alloc, *ssa.FreeVar:
				if k, ok := te.memKey(a); ok {
					key = k
				}
			case *ssa.FieldAddr:
				if n, ok := deref(a.X.Type()).(*types.Named); ok && !n.Obj().Exported() && n.Obj().Pkg() == bc.w.Types {
					key = "." + n.Obj().Name() + "." + fieldName(a.X.Type(), a.Field)
				}
			}
			if key == "" {
				return
			}
			cand[key] = true
			sites[fn] = append(sites[fn], site{st, key})
		})
	}
	bc.nonNeg = cand
	for round := 0; round < 8; round++ {
		nonNegAxioms = bc.nonNeg
		changed := false
		for fn, ss := range sites {
			relevant := false
			for _, x := range ss {
				if bc.nonNeg[x.key] {
					relevant = true
				}
			}
			if !relevant {
				continue
			}
			res := bc.analyse(fn)
			for _, x := range ss {
				if !bc.nonNeg[x.key] {
					continue
				}
				state := res.stateAt(x.st)
				if state == nil {
					continue
				}
				if !state.le(lin{zeroTerm, 0, true}, res.te.term(x.st.Val), 0) {
					delete(bc.nonNeg, x.key)
					changed = true
				}
			}
		}
		if !changed {
			break
		}
	}
	nonNegAxioms = bc.nonNeg
}

// cellUsable: the alloc's address is only loaded, stored to, or captured.
func (bc *boundsCtx) cellUsable(al *ssa.Alloc) bool {
	if v, ok := bc.cellOK[al]; ok {
		return v
	}
	ok := true
	seen := map[ssa.Value]bool{}
	var visit func(v ssa.Value)
	visit = func(v ssa.Value) {
		if seen[v] {
			return
		}
		seen[v] = true
		for _, ref := range referrers(v) {
			switch x := ref.(type) {
			case *ssa.UnOp:
				if x.Op != token.MUL {
					ok = false
				}
			case *ssa.Store:
				if x.Addr != v {
					ok = false
				}
			case *ssa.MakeClosure:
				fn := x.Fn.(*ssa.Function)
				for i, b := range x.Bindings {
					if b == v {
						visit(fn.FreeVars[i])
					}
				}
			case *ssa.DebugRef:
			case *ssa.FieldAddr, *ssa.IndexAddr:
				// aggregate locals: element/field addresses; contents are not tracked as cells
				ok = false
			default:
				ok = false
			}
		}
	}
	visit(al)
	bc.cellOK[al] = ok
	return ok
}

func cellID(al *ssa.Alloc) string {
	name := al.Comment
	if name == "" {
		name = al.Name()
	}
	return fmt.Sprintf("c:%s#%s@%s", name, al.Name(), al.Parent().Name())
}

// ---- terms ------------------------------------------------------------------

type termEnv struct {
	bc     *boundsCtx
	subst  map[ssa.Value]lin // parameter substitution when inlining a predicate
	memory bool              // summary mode: loads denote memory terms
}

func regKey(v ssa.Value) string {
	fn := ""
	if p := v.Parent(); p != nil {
		fn = p.Name()
	}
	return "r:" + v.Name() + "@" + fn
}

// memKey: the key of a memory location (a "cell"): a non-escaping local or
// captured variable, or a struct field reached through a stable pointer.
func (te *termEnv) memKey(addr ssa.Value) (string, bool) {
	switch a := addr.(type) {
	case *ssa.Alloc:
		if te.bc.cellUsable(a) {
			return cellID(a), true
		}
	case *ssa.FreeVar:
		if c := resolveCell(a); c != nil && te.bc.cellUsable(c) {
			return cellID(c), true
		}
	case *ssa.FieldAddr:
		if base, ok := te.ptrKey(a.X); ok {
			return "f:" + base + "." + typeNameOf(deref(a.X.Type())) + "." + fieldName(a.X.Type(), a.Field), true
		}
	case *ssa.Global:
		if a.Pkg != nil && a.Pkg.Pkg == te.bc.w.Types && !te.bc.unstableGlobal[a] && a.Object() != nil && !a.Object().Exported() {
			return "g:" + a.Name(), true
		}
	}
	return "", false
}

// ptrKey: a stable name for a pointer value: a parameter, or the content of a
// cell that is assigned exactly once (a captured receiver).
func (te *termEnv) ptrKey(v ssa.Value) (string, bool) {
	if l, ok := te.subst[v]; ok && l.off == 0 {
		return l.key, l.ok
	}
	switch x := v.(type) {
	case *ssa.Parameter:
		return regKey(x), true
	case *ssa.UnOp:
		if x.Op == token.MUL {
			var cell *ssa.Alloc
			switch a := x.X.(type) {
			case *ssa.Alloc:
				cell = a
			case *ssa.FreeVar:
				cell = resolveCell(a)
			}
			if cell != nil && te.bc.cellUsable(cell) && len(cellStores(cell)) == 1 {
				return "p" + cellID(cell), true
			}
		}
	case *ssa.Alloc:
		// the address of a local aggregate (e.g. a spilled struct value)
		return "a:" + x.Name() + "@" + x.Parent().Name(), true
	}
	return regKey(v), true
}

// valKey: the key of a slice/string value (a register; loads are registers).
func (te *termEnv) valKey(v ssa.Value) (string, bool) {
	if l, ok := te.subst[v]; ok && l.off == 0 {
		return l.key, l.ok
	}
	switch x := v.(type) {
	case *ssa.ChangeType:
		return te.valKey(x.X)
	case *ssa.UnOp:
		if x.Op == token.MUL && te.memory {
			// summary mode: the callee's loads denote the caller's memory at call time
			if k, ok := te.memKey(x.X); ok {
				return k, true
			}
		}
	}
	return regKey(v), true
}

func (te *termEnv) term(v ssa.Value) lin {
	if l, ok := te.subst[v]; ok {
		return l
	}
	if c, ok := constInt(v); ok {
		return lin{zeroTerm, c, true}
	}
	switch x := v.(type) {
	case *ssa.BinOp:
		switch x.Op {
		case token.ADD:
			if c, ok := constInt(x.Y); ok {
				t := te.term(x.X)
				t.off += c
				return t
			}
			if c, ok := constInt(x.X); ok {
				t := te.term(x.Y)
				t.off += c
				return t
			}
		case token.SUB:
			if c, ok := constInt(x.Y); ok {
				t := te.term(x.X)
				t.off -= c
				return t
			}
		}
	case *ssa.Convert:
		// widening or same-width integer conversions preserve the value
		if intTypeBits(x.Type()) >= intTypeBits(x.X.Type()) && intTypeBits(x.X.Type()) > 0 {
			return te.term(x.X)
		}
	case *ssa.ChangeType:
		return te.term(x.X)
	case *ssa.Call:
		if arg, ok := lenArg(x); ok {
			if s, ok := constString(arg); ok {
				return lin{zeroTerm, int64(len(s)), true}
			}
			if n, ok := constLenOf(arg.Type()); ok {
				return lin{zeroTerm, n, true}
			}
			if n, ok := constLenSlice(arg); ok {
				return lin{zeroTerm, n, true}
			}
			if k, ok := te.lenKey(arg); ok {
				return lin{k, 0, true}
			}
		}
	case *ssa.UnOp:
		if x.Op == token.MUL && te.memory {
			if k, ok := te.memKey(x.X); ok {
				return lin{k, 0, true}
			}
		}
	}
	return lin{regKey(v), 0, true}
}

// lenKey is the term for len(x).
func (te *termEnv) lenKey(x ssa.Value) (string, bool) {
	k, ok := te.valKey(x)
	if !ok {
		return "", false
	}
	return "len(" + k + ")", true
}

// constLenOf: arrays have constant length.
func constLenOf(t types.Type) (int64, bool) {
	switch u := t.Underlying().(type) {
	case *types.Array:
		return u.Len(), true
	case *types.Pointer:
		if a, ok := u.Elem().Underlying().(*types.Array); ok {
			return a.Len(), true
		}
	}
	return 0, false
}

// ---- conditions -> constraints ----------------------------------------------

// assume adds the constraints implied by cond having the given truth value.
func (te *termEnv) assume(s cstate, cond ssa.Value, truth bool, depth int) {
	if depth > 6 {
		return
	}
	cond, truth = stripNot(cond, truth)
	switch x := cond.(type) {
	case *ssa.BinOp:
		te.assumeCmp(s, x.Op, x.X, x.Y, truth)
	case *ssa.Phi:
		// value-form && / ||
		for _, f := range expandFact(Fact{Cond: x, Truth: truth}, 0) {
			if f.Cond == ssa.Value(x) {
				continue
			}
			if _, isPhi := f.Cond.(*ssa.Phi); isPhi {
				continue
			}
			te.assume(s, f.Cond, f.Truth, depth+1)
		}
	case *ssa.Call:
		callee := x.Call.StaticCallee()
		if callee == nil {
			return
		}
		if calleeFullName(&x.Call) == "strings.HasPrefix" && truth {
			if p, ok := constString(x.Call.Args[1]); ok {
				if k, ok := te.lenKey(x.Call.Args[0]); ok {
					s.add(zeroTerm, k, -int64(len(p)))
				}
			}
			return
		}
		// predicate summary: a single-block function returning one comparison over its parameters' fields
		if len(callee.Blocks) == 1 && te.bc.w.InPkg(callee) {
			ret := blockReturn(callee.Blocks[0])
			if ret == nil || len(ret.Results) != 1 {
				return
			}
			sub := &termEnv{bc: te.bc, subst: map[ssa.Value]lin{}, memory: true}
			for i, p := range callee.Params {
				if i < len(x.Call.Args) {
					if _, isPtr := p.Type().Underlying().(*types.Pointer); isPtr {
						if k, ok := te.ptrKey(x.Call.Args[i]); ok {
							sub.subst[p] = lin{k, 0, true}
						}
					} else if bt, okb := p.Type().Underlying().(*types.Basic); okb && bt.Info()&types.IsInteger != 0 {
						sub.subst[p] = te.term(x.Call.Args[i])
					}
				}
			}
			sub.assume(s, ret.Results[0], truth, depth+1)
		}
	}
}

func (te *termEnv) assumeCmp(s cstate, op token.Token, xv, yv ssa.Value, truth bool) {
	// string == constant: length known
	if isStringLike(xv.Type()) {
		if op == token.EQL || op == token.NEQ {
			if (op == token.EQL) == truth {
				if c, ok := constString(yv); ok {
					if k, ok := te.lenKey(xv); ok {
						s.add(k, zeroTerm, int64(len(c)))
						s.add(zeroTerm, k, -int64(len(c)))
					}
				}
			}
		}
		return
	}
	bt, ok := xv.Type().Underlying().(*types.Basic)
	if !ok || bt.Info()&types.IsInteger == 0 {
		return
	}
	if !truth {
		neg := map[token.Token]token.Token{token.LSS: token.GEQ, token.GEQ: token.LSS, token.GTR: token.LEQ, token.LEQ: token.GTR, token.EQL: token.NEQ, token.NEQ: token.EQL}
		n, ok := neg[op]
		if !ok {
			return
		}
		op = n
	}
	a, b := te.term(xv), te.term(yv)
	if !a.ok || !b.ok {
		return
	}
	// a.key + a.off  OP  b.key + b.off
	switch op {
	case token.LSS:
		s.add(a.key, b.key, b.off-a.off-1)
	case token.LEQ:
		s.add(a.key, b.key, b.off-a.off)
	case token.GTR:
		s.add(b.key, a.key, a.off-b.off-1)
	case token.GEQ:
		s.add(b.key, a.key, a.off-b.off)
	case token.EQL:
		s.add(a.key, b.key, b.off-a.off)
		s.add(b.key, a.key, a.off-b.off)
	case token.NEQ:
		// x != c with a known bound x >= c (or x <= c) sharpens the bound
		s.close()
		if s.le(b, a, 0) { // b <= a and a != b  =>  b <= a - 1
			s.add(b.key, a.key, a.off-b.off-1)
		} else if s.le(a, b, 0) {
			s.add(a.key, b.key, b.off-a.off-1)
		} else if strings.HasPrefix(a.key, "len(") && b.key == zeroTerm && b.off-a.off == 0 {
			s.add(zeroTerm, a.key, -1)
		}
	}
}

// ---- the dataflow -----------------------------------------------------------

type boundsResult struct {
	te  *termEnv
	in  []cstate // per block
	fn  *ssa.Function
	bc  *boundsCtx
	top []bool
}

func (r *boundsResult) dump() {
	for _, b := range r.fn.Blocks {
		fmt.Printf("block %d (%s):\n", b.Index, b.Comment)
		if r.top[b.Index] {
			fmt.Println("   <unreached>")
			continue
		}
		var lines []string
		for k, v := range r.in[b.Index] {
			lines = append(lines, fmt.Sprintf("   %s - %s <= %d", k.a, k.b, v))
		}
		sort.Strings(lines)
		for _, l := range lines {
			fmt.Println(l)
		}
	}
}

func (bc *boundsCtx) analyse(fn *ssa.Function) *boundsResult {
	te := &termEnv{bc: bc, subst: map[ssa.Value]lin{}}
	n := len(fn.Blocks)
	res := &boundsResult{te: te, in: make([]cstate, n), fn: fn, bc: bc, top: make([]bool, n)}
	for i := range res.top {
		res.top[i] = true // not yet reached (optimistic)
	}
	if n == 0 {
		return res
	}
	res.in[0] = cstate{}
	res.top[0] = false
	bc.seedCapturedLengths(fn, res.in[0])
	visits := make([]int, n)
	work := []*ssa.BasicBlock{fn.Blocks[0]}
	inWork := map[*ssa.BasicBlock]bool{fn.Blocks[0]: true}
	for steps := 0; len(work) > 0 && steps < 40*n+200; steps++ {
		b := work[0]
		work = work[1:]
		inWork[b] = false
		out := res.transfer(b, res.in[b.Index].clone(), nil)
		for k, s := range b.Succs {
			es := out.clone()
			if iff, ok := b.Instrs[len(b.Instrs)-1].(*ssa.If); ok && b.Succs[0] != b.Succs[1] {
				te.assume(es, iff.Cond, k == 0, 0)
			}
			// phi equalities of the successor for this edge
			predIdx := -1
			for i, p := range s.Preds {
				if p == b {
					predIdx = i
				}
			}
			var phis []*ssa.Phi
			phiKeys := map[string]bool{}
			for _, in := range s.Instrs {
				phi, ok := in.(*ssa.Phi)
				if !ok {
					break
				}
				phis = append(phis, phi)
				phiKeys[regKey(phi)] = true
			}
			if len(phis) > 0 {
				es.close()
				snap := es.clone()
				for pk := range phiKeys {
					es.kill(pk)
				}
				mentionsAnyPhi := func(key string) bool {
					for pk := range phiKeys {
						if mentions(key, pk) {
							return true
						}
					}
					return false
				}
				// self-shifts P' = P + c of integer phis on this edge (loop counters advancing together)
				shift := map[string]int64{}
				for _, phi := range phis {
					if predIdx < 0 {
						continue
					}
					if bt, okb := phi.Type().Underlying().(*types.Basic); okb && bt.Info()&types.IsInteger != 0 {
						if e := te.term(phi.Edges[predIdx]); e.ok && e.key == regKey(phi) {
							shift[regKey(phi)] = e.off
						}
					}
				}
				for k2, v := range snap {
					sa, oka := shift[k2.a]
					sb, okb := shift[k2.b]
					if oka && okb {
						es.add(k2.a, k2.b, v+sa-sb)
					}
				}
				for _, phi := range phis {
					if predIdx < 0 {
						continue
					}
					pk := regKey(phi)
					edge := phi.Edges[predIdx]
					if bt, okb := phi.Type().Underlying().(*types.Basic); !okb || bt.Info()&types.IsInteger == 0 {
						// slices/strings: carry the length
						lk := "len(" + pk + ")"
						if cl, okc := constLenSlice(edge); okc {
							es.add(lk, zeroTerm, cl)
							es.add(zeroTerm, lk, -cl)
						} else if isNilConst(edge) {
							es.add(lk, zeroTerm, 0)
						} else if ek, okk := te.lenKey(edge); okk && !mentionsAnyPhi(ek) {
							es.add(lk, ek, 0)
							es.add(ek, lk, 0)
						} else if okk && ek == lk {
							// unchanged around the loop
							for k2, v := range snap {
								if k2.a == lk && !mentionsAnyPhi(k2.b) {
									es.add(lk, k2.b, v)
								}
								if k2.b == lk && !mentionsAnyPhi(k2.a) {
									es.add(k2.a, lk, v)
								}
							}
						}
						continue
					}
					e := te.term(edge)
					if !e.ok {
						continue
					}
					switch {
					case e.key == pk:
						// P' = P + off: shift the relations of P
						for k2, v := range snap {
							if k2.a == pk && !mentionsAnyPhi(k2.b) {
								es.add(pk, k2.b, v+e.off)
							}
							if k2.b == pk && !mentionsAnyPhi(k2.a) {
								es.add(k2.a, pk, v-e.off)
							}
						}
					case mentionsAnyPhi(e.key):
						// depends on the old value of another phi of this block: nothing is recorded
					default:
						es.add(pk, e.key, e.off)
						es.add(e.key, pk, -e.off)
					}
				}
			}
			es.close()
			var merged cstate
			if res.top[s.Index] {
				merged = es
			} else {
				merged = meet(res.in[s.Index], es)
			}
			// widening at heavily revisited blocks: drop constraints that keep loosening
			isLoopHead := false
			for _, p := range s.Preds {
				if s.Dominates(p) {
					isLoopHead = true
				}
			}
			if !res.top[s.Index] && visits[s.Index] > 3 && isLoopHead {
				// widening with thresholds: a bound that keeps loosening jumps to the next of -1, 0, 1 and is
				// dropped beyond (keeps sign information such as "index >= 0" stable)
				for k2, v := range res.in[s.Index] {
					if w, ok := merged[k2]; ok && w > v {
						switch {
						case w <= -1:
							merged[k2] = -1
						case w <= 0:
							merged[k2] = 0
						case w <= 1:
							merged[k2] = 1
						default:
							delete(merged, k2)
						}
					}
				}
			}
			if dbg := os.Getenv("EVALSA_TRACE"); dbg != "" && !res.top[s.Index] {
				for k2 := range res.in[s.Index] {
					if _, ok := merged[k2]; !ok && strings.Contains(k2.a+" "+k2.b, dbg) {
						_, inEs := es[k2]
						fmt.Printf("TRACE drop at block %d (edge from %d): %s - %s (in edge state: %v)\n", s.Index, b.Index, k2.a, k2.b, inEs)
					}
				}
			}
			if res.top[s.Index] || !equalState(merged, res.in[s.Index]) {
				res.in[s.Index] = merged
				res.top[s.Index] = false
				visits[s.Index]++
				if !inWork[s] {
					work = append(work, s)
					inWork[s] = true
				}
			}
		}
	}
	return res
}

// constLenSlice: a full slice of a fixed array.
func constLenSlice(v ssa.Value) (int64, bool) {
	if sl, ok := v.(*ssa.Slice); ok && sl.Low == nil && sl.High == nil {
		return constLenOf(sl.X.Type())
	}
	return 0, false
}

// transfer applies the instructions of b to the state; if stop != nil it
// returns the state just before that instruction.
func (r *boundsResult) transfer(b *ssa.BasicBlock, s cstate, stop ssa.Instruction) cstate {
	te := r.te
	for _, in := range b.Instrs {
		if in == stop {
			return s
		}
		if _, isPhi := in.(*ssa.Phi); isPhi {
			continue // handled on the edges
		}
		// kill facts about the register this instruction (re)defines
		if v, ok := in.(ssa.Value); ok {
			s.kill(regKey(v))
		}
		switch x := in.(type) {
		case *ssa.UnOp:
			// a load: the register equals the memory term at this point
			if x.Op == token.MUL {
				if mk, ok := te.memKey(x.X); ok {
					rk := regKey(x)
					if bt, okb := x.Type().Underlying().(*types.Basic); okb && bt.Info()&types.IsInteger != 0 {
						s.add(rk, mk, 0)
						s.add(mk, rk, 0)
					} else if isSliceOrString(x.Type()) {
						s.add("len("+rk+")", "len("+mk+")", 0)
						s.add("len("+mk+")", "len("+rk+")", 0)
					}
				}
			}
		case *ssa.Store:
			mk, ok := te.memKey(x.Addr)
			if !ok {
				// a store through an unknown pointer to an integer/slice could alias a tracked field: be conservative
				// for fields (cells never escape by construction)
				if fa, isFA := x.Addr.(*ssa.FieldAddr); isFA {
					killField(s, "."+typeNameOf(deref(fa.X.Type()))+"."+fieldName(fa.X.Type(), fa.Field))
				}
				break
			}
			s.close()
			if fa, isFA := x.Addr.(*ssa.FieldAddr); isFA {
				killField(s, "."+typeNameOf(deref(fa.X.Type()))+"."+fieldName(fa.X.Type(), fa.Field))
			} else {
				s.kill(mk)
			}
			if bt, okb := x.Val.Type().Underlying().(*types.Basic); okb && bt.Info()&types.IsInteger != 0 {
				nv := te.term(x.Val)
				if nv.ok && !mentions(nv.key, mk) {
					s.add(mk, nv.key, nv.off)
					s.add(nv.key, mk, -nv.off)
				}
			} else if isSliceOrString(x.Val.Type()) {
				lk := "len(" + mk + ")"
				if cl, okc := constLenSlice(x.Val); okc {
					s.add(lk, zeroTerm, cl)
					s.add(zeroTerm, lk, -cl)
				} else if isNilConst(x.Val) {
					s.add(lk, zeroTerm, 0)
				} else if nk, okn := te.lenKey(x.Val); okn && !mentions(nk, mk) {
					s.add(lk, nk, 0)
					s.add(nk, lk, 0)
				}
			}
		case ssa.CallInstruction:
			r.applyCall(s, x)
			if c, ok := in.(*ssa.Call); ok {
				r.defFacts(s, c)
			}
		case *ssa.MakeSlice:
			l := te.term(x.Len)
			lk := "len(" + regKey(x) + ")"
			if l.ok {
				s.add(lk, l.key, l.off)
				s.add(l.key, lk, -l.off)
			}
		case *ssa.Slice:
			r.sliceFacts(s, x)
		case *ssa.Convert:
			// []rune(string): nothing known
		case *ssa.BinOp:
			// r = a - b with two variable operands (rest := len(S) - cnt): what is known about a - b, and about b,
			// bounds r against 0 and against a
			if x.Op != token.SUB {
				break
			}
			if bt, okb := x.Type().Underlying().(*types.Basic); !okb || bt.Kind() != types.Int {
				break
			}
			if _, isConst := x.Y.(*ssa.Const); isConst {
				break
			}
			a, b := te.term(x.X), te.term(x.Y)
			if !a.ok || !b.ok {
				break
			}
			s.close()
			rk := regKey(x)
			get := func(p, q string) (int64, bool) {
				if p == q {
					return 0, true
				}
				v, ok := s[pair{p, q}]
				return v, ok
			}
			if v, ok := get(b.key, a.key); ok { // b - a <= v'  =>  r >= -v'
				s.add(zeroTerm, rk, v+b.off-a.off)
			}
			if v, ok := get(a.key, b.key); ok { // a - b <= v'  =>  r <= v'
				s.add(rk, zeroTerm, v+a.off-b.off)
			}
			if v, ok := get(zeroTerm, b.key); ok && a.key != zeroTerm { // b >= lb  =>  r <= a - lb
				s.add(rk, a.key, a.off+v-b.off)
			}
			if v, ok := get(b.key, zeroTerm); ok && a.key != zeroTerm { // b <= ub  =>  r >= a - ub
				s.add(a.key, rk, v+b.off-a.off)
			}
		}
	}
	return s
}

func killField(s cstate, suffix string) {
	for k := range s {
		if strings.Contains(k.a, suffix) || strings.Contains(k.b, suffix) {
			delete(s, k)
		}
	}
}

func isSliceOrString(t types.Type) bool {
	switch u := t.Underlying().(type) {
	case *types.Slice:
		return true
	case *types.Basic:
		return u.Info()&types.IsString != 0
	}
	return false
}

// applyCall kills what the callee may write.
func (r *boundsResult) applyCall(s cstate, site ssa.CallInstruction) {
	cc := site.Common()
	if _, isBuiltin := cc.Value.(*ssa.Builtin); isBuiltin {
		return
	}
	var callees []*ssa.Function
	if f := cc.StaticCallee(); f != nil {
		callees = []*ssa.Function{f}
	} else {
		callees = r.bc.w.Callees(r.bc.w.VTA, site)
		if len(callees) == 0 {
			// unresolved dynamic call: could be any closure of the package that captures our cells
			for k := range s {
				if strings.Contains(k.a, "c:") || strings.Contains(k.b, "c:") || strings.Contains(k.a, "f:") || strings.Contains(k.b, "f:") {
					delete(s, k)
				}
			}
			return
		}
	}
	for _, f := range callees {
		ms := r.bc.mods[f]
		if ms == nil {
			continue // library function: cannot reach unexported cells/fields
		}
		for c := range ms.cells {
			if c.Parent() == f {
				continue // the callee's own locals
			}
			s.kill(cellID(c))
		}
		for fld := range ms.fields {
			for k := range s {
				if strings.Contains(k.a, "."+fld) || strings.Contains(k.b, "."+fld) {
					delete(s, k)
				}
			}
		}
	}
}

// defFacts: facts about call results (append, strings.Split, …).
func (r *boundsResult) defFacts(s cstate, c *ssa.Call) {
	te := r.te
	name := calleeFullName(&c.Call)
	switch name {
	case "builtin.append":
		if len(c.Call.Args) == 2 {
			lk := "len(" + regKey(c) + ")"
			if ak, ok := te.lenKey(c.Call.Args[0]); ok {
				add := int64(0)
				if n, okn := constLenSlice(c.Call.Args[1]); okn {
					add = n
					if isNilConst(c.Call.Args[0]) {
						s.add(lk, zeroTerm, n)
					}
					// exact: len(res) = len(a) + n
					s.add(lk, ak, n)
				}
				if isNilConst(c.Call.Args[0]) {
					s.add(zeroTerm, lk, -add)
				} else {
					s.add(ak, lk, -add)
				}
			}
		}
	case "strings.Split":
		// a non-empty separator always yields at least one element
		if sep, ok := constString(c.Call.Args[1]); ok && sep != "" {
			s.add(zeroTerm, "len("+regKey(c)+")", -1)
		}
	}
}

func (r *boundsResult) sliceFacts(s cstate, x *ssa.Slice) {
	te := r.te
	lk := "len(" + regKey(x) + ")"
	var hi lin
	if x.High != nil {
		hi = te.term(x.High)
	} else if n, ok := constLenOf(x.X.Type()); ok {
		hi = lin{zeroTerm, n, true}
	} else if k, ok := te.lenKey(x.X); ok {
		hi = lin{k, 0, true}
	}
	if !hi.ok {
		return
	}
	lo := int64(0)
	if x.Low != nil {
		c, ok := constInt(x.Low)
		if !ok {
			// len = hi - lo with symbolic lo: only len <= hi is expressible
			s.add(lk, hi.key, hi.off)
			return
		}
		lo = c
	}
	s.add(lk, hi.key, hi.off-lo)
	s.add(hi.key, lk, lo-hi.off)
}

// stateAt returns the closed constraint state just before an instruction.
func (r *boundsResult) stateAt(in ssa.Instruction) cstate {
	b := in.Block()
	if r.top[b.Index] {
		return nil // unreachable
	}
	s := r.transfer(b, r.in[b.Index].clone(), in)
	s.close()
	return s
}

// ---- obligations --------------------------------------------------------------

// inRange: 0 <= idx < len(X)
func (r *boundsResult) indexInRange(in ssa.Instruction, X ssa.Value, idx ssa.Value) (bool, string) {
	s := r.stateAt(in)
	if s == nil {
		return true, "unreachable"
	}
	te := r.te
	i := te.term(idx)
	var n lin
	if c, ok := constLenOf(X.Type()); ok {
		n = lin{zeroTerm, c, true}
	} else if cl, ok := constLenSlice(X); ok {
		n = lin{zeroTerm, cl, true}
	} else if k, ok := te.lenKey(X); ok {
		n = lin{k, 0, true}
	}
	if !i.ok || !n.ok {
		return false, "operands not expressible"
	}
	lower := s.le(lin{zeroTerm, 0, true}, i, 0)
	upper := s.le(i, n, -1)
	if lower && upper {
		return true, fmt.Sprintf("0 <= %s and %s < %s proven by the dominating guards", showLin(i), showLin(i), showLin(n))
	}
	var miss []string
	if !lower {
		miss = append(miss, "0 <= "+showLin(i))
	}
	if !upper {
		miss = append(miss, showLin(i)+" < "+showLin(n))
	}
	return false, "not proven: " + strings.Join(miss, " and ")
}

// sliceInRange: 0 <= lo <= hi <= len(X)   (len as a conservative stand-in for cap)
func (r *boundsResult) sliceInRange(x *ssa.Slice) (bool, string) {
	s := r.stateAt(x)
	if s == nil {
		return true, "unreachable"
	}
	te := r.te
	var n lin
	if c, ok := constLenOf(x.X.Type()); ok {
		n = lin{zeroTerm, c, true}
	} else if k, ok := te.lenKey(x.X); ok {
		n = lin{k, 0, true}
	}
	zero := lin{zeroTerm, 0, true}
	lo, hi := zero, n
	if x.Low != nil {
		lo = te.term(x.Low)
	}
	if x.High != nil {
		hi = te.term(x.High)
	}
	var miss []string
	if x.Low != nil && !s.le(zero, lo, 0) {
		miss = append(miss, "0 <= "+showLin(lo))
	}
	if !s.le(lo, hi, 0) {
		miss = append(miss, showLin(lo)+" <= "+showLin(hi))
	}
	if x.High != nil && !s.le(hi, n, 0) {
		miss = append(miss, showLin(hi)+" <= "+showLin(n))
	}
	if len(miss) == 0 {
		return true, "0 <= low <= high <= len proven by the dominating guards"
	}
	return false, "not proven: " + strings.Join(miss, " and ")
}

func (r *boundsResult) nonNegative(in ssa.Instruction, v ssa.Value) (bool, string) {
	s := r.stateAt(in)
	if s == nil {
		return true, "unreachable"
	}
	t := r.te.term(v)
	if t.ok && s.le(lin{zeroTerm, 0, true}, t, 0) {
		return true, "0 <= " + showLin(t) + " proven"
	}
	return false, "not proven: 0 <= " + showLin(t)
}

func showLin(l lin) string {
	k := l.key
	if k == zeroTerm {
		return fmt.Sprint(l.off)
	}
	// shorten register keys
	k = strings.ReplaceAll(k, "r:", "")
	if i := strings.Index(k, "@"); i >= 0 && !strings.Contains(k, "(") {
		k = k[:i]
	}
	switch {
	case l.off > 0:
		return fmt.Sprintf("%s+%d", k, l.off)
	case l.off < 0:
		return fmt.Sprintf("%s%d", k, l.off)
	}
	return k
}


// seedCapturedLengths: a closure starts out knowing `n == len(A)` for captured variables n and A of an enclosing
// function P that are each assigned exactly once, A before n, n's value being len(A), and both before any closure
// that captures n is created (`n := len(A)` hoisted out of the closures that test `i < n`). Slices are immutable in
// length, A is never reassigned, so the relation holds whenever such a closure runs.
func (bc *boundsCtx) seedCapturedLengths(fn *ssa.Function, s cstate) {
	if fn.Parent() == nil {
		return
	}
	for _, fv := range fn.FreeVars {
		nCell := resolveCell(fv)
		if nCell == nil || !bc.cellUsable(nCell) {
			continue
		}
		if bt, ok := deref(nCell.Type()).Underlying().(*types.Basic); !ok || bt.Info()&types.IsInteger == 0 {
			continue
		}
		ns := cellStores(nCell)
		if len(ns) != 1 || ns[0].Parent() != nCell.Parent() {
			continue
		}
		// `width = 5` hoisted out of the closures: a captured cell assigned exactly once, with a constant, before every
		// closure that captures it is created, has that value whenever such a closure runs
		if c, isConst := constInt(ns[0].Val); isConst {
			okOrder := true
			for _, ref := range referrers(nCell) {
				if mc, isMC := ref.(*ssa.MakeClosure); isMC && !instrDominates(ns[0], mc) {
					okOrder = false
				}
			}
			if okOrder {
				nk := cellID(nCell)
				s.add(nk, zeroTerm, c)
				s.add(zeroTerm, nk, -c)
			}
			continue
		}
		arg, ok := lenArg(ns[0].Val)
		if !ok {
			continue
		}
		addr, ok := isLoad(arg)
		if !ok {
			continue
		}
		aCell, ok := addr.(*ssa.Alloc)
		if !ok || !bc.cellUsable(aCell) || aCell.Parent() != nCell.Parent() {
			continue
		}
		as := cellStores(aCell)
		if len(as) != 1 || as[0].Parent() != nCell.Parent() || !instrDominates(as[0], ns[0]) {
			continue
		}
		// every closure that captures n is created after n was assigned
		okOrder := true
		for _, ref := range referrers(nCell) {
			if mc, isMC := ref.(*ssa.MakeClosure); isMC && !instrDominates(ns[0], mc) {
				okOrder = false
			}
		}
		if !okOrder {
			continue
		}
		nk, lk := cellID(nCell), "len("+cellID(aCell)+")"
		s.add(nk, lk, 0)
		s.add(lk, nk, 0)
	}
}
