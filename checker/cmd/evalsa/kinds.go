package main

// Node-kind constants and matchers for tests of a node's kind.

import (
	"go/token"

	"golang.org/x/tools/go/ssa"
)

type nodeKinds struct {
	ok                                                            bool
	mask, constant, variable, operator, fastOperator, cond, event int64
	byValue                                                       map[int64]string
}

func loadNodeKinds(w *World) nodeKinds {
	k := nodeKinds{ok: true, byValue: map[int64]string{}}
	get := func(name string) int64 {
		v, ok := w.ConstInt(name)
		if !ok {
			k.ok = false
		}
		return v
	}
	k.mask = get("nodeTypeMask")
	k.constant = get("constant")
	k.variable = get("variable")
	k.operator = get("operator")
	k.fastOperator = get("fastOperator")
	k.cond = get("cond")
	k.event = get("event")
	for _, n := range []string{"constant", "variable", "operator", "fastOperator", "cond", "event"} {
		if v, ok := w.ConstInt(n); ok {
			k.byValue[v] = n
		}
	}
	return k
}

// kindValueOf matches `n.getNodeType()` or `n.flag & nodeTypeMask` and returns
// the node pointer n.
func (k nodeKinds) kindValueOf(v ssa.Value) (ssa.Value, bool) {
	if c, ok := v.(*ssa.Call); ok {
		if f := c.Call.StaticCallee(); f != nil && nm(f) == "getNodeType" && len(c.Call.Args) == 1 {
			return c.Call.Args[0], true
		}
	}
	if bo, ok := v.(*ssa.BinOp); ok && bo.Op == token.AND {
		x, y := bo.X, bo.Y
		if _, isC := x.(*ssa.Const); isC {
			x, y = y, x
		}
		if c, ok := constInt(y); ok && c == k.mask {
			if base, okf := loadOfField(x, "node", "flag"); okf {
				return base, true
			}
		}
	}
	return nil, false
}

// kindTest matches `kind(n) == K` / `kind(n) != K` and returns (n, K, isEq).
func (k nodeKinds) kindTest(v ssa.Value) (ssa.Value, int64, bool, bool) {
	bo, ok := v.(*ssa.BinOp)
	if !ok || (bo.Op != token.EQL && bo.Op != token.NEQ) {
		return nil, 0, false, false
	}
	x, y := bo.X, bo.Y
	if _, isC := x.(*ssa.Const); isC {
		x, y = y, x
	}
	c, ok := constInt(y)
	if !ok {
		return nil, 0, false, false
	}
	n, ok := k.kindValueOf(x)
	if !ok {
		return nil, 0, false, false
	}
	return n, c, bo.Op == token.EQL, true
}

// kindsPossibleAt returns, for node value n, the set of kinds consistent with
// the branch facts that hold on entry to block b (nil = unconstrained).
func (k nodeKinds) kindsPossibleAt(b *ssa.BasicBlock, same func(n ssa.Value) bool) map[int64]bool {
	possible := map[int64]bool{}
	for v := range k.byValue {
		possible[v] = true
	}
	constrained := false
	for _, f := range factsAt(b) {
		n, c, isEq, ok := k.kindTest(f.Cond)
		if !ok || !same(n) {
			continue
		}
		constrained = true
		if isEq == f.Truth {
			for v := range possible {
				if v != c {
					delete(possible, v)
				}
			}
		} else {
			delete(possible, c)
		}
	}
	if !constrained {
		return nil
	}
	return possible
}

// isCondOperatorFn: every use of fn in the package installs it as the operator of a node literal of kind cond
// (the `if` / `fi` nodes built by the parser). By R-KIND operators are replaced only for operator/fastOperator
// nodes, so such a function is applied only by the evaluator's cond arm (C06 R-CONDARG: with a one-element
// argument literal). Holds for the closure literals of the pinned tree and for named functions alike.
func isCondOperatorFn(w *World, fn *ssa.Function) bool {
	k := loadNodeKinds(w)
	installs := 0
	var okValue func(v ssa.Value, depth int) bool
	okUse := func(in ssa.Instruction, v ssa.Value, depth int) bool {
		switch x := in.(type) {
		case *ssa.ChangeType:
			return x.X == v && okValue(x, depth+1)
		case *ssa.MakeClosure:
			return x.Fn == v && okValue(x, depth+1)
		case *ssa.Store:
			if x.Val != v {
				return false
			}
			tn, fld, base, okf := fieldOf(x.Addr)
			if !okf || tn != "node" || fld != "operator" {
				return false
			}
			al, isLit := base.(*ssa.Alloc)
			if !isLit {
				return false
			}
			kc, okk := literalKind(al)
			if !okk || kc&k.mask != k.cond {
				return false
			}
			installs++
			return true
		}
		return false
	}
	okValue = func(v ssa.Value, depth int) bool {
		if depth > 4 {
			return false
		}
		refs := referrers(v)
		if len(refs) == 0 {
			return false
		}
		for _, ref := range refs {
			if !okUse(ref, v, depth) {
				return false
			}
		}
		return true
	}
	sites := w.useSites[fn]
	if len(sites) == 0 {
		return false
	}
	for _, in := range sites {
		if !okUse(in, fn, 0) {
			return false
		}
	}
	return installs > 0
}
