package main

// Source-level inlining of extracted helpers (fallback analysis).
//
// "Extract function" is the most common behaviour-preserving refactoring, and it moves the very computation a
// rule recognises out of the function the rule looks at. When a property fails on the program as written, the
// analysis is repeated on a copy of the syntax trees in which every call of a *new* helper — a package function
// or method that does not exist under that name in the reference tree — is replaced by the helper's body. The
// transformation is semantics-preserving by construction (arguments are evaluated once, in order, into fresh
// variables; every `return` becomes an assignment to fresh result variables and a jump to the end of the
// inlined body), is applied only at statement positions where no evaluation order can change, and is discarded
// unless the transformed package type-checks. A property holds if it holds on either form; a violation is
// reported only if it is present in both.

import (
	"fmt"
	"go/ast"
	"go/token"
	"go/types"
	"os"
	"reflect"
	"sort"
	"strings"

	"golang.org/x/tools/go/packages"
)

type inliner struct {
	fset       *token.FileSet
	info       *types.Info
	pkg        *types.Package
	decls      map[types.Object]*ast.FuncDecl // for a local closure: a synthetic declaration around the literal
	cands      map[types.Object]bool
	lits       map[types.Object]*ast.FuncLit // local closures among the candidates
	uses       map[types.Object]int          // number of calls of each local closure
	done       map[types.Object]int          // number of calls inlined
	counter    int
	inlined    map[string]int
	skipped    map[string]string
	curLit     *ast.FuncLit   // the closure literal being expanded: freeNamesOK also checks its captured locals
	curResults *types.Tuple   // results of the function being rewritten
	curBody    *ast.BlockStmt // its body
}

// cloneNode deep-copies an AST (positions are kept, objects/scopes are dropped).
func cloneNode(n ast.Node) ast.Node {
	if n == nil || reflect.ValueOf(n).IsNil() {
		return n
	}
	return cloneValue(reflect.ValueOf(n)).Interface().(ast.Node)
}

func cloneValue(v reflect.Value) reflect.Value {
	switch v.Kind() {
	case reflect.Ptr:
		if v.IsNil() {
			return v
		}
		switch v.Interface().(type) {
		case *ast.Object, *ast.Scope:
			return reflect.Zero(v.Type())
		}
		out := reflect.New(v.Elem().Type())
		out.Elem().Set(cloneValue(v.Elem()))
		return out
	case reflect.Interface:
		if v.IsNil() {
			return v
		}
		out := reflect.New(v.Type()).Elem()
		out.Set(cloneValue(v.Elem()))
		return out
	case reflect.Slice:
		if v.IsNil() {
			return v
		}
		out := reflect.MakeSlice(v.Type(), v.Len(), v.Len())
		for i := 0; i < v.Len(); i++ {
			out.Index(i).Set(cloneValue(v.Index(i)))
		}
		return out
	case reflect.Struct:
		out := reflect.New(v.Type()).Elem()
		for i := 0; i < v.NumField(); i++ {
			if !out.Field(i).CanSet() {
				continue
			}
			out.Field(i).Set(cloneValue(v.Field(i)))
		}
		return out
	}
	return v
}

// inlinable decides whether fd may be inlined at all.
func (in *inliner) inlinable(fn types.Object, fd *ast.FuncDecl) string {
	if fd.Body == nil {
		return "no body"
	}
	if fd.Type.TypeParams != nil && len(fd.Type.TypeParams.List) > 0 {
		return "generic"
	}
	sig, isSig := fn.Type().Underlying().(*types.Signature)
	if !isSig {
		return "not a function"
	}
	if sig.Variadic() {
		return "variadic"
	}
	if fd.Recv != nil {
		if len(fd.Recv.List) != 1 {
			return "receiver"
		}
		// generic receiver types are not handled
		if _, ok := fd.Recv.List[0].Type.(*ast.IndexExpr); ok {
			return "generic receiver"
		}
	}
	bad := ""
	ast.Inspect(fd.Body, func(n ast.Node) bool {
		switch x := n.(type) {
		case *ast.DeferStmt:
			bad = "defer"
		case *ast.GoStmt:
			bad = "go statement"
		case *ast.LabeledStmt:
			bad = "label"
		case *ast.BranchStmt:
			if x.Tok == token.GOTO || x.Label != nil {
				bad = "goto / labelled branch"
			}
		case *ast.CallExpr:
			if id, ok := x.Fun.(*ast.Ident); ok {
				if id.Name == "recover" {
					bad = "recover"
				}
				if obj, ok := in.info.Uses[id].(*types.Func); ok && obj == fn {
					bad = "recursive"
				}
			}
			if sel, ok := x.Fun.(*ast.SelectorExpr); ok {
				if obj, ok := in.info.Uses[sel.Sel].(*types.Func); ok && obj == fn {
					bad = "recursive"
				}
			}
		}
		return bad == ""
	})
	return bad
}

func (in *inliner) fresh(prefix string) string {
	in.counter++
	return fmt.Sprintf("inl%d_%s", in.counter, prefix)
}

// calleeOf returns the candidate function called by call, with the receiver expression for methods.
func (in *inliner) calleeOf(call *ast.CallExpr) (types.Object, ast.Expr) {
	switch f := ast.Unparen(call.Fun).(type) {
	case *ast.Ident:
		if fn := in.info.Uses[f]; fn != nil && in.cands[fn] {
			return fn, nil
		}
	case *ast.SelectorExpr:
		fn, ok := in.info.Uses[f.Sel].(*types.Func)
		if !ok || !in.cands[fn] {
			return nil, nil
		}
		sel := in.info.Selections[f]
		if sel == nil || sel.Kind() != types.MethodVal || len(sel.Index()) != 1 {
			return nil, nil
		}
		// no implicit address-of / dereference: the receiver expression has exactly the declared receiver type
		sig := fn.Type().(*types.Signature)
		tv, ok := in.info.Types[f.X]
		if !ok || sig.Recv() == nil || !types.Identical(tv.Type, sig.Recv().Type()) {
			return nil, nil
		}
		return fn, f.X
	}
	return nil, nil
}

// freeNamesOK: every identifier of node (taken from the callee) that denotes a package-level or universe object
// denotes the same object at position pos in the caller (no shadowing by a caller local).
func (in *inliner) freeNamesOK(node ast.Node, callerPos token.Pos) bool {
	ok := true
	scope := in.pkg.Scope().Innermost(callerPos)
	if scope == nil {
		return false
	}
	ast.Inspect(node, func(n ast.Node) bool {
		id, isId := n.(*ast.Ident)
		if !isId || !ok {
			return ok
		}
		obj := in.info.Uses[id]
		if obj == nil {
			return true
		}
		if obj.Parent() == in.pkg.Scope() || obj.Parent() == types.Universe {
			_, found := scope.LookupParent(id.Name, callerPos)
			if found != obj {
				ok = false
			}
		}
		if v, isVar := obj.(*types.Var); isVar && !v.IsField() && obj.Parent() != nil && obj.Parent() != in.pkg.Scope() &&
			in.curLit != nil && !(in.curLit.Pos() <= obj.Pos() && obj.Pos() < in.curLit.End()) {
			// a variable of the enclosing function captured by a closure literal: the same variable at the call
			_, found := scope.LookupParent(id.Name, callerPos)
			if found != obj {
				ok = false
			}
		}
		if pn, isPkg := obj.(*types.PkgName); isPkg {
			_, found := scope.LookupParent(id.Name, callerPos)
			if found != pn {
				ok = false
			}
		}
		return true
	})
	return ok
}

// expand builds the statements that replace one call. It returns the statements to run before the use, and the
// expressions holding the results.
func (in *inliner) expand(call *ast.CallExpr, fn types.Object, recv ast.Expr) ([]ast.Stmt, []ast.Expr, bool) {
	return in.expandMode(call, fn, recv, nil)
}

// expandMode: with tail != nil the call is the operand of a return statement whose result types are those of
// the helper; every `return X` of the helper then becomes `return tail(X)` of the caller (no join, no result
// variables), which is the shape the code had before the helper was extracted.
func (in *inliner) expandMode(call *ast.CallExpr, fn types.Object, recv ast.Expr, tail func([]ast.Expr) []ast.Expr) ([]ast.Stmt, []ast.Expr, bool) {
	fd := in.decls[fn]
	in.curLit = in.lits[fn]
	if !in.freeNamesOK(fd.Body, call.Pos()) || !in.freeNamesOK(fd.Type, call.Pos()) {
		in.skipped[fn.Name()] = "a name used by the helper is shadowed at the call site"
		return nil, nil, false
	}
	if fd.Recv != nil && !in.freeNamesOK(fd.Recv.List[0].Type, call.Pos()) {
		return nil, nil, false
	}
	var pre []ast.Stmt
	if _, isLit := in.lits[fn]; isLit {
		// the closure variable stays declared: keep it used
		pre = append(pre, &ast.AssignStmt{Lhs: []ast.Expr{ast.NewIdent("_")}, Tok: token.ASSIGN, Rhs: []ast.Expr{ast.NewIdent(fn.Name())}})
	}
	varDecl := func(name string, typ ast.Expr, val ast.Expr) ast.Stmt {
		spec := &ast.ValueSpec{Names: []*ast.Ident{ast.NewIdent(name)}, Type: cloneNode(typ).(ast.Expr)}
		if val != nil {
			spec.Values = []ast.Expr{val}
		}
		return &ast.DeclStmt{Decl: &ast.GenDecl{Tok: token.VAR, Specs: []ast.Spec{spec}}}
	}
	use := func(name string) ast.Stmt {
		return &ast.AssignStmt{Lhs: []ast.Expr{ast.NewIdent("_")}, Tok: token.ASSIGN, Rhs: []ast.Expr{ast.NewIdent(name)}}
	}
	// 1. receiver and arguments, evaluated once, in order, into fresh variables of the declared types
	type binding struct {
		name, temp string
		typ        ast.Expr
	}
	var binds []binding
	if fd.Recv != nil {
		f := fd.Recv.List[0]
		name := "_"
		if len(f.Names) == 1 {
			name = f.Names[0].Name
		}
		t := in.fresh("recv")
		pre = append(pre, varDecl(t, f.Type, recv), use(t))
		binds = append(binds, binding{name, t, f.Type})
	}
	ai := 0
	for _, f := range fd.Type.Params.List {
		names := f.Names
		if len(names) == 0 {
			names = []*ast.Ident{ast.NewIdent("_")}
		}
		for _, nm := range names {
			if ai >= len(call.Args) {
				return nil, nil, false
			}
			t := in.fresh("arg")
			pre = append(pre, varDecl(t, f.Type, call.Args[ai]), use(t))
			binds = append(binds, binding{nm.Name, t, f.Type})
			ai++
		}
	}
	if ai != len(call.Args) {
		return nil, nil, false
	}
	// 2. result variables
	var results []ast.Expr
	var resNames []string
	var namedResults []binding
	if fd.Type.Results != nil {
		for _, f := range fd.Type.Results.List {
			n := len(f.Names)
			if n == 0 {
				n = 1
			}
			for k := 0; k < n; k++ {
				rn := in.fresh("res")
				if tail == nil {
					pre = append(pre, varDecl(rn, f.Type, nil), use(rn))
				}
				results = append(results, ast.NewIdent(rn))
				resNames = append(resNames, rn)
				if len(f.Names) > 0 && f.Names[k].Name != "_" {
					namedResults = append(namedResults, binding{f.Names[k].Name, rn, f.Type})
				} else {
					namedResults = append(namedResults, binding{"", rn, f.Type})
				}
			}
		}
	}
	// 3. the body in its own block
	label := in.fresh("done")
	var inner []ast.Stmt
	for _, b := range binds {
		if b.name == "_" {
			continue
		}
		inner = append(inner, varDecl(b.name, b.typ, ast.NewIdent(b.temp)), use(b.name))
	}
	hasNamed := false
	for _, nr := range namedResults {
		if nr.name != "" {
			hasNamed = true
			inner = append(inner, varDecl(nr.name, nr.typ, nil), use(nr.name))
		}
	}
	body := cloneNode(fd.Body).(*ast.BlockStmt)
	okRewrite := true
	var rewrite func(list []ast.Stmt) []ast.Stmt
	rewriteStmt := func(s ast.Stmt) {}
	_ = rewriteStmt
	var visit func(n ast.Node)
	replaceReturn := func(ret *ast.ReturnStmt) []ast.Stmt {
		var out []ast.Stmt
		if tail != nil {
			vals := ret.Results
			if len(vals) == 0 {
				if !hasNamed {
					okRewrite = false
					return nil
				}
				for _, nr := range namedResults {
					if nr.name == "" {
						okRewrite = false
						return nil
					}
					vals = append(vals, ast.NewIdent(nr.name))
				}
			}
			if len(vals) != len(resNames) {
				// return g() forwarding a tuple
				if len(vals) != 1 || len(resNames) == 0 {
					okRewrite = false
					return nil
				}
				if _, isCall := ast.Unparen(vals[0]).(*ast.CallExpr); !isCall {
					okRewrite = false
					return nil
				}
				out2 := tail(vals)
				if len(out2) != 1 {
					okRewrite = false
					return nil
				}
				return []ast.Stmt{&ast.ReturnStmt{Return: ret.Return, Results: out2}}
			}
			return []ast.Stmt{&ast.ReturnStmt{Return: ret.Return, Results: tail(vals)}}
		}
		switch {
		case len(resNames) == 0:
		case len(ret.Results) == 0:
			if !hasNamed {
				okRewrite = false
				return nil
			}
			var lhs, rhs []ast.Expr
			for _, nr := range namedResults {
				if nr.name == "" {
					continue
				}
				lhs = append(lhs, ast.NewIdent(nr.temp))
				rhs = append(rhs, ast.NewIdent(nr.name))
			}
			out = append(out, &ast.AssignStmt{Lhs: lhs, Tok: token.ASSIGN, Rhs: rhs})
		default:
			var lhs []ast.Expr
			for _, rn := range resNames {
				lhs = append(lhs, ast.NewIdent(rn))
			}
			out = append(out, &ast.AssignStmt{Lhs: lhs, Tok: token.ASSIGN, Rhs: ret.Results})
		}
		out = append(out, &ast.BranchStmt{Tok: token.BREAK, Label: ast.NewIdent(label)})
		return out
	}
	rewrite = func(list []ast.Stmt) []ast.Stmt {
		var out []ast.Stmt
		for _, s := range list {
			if ret, ok := s.(*ast.ReturnStmt); ok {
				out = append(out, replaceReturn(ret)...)
				continue
			}
			visit(s)
			out = append(out, s)
		}
		return out
	}
	visit = func(n ast.Node) {
		switch x := n.(type) {
		case *ast.BlockStmt:
			x.List = rewrite(x.List)
		case *ast.IfStmt:
			visit(x.Body)
			if x.Else != nil {
				if _, isRet := x.Else.(*ast.ReturnStmt); isRet {
					okRewrite = false
				}
				visit(x.Else)
			}
		case *ast.ForStmt:
			visit(x.Body)
		case *ast.RangeStmt:
			visit(x.Body)
		case *ast.SwitchStmt:
			visit(x.Body)
		case *ast.TypeSwitchStmt:
			visit(x.Body)
		case *ast.SelectStmt:
			visit(x.Body)
		case *ast.CaseClause:
			x.Body = rewrite(x.Body)
		case *ast.CommClause:
			x.Body = rewrite(x.Body)
		case *ast.LabeledStmt:
			okRewrite = false
		}
	}
	visit(body)
	if !okRewrite {
		in.skipped[fn.Name()] = "a return of the helper could not be rewritten"
		return nil, nil, false
	}
	inner = append(inner, body.List...)
	if tail != nil {
		pre = append(pre, &ast.BlockStmt{List: inner})
		in.inlined[fn.Name()]++
		in.done[fn]++
		return pre, nil, true
	}
	inner = append(inner, &ast.BranchStmt{Tok: token.BREAK, Label: ast.NewIdent(label)})
	loop := &ast.LabeledStmt{Label: ast.NewIdent(label), Stmt: &ast.ForStmt{Body: &ast.BlockStmt{List: inner}}}
	pre = append(pre, loop)
	in.inlined[fn.Name()]++
	in.done[fn]++
	return pre, results, true
}

// pure: e can be evaluated later than a hoisted call without changing behaviour.
func pure(e ast.Expr) bool {
	switch x := ast.Unparen(e).(type) {
	case *ast.Ident, *ast.BasicLit:
		return true
	case *ast.SelectorExpr:
		_, ok := x.X.(*ast.Ident)
		return ok
	}
	return false
}

// pureAt: e is a literal, a constant, nil, or a local variable no helper can reach (its type has no
// pointer-receiver methods through which its address could escape implicitly, and the enclosing function
// neither takes its address nor captures it in a function literal).
func (in *inliner) pureAt(e ast.Expr) bool {
	switch x := ast.Unparen(e).(type) {
	case *ast.BasicLit:
		return true
	case *ast.Ident:
		switch obj := in.info.Uses[x].(type) {
		case *types.Const, *types.Nil:
			return true
		case *types.Var:
			if obj.Parent() == in.pkg.Scope() || obj.IsField() || in.curBody == nil {
				return false
			}
			switch obj.Type().Underlying().(type) {
			case *types.Struct, *types.Array:
				return false
			}
			safe := !in.reachableByHelpers(obj)
			return safe
		}
	}
	return false
}

// reachableByHelpers: code other than the statement at hand could change the local variable v — its address is
// taken somewhere in the enclosing function, or a function literal assigns to it (or to a part of it, or calls a
// method on it, which may take its address implicitly).
func (in *inliner) reachableByHelpers(v types.Object) bool {
	if in.curBody == nil {
		return true
	}
	rootIs := func(e ast.Expr) bool {
		for {
			switch x := ast.Unparen(e).(type) {
			case *ast.Ident:
				return in.info.Uses[x] == v
			case *ast.SelectorExpr:
				e = x.X
			case *ast.IndexExpr:
				e = x.X
			case *ast.StarExpr:
				return false // writes through a pointer do not change the pointer variable
			default:
				return false
			}
		}
	}
	_, isPtr := v.Type().Underlying().(*types.Pointer)
	unsafe := false
	var inLit int
	var visit func(n ast.Node) bool
	visit = func(n ast.Node) bool {
		if unsafe {
			return false
		}
		switch y := n.(type) {
		case *ast.UnaryExpr:
			if y.Op == token.AND && rootIs(y.X) && !isPtr {
				unsafe = true
			}
			if id, ok := ast.Unparen(y.X).(*ast.Ident); ok && y.Op == token.AND && in.info.Uses[id] == v {
				unsafe = true
			}
		case *ast.FuncLit:
			inLit++
			ast.Inspect(y.Body, visit)
			inLit--
			return false
		case *ast.AssignStmt:
			if inLit > 0 {
				for _, l := range y.Lhs {
					if id, ok := ast.Unparen(l).(*ast.Ident); ok && (in.info.Uses[id] == v) {
						unsafe = true
					} else if !isPtr && rootIs(l) {
						unsafe = true
					}
				}
			}
		case *ast.IncDecStmt:
			if inLit > 0 && rootIs(y.X) {
				unsafe = true
			}
		case *ast.CallExpr:
			if sel, ok := ast.Unparen(y.Fun).(*ast.SelectorExpr); ok && !isPtr && rootIs(sel.X) {
				if s := in.info.Selections[sel]; s != nil && s.Kind() == types.MethodVal {
					unsafe = true
				}
			}
		case *ast.RangeStmt:
			if inLit > 0 && ((y.Key != nil && rootIs(y.Key)) || (y.Value != nil && rootIs(y.Value))) && y.Tok == token.ASSIGN {
				unsafe = true
			}
		}
		return true
	}
	ast.Inspect(in.curBody, visit)
	return unsafe
}

// rewriteList rewrites the statements of one block.
func (in *inliner) rewriteList(list []ast.Stmt) ([]ast.Stmt, bool) {
	changed := false
	var out []ast.Stmt
	for _, s := range list {
		repl, ok := in.rewriteStmt(s)
		if ok {
			changed = true
			out = append(out, repl...)
		} else {
			out = append(out, s)
		}
	}
	return out, changed
}

func (in *inliner) callIn(e ast.Expr) (*ast.CallExpr, types.Object, ast.Expr) {
	call, ok := ast.Unparen(e).(*ast.CallExpr)
	if !ok {
		return nil, nil, nil
	}
	fn, recv := in.calleeOf(call)
	if fn == nil {
		return nil, nil, nil
	}
	return call, fn, recv
}

// hoistArg: e is a call g(a, helper(…), b) of some other function whose remaining operands cannot be affected by
// the helper; the helper call is expanded in front and replaced by its result.
func (in *inliner) hoistArg(e ast.Expr) ([]ast.Stmt, bool) {
	outer, ok := ast.Unparen(e).(*ast.CallExpr)
	if !ok || outer.Ellipsis.IsValid() {
		return nil, false
	}
	if c, _, _ := in.callIn(outer); c != nil {
		return nil, false
	}
	if tv, okT := in.info.Types[outer.Fun]; okT && tv.IsType() {
		return nil, false // a conversion
	}
	switch f := ast.Unparen(outer.Fun).(type) {
	case *ast.Ident:
		if _, isFunc := in.info.Uses[f].(*types.Func); !isFunc && !in.pureOperand(f) {
			if _, isBuiltin := in.info.Uses[f].(*types.Builtin); !isBuiltin {
				return nil, false
			}
		}
	case *ast.SelectorExpr:
		if _, isPkg := in.info.Uses[astIdentOf(f.X)].(*types.PkgName); !isPkg && !in.pureOperand(f.X) {
			return nil, false
		}
	default:
		return nil, false
	}
	at := -1
	for i, a := range outer.Args {
		if c, _, _ := in.callIn(a); c != nil {
			if at >= 0 {
				return nil, false
			}
			at = i
		} else if !in.pureOperand(a) {
			return nil, false
		}
	}
	if at < 0 {
		return nil, false
	}
	call, fn, recv := in.callIn(outer.Args[at])
	pre, res, ok := in.expand(call, fn, recv)
	if !ok || len(res) != 1 {
		return nil, false
	}
	outer.Args[at] = res[0]
	return pre, true
}

// hoistInExpr: e is built from one helper call and operands no helper can reach, with operators that evaluate all
// their operands (no && / ||, no address-of): the call is expanded in front and replaced by its result.
func (in *inliner) hoistInExpr(e *ast.Expr) ([]ast.Stmt, bool) {
	var slot *ast.Expr
	calls, ok := 0, true
	var walk func(pe *ast.Expr)
	walk = func(pe *ast.Expr) {
		if !ok {
			return
		}
		switch x := (*pe).(type) {
		case *ast.ParenExpr:
			walk(&x.X)
		case *ast.BinaryExpr:
			if x.Op == token.LAND || x.Op == token.LOR {
				ok = false
				return
			}
			walk(&x.X)
			walk(&x.Y)
		case *ast.UnaryExpr:
			if x.Op == token.AND || x.Op == token.ARROW {
				ok = false
				return
			}
			walk(&x.X)
		case *ast.CallExpr:
			if c, _, _ := in.callIn(x); c != nil {
				calls++
				slot = pe
				return
			}
			ok = false
		default:
			if !in.pureOperand(*pe) {
				ok = false
			}
		}
	}
	walk(e)
	if !ok || calls != 1 || slot == nil || slot == e {
		return nil, false
	}
	call, fn, recv := in.callIn(*slot)
	pre, res, okE := in.expand(call, fn, recv)
	if !okE || len(res) != 1 {
		return nil, false
	}
	*slot = res[0]
	return pre, true
}

func astIdentOf(e ast.Expr) *ast.Ident {
	id, _ := ast.Unparen(e).(*ast.Ident)
	return id
}

// pureOperand: pureAt, or a chain of field selections on such a variable.
func (in *inliner) pureOperand(e ast.Expr) bool {
	e = ast.Unparen(e)
	if in.pureAt(e) {
		return true
	}
	if sel, ok := e.(*ast.SelectorExpr); ok {
		if s := in.info.Selections[sel]; s != nil && s.Kind() == types.FieldVal && !s.Indirect() {
			x := ast.Unparen(sel.X)
			if id, isId := x.(*ast.Ident); isId {
				// a struct-typed local: safe unless its address is taken or a closure mentions it
				if v, isVar := in.info.Uses[id].(*types.Var); isVar && v.Parent() != in.pkg.Scope() && !v.IsField() && in.curBody != nil {
					safe := !in.reachableByHelpers(v)
					return safe
				}
				return false
			}
			return in.pureOperand(x)
		}
	}
	return false
}

func (in *inliner) rewriteStmt(s ast.Stmt) ([]ast.Stmt, bool) {
	switch x := s.(type) {
	case *ast.AssignStmt:
		if len(x.Rhs) == 1 {
			if call, fn, recv := in.callIn(x.Rhs[0]); call != nil {
				pre, res, ok := in.expand(call, fn, recv)
				if !ok || len(res) != len(x.Lhs) {
					return nil, false
				}
				x.Rhs = res
				return append(pre, x), true
			}
			lhsPure := true
			for _, l := range x.Lhs {
				if _, isId := ast.Unparen(l).(*ast.Ident); !isId {
					lhsPure = false
				}
			}
			if lhsPure {
				if pre, ok := in.hoistArg(x.Rhs[0]); ok {
					return append(pre, x), true
				}
				if pre, ok := in.hoistInExpr(&x.Rhs[0]); ok {
					return append(pre, x), true
				}
			}
		}
	case *ast.ExprStmt:
		if call, fn, recv := in.callIn(x.X); call != nil {
			pre, _, ok := in.expand(call, fn, recv)
			if !ok {
				return nil, false
			}
			return pre, true
		}
		if pre, ok := in.hoistArg(x.X); ok {
			return append(pre, x), true
		}
	case *ast.ReturnStmt:
		// return <expression over one helper call>, <pure>…
		{
			at, others := -1, true
			for i := range x.Results {
				if c, _, _ := in.callIn(x.Results[i]); c != nil {
					others = false // handled below
					break
				}
				if in.pureAt(x.Results[i]) {
					continue
				}
				if at >= 0 {
					others = false
					break
				}
				at = i
			}
			if others && at >= 0 {
				if pre, ok := in.hoistInExpr(&x.Results[at]); ok {
					return append(pre, x), true
				}
				if pre, ok := in.hoistArg(x.Results[at]); ok {
					return append(pre, x), true
				}
			}
		}
		// return f(args)  (possibly forwarding a tuple), or return f(args), <pure>…
		calls, at := 0, -1
		for i, e := range x.Results {
			if c, _, _ := in.callIn(e); c != nil {
				calls++
				at = i
			} else if !in.pureAt(e) {
				return nil, false
			}
		}
		if calls != 1 || in.curResults == nil {
			return nil, false
		}
		call, fn, recv := in.callIn(x.Results[at])
		sig := fn.Type().Underlying().(*types.Signature)
		// tail form: the helper's result types are exactly the caller's at these positions
		tailOK := false
		if len(x.Results) == 1 && sig.Results().Len() == in.curResults.Len() {
			tailOK = true
			for i := 0; i < sig.Results().Len(); i++ {
				if !types.Identical(sig.Results().At(i).Type(), in.curResults.At(i).Type()) {
					tailOK = false
				}
			}
		} else if sig.Results().Len() == 1 && len(x.Results) == in.curResults.Len() {
			tailOK = types.Identical(sig.Results().At(0).Type(), in.curResults.At(at).Type())
		}
		if tailOK {
			others := x.Results
			pre, _, ok := in.expandMode(call, fn, recv, func(vals []ast.Expr) []ast.Expr {
				if len(others) == 1 {
					return vals
				}
				out := make([]ast.Expr, len(others))
				for i, e := range others {
					if i == at {
						out[i] = vals[0]
					} else {
						out[i] = cloneNode(e).(ast.Expr)
					}
				}
				return out
			})
			if !ok {
				return nil, false
			}
			return pre, true
		}
		p, res, ok := in.expand(call, fn, recv)
		if !ok || (len(res) != 1 && len(x.Results) != 1) {
			return nil, false
		}
		var results []ast.Expr
		for i, e := range x.Results {
			if i == at {
				results = append(results, res...)
			} else {
				results = append(results, e)
			}
		}
		x.Results = results
		return append(p, x), true
	case *ast.IfStmt:
		// if [!]f(args) { … }  without init
		if x.Init == nil {
			cond := ast.Unparen(x.Cond)
			neg := false
			if u, ok := cond.(*ast.UnaryExpr); ok && u.Op == token.NOT {
				cond, neg = ast.Unparen(u.X), true
			}
			if call, fn, recv := in.callIn(cond); call != nil {
				pre, res, ok := in.expand(call, fn, recv)
				if !ok || len(res) != 1 {
					return nil, false
				}
				var c ast.Expr = res[0]
				if neg {
					c = &ast.UnaryExpr{Op: token.NOT, X: c}
				}
				x.Cond = c
				return []ast.Stmt{&ast.BlockStmt{List: append(pre, x)}}, true
			}
		} else if as, ok := x.Init.(*ast.AssignStmt); ok && len(as.Rhs) == 1 {
			if call, fn, recv := in.callIn(as.Rhs[0]); call != nil {
				pre, res, ok := in.expand(call, fn, recv)
				if !ok || len(res) != len(as.Lhs) {
					return nil, false
				}
				as.Rhs = res
				x.Init = nil
				return []ast.Stmt{&ast.BlockStmt{List: append(append(pre, as), x)}}, true
			}
		}
	case *ast.RangeStmt:
		if call, fn, recv := in.callIn(x.X); call != nil {
			pre, res, ok := in.expand(call, fn, recv)
			if !ok || len(res) != 1 {
				return nil, false
			}
			x.X = res[0]
			return []ast.Stmt{&ast.BlockStmt{List: append(pre, x)}}, true
		}
	}
	return nil, false
}

// walkBlocks applies rewriteList to every statement list of node, innermost lists included.
func (in *inliner) walkBlocks(node ast.Node) bool {
	changed := false
	var stack []ast.Node
	var saved []*types.Tuple
	ast.Inspect(node, func(n ast.Node) bool {
		if n == nil {
			top := stack[len(stack)-1]
			stack = stack[:len(stack)-1]
			if _, ok := top.(*ast.FuncLit); ok {
				in.curResults = saved[len(saved)-1]
				saved = saved[:len(saved)-1]
			}
			return true
		}
		stack = append(stack, n)
		switch x := n.(type) {
		case *ast.FuncLit:
			saved = append(saved, in.curResults)
			in.curResults = nil
			if tv, ok := in.info.Types[x]; ok {
				if sig, ok := tv.Type.(*types.Signature); ok {
					in.curResults = sig.Results()
				}
			}
		case *ast.BlockStmt:
			l, c := in.rewriteList(x.List)
			x.List = l
			changed = changed || c
		case *ast.CaseClause:
			l, c := in.rewriteList(x.Body)
			x.Body = l
			changed = changed || c
		case *ast.CommClause:
			l, c := in.rewriteList(x.Body)
			x.Body = l
			changed = changed || c
		}
		return true
	})
	return changed
}

type mapImporter map[string]*types.Package

func (m mapImporter) Import(path string) (*types.Package, error) {
	if p, ok := m[path]; ok {
		return p, nil
	}
	return nil, fmt.Errorf("package %q not loaded", path)
}

// collect finds the candidates: package functions and methods that are not in the reference tree, and local
// closures `name := func(…) {…}` that are not in the reference tree, are assigned once and are only ever called.
func (in *inliner) collect(files []*ast.File) {
	for _, f := range files {
		for _, d := range f.Decls {
			fd, ok := d.(*ast.FuncDecl)
			if !ok {
				continue
			}
			fn, ok := in.info.Defs[fd.Name].(*types.Func)
			if !ok {
				continue
			}
			in.decls[fn] = fd
			if !protectedFuncs[declName(fd)] && !fn.Exported() {
				if why := in.inlinable(fn, fd); why == "" {
					in.cands[fn] = true
				}
			}
			if fd.Body == nil {
				continue
			}
			// local closures
			encl := declName(fd)
			found := map[types.Object]*ast.FuncLit{}
			ast.Inspect(fd.Body, func(n ast.Node) bool {
				switch x := n.(type) {
				case *ast.AssignStmt:
					if x.Tok == token.DEFINE && len(x.Lhs) == 1 && len(x.Rhs) == 1 {
						if id, ok := x.Lhs[0].(*ast.Ident); ok {
							if lit, ok := x.Rhs[0].(*ast.FuncLit); ok {
								if obj := in.info.Defs[id]; obj != nil {
									found[obj] = lit
								}
							}
						}
					}
				case *ast.ValueSpec:
					if len(x.Names) == 1 && len(x.Values) == 1 {
						if lit, ok := x.Values[0].(*ast.FuncLit); ok {
							if obj := in.info.Defs[x.Names[0]]; obj != nil {
								found[obj] = lit
							}
						}
					}
				}
				return true
			})
			if len(found) == 0 {
				continue
			}
			// only ever called
			callFun := map[*ast.Ident]bool{}
			ast.Inspect(fd.Body, func(n ast.Node) bool {
				if c, ok := n.(*ast.CallExpr); ok {
					if id, ok := ast.Unparen(c.Fun).(*ast.Ident); ok {
						callFun[id] = true
					}
				}
				return true
			})
			ast.Inspect(fd.Body, func(n ast.Node) bool {
				if id, ok := n.(*ast.Ident); ok {
					if obj := in.info.Uses[id]; obj != nil && found[obj] != nil {
						if !callFun[id] {
							delete(found, obj)
						} else {
							in.uses[obj]++
						}
					}
				}
				return true
			})
			for obj, lit := range found {
				if protectedFuncs[encl+"/"+obj.Name()] {
					continue
				}
				syn := &ast.FuncDecl{Name: ast.NewIdent(obj.Name()), Type: lit.Type, Body: lit.Body}
				if why := in.inlinable(obj, syn); why != "" {
					continue
				}
				// a closure that calls another candidate closure of the same function is inlined in a later pass
				in.decls[obj] = syn
				in.cands[obj] = true
				in.lits[obj] = lit
			}
		}
	}
}

// inlineNewHelpers transforms root in place (Syntax, Types, TypesInfo) and returns a description of what was
// inlined; on any doubt it leaves root untouched and returns "".
func inlineNewHelpers(root *packages.Package) (string, error) {
	files := make([]*ast.File, len(root.Syntax))
	copy(files, root.Syntax)
	info := root.TypesInfo
	pkg := root.Types
	descr := ""
	for pass := 0; pass < 3; pass++ {
		in := &inliner{fset: root.Fset, info: info, pkg: pkg, decls: map[types.Object]*ast.FuncDecl{}, cands: map[types.Object]bool{}, lits: map[types.Object]*ast.FuncLit{}, uses: map[types.Object]int{}, done: map[types.Object]int{}, inlined: map[string]int{}, skipped: map[string]string{}}
		in.collect(files)
		if len(in.cands) == 0 {
			break
		}
		// work on clones: the originals stay valid if this pass is abandoned
		clones := make([]*ast.File, len(files))
		for i, f := range files {
			clones[i] = cloneNode(f).(*ast.File)
		}
		// the clones carry no type information: map cloned call sites back through positions
		// (simplest: redo the analysis on the clones after a type-check of the clones themselves)
		cinfo := &types.Info{Types: map[ast.Expr]types.TypeAndValue{}, Defs: map[*ast.Ident]types.Object{}, Uses: map[*ast.Ident]types.Object{}, Implicits: map[ast.Node]types.Object{}, Selections: map[*ast.SelectorExpr]*types.Selection{}, Scopes: map[ast.Node]*types.Scope{}, Instances: map[*ast.Ident]types.Instance{}}
		imp := mapImporter{}
		for path, p := range root.Imports {
			imp[path] = p.Types
		}
		conf := types.Config{Importer: imp, Sizes: root.TypesSizes, Error: func(error) {}}
		cpkg, err := conf.Check(root.PkgPath, root.Fset, clones, cinfo)
		if err != nil {
			return descr, fmt.Errorf("re-check of the cloned package failed: %v", err)
		}
		cin := &inliner{fset: root.Fset, info: cinfo, pkg: cpkg, decls: map[types.Object]*ast.FuncDecl{}, cands: map[types.Object]bool{}, lits: map[types.Object]*ast.FuncLit{}, uses: map[types.Object]int{}, done: map[types.Object]int{}, inlined: map[string]int{}, skipped: map[string]string{}, counter: pass * 10000}
		cin.collect(clones)
		changed := false
		for _, f := range clones {
			for _, d := range f.Decls {
				if fd, ok := d.(*ast.FuncDecl); ok && fd.Body != nil {
					cin.curResults, cin.curBody = nil, fd.Body
					if obj, ok := cinfo.Defs[fd.Name].(*types.Func); ok {
						cin.curResults = obj.Type().(*types.Signature).Results()
					}
					if cin.walkBlocks(fd.Body) {
						changed = true
					}
				}
			}
		}
		if os.Getenv("EVALSA_DEBUG") != "" {
			var cs []string
			for fn := range cin.cands {
				cs = append(cs, fn.Name())
			}
			fmt.Fprintln(os.Stderr, "inliner pass", pass, "candidates", cs, "skipped", cin.skipped, "inlined", cin.inlined)
		}
		if !changed {
			break
		}
		// a helper whose every use was an inlined call is dead code now: empty it (`for {}` fits any signature)
		for obj, lit := range cin.lits {
			if cin.done[obj] > 0 && cin.done[obj] == cin.uses[obj] {
				lit.Body = &ast.BlockStmt{Lbrace: lit.Body.Lbrace, List: []ast.Stmt{&ast.ForStmt{Body: &ast.BlockStmt{}}}, Rbrace: lit.Body.Rbrace}
			}
		}
		funcUses := map[types.Object]int{}
		for _, obj := range cinfo.Uses {
			if _, isFunc := obj.(*types.Func); isFunc && cin.cands[obj] {
				funcUses[obj]++
			}
		}
		for obj, n := range funcUses {
			if fd := cin.decls[obj]; fd != nil && cin.lits[obj] == nil && cin.done[obj] > 0 && cin.done[obj] == n {
				fd.Body = &ast.BlockStmt{Lbrace: fd.Body.Lbrace, List: []ast.Stmt{&ast.ForStmt{Body: &ast.BlockStmt{}}}, Rbrace: fd.Body.Rbrace}
			}
		}
		// the transformed package must type-check
		ninfo := &types.Info{Types: map[ast.Expr]types.TypeAndValue{}, Defs: map[*ast.Ident]types.Object{}, Uses: map[*ast.Ident]types.Object{}, Implicits: map[ast.Node]types.Object{}, Selections: map[*ast.SelectorExpr]*types.Selection{}, Scopes: map[ast.Node]*types.Scope{}, Instances: map[*ast.Ident]types.Instance{}, FileVersions: map[*ast.File]string{}}
		var firstErr error
		conf2 := types.Config{Importer: imp, Sizes: root.TypesSizes, Error: func(e error) {
			if firstErr == nil {
				firstErr = e
			}
		}}
		npkg, _ := conf2.Check(root.PkgPath, root.Fset, clones, ninfo)
		if firstErr != nil {
			return descr, fmt.Errorf("the helper-inlined package does not type-check (%v): inlining abandoned", firstErr)
		}
		files, info, pkg = clones, ninfo, npkg
		var names []string
		for n, c := range cin.inlined {
			names = append(names, fmt.Sprintf("%s x%d", n, c))
		}
		sort.Strings(names)
		if descr != "" {
			descr += "; "
		}
		descr += strings.Join(names, ", ")
	}
	if descr == "" {
		return "", nil
	}
	root.Syntax, root.TypesInfo, root.Types = files, info, pkg
	return descr, nil
}

// declName is the name under which a declaration is listed in protectedFuncs.
func declName(fd *ast.FuncDecl) string {
	name := fd.Name.Name
	if fd.Recv != nil && len(fd.Recv.List) == 1 {
		name = types.ExprString(fd.Recv.List[0].Type) + "." + name
	}
	return name
}

// genProtected prints protected_gen.go for the tree under repo.
func genProtected(repo string) int {
	w, err := Load(LoadConfig{Dir: repo})
	if err != nil {
		fmt.Println(err)
		return 2
	}
	var names []string
	for _, f := range w.Pkg.Syntax {
		for _, d := range f.Decls {
			if fd, ok := d.(*ast.FuncDecl); ok {
				names = append(names, declName(fd))
				if fd.Body != nil {
					ast.Inspect(fd.Body, func(n ast.Node) bool {
						switch x := n.(type) {
						case *ast.AssignStmt:
							for i, rhs := range x.Rhs {
								if _, ok := rhs.(*ast.FuncLit); ok && i < len(x.Lhs) {
									if id, ok := x.Lhs[i].(*ast.Ident); ok {
										names = append(names, declName(fd)+"/"+id.Name)
									}
								}
							}
						case *ast.ValueSpec:
							for i, v := range x.Values {
								if _, ok := v.(*ast.FuncLit); ok && i < len(x.Names) {
									names = append(names, declName(fd)+"/"+x.Names[i].Name)
								}
							}
						}
						return true
					})
				}
			}
		}
	}
	sort.Strings(names)
	fmt.Println("package main\n\n// Code generated by `evalsa -genprotected`; the functions of the reference tree (never inlined by inline.go).\nvar protectedFuncs = map[string]bool{")
	for _, n := range names {
		fmt.Printf("\t%q: true,\n", n)
	}
	fmt.Println("}")
	return 0
}
