package main

// Source-level inlining of extracted helpers (fallback analysis).
//
// "Extract function" is the most common behaviour-preserving refactoring, and it moves the very computation a
// rule recognises out of the function the rule looks at. When a property fails on the program as written, the
// analysis is repeated on a copy of the syntax trees in which every call of a *new* helper — a package function
// or method that does not exist under that name in the reference tree — is replaced by the helper's body. The
// transformation is semantics-preserving by construction (arguments are evaluated once, in order, into fresh
// variables; every `return` becomes an assignment to fresh result variables and a jump to the end of the
// inlined body), is applied only at statement positions where no evaluation order can change, and is discarded
// unless the transformed package type-checks. A property holds if it holds on either form; a violation is
// reported only if it is present in both.

import (
	"fmt"
	"go/ast"
	"go/token"
	"go/types"
	"os"
	"reflect"
	"sort"
	"strings"

	"golang.org/x/tools/go/packages"
)

type inliner struct {
	fset    *token.FileSet
	info    *types.Info
	pkg     *types.Package
	decls   map[*types.Func]*ast.FuncDecl
	cands   map[*types.Func]bool
	counter int
	inlined map[string]int
	skipped map[string]string
	curResults *types.Tuple   // results of the function being rewritten
	curBody    *ast.BlockStmt // its body
}

// cloneNode deep-copies an AST (positions are kept, objects/scopes are dropped).
func cloneNode(n ast.Node) ast.Node {
	if n == nil || reflect.ValueOf(n).IsNil() {
		return n
	}
	return cloneValue(reflect.ValueOf(n)).Interface().(ast.Node)
}

func cloneValue(v reflect.Value) reflect.Value {
	switch v.Kind() {
	case reflect.Ptr:
		if v.IsNil() {
			return v
		}
		switch v.Interface().(type) {
		case *ast.Object, *ast.Scope:
			return reflect.Zero(v.Type())
		}
		out := reflect.New(v.Elem().Type())
		out.Elem().Set(cloneValue(v.Elem()))
		return out
	case reflect.Interface:
		if v.IsNil() {
			return v
		}
		out := reflect.New(v.Type()).Elem()
		out.Set(cloneValue(v.Elem()))
		return out
	case reflect.Slice:
		if v.IsNil() {
			return v
		}
		out := reflect.MakeSlice(v.Type(), v.Len(), v.Len())
		for i := 0; i < v.Len(); i++ {
			out.Index(i).Set(cloneValue(v.Index(i)))
		}
		return out
	case reflect.Struct:
		out := reflect.New(v.Type()).Elem()
		for i := 0; i < v.NumField(); i++ {
			if !out.Field(i).CanSet() {
				continue
			}
			out.Field(i).Set(cloneValue(v.Field(i)))
		}
		return out
	}
	return v
}

// inlinable decides whether fd may be inlined at all.
func (in *inliner) inlinable(fn *types.Func, fd *ast.FuncDecl) string {
	if fd.Body == nil {
		return "no body"
	}
	if fd.Type.TypeParams != nil && len(fd.Type.TypeParams.List) > 0 {
		return "generic"
	}
	sig := fn.Type().(*types.Signature)
	if sig.Variadic() {
		return "variadic"
	}
	if fd.Recv != nil {
		if len(fd.Recv.List) != 1 {
			return "receiver"
		}
		// generic receiver types are not handled
		if _, ok := fd.Recv.List[0].Type.(*ast.IndexExpr); ok {
			return "generic receiver"
		}
	}
	bad := ""
	ast.Inspect(fd.Body, func(n ast.Node) bool {
		switch x := n.(type) {
		case *ast.DeferStmt:
			bad = "defer"
		case *ast.GoStmt:
			bad = "go statement"
		case *ast.LabeledStmt:
			bad = "label"
		case *ast.BranchStmt:
			if x.Tok == token.GOTO || x.Label != nil {
				bad = "goto / labelled branch"
			}
		case *ast.CallExpr:
			if id, ok := x.Fun.(*ast.Ident); ok {
				if id.Name == "recover" {
					bad = "recover"
				}
				if obj, ok := in.info.Uses[id].(*types.Func); ok && obj == fn {
					bad = "recursive"
				}
			}
			if sel, ok := x.Fun.(*ast.SelectorExpr); ok {
				if obj, ok := in.info.Uses[sel.Sel].(*types.Func); ok && obj == fn {
					bad = "recursive"
				}
			}
		}
		return bad == ""
	})
	return bad
}

func (in *inliner) fresh(prefix string) string {
	in.counter++
	return fmt.Sprintf("inl%d_%s", in.counter, prefix)
}

// calleeOf returns the candidate function called by call, with the receiver expression for methods.
func (in *inliner) calleeOf(call *ast.CallExpr) (*types.Func, ast.Expr) {
	switch f := ast.Unparen(call.Fun).(type) {
	case *ast.Ident:
		if fn, ok := in.info.Uses[f].(*types.Func); ok && in.cands[fn] {
			return fn, nil
		}
	case *ast.SelectorExpr:
		fn, ok := in.info.Uses[f.Sel].(*types.Func)
		if !ok || !in.cands[fn] {
			return nil, nil
		}
		sel := in.info.Selections[f]
		if sel == nil || sel.Kind() != types.MethodVal || len(sel.Index()) != 1 {
			return nil, nil
		}
		// no implicit address-of / dereference: the receiver expression has exactly the declared receiver type
		sig := fn.Type().(*types.Signature)
		tv, ok := in.info.Types[f.X]
		if !ok || sig.Recv() == nil || !types.Identical(tv.Type, sig.Recv().Type()) {
			return nil, nil
		}
		return fn, f.X
	}
	return nil, nil
}

// freeNamesOK: every identifier of node (taken from the callee) that denotes a package-level or universe object
// denotes the same object at position pos in the caller (no shadowing by a caller local).
func (in *inliner) freeNamesOK(node ast.Node, callerPos token.Pos) bool {
	ok := true
	scope := in.pkg.Scope().Innermost(callerPos)
	if scope == nil {
		return false
	}
	ast.Inspect(node, func(n ast.Node) bool {
		id, isId := n.(*ast.Ident)
		if !isId || !ok {
			return ok
		}
		obj := in.info.Uses[id]
		if obj == nil {
			return true
		}
		if obj.Parent() == in.pkg.Scope() || obj.Parent() == types.Universe {
			_, found := scope.LookupParent(id.Name, callerPos)
			if found != obj {
				ok = false
			}
		}
		if pn, isPkg := obj.(*types.PkgName); isPkg {
			_, found := scope.LookupParent(id.Name, callerPos)
			if found != pn {
				ok = false
			}
		}
		return true
	})
	return ok
}

// expand builds the statements that replace one call. It returns the statements to run before the use, and the
// expressions holding the results.
func (in *inliner) expand(call *ast.CallExpr, fn *types.Func, recv ast.Expr) ([]ast.Stmt, []ast.Expr, bool) {
	return in.expandMode(call, fn, recv, nil)
}

// expandMode: with tail != nil the call is the operand of a return statement whose result types are those of
// the helper; every `return X` of the helper then becomes `return tail(X)` of the caller (no join, no result
// variables), which is the shape the code had before the helper was extracted.
func (in *inliner) expandMode(call *ast.CallExpr, fn *types.Func, recv ast.Expr, tail func([]ast.Expr) []ast.Expr) ([]ast.Stmt, []ast.Expr, bool) {
	fd := in.decls[fn]
	if !in.freeNamesOK(fd.Body, call.Pos()) || !in.freeNamesOK(fd.Type, call.Pos()) {
		in.skipped[fn.Name()] = "a name used by the helper is shadowed at the call site"
		return nil, nil, false
	}
	if fd.Recv != nil && !in.freeNamesOK(fd.Recv.List[0].Type, call.Pos()) {
		return nil, nil, false
	}
	var pre []ast.Stmt
	varDecl := func(name string, typ ast.Expr, val ast.Expr) ast.Stmt {
		spec := &ast.ValueSpec{Names: []*ast.Ident{ast.NewIdent(name)}, Type: cloneNode(typ).(ast.Expr)}
		if val != nil {
			spec.Values = []ast.Expr{val}
		}
		return &ast.DeclStmt{Decl: &ast.GenDecl{Tok: token.VAR, Specs: []ast.Spec{spec}}}
	}
	use := func(name string) ast.Stmt {
		return &ast.AssignStmt{Lhs: []ast.Expr{ast.NewIdent("_")}, Tok: token.ASSIGN, Rhs: []ast.Expr{ast.NewIdent(name)}}
	}
	// 1. receiver and arguments, evaluated once, in order, into fresh variables of the declared types
	type binding struct{ name, temp string; typ ast.Expr }
	var binds []binding
	if fd.Recv != nil {
		f := fd.Recv.List[0]
		name := "_"
		if len(f.Names) == 1 {
			name = f.Names[0].Name
		}
		t := in.fresh("recv")
		pre = append(pre, varDecl(t, f.Type, recv), use(t))
		binds = append(binds, binding{name, t, f.Type})
	}
	ai := 0
	for _, f := range fd.Type.Params.List {
		names := f.Names
		if len(names) == 0 {
			names = []*ast.Ident{ast.NewIdent("_")}
		}
		for _, nm := range names {
			if ai >= len(call.Args) {
				return nil, nil, false
			}
			t := in.fresh("arg")
			pre = append(pre, varDecl(t, f.Type, call.Args[ai]), use(t))
			binds = append(binds, binding{nm.Name, t, f.Type})
			ai++
		}
	}
	if ai != len(call.Args) {
		return nil, nil, false
	}
	// 2. result variables
	var results []ast.Expr
	var resNames []string
	var namedResults []binding
	if fd.Type.Results != nil {
		for _, f := range fd.Type.Results.List {
			n := len(f.Names)
			if n == 0 {
				n = 1
			}
			for k := 0; k < n; k++ {
				rn := in.fresh("res")
				if tail == nil {
					pre = append(pre, varDecl(rn, f.Type, nil), use(rn))
				}
				results = append(results, ast.NewIdent(rn))
				resNames = append(resNames, rn)
				if len(f.Names) > 0 && f.Names[k].Name != "_" {
					namedResults = append(namedResults, binding{f.Names[k].Name, rn, f.Type})
				} else {
					namedResults = append(namedResults, binding{"", rn, f.Type})
				}
			}
		}
	}
	// 3. the body in its own block
	label := in.fresh("done")
	var inner []ast.Stmt
	for _, b := range binds {
		if b.name == "_" {
			continue
		}
		inner = append(inner, varDecl(b.name, b.typ, ast.NewIdent(b.temp)), use(b.name))
	}
	hasNamed := false
	for _, nr := range namedResults {
		if nr.name != "" {
			hasNamed = true
			inner = append(inner, varDecl(nr.name, nr.typ, nil), use(nr.name))
		}
	}
	body := cloneNode(fd.Body).(*ast.BlockStmt)
	okRewrite := true
	var rewrite func(list []ast.Stmt) []ast.Stmt
	rewriteStmt := func(s ast.Stmt) {}
	_ = rewriteStmt
	var visit func(n ast.Node)
	replaceReturn := func(ret *ast.ReturnStmt) []ast.Stmt {
		var out []ast.Stmt
		if tail != nil {
			vals := ret.Results
			if len(vals) == 0 {
				if !hasNamed {
					okRewrite = false
					return nil
				}
				for _, nr := range namedResults {
					if nr.name == "" {
						okRewrite = false
						return nil
					}
					vals = append(vals, ast.NewIdent(nr.name))
				}
			}
			if len(vals) != len(resNames) {
				// return g() forwarding a tuple
				if len(vals) != 1 || len(resNames) == 0 {
					okRewrite = false
					return nil
				}
				if _, isCall := ast.Unparen(vals[0]).(*ast.CallExpr); !isCall {
					okRewrite = false
					return nil
				}
				out2 := tail(vals)
				if len(out2) != 1 {
					okRewrite = false
					return nil
				}
				return []ast.Stmt{&ast.ReturnStmt{Return: ret.Return, Results: out2}}
			}
			return []ast.Stmt{&ast.ReturnStmt{Return: ret.Return, Results: tail(vals)}}
		}
		switch {
		case len(resNames) == 0:
		case len(ret.Results) == 0:
			if !hasNamed {
				okRewrite = false
				return nil
			}
			var lhs, rhs []ast.Expr
			for _, nr := range namedResults {
				if nr.name == "" {
					continue
				}
				lhs = append(lhs, ast.NewIdent(nr.temp))
				rhs = append(rhs, ast.NewIdent(nr.name))
			}
			out = append(out, &ast.AssignStmt{Lhs: lhs, Tok: token.ASSIGN, Rhs: rhs})
		default:
			var lhs []ast.Expr
			for _, rn := range resNames {
				lhs = append(lhs, ast.NewIdent(rn))
			}
			out = append(out, &ast.AssignStmt{Lhs: lhs, Tok: token.ASSIGN, Rhs: ret.Results})
		}
		out = append(out, &ast.BranchStmt{Tok: token.BREAK, Label: ast.NewIdent(label)})
		return out
	}
	rewrite = func(list []ast.Stmt) []ast.Stmt {
		var out []ast.Stmt
		for _, s := range list {
			if ret, ok := s.(*ast.ReturnStmt); ok {
				out = append(out, replaceReturn(ret)...)
				continue
			}
			visit(s)
			out = append(out, s)
		}
		return out
	}
	visit = func(n ast.Node) {
		switch x := n.(type) {
		case *ast.BlockStmt:
			x.List = rewrite(x.List)
		case *ast.IfStmt:
			visit(x.Body)
			if x.Else != nil {
				if _, isRet := x.Else.(*ast.ReturnStmt); isRet {
					okRewrite = false
				}
				visit(x.Else)
			}
		case *ast.ForStmt:
			visit(x.Body)
		case *ast.RangeStmt:
			visit(x.Body)
		case *ast.SwitchStmt:
			visit(x.Body)
		case *ast.TypeSwitchStmt:
			visit(x.Body)
		case *ast.SelectStmt:
			visit(x.Body)
		case *ast.CaseClause:
			x.Body = rewrite(x.Body)
		case *ast.CommClause:
			x.Body = rewrite(x.Body)
		case *ast.LabeledStmt:
			okRewrite = false
		}
	}
	visit(body)
	if !okRewrite {
		in.skipped[fn.Name()] = "a return of the helper could not be rewritten"
		return nil, nil, false
	}
	inner = append(inner, body.List...)
	if tail != nil {
		pre = append(pre, &ast.BlockStmt{List: inner})
		in.inlined[fn.Name()]++
		return pre, nil, true
	}
	inner = append(inner, &ast.BranchStmt{Tok: token.BREAK, Label: ast.NewIdent(label)})
	loop := &ast.LabeledStmt{Label: ast.NewIdent(label), Stmt: &ast.ForStmt{Body: &ast.BlockStmt{List: inner}}}
	pre = append(pre, loop)
	in.inlined[fn.Name()]++
	return pre, results, true
}

// pure: e can be evaluated later than a hoisted call without changing behaviour.
func pure(e ast.Expr) bool {
	switch x := ast.Unparen(e).(type) {
	case *ast.Ident, *ast.BasicLit:
		return true
	case *ast.SelectorExpr:
		_, ok := x.X.(*ast.Ident)
		return ok
	}
	return false
}

// pureAt: e is a literal, a constant, nil, or a local variable no helper can reach (its type has no
// pointer-receiver methods through which its address could escape implicitly, and the enclosing function
// neither takes its address nor captures it in a function literal).
func (in *inliner) pureAt(e ast.Expr) bool {
	switch x := ast.Unparen(e).(type) {
	case *ast.BasicLit:
		return true
	case *ast.Ident:
		switch obj := in.info.Uses[x].(type) {
		case *types.Const, *types.Nil:
			return true
		case *types.Var:
			if obj.Parent() == in.pkg.Scope() || obj.IsField() || in.curBody == nil {
				return false
			}
			switch obj.Type().Underlying().(type) {
			case *types.Struct, *types.Array:
				return false
			}
			safe := true
			ast.Inspect(in.curBody, func(n ast.Node) bool {
				switch y := n.(type) {
				case *ast.UnaryExpr:
					if id, ok := ast.Unparen(y.X).(*ast.Ident); ok && y.Op == token.AND && in.info.Uses[id] == obj {
						safe = false
					}
				case *ast.FuncLit:
					ast.Inspect(y, func(m ast.Node) bool {
						if id, ok := m.(*ast.Ident); ok && in.info.Uses[id] == obj {
							safe = false
						}
						return true
					})
				}
				return safe
			})
			return safe
		}
	}
	return false
}

// rewriteList rewrites the statements of one block.
func (in *inliner) rewriteList(list []ast.Stmt) ([]ast.Stmt, bool) {
	changed := false
	var out []ast.Stmt
	for _, s := range list {
		repl, ok := in.rewriteStmt(s)
		if ok {
			changed = true
			out = append(out, repl...)
		} else {
			out = append(out, s)
		}
	}
	return out, changed
}

func (in *inliner) callIn(e ast.Expr) (*ast.CallExpr, *types.Func, ast.Expr) {
	call, ok := ast.Unparen(e).(*ast.CallExpr)
	if !ok {
		return nil, nil, nil
	}
	fn, recv := in.calleeOf(call)
	if fn == nil {
		return nil, nil, nil
	}
	return call, fn, recv
}

func (in *inliner) rewriteStmt(s ast.Stmt) ([]ast.Stmt, bool) {
	switch x := s.(type) {
	case *ast.AssignStmt:
		if len(x.Rhs) == 1 {
			if call, fn, recv := in.callIn(x.Rhs[0]); call != nil {
				pre, res, ok := in.expand(call, fn, recv)
				if !ok || len(res) != len(x.Lhs) {
					return nil, false
				}
				x.Rhs = res
				return append(pre, x), true
			}
		}
	case *ast.ExprStmt:
		if call, fn, recv := in.callIn(x.X); call != nil {
			pre, _, ok := in.expand(call, fn, recv)
			if !ok {
				return nil, false
			}
			return pre, true
		}
	case *ast.ReturnStmt:
		// return f(args)  (possibly forwarding a tuple), or return f(args), <pure>…
		calls, at := 0, -1
		for i, e := range x.Results {
			if c, _, _ := in.callIn(e); c != nil {
				calls++
				at = i
			} else if !in.pureAt(e) {
				return nil, false
			}
		}
		if calls != 1 || in.curResults == nil {
			return nil, false
		}
		call, fn, recv := in.callIn(x.Results[at])
		sig := fn.Type().(*types.Signature)
		// tail form: the helper's result types are exactly the caller's at these positions
		tailOK := false
		if len(x.Results) == 1 && sig.Results().Len() == in.curResults.Len() {
			tailOK = true
			for i := 0; i < sig.Results().Len(); i++ {
				if !types.Identical(sig.Results().At(i).Type(), in.curResults.At(i).Type()) {
					tailOK = false
				}
			}
		} else if sig.Results().Len() == 1 && len(x.Results) == in.curResults.Len() {
			tailOK = types.Identical(sig.Results().At(0).Type(), in.curResults.At(at).Type())
		}
		if tailOK {
			others := x.Results
			pre, _, ok := in.expandMode(call, fn, recv, func(vals []ast.Expr) []ast.Expr {
				if len(others) == 1 {
					return vals
				}
				out := make([]ast.Expr, len(others))
				for i, e := range others {
					if i == at {
						out[i] = vals[0]
					} else {
						out[i] = cloneNode(e).(ast.Expr)
					}
				}
				return out
			})
			if !ok {
				return nil, false
			}
			return pre, true
		}
		p, res, ok := in.expand(call, fn, recv)
		if !ok || (len(res) != 1 && len(x.Results) != 1) {
			return nil, false
		}
		var results []ast.Expr
		for i, e := range x.Results {
			if i == at {
				results = append(results, res...)
			} else {
				results = append(results, e)
			}
		}
		x.Results = results
		return append(p, x), true
	case *ast.IfStmt:
		// if [!]f(args) { … }  without init
		if x.Init == nil {
			cond := ast.Unparen(x.Cond)
			neg := false
			if u, ok := cond.(*ast.UnaryExpr); ok && u.Op == token.NOT {
				cond, neg = ast.Unparen(u.X), true
			}
			if call, fn, recv := in.callIn(cond); call != nil {
				pre, res, ok := in.expand(call, fn, recv)
				if !ok || len(res) != 1 {
					return nil, false
				}
				var c ast.Expr = res[0]
				if neg {
					c = &ast.UnaryExpr{Op: token.NOT, X: c}
				}
				x.Cond = c
				return []ast.Stmt{&ast.BlockStmt{List: append(pre, x)}}, true
			}
		} else if as, ok := x.Init.(*ast.AssignStmt); ok && len(as.Rhs) == 1 {
			if call, fn, recv := in.callIn(as.Rhs[0]); call != nil {
				pre, res, ok := in.expand(call, fn, recv)
				if !ok || len(res) != len(as.Lhs) {
					return nil, false
				}
				as.Rhs = res
				x.Init = nil
				return []ast.Stmt{&ast.BlockStmt{List: append(append(pre, as), x)}}, true
			}
		}
	case *ast.RangeStmt:
		if call, fn, recv := in.callIn(x.X); call != nil {
			pre, res, ok := in.expand(call, fn, recv)
			if !ok || len(res) != 1 {
				return nil, false
			}
			x.X = res[0]
			return []ast.Stmt{&ast.BlockStmt{List: append(pre, x)}}, true
		}
	}
	return nil, false
}

// walkBlocks applies rewriteList to every statement list of node, innermost lists included.
func (in *inliner) walkBlocks(node ast.Node) bool {
	changed := false
	var stack []ast.Node
	var saved []*types.Tuple
	ast.Inspect(node, func(n ast.Node) bool {
		if n == nil {
			top := stack[len(stack)-1]
			stack = stack[:len(stack)-1]
			if _, ok := top.(*ast.FuncLit); ok {
				in.curResults = saved[len(saved)-1]
				saved = saved[:len(saved)-1]
			}
			return true
		}
		stack = append(stack, n)
		switch x := n.(type) {
		case *ast.FuncLit:
			saved = append(saved, in.curResults)
			in.curResults = nil
			if tv, ok := in.info.Types[x]; ok {
				if sig, ok := tv.Type.(*types.Signature); ok {
					in.curResults = sig.Results()
				}
			}
		case *ast.BlockStmt:
			l, c := in.rewriteList(x.List)
			x.List = l
			changed = changed || c
		case *ast.CaseClause:
			l, c := in.rewriteList(x.Body)
			x.Body = l
			changed = changed || c
		case *ast.CommClause:
			l, c := in.rewriteList(x.Body)
			x.Body = l
			changed = changed || c
		}
		return true
	})
	return changed
}

type mapImporter map[string]*types.Package

func (m mapImporter) Import(path string) (*types.Package, error) {
	if p, ok := m[path]; ok {
		return p, nil
	}
	return nil, fmt.Errorf("package %q not loaded", path)
}

// inlineNewHelpers transforms root in place (Syntax, Types, TypesInfo) and returns a description of what was
// inlined; on any doubt it leaves root untouched and returns "".
func inlineNewHelpers(root *packages.Package) (string, error) {
	files := make([]*ast.File, len(root.Syntax))
	copy(files, root.Syntax)
	info := root.TypesInfo
	pkg := root.Types
	descr := ""
	for pass := 0; pass < 3; pass++ {
		in := &inliner{fset: root.Fset, info: info, pkg: pkg, decls: map[*types.Func]*ast.FuncDecl{}, cands: map[*types.Func]bool{}, inlined: map[string]int{}, skipped: map[string]string{}}
		for _, f := range files {
			for _, d := range f.Decls {
				fd, ok := d.(*ast.FuncDecl)
				if !ok {
					continue
				}
				fn, ok := info.Defs[fd.Name].(*types.Func)
				if !ok {
					continue
				}
				in.decls[fn] = fd
				name := declName(fd)
				if protectedFuncs[name] || fn.Exported() {
					continue
				}
				if why := in.inlinable(fn, fd); why == "" {
					in.cands[fn] = true
				}
			}
		}
		if len(in.cands) == 0 {
			break
		}
		// work on clones: the originals stay valid if this pass is abandoned
		clones := make([]*ast.File, len(files))
		for i, f := range files {
			clones[i] = cloneNode(f).(*ast.File)
		}
		// the clones carry no type information: map cloned call sites back through positions
		// (simplest: redo the analysis on the clones after a type-check of the clones themselves)
		cinfo := &types.Info{Types: map[ast.Expr]types.TypeAndValue{}, Defs: map[*ast.Ident]types.Object{}, Uses: map[*ast.Ident]types.Object{}, Implicits: map[ast.Node]types.Object{}, Selections: map[*ast.SelectorExpr]*types.Selection{}, Scopes: map[ast.Node]*types.Scope{}, Instances: map[*ast.Ident]types.Instance{}}
		imp := mapImporter{}
		for path, p := range root.Imports {
			imp[path] = p.Types
		}
		conf := types.Config{Importer: imp, Sizes: root.TypesSizes, Error: func(error) {}}
		cpkg, err := conf.Check(root.PkgPath, root.Fset, clones, cinfo)
		if err != nil {
			return descr, fmt.Errorf("re-check of the cloned package failed: %v", err)
		}
		cin := &inliner{fset: root.Fset, info: cinfo, pkg: cpkg, decls: map[*types.Func]*ast.FuncDecl{}, cands: map[*types.Func]bool{}, inlined: map[string]int{}, skipped: map[string]string{}, counter: pass * 10000}
		for _, f := range clones {
			for _, d := range f.Decls {
				fd, ok := d.(*ast.FuncDecl)
				if !ok {
					continue
				}
				fn, ok := cinfo.Defs[fd.Name].(*types.Func)
				if !ok {
					continue
				}
				cin.decls[fn] = fd
				name := declName(fd)
				if protectedFuncs[name] || fn.Exported() {
					continue
				}
				if why := cin.inlinable(fn, fd); why == "" {
					cin.cands[fn] = true
				}
			}
		}
		changed := false
		for _, f := range clones {
			for _, d := range f.Decls {
				if fd, ok := d.(*ast.FuncDecl); ok && fd.Body != nil {
					cin.curResults, cin.curBody = nil, fd.Body
					if obj, ok := cinfo.Defs[fd.Name].(*types.Func); ok {
						cin.curResults = obj.Type().(*types.Signature).Results()
					}
					if cin.walkBlocks(fd.Body) {
						changed = true
					}
				}
			}
		}
		if os.Getenv("EVALSA_DEBUG") != "" {
			var cs []string
			for fn := range cin.cands {
				cs = append(cs, fn.Name())
			}
			fmt.Fprintln(os.Stderr, "inliner pass", pass, "candidates", cs, "skipped", cin.skipped, "inlined", cin.inlined)
		}
		if !changed {
			break
		}
		// the transformed package must type-check
		ninfo := &types.Info{Types: map[ast.Expr]types.TypeAndValue{}, Defs: map[*ast.Ident]types.Object{}, Uses: map[*ast.Ident]types.Object{}, Implicits: map[ast.Node]types.Object{}, Selections: map[*ast.SelectorExpr]*types.Selection{}, Scopes: map[ast.Node]*types.Scope{}, Instances: map[*ast.Ident]types.Instance{}, FileVersions: map[*ast.File]string{}}
		var firstErr error
		conf2 := types.Config{Importer: imp, Sizes: root.TypesSizes, Error: func(e error) {
			if firstErr == nil {
				firstErr = e
			}
		}}
		npkg, _ := conf2.Check(root.PkgPath, root.Fset, clones, ninfo)
		if firstErr != nil {
			return descr, fmt.Errorf("the helper-inlined package does not type-check (%v): inlining abandoned", firstErr)
		}
		files, info, pkg = clones, ninfo, npkg
		var names []string
		for n, c := range cin.inlined {
			names = append(names, fmt.Sprintf("%s x%d", n, c))
		}
		sort.Strings(names)
		if descr != "" {
			descr += "; "
		}
		descr += strings.Join(names, ", ")
	}
	if descr == "" {
		return "", nil
	}
	root.Syntax, root.TypesInfo, root.Types = files, info, pkg
	return descr, nil
}

// declName is the name under which a declaration is listed in protectedFuncs.
func declName(fd *ast.FuncDecl) string {
	name := fd.Name.Name
	if fd.Recv != nil && len(fd.Recv.List) == 1 {
		name = types.ExprString(fd.Recv.List[0].Type) + "." + name
	}
	return name
}

// genProtected prints protected_gen.go for the tree under repo.
func genProtected(repo string) int {
	w, err := Load(LoadConfig{Dir: repo})
	if err != nil {
		fmt.Println(err)
		return 2
	}
	var names []string
	for _, f := range w.Pkg.Syntax {
		for _, d := range f.Decls {
			if fd, ok := d.(*ast.FuncDecl); ok {
				names = append(names, declName(fd))
			}
		}
	}
	sort.Strings(names)
	fmt.Println("package main\n\n// Code generated by `evalsa -genprotected`; the functions of the reference tree (never inlined by inline.go).\nvar protectedFuncs = map[string]bool{")
	for _, n := range names {
		fmt.Printf("\t%q: true,\n", n)
	}
	fmt.Println("}")
	return 0
}
