package main

// R-EVREMAP — calAndSetEventNode rebuilds the node array and the parent table in
// parallel and relabels jump targets. Decided here: the two arrays stay aligned
// (the k-th appended node and the k-th appended parent entry belong to the same
// original index), every appended node records its new position in the table
// the relabelling reads, and the relabelling reads the right table.

import (
	"fmt"
	"go/token"
	"go/types"
	"sort"
	"strings"

	"golang.org/x/tools/go/ssa"
)

type seqElem struct {
	class string // "node", "dbg", "par"
	idx   string // linear form of the original index
	pos   string
}

func (e seqElem) String() string { return e.class + "[" + e.idx + "]" }

type evremap struct {
	w        *World
	fn       *ssa.Function
	nodes    ssa.Value // load of e.nodes before the loop
	eventK   int64
	resFinal ssa.Value
	parFinal ssa.Value
}

// intAtoms names integer phis (loop counters) as atoms.
func intAtoms(v ssa.Value) string {
	if p, ok := v.(*ssa.Phi); ok && isIntegerType(p.Type()) {
		if p.Comment != "" {
			return "φ" + p.Comment + fmt.Sprintf("@b%d", p.Block().Index)
		}
		return "φ" + p.Name()
	}
	return ""
}

// exprOf: v is (a load of) the *Expr parameter, possibly spilled to a cell.
func exprParamLoad(fn *ssa.Function, v ssa.Value) bool {
	if len(fn.Params) == 0 {
		return false
	}
	if v == ssa.Value(fn.Params[0]) {
		return true
	}
	if u, ok := v.(*ssa.UnOp); ok && u.Op == token.MUL {
		if al, ok := u.X.(*ssa.Alloc); ok {
			st := cellStores(al)
			return len(st) == 1 && st[0].Val == ssa.Value(fn.Params[0])
		}
	}
	return false
}

func (m *evremap) classify(v ssa.Value) (seqElem, bool) {
	pos := m.w.Pos(v.Pos())
	if addr, ok := isLoad(v); ok {
		if ia, ok := addr.(*ssa.IndexAddr); ok {
			lf, okl := linearise(ia.Index, intAtoms, 0)
			if !okl {
				return seqElem{}, false
			}
			if base, okf := loadOfField(ia.X, "Expr", "nodes"); okf && exprParamLoad(m.fn, base) {
				return seqElem{"node", lf.String(), pos}, true
			}
			if base, okf := loadOfField(ia.X, "Expr", "parentIdx"); okf && exprParamLoad(m.fn, base) {
				return seqElem{"par", lf.String(), pos}, true
			}
		}
		return seqElem{}, false
	}
	if al, ok := v.(*ssa.Alloc); ok && typeNameOf(deref(al.Type())) == "node" {
		// an event node literal: flag == event; it mirrors the node whose fields it copies
		isEvent := false
		mirror := ""
		consistent := true
		for _, ref := range referrers(al) {
			fa, ok := ref.(*ssa.FieldAddr)
			if !ok {
				continue
			}
			fld := fieldName(fa.X.Type(), fa.Field)
			for _, ref2 := range referrers(fa) {
				st, ok := ref2.(*ssa.Store)
				if !ok || st.Addr != ssa.Value(fa) {
					continue
				}
				if fld == "flag" {
					if c, ok := constInt(st.Val); ok && c == m.eventK {
						isEvent = true
					}
					continue
				}
				if src, okf := loadOfField(st.Val, "node", fld); okf {
					if el, ok := m.classify(src); ok && el.class == "node" {
						if mirror != "" && mirror != el.idx {
							consistent = false
						}
						mirror = el.idx
					}
				}
			}
		}
		if isEvent && mirror != "" && consistent {
			return seqElem{"dbg", mirror, pos}, true
		}
	}
	return seqElem{}, false
}

// appendElems returns the elements appended by an append call (variadic literal form, or a
// constant-width sub-slice of e.nodes / e.parentIdx).
func (m *evremap) appendElems(c *ssa.Call) ([]seqElem, bool) {
	if len(c.Call.Args) != 2 {
		return nil, false
	}
	sl, ok := c.Call.Args[1].(*ssa.Slice)
	if !ok {
		return nil, false
	}
	if al, ok := sl.X.(*ssa.Alloc); ok && sl.Low == nil && sl.High == nil {
		n := arrayLen(al.Type())
		if n <= 0 || n > 16 {
			return nil, false
		}
		out := make([]seqElem, n)
		seen := make([]bool, n)
		for _, ref := range referrers(al) {
			ia, ok := ref.(*ssa.IndexAddr)
			if !ok {
				continue
			}
			k, okk := constInt(ia.Index)
			if !okk || k < 0 || k >= n {
				return nil, false
			}
			for _, ref2 := range referrers(ia) {
				st, ok := ref2.(*ssa.Store)
				if !ok || st.Addr != ssa.Value(ia) {
					continue
				}
				el, okc := m.classify(st.Val)
				if !okc || seen[k] {
					return nil, false
				}
				out[k], seen[k] = el, true
			}
		}
		for _, s := range seen {
			if !s {
				return nil, false
			}
		}
		return out, true
	}
	return nil, false
}

func isAppendCall(v ssa.Value) (*ssa.Call, bool) {
	c, ok := v.(*ssa.Call)
	if !ok {
		return nil, false
	}
	b, ok := c.Call.Value.(*ssa.Builtin)
	return c, ok && nm(b) == "append"
}

// chain walks back from v through appends to its base (a phi or a make) and
// returns the appended elements in order.
func (m *evremap) chain(v ssa.Value) (base ssa.Value, elems []seqElem, ok bool) {
	var rev [][]seqElem
	for depth := 0; depth < 16; depth++ {
		c, isApp := isAppendCall(v)
		if !isApp {
			break
		}
		es, okE := m.appendElems(c)
		if !okE {
			return nil, nil, false
		}
		rev = append(rev, es)
		v = c.Call.Args[0]
	}
	for i := len(rev) - 1; i >= 0; i-- {
		elems = append(elems, rev[i]...)
	}
	switch v.(type) {
	case *ssa.Phi, *ssa.MakeSlice:
		return v, elems, true
	}
	return nil, nil, false
}

func ruleEvRemap(w *World, r *Report) {
	const rule = "R-EVREMAP"
	r.Rule(rule, "calAndSetEventNode: along every path the rebuilt node array and the rebuilt parent table receive entries of the same original index at the same position (an event node mirrors its real node); every appended node records its new position in the index table that belongs to it (eventNodeIdxes / realIdxes); the relabelling loop maps scIdx through realIdxes under scIdx != -1 and parents through eventNodeIdxes for event nodes, realIdxes otherwise, under p != -1", 8)
	fn := w.MustFn(r, rule, "calAndSetEventNode")
	if fn == nil {
		return
	}
	name := w.Name(fn)
	k := loadNodeKinds(w)
	m := &evremap{w: w, fn: fn, eventK: k.event}
	// final values: what is stored to e.nodes and e.parentIdx
	EachInstr(fn, func(in ssa.Instruction) {
		st, ok := in.(*ssa.Store)
		if !ok {
			return
		}
		tn, fld, base, okf := fieldOf(st.Addr)
		if !okf || tn != "Expr" || !exprParamLoad(fn, base) {
			return
		}
		switch fld {
		case "nodes":
			m.resFinal = st.Val
		case "parentIdx":
			m.parFinal = st.Val
		}
	})
	if m.resFinal == nil || m.parFinal == nil {
		r.Unresolved(rule, "the stores e.nodes = … / e.parentIdx = … were not found")
		return
	}
	// lineage: all phis reachable backwards
	lineage := func(v ssa.Value) map[*ssa.Phi]bool {
		out := map[*ssa.Phi]bool{}
		var walk func(v ssa.Value, d int)
		walk = func(v ssa.Value, d int) {
			if d > 40 {
				return
			}
			switch x := v.(type) {
			case *ssa.Phi:
				if out[x] {
					return
				}
				out[x] = true
				for _, e := range x.Edges {
					walk(e, d+1)
				}
			case *ssa.Call:
				if c, ok := isAppendCall(x); ok {
					walk(c.Call.Args[0], d+1)
				}
			}
		}
		walk(v, 0)
		return out
	}
	resPhis, parPhis := lineage(m.resFinal), lineage(m.parFinal)
	var resBaseMake ssa.Value
	for p := range resPhis {
		for _, e := range p.Edges {
			if mk, ok := e.(*ssa.MakeSlice); ok {
				resBaseMake = mk
			}
		}
	}
	if len(resPhis) == 0 || len(parPhis) == 0 {
		r.Unresolved(rule, "the rebuilt arrays are not loop-carried appends")
		return
	}
	pairOf := map[*ssa.Phi]*ssa.Phi{}
	for rp := range resPhis {
		for pp := range parPhis {
			if rp.Block() == pp.Block() {
				pairOf[rp] = pp
			}
		}
	}
	var sortedRes []*ssa.Phi
	for _, b := range fn.Blocks {
		for _, in := range b.Instrs {
			if p, ok := in.(*ssa.Phi); ok && resPhis[p] {
				sortedRes = append(sortedRes, p)
			}
		}
	}
	corresponding := func(a, b ssa.Value) bool {
		if pa, ok := a.(*ssa.Phi); ok {
			pb, okb := b.(*ssa.Phi)
			return okb && pairOf[pa] == pb
		}
		_, ma := a.(*ssa.MakeSlice)
		_, mb := b.(*ssa.MakeSlice)
		return ma && mb
	}
	segments := 0
	for _, rp := range sortedRes {
		pp := pairOf[rp]
		pos := w.Pos(rp.Pos())
		if pp == nil {
			r.Fail(rule, pos, name, "phi "+rp.Comment, "the node array is loop-carried here but the parent table is not: the two are not rebuilt in step")
			continue
		}
		for e := range rp.Edges {
			from := rp.Block().Preds[e]
			rb, rs, ok1 := m.chain(rp.Edges[e])
			pb, ps, ok2 := m.chain(pp.Edges[e])
			what := fmt.Sprintf("path into block %d from block %d", rp.Block().Index, from.Index)
			if !ok1 || !ok2 {
				r.Undecided(rule, pos, name, what, "an append on this path has a shape whose elements could not be listed")
				continue
			}
			if len(rs) == 0 && len(ps) == 0 {
				if !corresponding(rb, pb) {
					r.Fail(rule, pos, name, what, "the two arrays continue from states that do not correspond")
				}
				continue
			}
			segments++
			good := corresponding(rb, pb) && len(rs) == len(ps)
			var rtxt, ptxt []string
			for _, x := range rs {
				rtxt = append(rtxt, x.String())
			}
			for _, x := range ps {
				ptxt = append(ptxt, x.String())
			}
			if good {
				for i := range rs {
					if ps[i].class != "par" || (rs[i].class != "node" && rs[i].class != "dbg") || rs[i].idx != ps[i].idx {
						good = false
					}
				}
			}
			r.Check(good, rule, pos, name, fmt.Sprintf("%s: nodes += %s ; parents += %s", what, strings.Join(rtxt, ","), strings.Join(ptxt, ",")), "entry by entry the same original index (an event node carries its real node's parent)", "the rebuilt parent table is out of step with the rebuilt node array: some node is given another node's parent (Dump rebuilds a different tree in event mode; TryEval climbs to the wrong ancestor)")
		}
	}
	if segments == 0 {
		r.Unresolved(rule, "no appending path found")
	}
	// index tables: tbl[J] = len(R) - c
	var allAppends []ssa.Value
	EachInstr(fn, func(in ssa.Instruction) {
		if c, ok := in.(*ssa.Call); ok {
			if _, isApp := isAppendCall(c); isApp {
				if b, _, okc := m.chain(c); okc {
					if resPhis[phiOf(b)] {
						allAppends = append(allAppends, c)
					} else if _, isMk := b.(*ssa.MakeSlice); isMk && b == resBaseMake {
						allAppends = append(allAppends, c)
					}
				}
			}
		}
	})
	var realTbl, eventTbl ssa.Value
	type tstore struct {
		st    *ssa.Store
		tbl   ssa.Value
		j     string
		class string
	}
	var tstores []tstore
	EachInstr(fn, func(in ssa.Instruction) {
		st, ok := in.(*ssa.Store)
		if !ok {
			return
		}
		ia, ok := st.Addr.(*ssa.IndexAddr)
		if !ok {
			return
		}
		ms, ok := ia.X.(*ssa.MakeSlice)
		if !ok {
			return
		}
		if sl, ok := ms.Type().Underlying().(*types.Slice); !ok || !isIntegerType(sl.Elem()) {
			return
		}
		// value: len(X) + k, with X any state of the rebuilt node array (before or after an append of this step)
		var R ssa.Value
		leaf := func(v ssa.Value) string {
			if c, ok := v.(*ssa.Call); ok {
				if b, ok := c.Call.Value.(*ssa.Builtin); ok && nm(b) == "len" {
					arg := c.Call.Args[0]
					_, isApp := isAppendCall(arg)
					if isApp || resPhis[phiOf(arg)] {
						R = arg
						return "L"
					}
				}
			}
			return ""
		}
		lf, okl := linearise(st.Val, leaf, 0)
		if !okl || R == nil || lf.coef["L"] != 1 || len(lf.coef) != 1 {
			return
		}
		baseX, seqX, okx := m.chain(R)
		jf, okj := linearise(ia.Index, intAtoms, 0)
		pos := w.InstrPos(st)
		if !okx || !okj {
			r.Undecided(rule, pos, name, "index table store "+describe(st.Val), "the appended elements or the table index could not be listed")
			return
		}
		p := int64(len(seqX)) + lf.k
		if p < 0 {
			r.Fail(rule, pos, name, fmt.Sprintf("tbl[%s] = len(..)%+d", jf.String(), lf.k), "the recorded position lies before the elements appended in this step")
			return
		}
		// the element that ends up at offset p from the same base: the shortest later state of the array that
		// extends X far enough
		var elems []seqElem
		for _, cand := range allAppends {
			b2, s2, ok2 := m.chain(cand)
			if !ok2 || b2 != baseX || int64(len(s2)) <= p || len(s2) < len(seqX) {
				continue
			}
			prefix := true
			for q := range seqX {
				if s2[q] != seqX[q] {
					prefix = false
				}
			}
			if !prefix {
				continue
			}
			if elems == nil || len(s2) < len(elems) {
				elems = s2
			}
		}
		if elems == nil {
			r.Fail(rule, pos, name, fmt.Sprintf("tbl[%s] = len(..)%+d", jf.String(), lf.k), "the recorded position is never filled in this step")
			return
		}
		el := elems[p]
		good := el.idx == jf.String() && (el.class == "node" || el.class == "dbg")
		r.Check(good, rule, pos, name, fmt.Sprintf("tbl[%s] = position of %s", jf.String(), el.String()), "the table entry of original index J records where node J (or its event node) now lives", "an index table records the position of a different node than the one it is keyed by: jumps and parents are relabelled to the wrong node")
		tstores = append(tstores, tstore{st, ms, jf.String(), el.class})
	})
	for _, t := range tstores {
		switch t.class {
		case "node":
			if realTbl != nil && realTbl != t.tbl {
				r.Fail(rule, w.InstrPos(t.st), name, "index tables", "positions of real nodes are recorded in two different tables")
			}
			realTbl = t.tbl
		case "dbg":
			if eventTbl != nil && eventTbl != t.tbl {
				r.Fail(rule, w.InstrPos(t.st), name, "index tables", "positions of event nodes are recorded in two different tables")
			}
			eventTbl = t.tbl
		}
	}
	if realTbl == nil || eventTbl == nil || realTbl == eventTbl {
		r.Fail(rule, w.Pos(fn.Pos()), name, "index tables", "a table for real-node positions and a separate one for event-node positions were not both found")
		return
	}
	// completeness: every real node appended to the rebuilt array (also the two inlined operands of a fast operator,
	// which a `fi` or a short-circuit jump may target) has its new position recorded in the real-node table, and every
	// event node in the event-node table
	{
		recorded := map[string]bool{}
		for _, t := range tstores {
			recorded[t.class+"|"+t.j] = true
		}
		missing := map[string]string{}
		for _, cand := range allAppends {
			if _, seq, okc := m.chain(cand); okc {
				for _, el := range seq {
					if (el.class == "node" || el.class == "dbg") && !recorded[el.class+"|"+el.idx] {
						missing[el.String()] = el.pos
					}
				}
			}
		}
		var ms []string
		for k := range missing {
			ms = append(ms, k)
		}
		sort.Strings(ms)
		r.Check(len(ms) == 0, rule, w.Pos(fn.Pos()), name, "every appended node has its new position recorded", "each appended real node and event node is the subject of an index-table store", fmt.Sprintf("the new position of %v is never recorded: a jump or parent link that refers to it is relabelled to position 0", ms))
	}
	// the relabelling loop
	nSc, nPar := 0, 0
	EachInstr(fn, func(in ssa.Instruction) {
		st, ok := in.(*ssa.Store)
		if !ok {
			return
		}
		pos := w.InstrPos(st)
		// n.scIdx = realTbl[n.scIdx]
		if tn, fld, base, okf := fieldOf(st.Addr); okf && tn == "node" && fld == "scIdx" {
			if _, isAlloc := base.(*ssa.Alloc); isAlloc {
				return // the event node literal
			}
			nSc++
			good := false
			if addr, ok := isLoad(st.Val); ok {
				if ia, ok := addr.(*ssa.IndexAddr); ok && ia.X == realTbl {
					if b2, ok := loadOfField(ia.Index, "node", "scIdx"); ok && (b2 == base || sameValueShape(b2, base)) {
						good = true
					}
				}
			}
			gated := false
			for _, fc := range factsAt(st.Block()) {
				if bo, ok := fc.Cond.(*ssa.BinOp); ok && (bo.Op == token.NEQ) == fc.Truth && (bo.Op == token.NEQ || bo.Op == token.EQL) {
					if c, okc := constInt(bo.Y); okc && c == -1 {
						if b2, ok := loadOfField(bo.X, "node", "scIdx"); ok && (b2 == base || sameValueShape(b2, base)) {
							gated = true
						}
					}
				}
			}
			// the node is an element of the rebuilt array, in a loop over all of it
			elemOK := false
			if addr, ok := isLoad(base); ok {
				if ia, ok := addr.(*ssa.IndexAddr); ok && resPhis[phiOf(ia.X)] {
					if hdr, ok := rangeIndexHeader(ia.Index, ia.X); ok {
						_ = hdr
						elemOK = true
					}
				}
			}
			r.Check(good && gated && elemOK, rule, pos, name, "n.scIdx = "+describe(st.Val), "realIdxes[n.scIdx] for every rebuilt node with scIdx != -1: jumps land on the real target node", "the jump target is not relabelled through the real-node table under scIdx != -1 for every rebuilt node")
			return
		}
		// parents[i] = tbl[parents[i]]
		ia, ok := st.Addr.(*ssa.IndexAddr)
		if !ok || !parPhis[phiOf(ia.X)] {
			return
		}
		nPar++
		var tbl, p ssa.Value
		if addr, ok := isLoad(st.Val); ok {
			if a2, ok := addr.(*ssa.IndexAddr); ok {
				tbl, p = a2.X, a2.Index
			}
		}
		pOK := false
		if p != nil {
			if addr, ok := isLoad(p); ok {
				if a3, ok := addr.(*ssa.IndexAddr); ok && a3.X == ia.X && (a3.Index == ia.Index || sameValueShape(a3.Index, ia.Index)) {
					pOK = true
				}
			}
		}
		gated := false
		isEvent, known := false, false
		for _, fc := range factsAt(st.Block()) {
			if bo, ok := fc.Cond.(*ssa.BinOp); ok && (bo.Op == token.EQL || bo.Op == token.NEQ) && bo.X == p {
				if c, okc := constInt(bo.Y); okc && c == -1 && (bo.Op == token.NEQ) == fc.Truth {
					gated = true
				}
			}
			if n, c, isEq, ok := k.kindTest(fc.Cond); ok && c == k.event {
				// n must be the rebuilt node at the same position
				if addr, ok := isLoad(n); ok {
					if a4, ok := addr.(*ssa.IndexAddr); ok && resPhis[phiOf(a4.X)] && (a4.Index == ia.Index || sameValueShape(a4.Index, ia.Index)) {
						isEvent, known = isEq == fc.Truth, true
					}
				}
			}
		}
		want := realTbl
		wname := "realIdxes"
		if isEvent {
			want, wname = eventTbl, "eventNodeIdxes"
		}
		r.Check(pOK && gated && known && tbl == want, rule, pos, name, fmt.Sprintf("parents[i] = %s (event node: %v)", describe(st.Val), isEvent), wname+"[parents[i]] under parents[i] != -1: a real node's parent is a real node, an event node's parent is the parent's event node", "a parent entry is relabelled through the wrong table, with another index, or without the -1 guard")
	})
	if nSc == 0 || nPar < 2 {
		r.Unresolved(rule, fmt.Sprintf("relabelling loop not recognised (scIdx stores=%d, parent stores=%d)", nSc, nPar))
	}
}

func phiOf(v ssa.Value) *ssa.Phi {
	p, _ := v.(*ssa.Phi)
	return p
}

var evRemapWitnesses = []Witness{
	{Name: "evremap-fast-child-parent-read-before-advance", Rule: "R-EVREMAP", Edits: []Edit{
		{File: "compiler.go", Old: "			res = append(res, nodes[i+1], nodes[i+2])\n			parents = append(parents, e.parentIdx[i+1], e.parentIdx[i+2])\n			realIdxes[i+1] = int16(len(res) - 2)\n			realIdxes[i+2] = int16(len(res) - 1)\n			i += 2", New: "			for last := i + 2; i < last; {\n				parents = append(parents, e.parentIdx[i])\n				i++\n				res = append(res, nodes[i])\n				realIdxes[i] = int16(len(res) - 1)\n			}"}}},
	{Name: "evremap-fast-children-parents-swapped", Rule: "R-EVREMAP", Edits: []Edit{
		{File: "compiler.go", Old: "			parents = append(parents, e.parentIdx[i+1], e.parentIdx[i+2])", New: "			parents = append(parents, e.parentIdx[i+2], e.parentIdx[i+1])"}}},
	{Name: "evremap-event-node-gets-no-parent-entry", Rule: "R-EVREMAP", Edits: []Edit{
		{File: "compiler.go", Old: "		parents = append(parents, e.parentIdx[i], e.parentIdx[i])", New: "		parents = append(parents, e.parentIdx[i])"}}},
	{Name: "evremap-real-index-off-by-one", Rule: "R-EVREMAP", Edits: []Edit{
		{File: "compiler.go", Old: "			realIdxes[i+1] = int16(len(res) - 2)\n			realIdxes[i+2] = int16(len(res) - 1)", New: "			realIdxes[i+1] = int16(len(res) - 1)\n			realIdxes[i+2] = int16(len(res) - 1)"}}},
	{Name: "evremap-event-parent-through-real-table", Rule: "R-EVREMAP", Edits: []Edit{
		{File: "compiler.go", Old: "			parents[i] = eventNodeIdxes[p]", New: "			parents[i] = realIdxes[p] - 1"}}},
	{Name: "evremap-scidx-through-event-table", Rule: "R-EVREMAP", Edits: []Edit{
		{File: "compiler.go", Old: "			n.scIdx = realIdxes[n.scIdx]", New: "			n.scIdx = eventNodeIdxes[n.scIdx]"}}},
	{Name: "benign-evremap-children-appended-one-by-one", Benign: true, Edits: []Edit{
		{File: "compiler.go", Old: "			res = append(res, nodes[i+1], nodes[i+2])\n			parents = append(parents, e.parentIdx[i+1], e.parentIdx[i+2])", New: "			res = append(res, nodes[i+1])\n			parents = append(parents, e.parentIdx[i+1])\n			res = append(res, nodes[i+2])\n			parents = append(parents, e.parentIdx[i+2])"}}},
	{Name: "benign-evremap-child-loop", Benign: true, Edits: []Edit{
		{File: "compiler.go", Old: "			res = append(res, nodes[i+1], nodes[i+2])\n			parents = append(parents, e.parentIdx[i+1], e.parentIdx[i+2])\n			realIdxes[i+1] = int16(len(res) - 2)\n			realIdxes[i+2] = int16(len(res) - 1)\n			i += 2", New: "			for last := i + 2; i < last; {\n				i++\n				parents = append(parents, e.parentIdx[i])\n				res = append(res, nodes[i])\n				realIdxes[i] = int16(len(res) - 1)\n			}"}}},
}
