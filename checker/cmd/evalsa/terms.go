package main

// Recovery of source-level expressions from SSA values as canonical terms.
// Used by rules that read "what does this function compute" as a table
// (fold operators, comparison modes, boolean connectives). Terms are compared
// after normalisation (mirrored comparisons, sorted commutative operands,
// negations pushed inwards), so equivalent spellings give the same term.

import (
	"go/token"
	"sort"
	"strings"

	"golang.org/x/tools/go/ssa"
)

type termCtx struct {
	// leaf gives a name to values the rule treats as atoms (parameters,
	// operands, accumulators); return "" to keep descending.
	leaf func(v ssa.Value) string
}

func (tc *termCtx) term(v ssa.Value) string { return tc.termD(v, 12) }

func (tc *termCtx) termD(v ssa.Value, d int) string {
	if v == nil {
		return "?nil"
	}
	if tc.leaf != nil {
		if s := tc.leaf(v); s != "" {
			return s
		}
	}
	if d == 0 {
		return "?deep"
	}
	switch x := v.(type) {
	case *ssa.Const:
		if x.Value == nil {
			return "nil"
		}
		return x.Value.ExactString()
	case *ssa.MakeInterface:
		return tc.termD(x.X, d-1)
	case *ssa.ChangeType:
		return tc.termD(x.X, d-1)
	case *ssa.ChangeInterface:
		return tc.termD(x.X, d-1)
	case *ssa.Convert:
		return tc.termD(x.X, d-1)
	case *ssa.TypeAssert:
		return tc.termD(x.X, d-1)
	case *ssa.Extract:
		if ta, ok := x.Tuple.(*ssa.TypeAssert); ok && x.Index == 0 {
			return tc.termD(ta.X, d-1)
		}
		return "?" + x.Name()
	case *ssa.UnOp:
		switch x.Op {
		case token.NOT:
			return negateTerm(tc.termD(x.X, d-1))
		case token.SUB:
			return "(0 - " + tc.termD(x.X, d-1) + ")"
		}
		return "?" + x.Name()
	case *ssa.BinOp:
		if x.Op == token.ADD && isStringLike(x.Type()) {
			// string concatenation is not commutative
			return "(" + tc.termD(x.X, d-1) + " ++ " + tc.termD(x.Y, d-1) + ")"
		}
		return normBin(x.Op, tc.termD(x.X, d-1), tc.termD(x.Y, d-1))
	case *ssa.Phi:
		if t, ok := tc.shortCircuitPhi(x, d); ok {
			return t
		}
		return "?phi:" + x.Comment
	}
	return "?" + v.Name()
}

// shortCircuitPhi recovers `a && b` / `a || b` from the control-flow lowering:
//
//	A: if a goto B else C        (&&)        A: if a goto C else B     (||)
//	B: ... b ...; jump C
//	C: phi [A: false, B: b]                  C: phi [A: true, B: b]
//
// including chains (a && b && c) which produce several constant edges.
func (tc *termCtx) shortCircuitPhi(p *ssa.Phi, d int) (string, bool) {
	if len(p.Edges) < 2 {
		return "", false
	}
	blk := p.Block()
	var parts []string
	var isAnd, haveKind bool
	var last string
	nonConst := 0
	for i, e := range p.Edges {
		pred := blk.Preds[i]
		if b, ok := constBool(e); ok {
			iff, okIf := pred.Instrs[len(pred.Instrs)-1].(*ssa.If)
			if !okIf {
				return "", false
			}
			// the edge pred->blk carries constant b: for && it is the false
			// edge with constant false, for || the true edge with constant true
			var k int
			switch {
			case pred.Succs[0] == blk && pred.Succs[1] != blk:
				k = 0
			case pred.Succs[1] == blk && pred.Succs[0] != blk:
				k = 1
			default:
				return "", false
			}
			and := !b
			if (and && k != 1) || (!and && k != 0) {
				// constant arrives on the unexpected edge: it is `!a && ..`-like; express via negation
				c := tc.termD(iff.Cond, d-1)
				c = negateTerm(c)
				if haveKind && isAnd != and {
					return "", false
				}
				isAnd, haveKind = and, true
				parts = append(parts, c)
				continue
			}
			if haveKind && isAnd != and {
				return "", false
			}
			isAnd, haveKind = and, true
			parts = append(parts, tc.termD(iff.Cond, d-1))
			continue
		}
		nonConst++
		last = tc.termD(e, d-1)
	}
	if nonConst != 1 || !haveKind {
		return "", false
	}
	parts = append(parts, last)
	op := "||"
	if isAnd {
		op = "&&"
	}
	return joinAssoc(op, parts), true
}

func joinAssoc(op string, parts []string) string {
	var flat []string
	for _, p := range parts {
		if inner, ok := splitTop(p, op); ok {
			flat = append(flat, inner...)
		} else {
			flat = append(flat, p)
		}
	}
	sort.Strings(flat)
	return "(" + strings.Join(flat, " "+op+" ") + ")"
}

// splitTop splits "(a op b op c)" at top level for the given operator.
func splitTop(s, op string) ([]string, bool) {
	if len(s) < 2 || s[0] != '(' || s[len(s)-1] != ')' {
		return nil, false
	}
	body := s[1 : len(s)-1]
	depth := 0
	var parts []string
	start := 0
	sep := " " + op + " "
	found := false
	for i := 0; i < len(body); i++ {
		switch body[i] {
		case '(':
			depth++
		case ')':
			depth--
			if depth < 0 {
				return nil, false
			}
		}
		if depth == 0 && strings.HasPrefix(body[i:], sep) {
			parts = append(parts, body[start:i])
			start = i + len(sep)
			i += len(sep) - 1
			found = true
		}
	}
	if !found || depth != 0 {
		return nil, false
	}
	parts = append(parts, body[start:])
	// make sure no other top-level binary operator is mixed in
	for _, p := range parts {
		if topLevelHasSpace(p) {
			return nil, false
		}
	}
	return parts, true
}

func topLevelHasSpace(s string) bool {
	depth := 0
	for i := 0; i < len(s); i++ {
		switch s[i] {
		case '(':
			depth++
		case ')':
			depth--
		case ' ':
			if depth == 0 {
				return true
			}
		case '"':
			// skip string constants
			for i++; i < len(s) && s[i] != '"'; i++ {
				if s[i] == '\\' {
					i++
				}
			}
		}
	}
	return false
}

var mirror = map[token.Token]token.Token{
	token.LSS: token.GTR, token.GTR: token.LSS, token.LEQ: token.GEQ, token.GEQ: token.LEQ,
	token.EQL: token.EQL, token.NEQ: token.NEQ,
}

var negOp = map[string]string{
	"<": ">=", ">=": "<", ">": "<=", "<=": ">", "==": "!=", "!=": "==",
}

func normBin(op token.Token, x, y string) string {
	switch op {
	case token.LSS, token.GTR, token.LEQ, token.GEQ, token.EQL, token.NEQ:
		if x > y {
			x, y = y, x
			op = mirror[op]
		}
	case token.ADD, token.MUL, token.AND, token.OR, token.XOR:
		if x > y {
			x, y = y, x
		}
	}
	return "(" + x + " " + op.String() + " " + y + ")"
}

// negateTerm pushes a negation into a term.
func negateTerm(t string) string {
	if strings.HasPrefix(t, "!") {
		return t[1:]
	}
	if t == "true" {
		return "false"
	}
	if t == "false" {
		return "true"
	}
	if parts, ok := splitTop(t, "&&"); ok {
		for i := range parts {
			parts[i] = negateTerm(parts[i])
		}
		return joinAssoc("||", parts)
	}
	if parts, ok := splitTop(t, "||"); ok {
		for i := range parts {
			parts[i] = negateTerm(parts[i])
		}
		return joinAssoc("&&", parts)
	}
	// single comparison "(a op b)"
	if len(t) > 2 && t[0] == '(' && t[len(t)-1] == ')' {
		body := t[1 : len(t)-1]
		depth := 0
		for i := 0; i < len(body); i++ {
			switch body[i] {
			case '(':
				depth++
			case ')':
				depth--
			case ' ':
				if depth != 0 {
					continue
				}
				rest := body[i+1:]
				j := strings.IndexByte(rest, ' ')
				if j < 0 {
					return "!" + t
				}
				op := rest[:j]
				if n, ok := negOp[op]; ok && !topLevelHasSpace(rest[j+1:]) {
					return "(" + body[:i] + " " + n + " " + rest[j+1:] + ")"
				}
				return "!" + t
			}
		}
	}
	return "!" + t
}
