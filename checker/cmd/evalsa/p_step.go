package main

// The step rules of the two evaluators (shared by C01, C03, C04, C05):
//
//	R-STEPRES   what a step pushes is, per arm, exactly the value the semantics assigns it
//	R-STEPARGS  the operand vector handed to an operator is exactly the node's operands
//
// Both Eval and TryEval are checked against the same specification, so the two
// siblings agree on stack discipline and operand construction.

import (
	"fmt"
	"go/token"
	"go/types"
	"sort"
	"strings"

	"golang.org/x/tools/go/ssa"
)

// linear form over named atoms: sum coef[a]*a + k
type linForm struct {
	coef map[string]int64
	k    int64
}

func (a linForm) String() string {
	var ks []string
	for n, c := range a.coef {
		if c != 0 {
			ks = append(ks, fmt.Sprintf("%+d*%s", c, n))
		}
	}
	sort.Strings(ks)
	return strings.Join(ks, "") + fmt.Sprintf("%+d", a.k)
}

func (a linForm) equal(b linForm) bool { return a.String() == b.String() }

// linearise reads v as a linear form over the atoms named by leaf; integer
// conversions are looked through (wrap-around is the business of C09).
func linearise(v ssa.Value, leaf func(ssa.Value) string, depth int) (linForm, bool) {
	if s := leaf(v); s != "" {
		return linForm{coef: map[string]int64{s: 1}}, true
	}
	if depth > 10 {
		return linForm{}, false
	}
	switch x := v.(type) {
	case *ssa.Const:
		if c, ok := constInt(x); ok {
			return linForm{coef: map[string]int64{}, k: c}, true
		}
	case *ssa.Convert:
		if isIntegerType(x.X.Type()) && isIntegerType(x.Type()) {
			return linearise(x.X, leaf, depth+1)
		}
	case *ssa.ChangeType:
		return linearise(x.X, leaf, depth+1)
	case *ssa.BinOp:
		if x.Op != token.ADD && x.Op != token.SUB {
			return linForm{}, false
		}
		a, ok1 := linearise(x.X, leaf, depth+1)
		b, ok2 := linearise(x.Y, leaf, depth+1)
		if !ok1 || !ok2 {
			return linForm{}, false
		}
		out := linForm{coef: map[string]int64{}, k: a.k}
		for n, c := range a.coef {
			out.coef[n] += c
		}
		sign := int64(1)
		if x.Op == token.SUB {
			sign = -1
		}
		for n, c := range b.coef {
			out.coef[n] += sign * c
		}
		out.k += sign * b.k
		return out, true
	}
	return linForm{}, false
}

func isIntegerType(t types.Type) bool {
	b, ok := t.Underlying().(*types.Basic)
	return ok && b.Info()&types.IsInteger != 0
}

func mkLin(pairs ...interface{}) linForm {
	out := linForm{coef: map[string]int64{}}
	for i := 0; i+1 < len(pairs); i += 2 {
		n := pairs[i].(string)
		c := int64(pairs[i+1].(int))
		if n == "" {
			out.k += c
		} else {
			out.coef[n] += c
		}
	}
	return out
}

// stepCtx is what the step rules recover from one evaluator.
type stepCtx struct {
	w     *World
	r     *Report
	fn    *ssa.Function
	name  string
	try   bool
	l     *evalLoop
	k     nodeKinds
	osTop *ssa.Phi    // the stack pointer at the loop header
	os    ssa.Value   // the operand stack slice
	push  *ssa.Store  // os[osTop+1] = res
	ctx   ssa.Value   // the *Ctx parameter
	param *ssa.Alloc  // the two-slot buffer
	calls []*ssa.Call // operator applications (Eval: dynamic Operator calls; TryEval: executeOperatorProxy)
}

func (s *stepCtx) isCurt(n ssa.Value) bool {
	off, ok := s.l.nodeAt(n)
	return ok && off == 0
}

func (s *stepCtx) armOf(b *ssa.BasicBlock) (int64, bool) {
	m := s.k.kindsPossibleAt(b, s.isCurt)
	if m == nil || len(m) != 1 {
		return 0, false
	}
	for x := range m {
		return x, true
	}
	return 0, false
}

func (s *stepCtx) armName(kind int64) string {
	switch kind {
	case s.k.constant:
		return "constant"
	case s.k.variable:
		return "variable"
	case s.k.operator:
		return "operator"
	case s.k.fastOperator:
		return "fastOperator"
	case s.k.cond:
		return "cond"
	case s.k.event:
		return "event"
	}
	return fmt.Sprintf("kind %d", kind)
}

func recoverStep(w *World, r *Report, rule, fnName string) *stepCtx {
	fn := w.MustFn(r, rule, fnName)
	if fn == nil {
		return nil
	}
	l, why := recoverEvalLoop(w, fn)
	if l == nil {
		r.Unresolved(rule, "main loop of "+fnName+" not recognised: "+why)
		return nil
	}
	s := &stepCtx{w: w, r: r, fn: fn, name: w.Name(fn), try: strings.Contains(fnName, "TryEval"), l: l, k: loadNodeKinds(w)}
	if len(fn.Params) >= 2 {
		s.ctx = fn.Params[1]
	}
	// the push: the only store into a []Value slice element inside the main loop
	var pushes []*ssa.Store
	EachInstr(fn, func(in ssa.Instruction) {
		st, ok := in.(*ssa.Store)
		if !ok {
			return
		}
		ia, ok := st.Addr.(*ssa.IndexAddr)
		if !ok {
			return
		}
		sl, ok := ia.X.Type().Underlying().(*types.Slice)
		if !ok || typeNameOf(sl.Elem()) != "Value" {
			return
		}
		if !l.hdr.Dominates(st.Block()) {
			return
		}
		if ms, isMake := ia.X.(*ssa.MakeSlice); isMake && l.hdr.Dominates(ms.Block()) {
			return // a vector made during this step (the operand vector of R-STEPARGS), not the operand stack
		}
		pushes = append(pushes, st)
	})
	if len(pushes) != 1 {
		r.Fail(rule, w.Pos(fn.Pos()), s.name, fmt.Sprintf("%d stores into a []Value element in the main loop", len(pushes)), "exactly one push per step is expected: a step that stores into the operand stack elsewhere overwrites operands of pending operators")
		return nil
	}
	s.push = pushes[0]
	ia := s.push.Addr.(*ssa.IndexAddr)
	s.os = ia.X
	if in, ok := s.os.(ssa.Instruction); ok && !in.Block().Dominates(l.hdr) {
		r.Fail(rule, w.InstrPos(s.push), s.name, "os[..] = res", "the pushed-to slice is created inside the loop: it is not the operand stack")
		return nil
	}
	// the stack pointer: the int16 phi at the loop header whose initial value is -1
	for _, in := range l.hdr.Instrs {
		p, ok := in.(*ssa.Phi)
		if !ok || p == l.i {
			continue
		}
		for _, e := range p.Edges {
			if c, ok := constInt(e); ok && c == -1 && isIntegerType(p.Type()) {
				s.osTop = p
			}
		}
	}
	if s.osTop == nil {
		r.Unresolved(rule, "stack pointer (header phi starting at -1) of "+fnName+" not found")
		return nil
	}
	// operator applications
	EachInstr(fn, func(in ssa.Instruction) {
		c, ok := in.(*ssa.Call)
		if !ok {
			return
		}
		if s.try {
			if c.Call.StaticCallee() != nil && nm(c.Call.StaticCallee()) == "executeOperatorProxy" {
				s.calls = append(s.calls, c)
			}
		} else if isOperatorCall(w, &c.Call) {
			s.calls = append(s.calls, c)
		}
	})
	return s
}

// leaves expands phis into (value, edge source block) pairs.
type leafAt struct {
	v    ssa.Value
	from *ssa.BasicBlock
}

func expandPhis(v ssa.Value, at *ssa.BasicBlock, seen map[*ssa.Phi]bool, out *[]leafAt) {
	if p, ok := v.(*ssa.Phi); ok {
		if seen[p] {
			return
		}
		seen[p] = true
		for i, e := range p.Edges {
			expandPhis(e, p.Block().Preds[i], seen, out)
		}
		return
	}
	*out = append(*out, leafAt{v, at})
}

// operandsArg returns the params argument of an operator application.
func (s *stepCtx) operandsArg(c *ssa.Call) ssa.Value {
	return c.Call.Args[len(c.Call.Args)-1]
}

// appliesCurt: c applies the current node's operator (Eval: curt.operator(ctx, P); TryEval: executeOperatorProxy(ctx, curt, P)).
func (s *stepCtx) appliesCurt(c *ssa.Call) bool {
	if s.try {
		return len(c.Call.Args) == 3 && c.Call.Args[0] == s.ctx && s.isCurt(c.Call.Args[1])
	}
	base, ok := loadOfField(c.Call.Value, "node", "operator")
	return ok && s.isCurt(base) && len(c.Call.Args) == 2 && c.Call.Args[0] == s.ctx
}

func resultOf(v ssa.Value) *ssa.Call {
	ex, ok := v.(*ssa.Extract)
	if !ok || ex.Index != 0 {
		return nil
	}
	c, _ := ex.Tuple.(*ssa.Call)
	return c
}

func ruleStepRes(w *World, r *Report, fnName string) *stepCtx {
	const rule = "R-STEPRES"
	r.Rule(rule, "per arm of the evaluator's main loop, the value a step pushes (and returns on a root short-circuit) is exactly: constant -> the node's literal; variable -> the fetch of that node; operator / fastOperator -> result #0 of applying the node's own operator; cond and event nodes push nothing; the value lands in slot osTop+1 and osTop advances by one", 6)
	s := recoverStep(w, r, rule, fnName)
	if s == nil {
		return nil
	}
	// slot and new top
	ia := s.push.Addr.(*ssa.IndexAddr)
	var topAtPush ssa.Value
	if bo, ok := ia.Index.(*ssa.BinOp); ok && bo.Op == token.ADD {
		if c, okc := constInt(bo.Y); okc && c == 1 {
			topAtPush = bo.X
		}
	}
	r.Check(topAtPush != nil, rule, w.InstrPos(s.push), s.name, "os["+describe(ia.Index)+"] = res", "the result lands one above the current top", "the result is not stored at osTop+1")
	if topAtPush != nil {
		// the value flowing to the next iteration's osTop from the push block is topAtPush+1
		good := false
		var flows []string
		for _, succ := range s.push.Block().Succs {
			for _, in := range succ.Instrs {
				p, ok := in.(*ssa.Phi)
				if !ok {
					break
				}
				for i, e := range p.Edges {
					if succ.Preds[i] != s.push.Block() {
						continue
					}
					// is p the osTop lineage? it flows into the header phi
					if !flowsInto(p, s.osTop) {
						continue
					}
					flows = append(flows, describe(e))
					if bo, ok := e.(*ssa.BinOp); ok && bo.Op == token.ADD && bo.X == topAtPush {
						if c, okc := constInt(bo.Y); okc && c == 1 {
							good = true
						}
					}
				}
			}
		}
		r.Check(good, rule, w.InstrPos(s.push), s.name, "osTop after the push = "+strings.Join(flows, ","), "the stack pointer advances by exactly one with the push", "after the push the stack pointer is not the pushed slot: the next operator reads the wrong operands")
	}
	// sources of the pushed value
	var leaves []leafAt
	expandPhis(s.push.Val, s.push.Block(), map[*ssa.Phi]bool{}, &leaves)
	seenArm := map[int64]int{}
	for _, lf := range leaves {
		arm, ok := s.armOf(lf.from)
		pos := w.Pos(lf.v.Pos())
		if in, isIn := lf.v.(ssa.Instruction); isIn {
			pos = w.InstrPos(in)
		}
		what := "push " + describe(lf.v)
		if !ok {
			r.Fail(rule, pos, s.name, what, "a pushed value does not come from exactly one arm of the kind switch")
			continue
		}
		an := s.armName(arm)
		what = an + " arm pushes " + describe(lf.v)
		switch arm {
		case s.k.constant:
			base, okf := loadOfField(lf.v, "node", "value")
			if r.Check(okf && s.isCurt(base), rule, pos, s.name, what, "the node's literal value", "a constant node pushes something else than its literal") {
				seenArm[arm]++
			}
		case s.k.variable:
			c := resultOf(lf.v)
			good := false
			if c != nil {
				if s.try {
					good = c.Call.StaticCallee() != nil && nm(c.Call.StaticCallee()) == "fetchVariableValueProxy" && len(c.Call.Args) == 2 && c.Call.Args[0] == s.ctx && s.isCurt(c.Call.Args[1])
				} else if isGetInvoke(&c.Call) {
					n := getKeysNode(&c.Call)
					good = n != nil && s.isCurt(n)
				}
			}
			if r.Check(good, rule, pos, s.name, what, "result #0 of fetching this very node", "a variable node pushes something else than the fetched value of that variable") {
				seenArm[arm]++
			}
		case s.k.operator, s.k.fastOperator:
			c := resultOf(lf.v)
			good := c != nil && s.appliesCurt(c)
			if good {
				// the application itself sits in the same arm
				a2, ok2 := s.armOf(c.Block())
				good = ok2 && a2 == arm
			}
			exp := "result #0 of the node's own operator applied in this arm"
			if s.try {
				exp = "result #0 of executeOperatorProxy(ctx, curt, operands) applied in this arm"
			}
			if r.Check(good, rule, pos, s.name, what, exp, "an operator node pushes a value that is not the result of applying its operator (a substituted constant, DNE marker or operand)") {
				seenArm[arm]++
			}
		default:
			r.Fail(rule, pos, s.name, what, "cond and event nodes must not push a value")
		}
	}
	for _, arm := range []int64{s.k.constant, s.k.variable, s.k.operator, s.k.fastOperator} {
		r.Check(seenArm[arm] == 1, rule, w.InstrPos(s.push), s.name, fmt.Sprintf("%d push source(s) for the %s arm", seenArm[arm], s.armName(arm)), "exactly one", "the arm pushes no result, or more than one alternative result")
	}
	// returns: error returns aside, only the pushed value (root short-circuit) or os[0]
	for _, ret := range allReturns(s.fn) {
		if len(ret.Results) != 2 {
			continue
		}
		if onErrorPath(ret) {
			continue
		}
		v := ret.Results[0]
		what := "return " + describe(v) + ", " + describe(ret.Results[1])
		if v == s.push.Val {
			r.OK(rule, w.InstrPos(ret), s.name, what, "the step's result, returned when it decides the root")
			continue
		}
		if addr, ok := isLoad(v); ok {
			if ia, ok := addr.(*ssa.IndexAddr); ok && ia.X == s.os {
				if c, okc := constInt(ia.Index); okc && c == 0 && !inLoopBody(ret.Block(), s.l.hdr) {
					r.OK(rule, w.InstrPos(ret), s.name, what, "bottom of the operand stack after the last step")
					continue
				}
			}
		}
		r.Fail(rule, w.InstrPos(ret), s.name, what, "a successful return yields neither the deciding step's result nor the bottom of the operand stack")
	}
	return s
}

// inLoopBody: b can reach the header again (it is inside the loop).
func inLoopBody(b, hdr *ssa.BasicBlock) bool {
	return b != hdr && reachable(b, hdr) && hdr.Dominates(b)
}

// flowsInto: phi p (transitively through phis) is an operand of target.
func flowsInto(p *ssa.Phi, target *ssa.Phi) bool {
	seen := map[ssa.Value]bool{}
	var walk func(v ssa.Value) bool
	walk = func(v ssa.Value) bool {
		if v == ssa.Value(target) {
			return true
		}
		if seen[v] {
			return false
		}
		seen[v] = true
		for _, ref := range referrers(v) {
			if q, ok := ref.(*ssa.Phi); ok && walk(q) {
				return true
			}
		}
		return false
	}
	return walk(p)
}

// onErrorPath: the return's error result is known non-nil (dominated by err != nil) —
// what it returns as value is irrelevant.
func onErrorPath(ret *ssa.Return) bool {
	e := ret.Results[len(ret.Results)-1]
	if isNilConst(e) {
		return false
	}
	for _, f := range factsAt(ret.Block()) {
		if x, isNil, ok := factIsNil(f); ok && !isNil && x == e {
			return true
		}
	}
	return false
}

// ---- R-STEPARGS ---------------------------------------------------------------------

func ruleStepArgs(w *World, r *Report, s *stepCtx) {
	const rule = "R-STEPARGS"
	r.Rule(rule, "the operand vector of an operator application: operator arm — the stack pointer drops by the node's childCnt and the vector is either the two-slot buffer filled from os[osTop+1], os[osTop+2] (only when childCnt == 2) or a fresh childCnt-long slice copied from os[osTop+1:]; fast arm — slot k of the two-slot buffer is the value of nodes[i+1+k] and nothing else", 3)
	if s == nil {
		r.Unresolved(rule, "evaluator shape not recovered")
		return
	}
	leaf := func(v ssa.Value) string {
		if v == ssa.Value(s.osTop) {
			return "T"
		}
		if base, ok := loadOfField(v, "node", "childCnt"); ok && s.isCurt(base) {
			return "C"
		}
		if v == ssa.Value(s.l.i) {
			return "I"
		}
		return ""
	}
	isCC := func(v ssa.Value) bool {
		f, ok := linearise(v, leaf, 0)
		return ok && f.equal(mkLin("C", 1))
	}
	var opCall, fastCall *ssa.Call
	for _, c := range s.calls {
		arm, ok := s.armOf(c.Block())
		if !ok {
			continue
		}
		switch arm {
		case s.k.operator:
			if opCall != nil {
				r.Fail(rule, w.InstrPos(c), s.name, describe(c), "second operator application in the operator arm")
			}
			opCall = c
		case s.k.fastOperator:
			if fastCall != nil {
				r.Fail(rule, w.InstrPos(c), s.name, describe(c), "second operator application in the fast arm")
			}
			fastCall = c
		}
	}
	if opCall == nil || fastCall == nil {
		r.Unresolved(rule, "operator / fast-operator application of "+s.name+" not found")
		return
	}
	// --- operator arm
	// the stack pointer that continues after the arm is T - C
	var armTop ssa.Value // the value of osTop leaving the operator arm
	// it is the operand of the osTop-lineage phi on the edge leaving the arm's last block
	blk := opCall.Block()
	for _, succ := range blk.Succs {
		for _, in := range succ.Instrs {
			p, ok := in.(*ssa.Phi)
			if !ok {
				break
			}
			for i, e := range p.Edges {
				if succ.Preds[i] == blk && blockReturn(succ) == nil && (flowsInto(p, s.osTop) || feedsPushIndex(p, s.push)) {
					if f, ok := linearise(e, leaf, 0); ok && f.coef["T"] == 1 {
						armTop = e
					}
				}
			}
		}
	}
	wantTop := mkLin("T", 1, "C", -1)
	if armTop == nil {
		r.Fail(rule, w.InstrPos(opCall), s.name, "osTop leaving the operator arm", "the stack pointer leaving the operator arm could not be read as osTop - childCnt")
	} else {
		f, _ := linearise(armTop, leaf, 0)
		r.Check(f.equal(wantTop), rule, w.InstrPos(opCall), s.name, "osTop leaving the operator arm = "+f.String(), "osTop - childCnt: the operands are popped", "the operator arm does not pop exactly childCnt operands")
	}
	// the vector
	P := s.operandsArg(opCall)
	var alts []leafAt
	expandPhis(P, opCall.Block(), map[*ssa.Phi]bool{}, &alts)
	for _, a := range alts {
		switch x := a.v.(type) {
		case *ssa.Slice:
			arr, ok := x.X.(*ssa.Alloc)
			if !ok || x.Low != nil || x.High != nil || arrayLen(arr.Type()) != 2 {
				r.Fail(rule, w.InstrPos(x), s.name, "operands = "+describe(x), "the operand vector is a slice of something that is not the whole two-slot buffer (a fixed scratch area truncates or pads the operands of wider operators)")
				continue
			}
			// only under childCnt == 2
			two := false
			for _, f := range factsAt(a.from) {
				bo, ok := f.Cond.(*ssa.BinOp)
				if !ok || bo.Op != token.EQL || !f.Truth {
					continue
				}
				if c, okc := constInt(bo.Y); okc && c == 2 && isCC(bo.X) {
					two = true
				}
				if c, okc := constInt(bo.X); okc && c == 2 && isCC(bo.Y) {
					two = true
				}
			}
			r.Check(two, rule, w.InstrPos(x), s.name, "operands = param2[:]", "used only when childCnt == 2", "the two-slot buffer is handed to an operator whose operand count is not known to be 2")
			for slot := int64(0); slot < 2; slot++ {
				st := lastSlotStore(arr, slot, a.from, x)
				if st == nil {
					r.Fail(rule, w.InstrPos(x), s.name, fmt.Sprintf("param2[%d]", slot), "no store into this slot in the childCnt == 2 branch before the vector is taken")
					continue
				}
				good := false
				got := describe(st.Val)
				if addr, ok := isLoad(st.Val); ok {
					if ia, ok := addr.(*ssa.IndexAddr); ok && ia.X == s.os {
						if f, ok := linearise(ia.Index, leaf, 0); ok {
							got = "os[" + f.String() + "]"
							good = f.equal(mkLin("T", 1, "C", -1, "", int(slot)+1))
						}
					}
				}
				r.Check(good, rule, w.InstrPos(st), s.name, fmt.Sprintf("param2[%d] = %s", slot, got), fmt.Sprintf("os[osTop-childCnt+%d]: operand %d in source order", slot+1, slot+1), "the slot does not receive the operand at that position of the stack")
			}
		case *ssa.MakeSlice:
			r.Check(isCC(x.Len), rule, w.InstrPos(x), s.name, "operands = make([]Value, "+describe(x.Len)+")", "a fresh vector of exactly childCnt operands", "the operand vector does not have the node's operand count: operands are dropped or nil-padded")
			var cp *ssa.Call
			for _, ref := range referrers(x) {
				if c, ok := ref.(*ssa.Call); ok {
					if b, okb := c.Call.Value.(*ssa.Builtin); okb && nm(b) == "copy" && c.Call.Args[0] == ssa.Value(x) && (c.Block() == a.from || c.Block().Dominates(a.from)) && x.Block().Dominates(c.Block()) {
						cp = c
					}
				}
			}
			var srcVal ssa.Value
			var cpAt ssa.Instruction
			if cp != nil {
				srcVal, cpAt = cp.Call.Args[1], cp
			} else if sv, st, hdr, okL := copyLoopInto(x); okL && x.Block().Dominates(hdr) && hdr.Dominates(a.from) && !reachableAvoiding(opCall.Block(), hdr, func(b *ssa.BasicBlock) bool { return b == s.l.hdr }) {
				// the copy written as an element loop: for j := 0; j < len(operands) [&& j < len(src)]; j++ { operands[j] = src[j] }
				srcVal, cpAt = sv, st
			}
			if srcVal == nil {
				r.Fail(rule, w.InstrPos(x), s.name, "copy(operands, os[..])", "the fresh operand vector is not filled from the operand stack before the operator is applied")
				continue
			}
			src, ok := srcVal.(*ssa.Slice)
			good := ok && src.X == s.os && src.Low != nil
			got := describe(srcVal)
			if good {
				f, okl := linearise(src.Low, leaf, 0)
				good = okl && f.equal(mkLin("T", 1, "C", -1, "", 1))
				if okl {
					got = "os[" + f.String() + ":"
				}
				if src.High != nil {
					h, okh := linearise(src.High, leaf, 0)
					// an explicit upper bound must not cut operands: at least osTop-childCnt+1+childCnt = osTop+1
					good = good && okh && h.equal(mkLin("T", 1, "", 1))
					if okh {
						got += h.String()
					}
				}
				got += "]"
			}
			r.Check(good, rule, w.InstrPos(cpAt), s.name, "copy(operands, "+got+")", "from os[osTop-childCnt+1:] — all childCnt operands in source order", "the operands are not copied from the popped region of the stack")
		default:
			r.Fail(rule, w.Pos(a.v.Pos()), s.name, "operands = "+describe(a.v), "the operand vector of the operator arm is neither the two-slot buffer nor a fresh childCnt-long copy of the popped stack region (a fixed-size scratch area truncates or pads wider operators)")
		}
	}
	// --- fast arm (TryEval; Eval's is R-FASTORDER of C03, which C01 also runs)
	if s.try {
		P := s.operandsArg(fastCall)
		sl, ok := P.(*ssa.Slice)
		var arr *ssa.Alloc
		if ok && sl.Low == nil && sl.High == nil {
			arr, _ = sl.X.(*ssa.Alloc)
		}
		if arr == nil || arrayLen(arr.Type()) != 2 {
			r.Fail(rule, w.InstrPos(fastCall), s.name, describe(fastCall), "the fast operator is not applied to the whole two-slot buffer")
			return
		}
		for slot := int64(0); slot < 2; slot++ {
			st := lastSlotStore(arr, slot, fastCall.Block(), fastCall)
			if st == nil {
				r.Fail(rule, w.InstrPos(fastCall), s.name, fmt.Sprintf("param2[%d]", slot), "no store into this slot in the fast arm that dominates the application")
				continue
			}
			good := false
			if c := resultOf(st.Val); c != nil && c.Call.StaticCallee() != nil && nm(c.Call.StaticCallee()) == "getNodeValueProxy" && len(c.Call.Args) == 2 && c.Call.Args[0] == s.ctx {
				if off, ok := s.l.nodeAt(c.Call.Args[1]); ok && off == slot+1 {
					good = true
				}
			}
			r.Check(good, rule, w.InstrPos(st), s.name, fmt.Sprintf("param2[%d] = %s", slot, describe(st.Val)), fmt.Sprintf("result #0 of getNodeValueProxy(ctx, nodes[i+%d]) and nothing else", slot+1), fmt.Sprintf("operand %d of a fast operator has another source than the value of its own leaf (a reused sibling value, a default)", slot+1))
		}
	}
}

// copyLoopInto recognises `for j := 0; j < len(dst) [&& j < len(src)]; j++ { dst[j] = src[j] }`, the built-in
// copy(dst, src) written out: the counter starts at 0 and advances by one, every iteration stores src[j] into
// dst[j], the loop runs while j < len(dst), and dst has no other element store.
func copyLoopInto(dst ssa.Value) (ssa.Value, *ssa.Store, *ssa.BasicBlock, bool) {
	var src ssa.Value
	var store *ssa.Store
	var hdr *ssa.BasicBlock
	n := 0
	for _, ref := range referrers(dst) {
		ia, ok := ref.(*ssa.IndexAddr)
		if !ok || ia.X != dst {
			continue
		}
		n++
		j, ok := ia.Index.(*ssa.Phi)
		if !ok {
			return nil, nil, nil, false
		}
		h := j.Block()
		for i, e := range j.Edges {
			if !h.Dominates(h.Preds[i]) {
				if c, okc := constInt(e); !okc || c != 0 {
					return nil, nil, nil, false
				}
				continue
			}
			inc, okI := e.(*ssa.BinOp)
			if !okI || inc.Op != token.ADD || inc.X != ssa.Value(j) {
				return nil, nil, nil, false
			}
			if c, okc := constInt(inc.Y); !okc || c != 1 {
				return nil, nil, nil, false
			}
		}
		for _, ref2 := range referrers(ia) {
			st, okS := ref2.(*ssa.Store)
			if !okS || st.Addr != ssa.Value(ia) {
				return nil, nil, nil, false
			}
			addr, okL := isLoad(st.Val)
			if !okL {
				return nil, nil, nil, false
			}
			sia, okA := addr.(*ssa.IndexAddr)
			if !okA || sia.Index != ssa.Value(j) {
				return nil, nil, nil, false
			}
			// runs while j < len(dst)
			bounded := false
			for _, f := range factsAt(st.Block()) {
				if cmp, okc := f.Cond.(*ssa.BinOp); okc && cmp.Op == token.LSS && f.Truth && cmp.X == ssa.Value(j) {
					if la, okl := lenArg(cmp.Y); okl && la == dst {
						bounded = true
					}
				}
			}
			// every iteration stores
			for i := range j.Edges {
				if p := h.Preds[i]; h.Dominates(p) && !st.Block().Dominates(p) {
					return nil, nil, nil, false
				}
			}
			if !bounded {
				return nil, nil, nil, false
			}
			src, store, hdr = sia.X, st, h
		}
	}
	if n != 1 || src == nil {
		return nil, nil, nil, false
	}
	return src, store, hdr, true
}

// feedsPushIndex: phi p is (transitively) the X of the push's index osTop+1.
func feedsPushIndex(p *ssa.Phi, push *ssa.Store) bool {
	ia := push.Addr.(*ssa.IndexAddr)
	bo, ok := ia.Index.(*ssa.BinOp)
	if !ok {
		return false
	}
	seen := map[ssa.Value]bool{}
	var walk func(v ssa.Value) bool
	walk = func(v ssa.Value) bool {
		if v == ssa.Value(p) {
			return true
		}
		if seen[v] {
			return false
		}
		seen[v] = true
		if q, ok := v.(*ssa.Phi); ok {
			for _, e := range q.Edges {
				if walk(e) {
					return true
				}
			}
		}
		return false
	}
	return walk(bo.X)
}

func arrayLen(t types.Type) int64 {
	if p, ok := t.Underlying().(*types.Pointer); ok {
		t = p.Elem()
	}
	if a, ok := t.Underlying().(*types.Array); ok {
		return a.Len()
	}
	return -1
}

// lastSlotStore: the last store into arr[slot] that lies in block `in` (or a block that
// dominates it within the same arm) and precedes `before`.
func lastSlotStore(arr *ssa.Alloc, slot int64, in *ssa.BasicBlock, before ssa.Instruction) *ssa.Store {
	var best *ssa.Store
	for _, ref := range referrers(arr) {
		ia, ok := ref.(*ssa.IndexAddr)
		if !ok {
			continue
		}
		if c, ok := constInt(ia.Index); !ok || c != slot {
			continue
		}
		for _, ref2 := range referrers(ia) {
			st, ok := ref2.(*ssa.Store)
			if !ok || st.Addr != ssa.Value(ia) {
				continue
			}
			if !instrDominates(st, before) {
				continue
			}
			if best == nil || instrDominates(best, st) {
				best = st
			}
		}
	}
	// a later non-dominating store between best and before would make the slot ambiguous
	if best != nil {
		for _, ref := range referrers(arr) {
			ia, ok := ref.(*ssa.IndexAddr)
			if !ok {
				continue
			}
			if c, ok := constInt(ia.Index); ok && c != slot {
				continue
			}
			for _, ref2 := range referrers(ia) {
				st, ok := ref2.(*ssa.Store)
				if !ok || st.Addr != ssa.Value(ia) || st == best {
					continue
				}
				if instrDominates(best, st) && !instrDominates(st, before) && reachable(st.Block(), before.Block()) && st.Block() != best.Block() {
					// conditionally overwritten on the way
					if mayReachWithout(st.Block(), before.Block(), best.Block()) {
						return nil
					}
				}
			}
		}
	}
	return best
}

// mayReachWithout: from can reach to without passing through avoid.
func mayReachWithout(from, to, avoid *ssa.BasicBlock) bool {
	return reachableAvoiding(from, to, func(b *ssa.BasicBlock) bool { return b == avoid })
}

var stepWitnessesEval = []Witness{
	{Name: "eval-operator-scratch-buffer", Rule: "R-STEPARGS", Edits: []Edit{
		{File: "engine.go", Old: "				params = make([]Value, cCnt)\n				copy(params, os[osTop+1:])", New: "				var scratch [16]Value\n				params = scratch[:copy(scratch[:], os[osTop+1:osTop+1+cCnt])]"}}},
	{Name: "eval-operator-pops-one-less", Rule: "R-STEPARGS", Edits: []Edit{
		{File: "engine.go", Old: "			osTop = osTop - cCnt\n			if cCnt == 2 {\n				param2[0], param2[1] = os[osTop+1], os[osTop+2]\n				params = param2[:]", New: "			osTop = osTop - cCnt + 1\n			if cCnt == 2 {\n				param2[0], param2[1] = os[osTop], os[osTop+1]\n				params = param2[:]"}}},
	{Name: "eval-two-operand-slots-swapped", Rule: "R-STEPARGS", Edits: []Edit{
		{File: "engine.go", Old: "				param2[0], param2[1] = os[osTop+1], os[osTop+2]\n				params = param2[:]", New: "				param2[0], param2[1] = os[osTop+2], os[osTop+1]\n				params = param2[:]"}}},
	{Name: "eval-two-slot-buffer-for-up-to-two", Rule: "R-STEPARGS", Edits: []Edit{
		{File: "engine.go", Old: "			if cCnt == 2 {\n				param2[0], param2[1] = os[osTop+1], os[osTop+2]\n				params = param2[:]", New: "			if cCnt <= 2 && cCnt > 0 {\n				param2[0], param2[1] = os[osTop+1], os[osTop+2]\n				params = param2[:]"}}},
	{Name: "eval-root-short-circuit-returns-nil", Rule: "R-STEPRES", Edits: []Edit{
		{File: "engine.go", Old: "				i = curt.scIdx\n				if i == -1 {\n					return\n				}\n\n				curt = nodes[i]\n				osTop = curt.osTop - 1", New: "				i = curt.scIdx\n				if i == -1 {\n					return nil, nil\n				}\n\n				curt = nodes[i]\n				osTop = curt.osTop - 1"}}},
	{Name: "eval-push-advances-two", Rule: "R-STEPRES", Edits: []Edit{
		{File: "engine.go", Old: "				curt = nodes[i]\n				osTop = curt.osTop - 1\n			}\n		}\n\n		os[osTop+1], osTop = res, osTop+1", New: "				curt = nodes[i]\n				osTop = curt.osTop - 1\n			}\n		}\n\n		os[osTop+1], osTop = res, osTop+2"}}},
	{Name: "eval-operator-result-replaced-when-nil", Rule: "R-STEPRES", Edits: []Edit{
		{File: "engine.go", Old: "			res, err = curt.operator(ctx, params)\n			if err != nil {\n				return\n			}", New: "			res, err = curt.operator(ctx, params)\n			if err != nil {\n				return\n			}\n			if res == nil {\n				res = false\n			}"}}},
	{Name: "benign-eval-copy-with-explicit-bound", Benign: true, Edits: []Edit{
		{File: "engine.go", Old: "				params = make([]Value, cCnt)\n				copy(params, os[osTop+1:])", New: "				params = make([]Value, cCnt)\n				copy(params, os[osTop+1:osTop+1+cCnt])"}}},
	{Name: "benign-eval-always-fresh-vector", Benign: true, Edits: []Edit{
		{File: "engine.go", Old: "			if cCnt == 2 {\n				param2[0], param2[1] = os[osTop+1], os[osTop+2]\n				params = param2[:]\n			} else {\n				params = make([]Value, cCnt)\n				copy(params, os[osTop+1:])\n			}", New: "			params = make([]Value, cCnt)\n			copy(params, os[osTop+1:])"}}},
}

var stepWitnessesTry = []Witness{
	{Name: "benign-tryeval-copy-written-as-loop", Rule: "R-STEPARGS", Benign: true, Edits: []Edit{
		{File: "engine.go", Old: "\t\t\t\tcopy(param, os[osTop+1:])", New: "\t\t\t\toperands := os[osTop+1:]\n\t\t\t\tfor j := 0; j < len(param) && j < len(operands); j++ {\n\t\t\t\t\tparam[j] = operands[j]\n\t\t\t\t}"}}},
	{Name: "tryeval-copy-loop-skips-first-operand", Rule: "R-STEPARGS", Edits: []Edit{
		{File: "engine.go", Old: "\t\t\t\tcopy(param, os[osTop+1:])", New: "\t\t\t\toperands := os[osTop+1:]\n\t\t\t\tfor j := 1; j < len(param) && j < len(operands); j++ {\n\t\t\t\t\tparam[j] = operands[j]\n\t\t\t\t}"}}},
	{Name: "tryeval-copy-loop-from-wrong-offset", Rule: "R-STEPARGS", Edits: []Edit{
		{File: "engine.go", Old: "\t\t\t\tcopy(param, os[osTop+1:])", New: "\t\t\t\toperands := os[osTop:]\n\t\t\t\tfor j := 0; j < len(param) && j < len(operands); j++ {\n\t\t\t\t\tparam[j] = operands[j]\n\t\t\t\t}"}}},
	{Name: "tryeval-operator-scratch-buffer", Rule: "R-STEPARGS", Edits: []Edit{
		{File: "engine.go", Old: "				param = make([]Value, cCnt)\n				copy(param, os[osTop+1:])", New: "				var scratch [16]Value\n				param = scratch[:copy(scratch[:], os[osTop+1:osTop+1+cCnt])]"}}},
	{Name: "tryeval-fast-same-varkey-reuses-first-operand", Rule: "R-STEPARGS", Edits: []Edit{
		{File: "engine.go", Old: "			param2[1], err = getNodeValueProxy(ctx, nodes[i+2])\n			if err != nil {\n				return\n			}", New: "			if l, r := nodes[i+1], nodes[i+2]; l.getNodeType() == variable && r.getNodeType() == variable && l.varKey == r.varKey {\n				param2[1] = param2[0]\n			} else {\n				param2[1], err = getNodeValueProxy(ctx, r)\n				if err != nil {\n					return\n				}\n			}"}}},
	{Name: "tryeval-fast-arm-dne-without-proxy", Rule: "R-STEPRES", Edits: []Edit{
		{File: "engine.go", Old: "			res, err = executeOperatorProxy(ctx, curt, param2[:])\n			if err != nil {\n				return\n			}\n			i += 2", New: "			if nodes[i+1].getNodeType() != nodes[i+2].getNodeType() && contains(param2[:], DNE) {\n				res = DNE\n			} else if res, err = executeOperatorProxy(ctx, curt, param2[:]); err != nil {\n				return\n			}\n			i += 2"}}},
	{Name: "tryeval-variable-arm-fetches-directly", Rule: "R-STEPRES", Edits: []Edit{
		{File: "engine.go", Old: "			res, err = fetchVariableValueProxy(ctx, curt)", New: "			res, err = ctx.Get(curt.varKey, curt.value.(string))"}}},
	{Name: "tryeval-fast-operands-from-same-child", Rule: "R-STEPARGS", Edits: []Edit{
		{File: "engine.go", Old: "			param2[1], err = getNodeValueProxy(ctx, nodes[i+2])", New: "			param2[1], err = getNodeValueProxy(ctx, nodes[i+1])"}}},
	{Name: "benign-tryeval-children-in-locals", Benign: true, Edits: []Edit{
		{File: "engine.go", Old: "			param2[0], err = getNodeValueProxy(ctx, nodes[i+1])\n			if err != nil {\n				return\n			}\n			param2[1], err = getNodeValueProxy(ctx, nodes[i+2])", New: "			lhs, rhs := nodes[i+1], nodes[i+2]\n			param2[0], err = getNodeValueProxy(ctx, lhs)\n			if err != nil {\n				return\n			}\n			param2[1], err = getNodeValueProxy(ctx, rhs)"}}},
	{Name: "benign-tryeval-copy-with-explicit-bound", Benign: true, Edits: []Edit{
		{File: "engine.go", Old: "				param = make([]Value, cCnt)\n				copy(param, os[osTop+1:])", New: "				param = make([]Value, int(cCnt))\n				copy(param, os[osTop+1:osTop+1+cCnt])"}}},
}
