package main

// C16 — reordering is cost-directed, stable and confined to and/or operands.

import (
	"fmt"
	"go/token"
	"go/types"
	"strings"

	"golang.org/x/tools/go/ssa"
)

func init() {
	register(&Property{
		ID:    "C16",
		Level: "other",
		Explanation: "Decides the structural core of every sentence of C16 from the source of optimizeReordering and what it calls: (R-SORTGATE) the only effects of the reordering pass on the tree are the store of astNode.cost and a sort of root.children that executes only on the true edge of isBoolOpNode(root.node) for the same root — so only and/or operands move, and they are only permuted (a sort permutes in place; there is no append, removal or element store); " +
			"(R-STABLE) the sort callee is sort.SliceStable/sort.Stable (sort.Slice is an insertion sort, hence stable, up to 12 elements, so no test with a short operand list can see the difference); (R-LESS) the comparator returns children[i].cost < children[j].cost, strict, on its own i and j, over the slice being sorted; " +
			"(R-MONO) the value stored into root.cost is built from constants, len-terms, the result of getCosts and children's cost, where the last two reach the store only through float +, math.Max and phi (monotone in each argument), and getCosts returns the CostsMap entry of the name, else the class entry, else a constant — so raising one entry cannot lower any subtree cost and leaves subtrees not mentioning the name unchanged; with stability this is the 'never moves ahead / eventually after' clause. " +
			"(R-PAIRBOOL) isBoolOpNode is exactly isAndOpNode || isOrOpNode over the table keys implemented by logic{and}/logic{or}. (R-COSTALL) the cost of an `if` reads exactly the operand children (the indices calAndSetNodes emits as condition and branches, not the `fi` marker) and every other node adds the cost of every child. NOT decided: NaN costs (comparisons with NaN are not a strict weak order; outside the statement) and the concrete cost numbers. Round 2: (R-PASSORDER) the optimizations list is a constant list that nothing writes and names ReduceNesting before Reordering: operands are sorted only after nested same-kind groups were merged.",
		Run:       runC16,
		Witnesses: append(append([]Witness{}, passOrderWitnesses...), c16Witnesses...),
	})
}

// varRoot resolves a value to the parameter it denotes: the parameter itself,
// or a load of the local cell go/ssa spills a captured parameter into (the
// cell must have exactly one store, of that parameter).
func varRoot(v ssa.Value) *ssa.Parameter {
	switch x := v.(type) {
	case *ssa.Parameter:
		return x
	case *ssa.UnOp:
		if x.Op != token.MUL {
			return nil
		}
		cell := resolveCell(x.X)
		if cell == nil {
			return nil
		}
		stores := cellStores(cell)
		if len(stores) != 1 {
			return nil
		}
		p, _ := stores[0].Val.(*ssa.Parameter)
		return p
	}
	return nil
}

// throughAlias: v reads a local variable (possibly captured) that is assigned exactly once — `children :=
// root.children` — and so denotes the assigned value.
func throughAlias(v ssa.Value) ssa.Value {
	for depth := 0; depth < 3; depth++ {
		u, ok := v.(*ssa.UnOp)
		if !ok || u.Op != token.MUL {
			return v
		}
		if _, isField := u.X.(*ssa.FieldAddr); isField {
			return v
		}
		cell := resolveCell(u.X)
		if cell == nil {
			return v
		}
		if _, isPtr := cell.Type().Underlying().(*types.Pointer).Elem().Underlying().(*types.Struct); isPtr {
			return v
		}
		stores := cellStores(cell)
		if len(stores) != 1 {
			return v
		}
		v = stores[0].Val
	}
	return v
}

// fieldLoadOfVar matches `R.<field>` (a load through FieldAddr) and returns
// the parameter R denotes.
func fieldLoadOfVar(v ssa.Value, typeName, field string) *ssa.Parameter {
	v = throughAlias(v)
	base, ok := loadOfField(v, typeName, field)
	if !ok {
		return nil
	}
	return varRoot(base)
}

func runC16(w *World, r *Report) {
	rulePassOrder(w, r)
	fn := w.MustFn(r, "R-SORTGATE", "optimizeReordering")
	if fn == nil {
		return
	}
	set := w.Closure(w.VTA, []*ssa.Function{fn}, true)
	r.Extra["closure_REORDER"] = w.SortedNames(set)

	ruleSortGate(w, r, fn, set)
	ruleMono(w, r)
	rulePairBool(w, r)
	ruleCostAll(w, r)
	// Compile works on a copy of the Config: every configured cost must survive the copy
	ruleCopyAll(w, r)
}

func ruleSortGate(w *World, r *Report, fn *ssa.Function, set map[*ssa.Function]bool) {
	const rule = "R-SORTGATE"
	r.Rule(rule, "in the reordering pass, the only effects on memory reachable from its arguments are the store of astNode.cost and a sort of root.children dominated by isBoolOpNode(root.node) == true for the same root", 2)
	r.Rule("R-STABLE", "the sort callee is sort.SliceStable or sort.Stable", 1)
	r.Rule("R-LESS", "the comparator is children[i].cost < children[j].cost (strict, own indices, same slice)", 1)
	a := NewEffectAnalysis(w, set, []*ssa.Function{fn})
	sorts := 0
	for _, e := range a.Effects {
		f := e.Instr.Parent()
		pos := w.InstrPos(e.Instr)
		what := effectText(e)
		if e.Labels == 0 && e.Kind != EffLibMut {
			continue // local temporaries
		}
		switch e.Kind {
		case EffStore:
			st := e.Instr.(*ssa.Store)
			if tn, fld, _, ok := fieldOf(st.Addr); ok && tn == "astNode" && fld == "cost" {
				r.OK(rule, pos, w.Name(f), what, "the pass may record the estimated cost")
				continue
			}
			r.Fail(rule, pos, w.Name(f), what, "the reordering pass writes tree memory other than astNode.cost")
		case EffLibMut:
			call := e.Instr.(ssa.CallInstruction).Common()
			name := calleeFullName(call)
			if len(name) < 5 || name[:5] != "sort." {
				if e.Labels != 0 {
					r.Fail(rule, pos, w.Name(f), what, "mutating library call on tree memory")
				}
				continue
			}
			sorts++
			r.Check(name == "sort.SliceStable" || name == "sort.Stable", "R-STABLE", pos, w.Name(f), "call "+name,
				"stable: operands of equal cost keep source order", "an unstable sort may swap operands of equal cost (only visible beyond 12 operands)")
			// what is sorted, and under which gate
			sorted := fieldLoadOfVar(unwrapIface(call.Args[0]), "astNode", "children")
			if sorted == nil {
				r.Fail(rule, pos, w.Name(f), what, "the sorted slice is not the children of a parameter-denoted node")
				continue
			}
			gated := false
			for _, fact := range factsAt(e.Instr.Block()) {
				c, callee := staticCallee(fact.Cond)
				if c == nil || callee == nil || callee != w.Fn("isBoolOpNode") || !fact.Truth {
					continue
				}
				if p := fieldLoadOfVar(c.Call.Args[0], "astNode", "node"); p != nil && p == sorted {
					gated = true
				}
			}
			r.Check(gated, rule, pos, w.Name(f), what, "executes only if isBoolOpNode("+sorted.Name()+".node) held for the node whose children are sorted",
				"the sort of "+sorted.Name()+".children is not dominated by isBoolOpNode("+sorted.Name()+".node): operands of other operators may be reordered")
			if name == "sort.SliceStable" || name == "sort.Slice" {
				checkLess(w, r, call, sorted, pos, f)
			}
		default:
			r.Fail(rule, pos, w.Name(f), what, "the reordering pass may only permute: "+string(e.Kind)+" on tree memory adds, removes or replaces operands")
		}
	}
	if sorts == 0 {
		r.Unresolved(rule, "no sort call found in the reordering pass")
	}
}

func checkLess(w *World, r *Report, call *ssa.CallCommon, sorted *ssa.Parameter, pos string, f *ssa.Function) {
	const rule = "R-LESS"
	mc, ok := throughAlias(call.Args[1]).(*ssa.MakeClosure)
	if !ok {
		r.Fail(rule, pos, w.Name(f), "less argument", "not a closure literal")
		return
	}
	less := mc.Fn.(*ssa.Function)
	var recv *ssa.Parameter // receiver of a method value used as comparator; denotes the bound node
	if strings.HasPrefix(less.Synthetic, "bound method wrapper") && len(mc.Bindings) == 1 {
		var target *ssa.Function
		EachInstr(less, func(in ssa.Instruction) {
			if c, ok := in.(*ssa.Call); ok && c.Call.StaticCallee() != nil {
				target = c.Call.StaticCallee()
			}
		})
		if target == nil || len(target.Params) != 3 || varRoot(mc.Bindings[0]) != sorted {
			r.Fail(rule, pos, w.Name(f), "less argument", "a method value that is not bound to the node whose children are sorted")
			return
		}
		less, recv = target, target.Params[0]
	}
	rets := allReturns(less)
	np := 2
	if recv != nil {
		np = 3
	}
	if len(rets) != 1 || len(less.Params) != np {
		r.Fail(rule, w.Pos(less.Pos()), w.Name(less), "comparator", "expected a single return of one comparison")
		return
	}
	side := func(v ssa.Value) (idx ssa.Value, ok bool) {
		// load of (load of (R.children)[idx]).cost
		base, okc := loadOfField(v, "astNode", "cost")
		if !okc {
			return nil, false
		}
		addr, okl := isLoad(base)
		if !okl {
			return nil, false
		}
		ia, oki := addr.(*ssa.IndexAddr)
		if !oki {
			return nil, false
		}
		p := fieldLoadOfVar(ia.X, "astNode", "children")
		if p != nil && p == recv {
			p = sorted
		}
		if p == nil || p != sorted {
			return nil, false
		}
		return ia.Index, true
	}
	bo, ok := rets[0].Results[0].(*ssa.BinOp)
	if !ok {
		r.Fail(rule, w.InstrPos(rets[0]), w.Name(less), "return "+describe(rets[0].Results[0]), "not a single comparison")
		return
	}
	xi, okx := side(bo.X)
	yi, oky := side(bo.Y)
	i, j := ssa.Value(less.Params[np-2]), ssa.Value(less.Params[np-1])
	good := okx && oky && ((bo.Op == token.LSS && xi == i && yi == j) || (bo.Op == token.GTR && xi == j && yi == i))
	r.Check(good, rule, w.InstrPos(rets[0]), w.Name(less), "return "+describe(bo),
		"strict less on cost of the sorted slice's own elements i and j", "the comparator is not children[i].cost < children[j].cost on the sorted slice (non-strict, reversed, or over other data)")
}

// ---- R-MONO -------------------------------------------------------------------

func ruleMono(w *World, r *Report) {
	const rule = "R-MONO"
	r.Rule(rule, "cost dataflow is monotone: configured costs and children's costs reach root.cost only through float +, math.Max and phi; getCosts returns the entry of the name, else of the class, else a constant", 6)
	fn := w.MustFn(r, rule, "calculateNodeCosts")
	gc := w.MustFn(r, rule, "(*Config).getCosts")
	if fn == nil || gc == nil {
		return
	}
	name := w.Name(fn)
	// values that depend on a configured cost or on a child's cost
	dep := map[ssa.Value]bool{}
	EachInstr(fn, func(in ssa.Instruction) {
		switch x := in.(type) {
		case *ssa.Call:
			if x.Call.StaticCallee() == gc {
				dep[x] = true
			}
		case *ssa.UnOp:
			if _, ok := loadOfField(x, "astNode", "cost"); ok {
				dep[x] = true
			}
		}
	})
	if len(dep) < 3 {
		r.Unresolved(rule, "calculateNodeCosts no longer reads getCosts and children's cost")
	}
	for changed := true; changed; {
		changed = false
		EachInstr(fn, func(in ssa.Instruction) {
			v, ok := in.(ssa.Value)
			if !ok || dep[v] {
				return
			}
			var ops []*ssa.Value
			for _, op := range in.Operands(ops) {
				if *op != nil && dep[*op] {
					if _, isStore := in.(*ssa.Store); isStore {
						continue
					}
					dep[v] = true
					changed = true
				}
			}
		})
	}
	stores := 0
	EachInstr(fn, func(in ssa.Instruction) {
		v, ok := in.(ssa.Value)
		if ok && dep[v] {
			pos := w.InstrPos(in)
			switch x := v.(type) {
			case *ssa.BinOp:
				r.Check(x.Op == token.ADD, rule, pos, name, describe(x), "cost-dependent operands combined with +: monotone",
					"a cost-dependent value is combined with "+x.Op.String()+": raising a configured cost could lower a subtree cost")
			case *ssa.Call:
				if x.Call.StaticCallee() == gc {
					return
				}
				cn := calleeFullName(&x.Call)
				r.Check(cn == "math.Max", rule, pos, name, describe(x), "math.Max is monotone in both arguments",
					"a cost-dependent value passes through "+cn+", which is not known to be monotone")
			case *ssa.UnOp:
				if x.Op == token.MUL {
					return // the loads themselves
				}
				r.Fail(rule, pos, name, describe(x), "unary "+x.Op.String()+" on a cost-dependent value is not monotone")
			case *ssa.Phi:
			case *ssa.Convert, *ssa.ChangeType:
			default:
				r.Fail(rule, pos, name, describe(v), "unexpected operation on a cost-dependent value")
			}
		}
		if st, ok := in.(*ssa.Store); ok {
			if tn, fld, base, okf := fieldOf(st.Addr); okf && tn == "astNode" && fld == "cost" {
				stores++
				p := varRoot(base)
				r.Check(p != nil && len(fn.Params) == 2 && p == fn.Params[1] && dep[st.Val], rule, w.InstrPos(st), name, describe(st.Addr)+" = "+describe(st.Val),
					"the cost of the node itself is set from the monotone combination", "the cost store does not target the node under analysis or ignores the configured costs")
			}
		}
	})
	if stores != 1 {
		r.Unresolved(rule, fmt.Sprintf("expected exactly one store of astNode.cost in calculateNodeCosts, found %d", stores))
	}
	// the name whose cost is looked up is the node's own name
	EachInstr(fn, func(in ssa.Instruction) {
		c, ok := in.(*ssa.Call)
		if !ok || c.Call.StaticCallee() != gc {
			return
		}
		arg := c.Call.Args[2]
		okName := false
		if ta, isTA := arg.(*ssa.TypeAssert); isTA {
			if base, okv := loadOfField(ta.X, "node", "value"); okv {
				if p := fieldLoadOfVar(base, "astNode", "node"); p != nil && p == fn.Params[1] {
					okName = true
				}
			}
		}
		r.Check(okName, rule, w.InstrPos(c), name, describe(c), "the cost is looked up under the node's own name (root.node.value)", "the cost lookup does not use the node's own name")
	})

	// getCosts
	gname := w.Name(gc)
	var nameLookupIf *ssa.If
	for _, ret := range allReturns(gc) {
		v := ret.Results[0]
		pos := w.InstrPos(ret)
		if _, isConst := v.(*ssa.Const); isConst {
			r.OK(rule, pos, gname, "return "+describe(v), "constant default")
			continue
		}
		ex, ok := v.(*ssa.Extract)
		var lk *ssa.Lookup
		if ok && ex.Index == 0 {
			lk, _ = ex.Tuple.(*ssa.Lookup)
		}
		if lk == nil {
			r.Fail(rule, pos, gname, "return "+describe(v), "getCosts returns something other than a CostsMap entry or a constant")
			continue
		}
		_, okMap := loadOfField(lk.X, "Config", "CostsMap")
		// dominated by its own `exist`
		okExist := false
		for _, f := range factsAt(ret.Block()) {
			if e2, isEx := f.Cond.(*ssa.Extract); isEx && e2.Tuple == lk && e2.Index == 1 && f.Truth {
				okExist = true
				if lk.Index == ssa.Value(gc.Params[2]) {
					nameLookupIf = f.If
				}
			}
		}
		r.Check(okMap && okExist, rule, pos, gname, "return "+describe(v), "an entry of the receiver's CostsMap, returned only when present", "returned without the presence test, or from another map")
	}
	if nameLookupIf == nil {
		r.Fail(rule, w.Pos(gc.Pos()), gname, "lookup of CostsMap[nodeName]", "no return of the entry stored under the node's own name")
	} else {
		// every other return is on the not-present side of the by-name lookup
		allAfter := true
		for _, ret := range allReturns(gc) {
			if edgeDominates(nameLookupIf.Block(), 0, ret.Block()) {
				continue
			}
			if !edgeDominates(nameLookupIf.Block(), 1, ret.Block()) {
				allAfter = false
			}
		}
		r.Check(allAfter, rule, w.InstrPos(nameLookupIf), gname, "per-name entry takes precedence", "every other return is reached only when the name has no entry", "a class default or constant can be returned although the name has an entry")
	}
}

// ---- R-PAIRBOOL -----------------------------------------------------------------

// boolOpNames extracts, from isAndOpNode / isOrOpNode, the set of operator
// names they accept (string constants compared with the node's value).
// nameOfNode: v is the operator name of node n — n.value.(string) — possibly obtained through a forwarding helper
// whose result #k is that expression on its own parameter (or the empty string).
func nameOfNode(w *World, v ssa.Value, n ssa.Value, depth int) bool {
	if ex, ok := v.(*ssa.Extract); ok && ex.Index == 0 {
		if ta, ok := ex.Tuple.(*ssa.TypeAssert); ok {
			v = ta
		}
	}
	if ta, ok := v.(*ssa.TypeAssert); ok {
		if base, okv := loadOfField(ta.X, "node", "value"); okv && base == n {
			return true
		}
		return false
	}
	ex, ok := v.(*ssa.Extract)
	var call *ssa.Call
	idx := 0
	if ok {
		call, _ = ex.Tuple.(*ssa.Call)
		idx = ex.Index
	} else {
		call, _ = v.(*ssa.Call)
	}
	if call == nil || depth > 2 {
		return false
	}
	h := call.Call.StaticCallee()
	if h == nil || !w.funcSet[h] {
		return false
	}
	pi := -1
	for i, a := range call.Call.Args {
		if a == n {
			pi = i
		}
	}
	if pi < 0 || pi >= len(h.Params) {
		return false
	}
	some := false
	for _, ret := range allReturns(h) {
		if idx >= len(ret.Results) {
			return false
		}
		rv := ret.Results[idx]
		if c, okc := constString(rv); okc && c == "" {
			continue
		}
		var leaves []leafAt
		expandPhis(rv, nil, map[*ssa.Phi]bool{}, &leaves)
		for _, lf := range leaves {
			if c, okc := constString(lf.v); okc && c == "" {
				continue
			}
			if !nameOfNode(w, lf.v, h.Params[pi], depth+1) {
				return false
			}
			some = true
		}
	}
	return some
}

// opNamePredicate reads a predicate over a node as the set of operator names it accepts: every `return true`
// must be reached through a positive comparison of the node's name with a constant (on every incoming edge), and a
// returned boolean expression must be a disjunction of such comparisons.
func opNamePredicate(w *World, fnName string) (map[string]bool, string) {
	fn := w.Fn(fnName)
	if fn == nil {
		return nil, "function " + fnName + " not found"
	}
	n := ssa.Value(fn.Params[0])
	names := map[string]bool{}
	bad := ""
	nameCmp := func(c ssa.Value) (string, bool) {
		bo, ok := c.(*ssa.BinOp)
		if !ok || bo.Op != token.EQL {
			return "", false
		}
		for _, side := range [][2]ssa.Value{{bo.X, bo.Y}, {bo.Y, bo.X}} {
			if s, okc := constString(side[1]); okc && nameOfNode(w, side[0], n, 0) {
				return s, true
			}
		}
		return "", false
	}
	positives := func(facts []Fact) []string {
		var out []string
		for _, f := range facts {
			if s, ok := nameCmp(f.Cond); ok && f.Truth {
				out = append(out, s)
			}
		}
		return out
	}
	tc := &termCtx{leaf: func(v ssa.Value) string {
		if nameOfNode(w, v, n, 0) {
			return "NAME"
		}
		return ""
	}}
	for _, ret := range allReturns(fn) {
		v := ret.Results[0]
		if b, ok := constBool(v); ok {
			if !b {
				continue
			}
			if ps := positives(factsAt(ret.Block())); len(ps) > 0 {
				for _, s := range ps {
					names[s] = true
				}
				continue
			}
			// a shared body: every incoming edge must carry a name comparison
			blk := ret.Block()
			if len(blk.Preds) == 0 {
				bad = "returns constant true"
				continue
			}
			for _, p := range blk.Preds {
				for kk, sc := range p.Succs {
					if sc != blk {
						continue
					}
					ps := positives(factsAtEdge(p, kk))
					if len(ps) == 0 {
						bad = "returns true on a path without a comparison of the node's name"
					}
					for _, s := range ps {
						names[s] = true
					}
				}
			}
			continue
		}
		t := tc.term(v)
		parts, ok := splitTop(t, "||")
		if !ok {
			parts = []string{t}
		}
		for _, p := range parts {
			var s string
			if c, err := fmt.Sscanf(p, "(%q == NAME)", &s); c == 1 && err == nil {
				names[s] = true
			} else if c, err := fmt.Sscanf(p, "(NAME == %q)", &s); c == 1 && err == nil {
				names[s] = true
			} else {
				bad = "unrecognised disjunct " + p
			}
		}
	}
	// the name is looked at only for operator / fastOperator nodes (in the predicate or in the helper it reads the name through)
	kinds := kindGuardPresent(w, fn)
	EachInstr(fn, func(in ssa.Instruction) {
		if c, ok := in.(*ssa.Call); ok {
			if h := c.Call.StaticCallee(); h != nil && w.funcSet[h] && nm(h) != "getNodeType" {
				for kk, vv := range kindGuardPresent(w, h) {
					if vv {
						kinds[kk] = true
					}
				}
			}
		}
	})
	if !(kinds["operator"] && kinds["fastOperator"]) {
		bad = "the name comparison is not preceded by the kind test (operator or fastOperator)"
	}
	return names, bad
}

// kindGuardPresent reports whether fn compares the node's kind with both the
// operator and the fastOperator constants before looking at its name.
func kindGuardPresent(w *World, fn *ssa.Function) map[string]bool {
	k := loadNodeKinds(w)
	out := map[string]bool{}
	for _, ib := range fn.Blocks {
		iff, ok := ib.Instrs[len(ib.Instrs)-1].(*ssa.If)
		if !ok {
			continue
		}
		_, c, _, ok := k.kindTest(iff.Cond)
		if !ok {
			continue
		}
		if name, ok := k.byValue[c]; ok {
			out[name] = true
		}
	}
	return out
}

func rulePairBool(w *World, r *Report) {
	const rule = "R-PAIRBOOL"
	r.Rule(rule, "isAndOpNode / isOrOpNode accept exactly the operator-table keys implemented by logic{and} / logic{or}; isBoolOpNode is their disjunction", 3)
	table, err := w.OperatorTable("builtinOperators")
	if err != nil {
		r.Unresolved(rule, err.Error())
		return
	}
	modeOf := func(impl *OpImpl) string {
		if impl.Recv != "logic" {
			return ""
		}
		m, ok := impl.FieldInt("mode")
		if !ok {
			return ""
		}
		for name, v := range w.ConstsOfType("mode") {
			if vi, ok2 := constantInt(v); ok2 && vi == m {
				return name
			}
		}
		return ""
	}
	// which mode constant do the public names "and" and "or" use
	var andMode, orMode string
	for _, impl := range table {
		if impl.Key == "and" {
			andMode = modeOf(impl)
		}
		if impl.Key == "or" {
			orMode = modeOf(impl)
		}
	}
	if andMode == "" || orMode == "" {
		r.Unresolved(rule, "table entries \"and\"/\"or\" are not logic{mode: …}.execute")
		return
	}
	for _, c := range []struct{ fn, mode, label string }{{"isAndOpNode", andMode, "and"}, {"isOrOpNode", orMode, "or"}} {
		want := map[string]bool{}
		for _, impl := range table {
			if modeOf(impl) == c.mode {
				want[impl.Key] = true
			}
		}
		got, bad := opNamePredicate(w, c.fn)
		fnObj := w.Fn(c.fn)
		pos := "-"
		if fnObj != nil {
			pos = w.Pos(fnObj.Pos())
		}
		same := bad == "" && len(got) == len(want)
		for k := range want {
			if !got[k] {
				same = false
			}
		}
		r.Check(same, rule, pos, c.fn, fmt.Sprintf("%s accepts %v", c.fn, sortedKeys(got)),
			fmt.Sprintf("exactly the table keys whose implementation is the one of %q: %v", c.label, sortedKeys(want)),
			fmt.Sprintf("table keys implemented like %q are %v, the predicate accepts %v %s: an alias would not be flattened, reordered or short-circuited like its named form", c.label, sortedKeys(want), sortedKeys(got), bad))
	}
	// isBoolOpNode = isAndOpNode(n) || isOrOpNode(n)
	if fn := w.MustFn(r, rule, "isBoolOpNode"); fn != nil {
		tc := &termCtx{leaf: func(v ssa.Value) string {
			if c, callee := staticCallee(v); c != nil && callee != nil && len(c.Call.Args) == 1 && c.Call.Args[0] == ssa.Value(fn.Params[0]) {
				return nm(callee) + "(n)"
			}
			return ""
		}}
		rets := allReturns(fn)
		t := ""
		if len(rets) == 1 {
			t = tc.term(rets[0].Results[0])
		}
		good := t == "(isAndOpNode(n) || isOrOpNode(n))"
		if !good {
			// the same written with early returns: true under one predicate, else the other predicate's answer
			used := map[string]bool{}
			good = true
			for _, ret := range rets {
				v := ret.Results[0]
				if b, okb := constBool(v); okb {
					if !b {
						continue
					}
					found := false
					for _, f := range factsAt(ret.Block()) {
						if c, callee := staticCallee(f.Cond); c != nil && callee != nil && f.Truth && len(c.Call.Args) == 1 && c.Call.Args[0] == ssa.Value(fn.Params[0]) {
							used[nm(callee)] = true
							found = true
						}
					}
					if !found {
						good = false
					}
					continue
				}
				tt := tc.term(v)
				switch tt {
				case "isAndOpNode(n)", "isOrOpNode(n)":
					used[strings.TrimSuffix(tt, "(n)")] = true
				case "(isAndOpNode(n) || isOrOpNode(n))":
					used["isAndOpNode"], used["isOrOpNode"] = true, true
				default:
					good = false
				}
				t += " / " + tt
			}
			good = good && used["isAndOpNode"] && used["isOrOpNode"] && len(used) == 2
		}
		r.Check(good, rule, w.Pos(fn.Pos()), "isBoolOpNode", "returns "+t, "the disjunction of the two predicates on its own argument", "isBoolOpNode is not isAndOpNode(n) || isOrOpNode(n)")
	}
}

func constantInt(v interface{ ExactString() string }) (int64, bool) {
	var i int64
	if _, err := fmt.Sscanf(v.ExactString(), "%d", &i); err != nil {
		return 0, false
	}
	return i, true
}

var _ = types.Typ

var c16Witnesses = append(wave4Witnesses, []Witness{
	{Name: "sort-slice-unstable", Rule: "R-STABLE", Edits: []Edit{
		{File: "compiler.go", Old: "	sort.SliceStable(root.children, func(i, j int) bool {", New: "	sort.Slice(root.children, func(i, j int) bool {"}}},
	{Name: "less-not-strict", Rule: "R-LESS", Edits: []Edit{
		{File: "compiler.go", Old: "		return root.children[i].cost < root.children[j].cost", New: "		return root.children[i].cost <= root.children[j].cost"}}},
	{Name: "less-reversed", Rule: "R-LESS", Edits: []Edit{
		{File: "compiler.go", Old: "		return root.children[i].cost < root.children[j].cost", New: "		return root.children[j].cost < root.children[i].cost"}}},
	{Name: "sort-children-of-every-operator", Rule: "R-SORTGATE", Edits: []Edit{
		{File: "compiler.go", Old: "	calculateNodeCosts(cc, root)\n\n	if !isBoolOpNode(root.node) {\n		return\n	}\n", New: "	calculateNodeCosts(cc, root)\n\n	if !isBoolOpNode(root.node) && root.node.getNodeType() != operator {\n		return\n	}\n"}}},
	{Name: "reorder-drops-duplicate-operands", Rule: "R-SORTGATE", Edits: []Edit{
		{File: "compiler.go", Old: "	// reordering child nodes based on node cost\n	sort.SliceStable(", New: "	if n := len(root.children); n > 2 && root.children[n-1].cost == 1 && root.children[n-2].cost == 1 {\n		root.children = root.children[:n-1]\n	}\n	// reordering child nodes based on node cost\n	sort.SliceStable("}}},
	{Name: "cost-subtracts-operation-cost", Rule: "R-MONO", Edits: []Edit{
		{File: "compiler.go", Old: "	root.cost = baseCost + operationCost + childrenCost", New: "	root.cost = baseCost - operationCost + childrenCost"}}},
	{Name: "cost-divides-by-child-count", Rule: "R-MONO", Edits: []Edit{
		{File: "compiler.go", Old: "	root.cost = baseCost + operationCost + childrenCost", New: "	root.cost = baseCost + operationCost + childrenCost/float64(len(children)+1)"}}},
	{Name: "class-default-shadows-name", Rule: "R-MONO", Edits: []Edit{
		{File: "compiler.go", Old: "	if v, exist := cc.CostsMap[nodeName]; exist {\n		return v\n	}\n\n	switch nodeType {\n	case variable:\n		if v, exist := cc.CostsMap[variableNode]; exist {\n			return v\n		}\n		return variableCost",
			New: "	switch nodeType {\n	case variable:\n		if v, exist := cc.CostsMap[variableNode]; exist {\n			return v\n		}\n	}\n	if v, exist := cc.CostsMap[nodeName]; exist {\n		return v\n	}\n\n	switch nodeType {\n	case variable:\n		return variableCost"}}},
	{Name: "or-predicate-forgets-alias", Rule: "R-PAIRBOOL", Edits: []Edit{
		{File: "compiler.go", Old: "	return v == \"or\" || v == \"|\" || v == \"||\"", New: "	return v == \"or\" || v == \"|\""}}},
	{Name: "benign-less-mirrored", Benign: true, Edits: []Edit{
		{File: "compiler.go", Old: "		return root.children[i].cost < root.children[j].cost", New: "		return root.children[j].cost > root.children[i].cost"}}},
	{Name: "benign-gate-as-positive-if", Benign: true, Edits: []Edit{
		{File: "compiler.go", Old: "	if !isBoolOpNode(root.node) {\n		return\n	}\n\n	// reordering child nodes based on node cost\n	sort.SliceStable(root.children, func(i, j int) bool {\n		return root.children[i].cost < root.children[j].cost\n	})", New: "	if isBoolOpNode(root.node) {\n		// reordering child nodes based on node cost\n		sort.SliceStable(root.children, func(i, j int) bool {\n			return root.children[i].cost < root.children[j].cost\n		})\n	}"}}},
}...)
