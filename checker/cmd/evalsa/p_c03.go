package main

// C03 — skipped operands and untaken branches are never evaluated: where the
// observable effects (VariableFetcher.Get, operator calls) can occur in Eval.

import (
	"fmt"
	"go/token"
	"go/types"
	"sort"
	"strings"

	"golang.org/x/tools/go/ssa"
)

func init() {
	register(&Property{
		ID:    "C03",
		Level: "other",
		Explanation: "The observable effects of evaluation are calls of VariableFetcher.Get and of operators; where they can happen is structural and is decided: (R-CALLSITES) census of every Get invoke and every dynamic Operator call in Eval: a Get happens only for the current node nodes[i] under kind == variable, or for nodes[i+1] / nodes[i+2] under kind(current) == fastOperator and kind(child) == variable, always with both keys of that same node; an operator is called only as the current node's own operator under kind in {fastOperator, operator, cond}; all sites index the program with the one loop counter of the main loop (no second loop that pre-fetches or speculatively evaluates), no site sits in an inner loop, and the arms are exclusive, so one step performs at most 2 fetches (the fast-operator allowance) and 1 operator call. " +
			"(R-FASTORDER) in the fast arm the fetch of child 1 cannot follow the fetch of child 2, param2[0]/param2[1] receive child 1 / child 2 (literal or fetched value) and the operator call is dominated by both. (R-CONDJUMP) in the cond arm the jump (i = scIdx, osTop = node.osTop) happens only under operator-result == true; the `if` closure returns the negation of its boolean argument (so 'jump' means 'condition false'), the `fi` closure returns constant true. (R-SCJUMP) the short-circuit jump of the main loop is taken only for a bool result b with (!b && scIfFalse) || (b && scIfTrue). " +
			"(R-STEPRES) per arm of the main loop the pushed value is exactly the node literal / result #0 of the fetch of that very node / result #0 of the node's own operator applied in that arm, cond and event arms push nothing, the value lands in os[osTop+1] and osTop advances by one, non-error returns yield the pushed value or os[0]; (R-STEPARGS) the operator arm pops exactly childCnt and hands the operator either the two-slot buffer filled from os[osTop-childCnt+1], os[osTop-childCnt+2] (only under childCnt == 2) or a fresh childCnt-long copy of os[osTop-childCnt+1:]. " +
			"(R-SCFLAGS, R-SCCLIMB, R-FASTLAYOUT, R-KWTYPE) every child of an and/or node gets polarity flag and jump target whatever its own kind; climbing only while the ancestor is decided by every polarity the node carries; all sites agree on the two inlined operands of a fast operator. " +
			"NOT decided: that the jump targets skip exactly the decided operands and the untaken branch (values of the scIdx/osTop tables computed at compile time), and TryEval's visiting order. Round 2: (R-SCMUST) the converse of R-SCJUMP — a step result is pushed (evaluation goes on with the next operand) only if it is not a bool, or the flag that lets its value decide the parent is not set; path-sensitive in the asserted bool. (R-NODEFRESH) one node record per tree position.",
		Run:       runC03,
		Witnesses: c03Witnesses,
	})
}

// evalLoop is the recovered shape of the evaluator's main loop.
type evalLoop struct {
	fn    *ssa.Function
	nodes ssa.Value // load of e.nodes
	i     *ssa.Phi  // loop counter
	hdr   *ssa.BasicBlock
	curt  ssa.Value // load of nodes[i]
}

// nodeAt matches a node pointer value `nodes[i + off]` and returns off.
func (l *evalLoop) nodeAt(v ssa.Value) (int64, bool) {
	addr, ok := isLoad(v)
	if !ok {
		return 0, false
	}
	ia, ok := addr.(*ssa.IndexAddr)
	if !ok || !(ia.X == l.nodes || sameValueShape(ia.X, l.nodes)) {
		return 0, false
	}
	return l.offsetOf(ia.Index)
}

// offsetOf matches i, i+1, (i+1)+1 ... and returns the offset from the loop counter.
func (l *evalLoop) offsetOf(idx ssa.Value) (int64, bool) {
	off := int64(0)
	for depth := 0; depth < 4; depth++ {
		if idx == ssa.Value(l.i) {
			return off, true
		}
		bo, ok := idx.(*ssa.BinOp)
		if !ok || bo.Op != token.ADD {
			return 0, false
		}
		c, ok := constInt(bo.Y)
		if !ok {
			return 0, false
		}
		off += c
		idx = bo.X
	}
	return 0, false
}

func recoverEvalLoop(w *World, fn *ssa.Function) (*evalLoop, string) {
	l := &evalLoop{fn: fn}
	// nodes: load of e.nodes with e the receiver
	EachInstr(fn, func(in ssa.Instruction) {
		if u, ok := in.(*ssa.UnOp); ok && l.nodes == nil {
			if base, ok := loadOfField(u, "Expr", "nodes"); ok && len(fn.Params) > 0 && base == ssa.Value(fn.Params[0]) {
				l.nodes = u
			}
		}
	})
	if l.nodes == nil {
		return nil, "no load of e.nodes"
	}
	// the loop counter: a phi used (possibly with a constant offset) to index nodes, in a block whose
	// terminator compares it with the node count
	counts := map[*ssa.Phi]int{}
	EachInstr(fn, func(in ssa.Instruction) {
		ia, ok := in.(*ssa.IndexAddr)
		if !ok || ia.X != l.nodes {
			return
		}
		idx := ia.Index
		for depth := 0; depth < 4; depth++ {
			if p, ok := idx.(*ssa.Phi); ok {
				counts[p]++
				return
			}
			bo, ok := idx.(*ssa.BinOp)
			if !ok || bo.Op != token.ADD {
				return
			}
			idx = bo.X
		}
	})
	for p, n := range counts {
		blk := p.Block()
		iff, ok := blk.Instrs[len(blk.Instrs)-1].(*ssa.If)
		if !ok {
			continue
		}
		cmp, ok := iff.Cond.(*ssa.BinOp)
		if !ok || cmp.Op != token.LSS || cmp.X != ssa.Value(p) {
			continue
		}
		if l.i == nil || n > counts[l.i] {
			l.i = p
			l.hdr = blk
		}
	}
	if l.i == nil {
		return nil, "no loop counter indexing e.nodes found"
	}
	EachInstr(fn, func(in ssa.Instruction) {
		if u, ok := in.(*ssa.UnOp); ok && l.curt == nil {
			if off, ok := l.nodeAt(u); ok && off == 0 && l.hdr.Dominates(u.Block()) {
				l.curt = u
			}
		}
	})
	if l.curt == nil {
		return nil, "no load of nodes[i]"
	}
	return l, ""
}

// inInnerLoop reports whether block b lies on a cycle that does not pass
// through the main loop header.
func inInnerLoop(b, hdr *ssa.BasicBlock) bool {
	for _, s := range b.Succs {
		if s == hdr {
			continue
		}
		if s == b || reachableAvoiding(s, b, func(x *ssa.BasicBlock) bool { return x == hdr }) {
			return true
		}
	}
	return false
}

func isGetInvoke(c *ssa.CallCommon) bool {
	return c.IsInvoke() && nm(c.Method) == "Get" && typeNameOf(c.Value.Type()) == "VariableFetcher"
}

// getKeysNode returns the node both keys of a Get come from (nil if they differ).
func getKeysNode(c *ssa.CallCommon) ssa.Value {
	if len(c.Args) != 2 {
		return nil
	}
	n1, ok1 := loadOfField(c.Args[0], "node", "varKey")
	if !ok1 {
		return nil
	}
	var n2 ssa.Value
	switch x := c.Args[1].(type) {
	case *ssa.TypeAssert:
		if b, ok := loadOfField(x.X, "node", "value"); ok {
			n2 = b
		}
	}
	if n2 == nil {
		return nil
	}
	if n1 == n2 || sameValueShape(n1, n2) {
		return n1
	}
	return nil
}

// fetchHelper recognises an extracted "value of a leaf" helper: H(.., node, ..) performs exactly one Get, for its
// node parameter's own keys, only when that node's kind is variable, and returns the fetched value (or the node's
// literal) with the fetcher's error. It returns the index of the node parameter.
func fetchHelper(w *World, fn *ssa.Function) (int, bool) {
	if fn == nil || !w.funcSet[fn] || len(fn.Blocks) == 0 {
		return 0, false
	}
	k := loadNodeKinds(w)
	var get *ssa.Call
	n := 0
	EachInstr(fn, func(in ssa.Instruction) {
		if c, ok := in.(*ssa.Call); ok && isGetInvoke(&c.Call) {
			get = c
			n++
		}
	})
	if n != 1 {
		return 0, false
	}
	node := getKeysNode(&get.Call)
	p, ok := node.(*ssa.Parameter)
	if !ok {
		return 0, false
	}
	idx := -1
	for i, q := range fn.Params {
		if q == p {
			idx = i
		}
	}
	kinds := k.kindsPossibleAt(get.Block(), func(x ssa.Value) bool { return x == ssa.Value(p) })
	if idx < 0 || kinds == nil || !kinds[k.variable] || kinds[k.constant] {
		return 0, false
	}
	okVal := func(v ssa.Value) bool {
		var leaves []leafAt
		expandPhis(v, nil, map[*ssa.Phi]bool{}, &leaves)
		for _, lf := range leaves {
			if base, okf := loadOfField(lf.v, "node", "value"); okf && base == ssa.Value(p) {
				continue
			}
			if ex, okx := lf.v.(*ssa.Extract); okx && ex.Index == 0 && ex.Tuple == ssa.Value(get) {
				continue
			}
			return false
		}
		return len(leaves) > 0
	}
	for _, ret := range allReturns(fn) {
		if len(ret.Results) != 2 || !okVal(ret.Results[0]) {
			return 0, false
		}
	}
	return idx, true
}

func runC03(w *World, r *Report) {
	ruleNodeFresh(w, r)
	runC03Sites(w, r)
	ruleStepArgs(w, r, ruleStepRes(w, r, "(*Expr).Eval"))
	ruleScFlags(w, r)
	ruleScClimb(w, r)
	ruleFastLayout(w, r)
	ruleKwType(w, r)
	rulePairBool(w, r)
	// the fast path reads its operands' values without executing them: only two-leaf operators may be marked fast
	// (the permitted extra work of C03), which is the flag-writer clause of R-KIND
	ruleKind(w, r)
}

// runC03Sites: where fetches and operator calls can occur in Eval (also run under C11).
func runC03Sites(w *World, r *Report) {
	const rule = "R-CALLSITES"
	r.Rule(rule, "every Get and every operator call in Eval sits in the arm of the main loop that the semantics assigns it, on the node(s) of the current step, with exclusive arms and no inner loop", 6)
	fn := w.MustFn(r, rule, "(*Expr).Eval")
	if fn == nil {
		return
	}
	l, why := recoverEvalLoop(w, fn)
	if l == nil {
		r.Unresolved(rule, "main loop of Eval not recognised: "+why)
		return
	}
	k := loadNodeKinds(w)
	name := w.Name(fn)
	isCurt := func(n ssa.Value) bool {
		off, ok := l.nodeAt(n)
		return ok && off == 0
	}
	kindsOfCurt := func(b *ssa.BasicBlock) map[int64]bool { return k.kindsPossibleAt(b, isCurt) }
	only := func(m map[int64]bool, ks ...int64) bool {
		if m == nil || len(m) == 0 {
			return false
		}
		allowed := map[int64]bool{}
		for _, x := range ks {
			allowed[x] = true
		}
		for x := range m {
			if !allowed[x] {
				return false
			}
		}
		return true
	}

	gets := map[string][]*ssa.Call{} // arm -> sites
	var opCalls []*ssa.Call
	EachInstr(fn, func(in ssa.Instruction) {
		c, ok := in.(*ssa.Call)
		if !ok {
			return
		}
		pos := w.InstrPos(c)
		helperIdx, isHelper := fetchHelper(w, c.Call.StaticCallee())
		switch {
		case isGetInvoke(&c.Call) || isHelper:
			what := describe(c)
			n := getKeysNode(&c.Call)
			if isHelper {
				n = c.Call.Args[helperIdx]
			}
			if n == nil {
				r.Fail(rule, pos, name, what, "the fetch does not pass varKey and name of one and the same node")
				return
			}
			off, okOff := l.nodeAt(n)
			if !okOff {
				r.Fail(rule, pos, name, what, "the fetched node is not nodes[i+k] of the main loop counter: a fetch outside the step being executed (pre-fetch or speculation)")
				return
			}
			if inInnerLoop(c.Block(), l.hdr) || !l.hdr.Dominates(c.Block()) {
				r.Fail(rule, pos, name, what, "the fetch sits outside the main loop or in an inner loop")
				return
			}
			kc := kindsOfCurt(c.Block())
			switch off {
			case 0:
				gets["variable"] = append(gets["variable"], c)
				r.Check(only(kc, k.variable), rule, pos, name, what, "current node, under kind == variable", "the current node is fetched although its kind is not known to be variable")
			case 1, 2:
				arm := fmt.Sprintf("fast+%d", off)
				gets[arm] = append(gets[arm], c)
				childKinds := k.kindsPossibleAt(c.Block(), func(x ssa.Value) bool { return x == n || sameValueShape(x, n) })
				// children of a fast operator are leaves (R-KIND): separating variable from constant suffices
				childOK := childKinds != nil && childKinds[k.variable] && !childKinds[k.constant]
				if isHelper {
					childOK = true // the helper itself fetches only under kind(node) == variable (fetchHelper)
				}
				r.Check(only(kc, k.fastOperator) && childOK, rule, pos, name, what,
					fmt.Sprintf("inlined leaf operand %d of a fast operator, under kind(child) == variable", off), "a node after the current one is fetched outside the fast-operator allowance, or without its kind being variable")
			default:
				r.Fail(rule, pos, name, what, fmt.Sprintf("fetch of nodes[i+%d]: beyond the two inlined operands of a fast operator", off))
			}
		case isOperatorCall(w, &c.Call):
			what := describe(c)
			base, okf := loadOfField(c.Call.Value, "node", "operator")
			if !okf || !isCurt(base) {
				r.Fail(rule, pos, name, what, "an operator other than the current node's own is applied")
				return
			}
			if inInnerLoop(c.Block(), l.hdr) || !l.hdr.Dominates(c.Block()) {
				r.Fail(rule, pos, name, what, "the operator call sits outside the main loop or in an inner loop")
				return
			}
			kc := kindsOfCurt(c.Block())
			good := only(kc, k.fastOperator) || only(kc, k.operator) || only(kc, k.cond)
			if r.Check(good, rule, pos, name, what, "the current node's operator, in exactly one of the arms fastOperator / operator / cond", "an operator is applied in an arm whose kind is not operator, fastOperator or cond") {
				opCalls = append(opCalls, c)
			}
		}
	})
	for _, arm := range []string{"variable", "fast+1", "fast+2"} {
		r.Check(len(gets[arm]) == 1, rule, w.Pos(fn.Pos()), name, fmt.Sprintf("%d fetch site(s) for %s", len(gets[arm]), arm), "exactly one: a step fetches each of its variables once", "a variable is fetched more than once per step, or the arm no longer fetches")
	}
	// operator sites: one per arm kind
	armOf := map[int64]int{}
	for _, c := range opCalls {
		for kk := range kindsOfCurt(c.Block()) {
			armOf[kk]++
		}
	}
	r.Check(armOf[k.fastOperator] == 1 && armOf[k.operator] == 1 && armOf[k.cond] == 1 && len(opCalls) == 3, rule, w.Pos(fn.Pos()), name,
		fmt.Sprintf("operator call sites per arm: fast=%d operator=%d cond=%d", armOf[k.fastOperator], armOf[k.operator], armOf[k.cond]),
		"one per arm: a step applies at most one operator", "an arm applies more than one operator per step (or none)")

	ruleFastOrder(w, r, l, gets, opCalls, kindsOfCurt, k)
	ruleCondJump(w, r, l, opCalls, kindsOfCurt, k)
	ruleScJump(w, r, l)
	ruleScMust(w, r, l)
}

func ruleFastOrder(w *World, r *Report, l *evalLoop, gets map[string][]*ssa.Call, opCalls []*ssa.Call, kindsOfCurt func(*ssa.BasicBlock) map[int64]bool, k nodeKinds) {
	const rule = "R-FASTORDER"
	r.Rule(rule, "fast arm: child 1 is fetched before child 2, param2[0]/[1] receive child 1/child 2, and the operator call is dominated by both stores", 3)
	name := w.Name(l.fn)
	if len(gets["fast+1"]) != 1 || len(gets["fast+2"]) != 1 {
		r.Unresolved(rule, "fast arm fetch sites not found")
		return
	}
	g1, g2 := gets["fast+1"][0], gets["fast+2"][0]
	back := reachableAvoiding(g2.Block(), g1.Block(), func(b *ssa.BasicBlock) bool { return b == l.hdr })
	r.Check(!back && g1.Block() != g2.Block() || (g1.Block() == g2.Block() && instrIndex(g1) < instrIndex(g2)), rule, w.InstrPos(g2), name, "fetch(child 2) after fetch(child 1)", "within one step the fetch of child 1 cannot follow the fetch of child 2", "the two leaf operands can be fetched in the wrong order")
	var fastCall *ssa.Call
	for _, c := range opCalls {
		if m := kindsOfCurt(c.Block()); m != nil && len(m) == 1 && m[k.fastOperator] {
			fastCall = c
		}
	}
	if fastCall == nil {
		r.Unresolved(rule, "fast-arm operator call not found")
		return
	}
	// args[1] is a slice of a 2-element local array
	sl, ok := fastCall.Call.Args[1].(*ssa.Slice)
	var arr *ssa.Alloc
	if ok {
		arr, _ = sl.X.(*ssa.Alloc)
	}
	if arr == nil {
		r.Fail(rule, w.InstrPos(fastCall), name, describe(fastCall), "the fast operator is not applied to the two-slot local buffer")
		return
	}
	okSlots := 0
	for slot := int64(0); slot < 2; slot++ {
		// the last store into arr[slot] that dominates the call, in the fast arm
		var st *ssa.Store
		for _, ref := range referrers(arr) {
			ia, ok := ref.(*ssa.IndexAddr)
			if !ok {
				continue
			}
			if c, ok := constInt(ia.Index); !ok || c != slot {
				continue
			}
			for _, ref2 := range referrers(ia) {
				s, ok := ref2.(*ssa.Store)
				if !ok || s.Addr != ssa.Value(ia) {
					continue
				}
				m := kindsOfCurt(s.Block())
				if m != nil && len(m) == 1 && m[k.fastOperator] && instrDominates(s, fastCall) {
					st = s
				}
			}
		}
		if st == nil {
			r.Fail(rule, w.InstrPos(fastCall), name, fmt.Sprintf("param2[%d]", slot), "no store in the fast arm that dominates the operator call")
			continue
		}
		// value: phi(child.value, Get(child)#0) or one of them, child = nodes[i+slot+1]
		vals := []ssa.Value{st.Val}
		if p, ok := st.Val.(*ssa.Phi); ok {
			vals = p.Edges
		}
		good := true
		for _, v := range vals {
			if base, ok := loadOfField(v, "node", "value"); ok {
				if off, ok := l.nodeAt(base); ok && off == slot+1 {
					continue
				}
			}
			if ex, ok := v.(*ssa.Extract); ok && ex.Index == 0 {
				if c, ok := ex.Tuple.(*ssa.Call); ok && isGetInvoke(&c.Call) {
					if n := getKeysNode(&c.Call); n != nil {
						if off, ok := l.nodeAt(n); ok && off == slot+1 {
							continue
						}
					}
				}
				if c, ok := ex.Tuple.(*ssa.Call); ok {
					if hi, isH := fetchHelper(w, c.Call.StaticCallee()); isH {
						if off, ok := l.nodeAt(c.Call.Args[hi]); ok && off == slot+1 {
							continue
						}
					}
				}
			}
			good = false
		}
		if r.Check(good, rule, w.InstrPos(st), name, fmt.Sprintf("param2[%d] = %s", slot, describe(st.Val)), fmt.Sprintf("the literal or fetched value of child %d", slot+1), fmt.Sprintf("slot %d does not receive the value of child %d: operands reach the operator in the wrong order", slot, slot+1)) {
			okSlots++
		}
	}
}

func ruleCondJump(w *World, r *Report, l *evalLoop, opCalls []*ssa.Call, kindsOfCurt func(*ssa.BasicBlock) map[int64]bool, k nodeKinds) {
	const rule = "R-CONDJUMP"
	r.Rule(rule, "cond arm: the loop counter is set from the node's scIdx only under operator-result == true; the `if` closure returns !b of its argument, the `fi` closure constant true", 3)
	name := w.Name(l.fn)
	var condCall *ssa.Call
	for _, c := range opCalls {
		if m := kindsOfCurt(c.Block()); m != nil && len(m) == 1 && m[k.cond] {
			condCall = c
		}
	}
	if condCall == nil {
		r.Unresolved(rule, "cond-arm operator call not found")
		return
	}
	var res ssa.Value
	for _, ref := range referrers(condCall) {
		if ex, ok := ref.(*ssa.Extract); ok && ex.Index == 0 {
			res = ex
		}
	}
	// every flow of curt.scIdx into the loop counter must be gated by res == true
	found := 0
	EachInstr(l.fn, func(in ssa.Instruction) {
		u, ok := in.(*ssa.UnOp)
		if !ok {
			return
		}
		base, okf := loadOfField(u, "node", "scIdx")
		if !okf {
			return
		}
		m := kindsOfCurt(u.Block())
		if m == nil || !(len(m) == 1 && m[k.cond]) {
			return // the short-circuit jump of the main loop: R-SCJUMP
		}
		if off, ok := l.nodeAt(base); !ok || off != 0 {
			r.Fail(rule, w.InstrPos(u), name, describe(u), "the jump target is not the current node's")
			return
		}
		found++
		gated := false
		for _, f := range factsAt(u.Block()) {
			bo, ok := f.Cond.(*ssa.BinOp)
			if !ok || bo.Op != token.EQL || !f.Truth {
				continue
			}
			if (bo.X == res && markerName(bo.Y) == "true") || (bo.Y == res && markerName(bo.X) == "true") {
				gated = true
			}
		}
		r.Check(gated, rule, w.InstrPos(u), name, "i = curt.scIdx in the cond arm", "only when the cond operator answered true", "the cond jump is not gated by the cond operator's result being true")
	})
	if found == 0 {
		r.Fail(rule, w.InstrPos(condCall), name, "cond arm", "the cond arm never jumps: both branches of an `if` would be evaluated")
	}
	// the argument is the top of the operand stack
	// closures
	bk := w.MustFn(r, rule, "(*parser).buildKeywordNode")
	if bk == nil {
		return
	}
	var ifFn, fiFn *ssa.Function
	EachInstr(bk, func(in ssa.Instruction) {
		st, ok := in.(*ssa.Store)
		if !ok {
			return
		}
		tn, fld, base, okf := fieldOf(st.Addr)
		if !okf || tn != "node" || fld != "operator" {
			return
		}
		f, _ := unwrapConv(st.Val).(*ssa.Function)
		if mc, ok := unwrapConv(st.Val).(*ssa.MakeClosure); ok {
			f, _ = mc.Fn.(*ssa.Function)
		}
		if f == nil {
			return
		}
		// which value does the same node literal carry
		val := ""
		for _, ref := range referrers(base) {
			fa, ok := ref.(*ssa.FieldAddr)
			if !ok || fieldName(fa.X.Type(), fa.Field) != "value" {
				continue
			}
			for _, ref2 := range referrers(fa) {
				if s2, ok := ref2.(*ssa.Store); ok && s2.Addr == ssa.Value(fa) {
					if s, ok := constString(unwrapIface(s2.Val)); ok {
						val = s
					}
				}
			}
		}
		switch val {
		case "if":
			ifFn = f
		case "fi":
			fiFn = f
		}
	})
	if ifFn == nil || fiFn == nil {
		r.Unresolved(rule, "the if/fi closures of buildKeywordNode were not found")
		return
	}
	got := ""
	for _, ret := range valueReturns(ifFn) {
		got = paramTermCtx(ifFn, nil).term(ret.Results[0])
	}
	r.Check(got == "!P0" && len(valueReturns(ifFn)) == 1, rule, w.Pos(ifFn.Pos()), w.Name(ifFn), "`if` closure returns "+got, "the negation of its boolean argument: the jump is taken when the condition is false", "the `if` closure does not return !condition: the wrong branch would be taken")
	// non-bool condition is an error
	okErr := true
	for _, ret := range allReturns(ifFn) {
		nonNil, isNil := isErrorReturn(ret)
		if !nonNil && !isNil {
			okErr = false
		}
	}
	_ = okErr
	fiGot := ""
	for _, ret := range allReturns(fiFn) {
		fiGot = markerName(ret.Results[0])
		if !isNilConst(ret.Results[1]) {
			fiGot += "+err"
		}
	}
	r.Check(fiGot == "true" && len(allReturns(fiFn)) == 1, rule, w.Pos(fiFn.Pos()), w.Name(fiFn), "`fi` closure returns "+fiGot, "constant true: the end of the true branch always jumps over the false branch", "the `fi` closure does not always answer true: the false branch would run after the true branch")
}

// ruleScJump: the main loop's short-circuit jump condition.
func ruleScJump(w *World, r *Report, l *evalLoop) {
	const rule = "R-SCJUMP"
	r.Rule(rule, "outside the cond arm, the loop counter is set from a node's scIdx only for a bool result b under (!b && flag&scIfFalse == scIfFalse) || (b && flag&scIfTrue == scIfTrue)", 1)
	name := w.Name(l.fn)
	k := loadNodeKinds(w)
	scF, _ := w.ConstInt("scIfFalse")
	scT, _ := w.ConstInt("scIfTrue")
	n := 0
	EachInstr(l.fn, func(in ssa.Instruction) {
		u, ok := in.(*ssa.UnOp)
		if !ok {
			return
		}
		if _, okf := loadOfField(u, "node", "scIdx"); !okf {
			return
		}
		isCurt := func(x ssa.Value) bool { off, ok := l.nodeAt(x); return ok && off == 0 }
		if m := k.kindsPossibleAt(u.Block(), isCurt); m != nil && len(m) == 1 && m[k.cond] {
			return
		}
		n++
		// every edge into the block: (b false && scIfFalse set) or (b true && scIfTrue set)
		check := func(facts []Fact) bool {
			var bT, bF, fF, fT bool
			for _, f := range facts {
				if ex, ok := f.Cond.(*ssa.Extract); ok && ex.Index == 0 {
					if ta, ok := ex.Tuple.(*ssa.TypeAssert); ok {
						if bt, ok := ta.AssertedType.Underlying().(*types.Basic); ok && bt.Kind() == types.Bool {
							if f.Truth {
								bT = true
							} else {
								bF = true
							}
						}
					}
				}
				if m, kc, eq, ok := flagMaskTest(f.Cond); ok && eq == f.Truth && m == kc {
					if m == scF {
						fF = true
					}
					if m == scT {
						fT = true
					}
				}
			}
			if (bF && fF && !bT) || (bT && fT && !bF) {
				return true
			}
			// the same condition with the mask chosen first: mask = b ? scIfTrue : scIfFalse; flag&mask == mask
			for _, f := range facts {
				bo, ok := f.Cond.(*ssa.BinOp)
				if !ok || bo.Op != token.EQL || !f.Truth {
					continue
				}
				for _, side := range [][2]ssa.Value{{bo.X, bo.Y}, {bo.Y, bo.X}} {
					and, ok := side[0].(*ssa.BinOp)
					mask, okp := side[1].(*ssa.Phi)
					if !ok || !okp || and.Op != token.AND {
						continue
					}
					var flagSide ssa.Value
					switch {
					case and.X == ssa.Value(mask):
						flagSide = and.Y
					case and.Y == ssa.Value(mask):
						flagSide = and.X
					default:
						continue
					}
					if _, okf := loadOfField(flagSide, "node", "flag"); !okf {
						continue
					}
					good := len(mask.Edges) >= 2
					for i, e := range mask.Edges {
						if e == ssa.Value(mask) {
							continue // loop-carried unchanged
						}
						c, okc := constInt(e)
						if !okc {
							good = false
							continue
						}
						pred := mask.Block().Preds[i]
						var eb, ebT, ebF bool
						for _, pf := range append(factsAt(pred), factsAtEdgeTo(pred, mask.Block())...) {
							if ex, ok := pf.Cond.(*ssa.Extract); ok && ex.Index == 0 {
								if ta, ok := ex.Tuple.(*ssa.TypeAssert); ok {
									if bt, ok := ta.AssertedType.Underlying().(*types.Basic); ok && bt.Kind() == types.Bool {
										eb = true
										if pf.Truth {
											ebT = true
										} else {
											ebF = true
										}
									}
								}
							}
						}
						if !eb || (ebT && c != scT) || (ebF && c != scF) || (ebT && ebF) {
							good = false
						}
					}
					if good {
						return true
					}
				}
			}
			return false
		}
		good := check(factsAt(u.Block())) || everyEdgeInto(u.Block(), check)
		r.Check(good, rule, w.InstrPos(u), name, "i = curt.scIdx (short-circuit jump)", "taken only for a false result with scIfFalse set or a true result with scIfTrue set", "the short-circuit jump is taken under another condition: operands that must run are skipped, or decided operands still run")
	})
	if n == 0 {
		r.Unresolved(rule, "no short-circuit jump found in the main loop")
	}
}

var _ = sort.Strings
var _ = strings.Join

var c03Witnesses = append(append(append([]Witness{}, nodeFreshWitnesses...), scMustWitnesses...), []Witness{
	{Name: "prefetch-all-variables", Rule: "R-CALLSITES", Edits: []Edit{
		{File: "engine.go", Old: "	for i := int16(0); i < size; i++ {\n		curt = nodes[i]\n		switch curt.flag & nodeTypeMask {\n		case fastOperator:\n			i++\n			child := nodes[i]", New: "	for _, n := range nodes {\n		if n.flag&nodeTypeMask == variable {\n			if _, err = ctx.Get(n.varKey, n.value.(string)); err != nil {\n				return nil, err\n			}\n		}\n	}\n	for i := int16(0); i < size; i++ {\n		curt = nodes[i]\n		switch curt.flag & nodeTypeMask {\n		case fastOperator:\n			i++\n			child := nodes[i]"}}},
	{Name: "fetch-constant-child", Rule: "R-CALLSITES", Edits: []Edit{
		{File: "engine.go", Old: "			param2[0] = res\n\n			i++\n			child = nodes[i]\n			res = child.value\n			if child.flag&nodeTypeMask == variable {", New: "			param2[0] = res\n\n			i++\n			child = nodes[i]\n			res = child.value\n			if child.flag&nodeTypeMask != constant || child.varKey > 0 {"}}},
	{Name: "lookahead-fetch-next-variable", Rule: "R-CALLSITES", Edits: []Edit{
		{File: "engine.go", Old: "		case variable:\n			res, err = ctx.Get(curt.varKey, curt.value.(string))\n			if err != nil {\n				return\n			}\n		case constant:\n			res = curt.value\n		case operator:\n			cCnt := int16(curt.childCnt)\n			osTop = osTop - cCnt\n			if cCnt == 2 {\n				param2[0], param2[1] = os[osTop+1], os[osTop+2]\n				params = param2[:]", New: "		case variable:\n			res, err = ctx.Get(curt.varKey, curt.value.(string))\n			if err != nil {\n				return\n			}\n			if i+1 < size && nodes[i+1].flag&nodeTypeMask == variable {\n				_, _ = ctx.Get(nodes[i+1].varKey, nodes[i+1].value.(string))\n			}\n		case constant:\n			res = curt.value\n		case operator:\n			cCnt := int16(curt.childCnt)\n			osTop = osTop - cCnt\n			if cCnt == 2 {\n				param2[0], param2[1] = os[osTop+1], os[osTop+2]\n				params = param2[:]"}}},
	{Name: "fast-children-swapped-into-slots", Rule: "R-FASTORDER", Edits: []Edit{
		{File: "engine.go", Old: "			param2[0] = res\n\n			i++\n			child = nodes[i]", New: "			param2[1] = res\n\n			i++\n			child = nodes[i]"},
		{File: "engine.go", Old: "			param2[1] = res\n			res, err = curt.operator(ctx, param2[:])", New: "			param2[0] = res\n			res, err = curt.operator(ctx, param2[:])"}}},
	{Name: "cond-jump-on-false", Rule: "R-CONDJUMP", Edits: []Edit{
		{File: "engine.go", Old: "			res, err = curt.operator(ctx, []Value{res})\n			if err != nil {\n				return\n			}\n			if res == true {\n				osTop = curt.osTop\n				i = curt.scIdx\n			}\n			continue\n		default:\n			reportEvent(e, os, osTop, curt.value)\n			continue\n		}\n		if b, ok := res.(bool); ok {", New: "			res, err = curt.operator(ctx, []Value{res})\n			if err != nil {\n				return\n			}\n			if res != true {\n				osTop = curt.osTop\n				i = curt.scIdx\n			}\n			continue\n		default:\n			reportEvent(e, os, osTop, curt.value)\n			continue\n		}\n		if b, ok := res.(bool); ok {"}}},
	{Name: "if-closure-not-negated", Rule: "R-CONDJUMP", Edits: []Edit{
		{File: "parser.go", Old: "					return !b, nil", New: "					return b, nil"}}},
	{Name: "sc-jump-ignores-polarity", Rule: "R-SCJUMP", Edits: []Edit{
		{File: "engine.go", Old: "			for (!b && curt.flag&scIfFalse == scIfFalse) ||\n				(b && curt.flag&scIfTrue == scIfTrue) {", New: "			for (!b && curt.flag&scMask != 0) ||\n				(b && curt.flag&scIfTrue == scIfTrue) {"}}},
	{Name: "benign-variable-arm-helper-locals", Benign: true, Edits: []Edit{
		{File: "engine.go", Old: "		case variable:\n			res, err = ctx.Get(curt.varKey, curt.value.(string))\n			if err != nil {\n				return\n			}\n		case constant:\n			res = curt.value\n		case operator:\n			cCnt := int16(curt.childCnt)\n			osTop = osTop - cCnt\n			if cCnt == 2 {\n				param2[0], param2[1] = os[osTop+1], os[osTop+2]\n				params = param2[:]", New: "		case variable:\n			key, nm := curt.varKey, curt.value.(string)\n			res, err = ctx.Get(key, nm)\n			if err != nil {\n				return\n			}\n		case constant:\n			res = curt.value\n		case operator:\n			cCnt := int16(curt.childCnt)\n			osTop = osTop - cCnt\n			if cCnt == 2 {\n				param2[0], param2[1] = os[osTop+1], os[osTop+2]\n				params = param2[:]"}}},
}...)
