package main

// Helpers for rules over the built-in operator implementations.

import (
	"go/token"
	"go/types"
	"sort"

	"golang.org/x/tools/go/ssa"
)

// builtinOpFuncs returns the SSA functions that implement built-in operators
// (values of the builtinOperators table), keyed by name, with the table.
func builtinOpFuncs(w *World) (map[*ssa.Function][]*OpImpl, []*OpImpl, error) {
	table, err := w.OperatorTable("builtinOperators")
	if err != nil {
		return nil, nil, err
	}
	out := map[*ssa.Function][]*OpImpl{}
	for _, impl := range table {
		if impl.Func == nil {
			continue
		}
		fn := w.Prog.FuncValue(impl.Func)
		if fn == nil || !w.InPkg(fn) {
			continue
		}
		out[fn] = append(out[fn], impl)
	}
	return out, table, nil
}

// paramsParam finds the []Value parameter of an operator implementation.
func paramsParam(fn *ssa.Function) *ssa.Parameter {
	for _, p := range fn.Params {
		if sl, ok := p.Type().Underlying().(*types.Slice); ok {
			if typeNameOf(sl.Elem()) == "Value" {
				return p
			}
		}
	}
	return nil
}

// paramIndex matches a load of params[k] with constant k, or the element
// address &params[k].
func paramIndex(v ssa.Value, params ssa.Value) (int64, bool) {
	addr := v
	if a, ok := isLoad(v); ok {
		addr = a
	}
	ia, ok := addr.(*ssa.IndexAddr)
	if !ok || ia.X != params {
		return 0, false
	}
	return constInt(ia.Index)
}

// rangeElemOf matches a load of params[i] where i is the index of go/ssa's
// lowering of `for i, p := range params` and returns the loop header block.
func rangeElemOf(v ssa.Value, params ssa.Value) (*ssa.BasicBlock, ssa.Value, bool) {
	addr := v
	if a, ok := isLoad(v); ok {
		addr = a
	}
	ia, ok := addr.(*ssa.IndexAddr)
	if !ok || ia.X != params {
		return nil, nil, false
	}
	hdr, ok := rangeIndexHeader(ia.Index, params)
	return hdr, ia.Index, ok
}

// rangeIndexHeader recognises idx = phi(-1, idx) + 1 guarded by idx < len(X)
// and returns the loop header block (whose false edge is the loop exit).
func rangeIndexHeader(idx ssa.Value, X ssa.Value) (*ssa.BasicBlock, bool) {
	// the same loop written with an explicit counter: for i := 0; i < len(X); i++ { … X[i] … }
	if p, ok := idx.(*ssa.Phi); ok {
		zero, step := false, false
		for _, e := range p.Edges {
			if c, okc := constInt(e); okc {
				if c != 0 {
					return nil, false
				}
				zero = true
			} else if bo, okb := e.(*ssa.BinOp); okb && bo.Op == token.ADD && bo.X == ssa.Value(p) {
				if one, ok1 := constInt(bo.Y); !ok1 || one != 1 {
					return nil, false
				}
				step = true
			} else {
				return nil, false
			}
		}
		hdr := p.Block()
		if !zero || !step || len(hdr.Instrs) == 0 {
			return nil, false
		}
		iff, okIf := hdr.Instrs[len(hdr.Instrs)-1].(*ssa.If)
		if !okIf {
			return nil, false
		}
		cmp, okc := iff.Cond.(*ssa.BinOp)
		if !okc || cmp.Op != token.LSS || cmp.X != ssa.Value(p) || !isLenOf(cmp.Y, X) {
			return nil, false
		}
		return hdr, true
	}
	inc, ok := idx.(*ssa.BinOp)
	if !ok || inc.Op != token.ADD {
		return nil, false
	}
	phi, ok := inc.X.(*ssa.Phi)
	if !ok {
		return nil, false
	}
	if one, ok := constInt(inc.Y); !ok || one != 1 {
		return nil, false
	}
	init := false
	for _, e := range phi.Edges {
		if c, ok := constInt(e); ok {
			if c != -1 {
				return nil, false
			}
			init = true
		} else if e != inc {
			return nil, false
		}
	}
	if !init {
		return nil, false
	}
	hdr := inc.Block()
	iff, ok := hdr.Instrs[len(hdr.Instrs)-1].(*ssa.If)
	if !ok {
		return nil, false
	}
	cmp, ok := iff.Cond.(*ssa.BinOp)
	if !ok || cmp.Op != token.LSS || cmp.X != inc {
		return nil, false
	}
	if !isLenOf(cmp.Y, X) {
		return nil, false
	}
	return hdr, true
}

// isLenOf matches len(X) (builtin call) for the given value X.
func isLenOf(v ssa.Value, X ssa.Value) bool {
	c, ok := v.(*ssa.Call)
	if !ok {
		return false
	}
	b, ok := c.Call.Value.(*ssa.Builtin)
	if !ok || nm(b) != "len" || len(c.Call.Args) != 1 {
		return false
	}
	if c.Call.Args[0] == X || sameValueShape(c.Call.Args[0], X) {
		return true
	}
	// len(S) for S = make([]T, len(X)): the same number by construction
	if ms, isMake := c.Call.Args[0].(*ssa.MakeSlice); isMake {
		return isLenOf(ms.Len, X)
	}
	return false
}

// lenArg matches len(x) and returns x.
func lenArg(v ssa.Value) (ssa.Value, bool) {
	c, ok := v.(*ssa.Call)
	if !ok {
		return nil, false
	}
	b, ok := c.Call.Value.(*ssa.Builtin)
	if !ok || nm(b) != "len" || len(c.Call.Args) != 1 {
		return nil, false
	}
	return c.Call.Args[0], true
}

// recvFieldConstFacts returns the constants K for which "recv.<field> == K"
// is known true on entry to the block (switch over the receiver's mode).
func recvFieldConstFacts(b *ssa.BasicBlock, field string) []int64 {
	var out []int64
	for _, f := range factsAt(b) {
		if k, ok := recvFieldEq(f, field); ok {
			out = append(out, k)
		}
	}
	sort.Slice(out, func(i, j int) bool { return out[i] < out[j] })
	return out
}

func recvFieldEq(f Fact, field string) (int64, bool) {
	bo, ok := f.Cond.(*ssa.BinOp)
	if !ok {
		return 0, false
	}
	if !((bo.Op == token.EQL && f.Truth) || (bo.Op == token.NEQ && !f.Truth)) {
		return 0, false
	}
	x, y := bo.X, bo.Y
	if _, isC := x.(*ssa.Const); isC {
		x, y = y, x
	}
	k, ok := constInt(y)
	if !ok {
		return 0, false
	}
	if !isRecvField(x, field) {
		return 0, false
	}
	return k, true
}

// isRecvField matches a read of the receiver's field (receiver is parameter 0,
// possibly spilled to a local by go/ssa).
func isRecvField(v ssa.Value, field string) bool {
	fn := v.Parent()
	if fn == nil || fn.Signature.Recv() == nil || len(fn.Params) == 0 {
		return false
	}
	recv := fn.Params[0]
	switch x := v.(type) {
	case *ssa.Field:
		return x.X == recv && fieldName(x.X.Type(), x.Field) == field
	case *ssa.UnOp:
		if x.Op != token.MUL {
			return false
		}
		fa, ok := x.X.(*ssa.FieldAddr)
		if !ok || fieldName(fa.X.Type(), fa.Field) != field {
			return false
		}
		if fa.X == recv {
			return true
		}
		// spilled value receiver: local alloc that receives exactly `*t0 = recv`
		if al, ok := fa.X.(*ssa.Alloc); ok {
			stores := 0
			fromRecv := false
			for _, ref := range referrers(al) {
				if st, ok := ref.(*ssa.Store); ok && st.Addr == al {
					stores++
					if st.Val == recv {
						fromRecv = true
					}
				}
			}
			return stores == 1 && fromRecv
		}
	}
	return false
}

// isErrorReturn reports whether a Return certainly carries a non-nil error in
// its last result: the result is the value of a call (error constructors) or
// a non-nil, non-phi value of interface type error.
func isErrorReturn(ret *ssa.Return) (nonNil bool, isNil bool) {
	if len(ret.Results) == 0 {
		return false, false
	}
	last := ret.Results[len(ret.Results)-1]
	if !types.Identical(last.Type(), types.Universe.Lookup("error").Type()) {
		return false, false
	}
	if isNilConst(last) {
		return false, true
	}
	switch x := last.(type) {
	case *ssa.Call:
		return errorCallNonNil(x), false
	case *ssa.MakeInterface:
		return true, false
	}
	return false, false
}

// errorCallNonNil: calls that construct errors (errors.New, fmt.Errorf, and
// package functions all of whose returns are non-nil errors).
func errorCallNonNil(c *ssa.Call) bool {
	name := calleeFullName(&c.Call)
	switch name {
	case "errors.New", "fmt.Errorf":
		return true
	}
	callee := c.Call.StaticCallee()
	if callee == nil || len(callee.Blocks) == 0 {
		return false
	}
	return funcAlwaysNonNilError(callee, 0)
}

func funcAlwaysNonNilError(fn *ssa.Function, depth int) bool {
	if depth > 4 {
		return false
	}
	rets := allReturns(fn)
	if len(rets) == 0 {
		return false
	}
	for _, r := range rets {
		if len(r.Results) == 0 {
			return false
		}
		last := r.Results[len(r.Results)-1]
		switch x := last.(type) {
		case *ssa.Call:
			name := calleeFullName(&x.Call)
			if name == "errors.New" || name == "fmt.Errorf" {
				continue
			}
			callee := x.Call.StaticCallee()
			if callee == nil || len(callee.Blocks) == 0 || !funcAlwaysNonNilError(callee, depth+1) {
				return false
			}
		case *ssa.MakeInterface:
			continue
		default:
			return false
		}
	}
	return true
}
