package main

// Shape rules for the compile-time tables the evaluator relies on:
//
//	R-STACKREC  calAndSetStackSize: the stack-height recurrence and its per-kind deltas
//	R-SCFLAGS   calAndSetShortCircuit: which nodes get short-circuit flags/targets, gated only
//	            by what the semantics allows (the parent, the position), never by the node's own kind
//	R-KWTYPE    comparisons of node.value with keyword markers use the dynamic type that is stored
//
// They decide the shape of the computation (which predecessor, which delta, which
// gate), not the numeric contents of the tables for every program.

import (
	"fmt"
	"go/token"
	"go/types"
	"sort"
	"strings"

	"golang.org/x/tools/go/ssa"
)

// kindsFromFacts narrows the possible kinds of the node selected by same.
func (k nodeKinds) kindsFromFacts(facts []Fact, same func(ssa.Value) bool) map[int64]bool {
	possible := map[int64]bool{}
	for v := range k.byValue {
		possible[v] = true
	}
	constrained := false
	for _, f := range facts {
		n, c, isEq, ok := k.kindTest(f.Cond)
		if !ok || !same(n) {
			continue
		}
		constrained = true
		if isEq == f.Truth {
			for v := range possible {
				if v != c {
					delete(possible, v)
				}
			}
		} else {
			delete(possible, c)
		}
	}
	if !constrained {
		return nil
	}
	return possible
}

// kindsUnionAt: kinds possible at b; when b is a shared case body (several
// `case` values, one block) the union over its incoming edges.
func (k nodeKinds) kindsUnionAt(b *ssa.BasicBlock, same func(ssa.Value) bool) map[int64]bool {
	return k.kindsUnionAtD(b, same, 0)
}

func (k nodeKinds) kindsUnionAtD(b *ssa.BasicBlock, same func(ssa.Value) bool, depth int) map[int64]bool {
	dom := k.kindsPossibleAt(b, same)
	if len(b.Preds) == 0 || depth > 4 {
		return dom
	}
	if dom != nil && len(dom) == 1 {
		return dom
	}
	// refine by what each incoming edge knows (a body shared by several `case` values or an a || b || c test)
	union := map[int64]bool{}
	for _, p := range b.Preds {
		for kk, s := range p.Succs {
			if s != b {
				continue
			}
			m := k.kindsFromFacts(factsAtEdge(p, kk), same)
			if m == nil || len(m) >= len(k.byValue)-1 {
				if p != b {
					m = k.kindsUnionAtD(p, same, depth+1)
				}
			}
			if m == nil {
				return dom
			}
			for v := range m {
				union[v] = true
			}
		}
	}
	if dom == nil {
		return union
	}
	out := map[int64]bool{}
	for v := range union {
		if dom[v] {
			out[v] = true
		}
	}
	return out
}

func kindSetNames(k nodeKinds, m map[int64]bool) string {
	var s []string
	for v := range m {
		s = append(s, k.byValue[v])
	}
	sort.Strings(s)
	return "{" + strings.Join(s, ",") + "}"
}

// nodesIndexOf: v is a load of e.nodes[idx] with e a parameter (possibly spilled); returns idx.
func nodesIndexOf(v ssa.Value) (ssa.Value, bool) {
	addr, ok := isLoad(v)
	if !ok {
		return nil, false
	}
	ia, ok := addr.(*ssa.IndexAddr)
	if !ok {
		return nil, false
	}
	if _, ok := loadOfField(ia.X, "Expr", "nodes"); !ok {
		return nil, false
	}
	return ia.Index, true
}

// valueKeywordFact: fact `n.value == <const marker>`; returns n, the constant's (type, text).
func valueKeywordFact(c ssa.Value) (n ssa.Value, typ, text string, ok bool) {
	bo, okb := c.(*ssa.BinOp)
	if !okb || (bo.Op != token.EQL && bo.Op != token.NEQ) {
		return nil, "", "", false
	}
	x, y := bo.X, bo.Y
	if _, isMI := x.(*ssa.MakeInterface); isMI {
		x, y = y, x
	}
	base, okf := loadOfField(x, "node", "value")
	if !okf {
		return nil, "", "", false
	}
	mi, okm := y.(*ssa.MakeInterface)
	if !okm {
		return nil, "", "", false
	}
	s, oks := constString(mi.X)
	if !oks {
		return nil, "", "", false
	}
	return base, types.TypeString(mi.X.Type(), relTo), s, true
}

func ruleStackRec(w *World, r *Report) {
	const rule = "R-STACKREC"
	r.Rule(rule, "calAndSetStackSize: f[i] = f[pred] + delta(kind) with one and the same predecessor index in every arm (i-1, or the `if` node when i-1 is a `fi`), delta = +1 for leaves and fast operators, 1-childCnt for operators, -1 for `if`, 0 for `fi`; inlined children of a fast operator inherit f[i-1]; every node's osTop is f[i]-1", 7)
	fn := w.MustFn(r, rule, "calAndSetStackSize")
	if fn == nil {
		return
	}
	name := w.Name(fn)
	k := loadNodeKinds(w)
	var f *ssa.MakeSlice
	EachInstr(fn, func(in ssa.Instruction) {
		if ms, ok := in.(*ssa.MakeSlice); ok && f == nil {
			f = ms
		}
	})
	if f == nil {
		r.Unresolved(rule, "the height table (make []int16) of calAndSetStackSize was not found")
		return
	}
	kwIf, _ := constStringNamed(w, "keywordIf")
	type rec struct {
		st    *ssa.Store
		i     ssa.Value
		form  linForm
		idx   ssa.Value
		kinds map[int64]bool
	}
	var recs []rec
	idxByAtom := map[string]ssa.Value{}
	EachInstr(fn, func(in ssa.Instruction) {
		st, ok := in.(*ssa.Store)
		if !ok {
			return
		}
		ia, ok := st.Addr.(*ssa.IndexAddr)
		if !ok || ia.X != ssa.Value(f) {
			return
		}
		if _, isPhi := ia.Index.(*ssa.Phi); !isPhi {
			return // f[0] = 1
		}
		i := ia.Index
		isNodeI := func(n ssa.Value) bool {
			idx, ok := nodesIndexOf(n)
			return ok && idx == i
		}
		leaf := func(v ssa.Value) string {
			if addr, ok := isLoad(v); ok {
				if a2, ok := addr.(*ssa.IndexAddr); ok && a2.X == ssa.Value(f) {
					nm := "F@" + a2.Index.Name()
					idxByAtom[nm] = a2.Index
					return nm
				}
			}
			if base, ok := loadOfField(v, "node", "childCnt"); ok && isNodeI(base) {
				return "C"
			}
			return ""
		}
		form, okl := linearise(st.Val, leaf, 0)
		if !okl {
			r.Fail(rule, w.InstrPos(st), name, "f[i] = "+describe(st.Val), "the stored height is not f[pred] plus a delta of constants and childCnt")
			return
		}
		var idx ssa.Value
		nF := 0
		for a, c := range form.coef {
			if strings.HasPrefix(a, "F@") && c != 0 {
				nF++
				if c == 1 {
					idx = idxByAtom[a]
				}
			}
		}
		if nF != 1 || idx == nil {
			r.Fail(rule, w.InstrPos(st), name, "f[i] = "+form.String(), "the stored height does not build on exactly one earlier height")
			return
		}
		recs = append(recs, rec{st: st, i: i, form: form, idx: idx, kinds: k.kindsUnionAt(st.Block(), isNodeI)})
	})
	if len(recs) == 0 {
		r.Unresolved(rule, "no recurrence store f[i] = ... found")
		return
	}
	delta := func(form linForm) string {
		d := linForm{coef: map[string]int64{}, k: form.k}
		for a, c := range form.coef {
			if !strings.HasPrefix(a, "F@") {
				d.coef[a] = c
			}
		}
		return d.String()
	}
	var adjusted ssa.Value
	covered := map[int64]bool{}
	for _, rc := range recs {
		iLeaf := func(v ssa.Value) string {
			if v == rc.i {
				return "I"
			}
			return ""
		}
		pos := w.InstrPos(rc.st)
		d := delta(rc.form)
		if rc.kinds == nil {
			// the inlined children of a fast operator: parent kind == fastOperator
			par := false
			for _, fc := range factsAt(rc.st.Block()) {
				n, c, isEq, ok := k.kindTest(fc.Cond)
				if !ok || c != k.fastOperator || isEq != fc.Truth {
					continue
				}
				if ex, ok := n.(*ssa.Extract); ok && ex.Index == 0 {
					if call, ok := ex.Tuple.(*ssa.Call); ok && call.Call.StaticCallee() != nil && nm(call.Call.StaticCallee()) == "parentNode" && call.Call.Args[1] == rc.i {
						par = true
					}
				}
			}
			lf, okl := linearise(rc.idx, iLeaf, 0)
			good := par && okl && lf.equal(mkLin("I", 1, "", -1)) && d == "+0"
			r.Check(good, rule, pos, name, fmt.Sprintf("f[i] = f[%s] %s when the node's kind is not examined", describe(rc.idx), d), "only for the inlined operands of a fast operator (parent kind == fastOperator): they inherit f[i-1], the evaluator never pushes them", "a height is assigned without looking at the node's kind outside the fast-operator allowance")
			continue
		}
		if adjusted == nil {
			adjusted = rc.idx
		}
		same := rc.idx == adjusted
		r.Check(same, rule, pos, name, fmt.Sprintf("kinds %s build on f[%s]", kindSetNames(k, rc.kinds), describe(rc.idx)), "every arm builds on the same predecessor index", "the arms of the recurrence build on different predecessors: after a `fi` one kind continues from the true branch's height instead of the `if` node's (e.g. an operator with no operands as false branch)")
		want := ""
		onlyKinds := func(ks ...int64) bool {
			if len(rc.kinds) == 0 {
				return false
			}
			al := map[int64]bool{}
			for _, x := range ks {
				al[x] = true
			}
			for x := range rc.kinds {
				if !al[x] {
					return false
				}
			}
			return true
		}
		label := kindSetNames(k, rc.kinds)
		switch {
		case onlyKinds(k.constant, k.variable, k.fastOperator):
			want = "+1"
		case onlyKinds(k.operator):
			want = mkLin("C", -1, "", 1).String()
		case onlyKinds(k.cond):
			isIf, known := false, false
			for _, fc := range factsAt(rc.st.Block()) {
				n, _, text, ok := valueKeywordFact(fc.Cond)
				if !ok {
					continue
				}
				if idx, okn := nodesIndexOf(n); !okn || idx != rc.i {
					continue
				}
				bo := fc.Cond.(*ssa.BinOp)
				eq := (bo.Op == token.EQL) == fc.Truth
				if text == kwIf {
					isIf, known = eq, true
				}
			}
			if !known {
				r.Undecided(rule, pos, name, "cond arm "+d, "which cond node (`if` or `fi`) the store is for could not be determined")
				continue
			}
			if isIf {
				want, label = "-1", "{cond `if`}"
			} else {
				want, label = "+0", "{cond `fi`}"
			}
		default:
			r.Fail(rule, pos, name, fmt.Sprintf("kinds %s get delta %s", label, d), "one store serves kinds with different stack effects")
			continue
		}
		if r.Check(d == want, rule, pos, name, fmt.Sprintf("%s: f[i] = f[pred] %s", label, d), "the evaluator's net stack effect of that kind (push 1; pop childCnt push 1; pop the condition; keep)", fmt.Sprintf("the height delta for %s is %s, the evaluator's stack effect is %s: osTop slots collide or the stack is under-allocated", label, d, want)) {
			for x := range rc.kinds {
				covered[x] = true
			}
		}
	}
	for _, x := range []int64{k.constant, k.variable, k.fastOperator, k.operator, k.cond} {
		r.Check(covered[x], rule, w.Pos(fn.Pos()), name, "kind "+k.byValue[x]+" has a recurrence arm", "every kind that exists at this stage gets a height", "a node kind gets no height: its osTop stays 0-1")
	}
	// the adjusted predecessor
	if adjusted != nil {
		phi, ok := adjusted.(*ssa.Phi)
		good := ok && len(phi.Edges) == 2
		why := ""
		if good {
			var iVal ssa.Value
			for _, rc := range recs {
				iVal = rc.i
			}
			iLeaf := func(v ssa.Value) string {
				if v == iVal {
					return "I"
				}
				return ""
			}
			plain, jump := -1, -1
			for e, v := range phi.Edges {
				if lf, ok := linearise(v, iLeaf, 0); ok && lf.equal(mkLin("I", 1, "", -1)) {
					plain = e
					continue
				}
				if ex, ok := v.(*ssa.Extract); ok && ex.Index == 1 {
					if call, ok := ex.Tuple.(*ssa.Call); ok && call.Call.StaticCallee() != nil && nm(call.Call.StaticCallee()) == "parentNode" {
						if lf, ok := linearise(call.Call.Args[1], iLeaf, 0); ok && lf.equal(mkLin("I", 1, "", -1)) {
							jump = e
						}
					}
				}
			}
			if plain < 0 || jump < 0 {
				good, why = false, "the predecessor is not `i-1, or parent(i-1)`"
			} else {
				// the parent edge is taken exactly when i-1 is a `fi` node
				isFi := false
				for _, fc := range factsAt(phi.Block().Preds[jump]) {
					call, ok := fc.Cond.(*ssa.Call)
					if !ok || !fc.Truth || call.Call.StaticCallee() == nil || len(call.Call.Args) != 2 {
						continue
					}
					if lf, ok := linearise(call.Call.Args[1], iLeaf, 0); !ok || !lf.equal(mkLin("I", 1, "", -1)) {
						continue
					}
					if isEndIfPredicate(k, call.Call.StaticCallee()) {
						isFi = true
					}
				}
				if !isFi {
					good, why = false, "the jump to the parent is not gated by `node i-1 is a cond node with value \"fi\"`"
				}
			}
		} else {
			why = "the predecessor index is not a two-way choice"
		}
		r.Check(good, rule, w.Pos(adjusted.Pos()), name, "pred = i-1, or the `if` node when node i-1 is `fi`", "the false branch starts from the height at the `if`, not from the end of the true branch", "the predecessor adjustment after a `fi` is missing or mis-gated: "+why)
	}
	// osTop = f[j] - 1 for every node
	found := false
	EachInstr(fn, func(in ssa.Instruction) {
		st, ok := in.(*ssa.Store)
		if !ok {
			return
		}
		tn, fld, base, okf := fieldOf(st.Addr)
		if !okf || tn != "node" || fld != "osTop" {
			return
		}
		found = true
		// base = nodes[j] of a loop visiting all nodes, value = f[j] - 1
		addr, okl := isLoad(base)
		var j, ranged ssa.Value
		if okl {
			if ia, ok := addr.(*ssa.IndexAddr); ok {
				j, ranged = ia.Index, ia.X
			}
		}
		leaf := func(v ssa.Value) string {
			if addr, ok := isLoad(v); ok {
				if a2, ok := addr.(*ssa.IndexAddr); ok && a2.X == ssa.Value(f) && (a2.Index == j || sameValueShape(a2.Index, j)) {
					return "Fj"
				}
			}
			return ""
		}
		lf, ok2 := linearise(st.Val, leaf, 0)
		good := j != nil && ok2 && lf.equal(mkLin("Fj", 1, "", -1))
		hdr, isRange := rangeIndexHeader(j, ranged)
		all := isRange && hdr != nil && loopVisitsAll(hdr, st.Block())
		r.Check(good && all, rule, w.InstrPos(st), name, "n.osTop = "+describe(st.Val), "f[j]-1 of the same node j, for every node", "a node's osTop is not its own height minus one, or not every node gets one")
	})
	if !found {
		r.Unresolved(rule, "no store to node.osTop in calAndSetStackSize")
	}
}

// isEndIfPredicate: fn(e, idx) answers true exactly when kind(e.nodes[idx]) == cond && e.nodes[idx].value == "fi",
// written as one expression or with early returns.
func isEndIfPredicate(k nodeKinds, fn *ssa.Function) bool {
	if fn == nil || len(fn.Params) != 2 {
		return false
	}
	isN := func(n ssa.Value) bool {
		idx, ok := nodesIndexOf(n)
		return ok && idx == ssa.Value(fn.Params[1])
	}
	leaf := func(v ssa.Value) string {
		if n, c, isEq, ok := k.kindTest(v); ok && isN(n) && c == k.cond && isEq {
			return "K"
		}
		if n, _, text, ok := valueKeywordFact(v); ok && isN(n) && text == "fi" && v.(*ssa.BinOp).Op == token.EQL {
			return "V"
		}
		return ""
	}
	tc := &termCtx{leaf: leaf}
	var disj []string
	for _, ret := range allReturns(fn) {
		if len(ret.Results) != 1 {
			return false
		}
		v := ret.Results[0]
		if b, ok := constBool(v); ok && !b {
			continue
		}
		conj := map[string]bool{}
		for _, f := range factsAtLocal(ret.Block()) {
			t := tc.term(f.Cond)
			if t != "K" && t != "V" {
				return false
			}
			if !f.Truth {
				return false // a true answer on the negative side of a test is another predicate
			}
			conj[t] = true
		}
		if b, ok := constBool(v); !ok || !b {
			t := tc.term(v)
			parts, okp := splitTop(t, "&&")
			if !okp {
				parts = []string{t}
			}
			for _, p := range parts {
				if p != "K" && p != "V" {
					return false
				}
				conj[p] = true
			}
		}
		if !(conj["K"] && conj["V"]) {
			return false
		}
		disj = append(disj, "K&&V")
	}
	return len(disj) >= 1
}

// ---- R-KWTYPE -------------------------------------------------------------------------

func ruleKwType(w *World, r *Report) {
	const rule = "R-KWTYPE"
	r.Rule(rule, "a comparison of node.value with a constant whose text is one of the marker texts stored as constants in node literals (\"if\", \"fi\") uses the dynamic type the marker is stored with: interface equality is false across types. Comparisons with other texts (operator names held as run-time strings) are not judged", 3)
	stored := map[string]map[string]bool{} // text -> dynamic types
	for _, fn := range w.Funcs {
		EachInstr(fn, func(in ssa.Instruction) {
			st, ok := in.(*ssa.Store)
			if !ok {
				return
			}
			tn, fld, _, okf := fieldOf(st.Addr)
			if !okf || tn != "node" || fld != "value" {
				return
			}
			if mi, ok := st.Val.(*ssa.MakeInterface); ok {
				if s, ok := constString(mi.X); ok {
					if stored[s] == nil {
						stored[s] = map[string]bool{}
					}
					stored[s][types.TypeString(mi.X.Type(), relTo)] = true
				}
			}
		})
	}
	n := 0
	for _, fn := range w.SortedFuncs(funcSet(w.Funcs)) {
		EachInstr(fn, func(in ssa.Instruction) {
			bo, ok := in.(*ssa.BinOp)
			if !ok {
				return
			}
			_, typ, text, okv := valueKeywordFact(bo)
			if !okv || stored[text] == nil {
				return
			}
			n++
			r.Check(stored[text][typ], rule, w.InstrPos(bo), w.Name(fn), fmt.Sprintf("n.value == %s(%q)", typ, text), "the marker is stored with exactly this dynamic type", fmt.Sprintf("the marker %q is stored as %s but compared as %s: the comparison is always false", text, strings.Join(keysOf(stored[text]), "/"), typ))
		})
	}
	if n == 0 {
		r.Unresolved(rule, "no comparison of node.value with a stored marker constant found")
	}
}

func funcSet(fns []*ssa.Function) map[*ssa.Function]bool {
	m := map[*ssa.Function]bool{}
	for _, f := range fns {
		m[f] = true
	}
	return m
}

// ---- R-SCFLAGS ------------------------------------------------------------------------

// mentionsNode: the condition is computed from the node `nodes[i]` itself (its kind, value, fields).
func mentionsNode(v ssa.Value, isNode func(ssa.Value) bool, depth int) bool {
	if v == nil || depth > 8 {
		return false
	}
	if isNode(v) {
		return true
	}
	switch x := v.(type) {
	case *ssa.BinOp:
		return mentionsNode(x.X, isNode, depth+1) || mentionsNode(x.Y, isNode, depth+1)
	case *ssa.UnOp:
		return mentionsNode(x.X, isNode, depth+1)
	case *ssa.FieldAddr:
		return mentionsNode(x.X, isNode, depth+1)
	case *ssa.Field:
		return mentionsNode(x.X, isNode, depth+1)
	case *ssa.Extract:
		return mentionsNode(x.Tuple, isNode, depth+1)
	case *ssa.Convert:
		return mentionsNode(x.X, isNode, depth+1)
	case *ssa.ChangeType:
		return mentionsNode(x.X, isNode, depth+1)
	case *ssa.MakeInterface:
		return mentionsNode(x.X, isNode, depth+1)
	case *ssa.TypeAssert:
		return mentionsNode(x.X, isNode, depth+1)
	case *ssa.Phi:
		for _, e := range x.Edges {
			if mentionsNode(e, isNode, depth+1) {
				return true
			}
		}
	case *ssa.Call:
		for _, a := range x.Call.Args {
			if mentionsNode(a, isNode, depth+1) {
				return true
			}
		}
	}
	return false
}

func ruleScFlags(w *World, r *Report) {
	const rule = "R-SCFLAGS"
	r.Rule(rule, "calAndSetShortCircuit: a node receives its short-circuit flag and jump target whenever its parent is and/or — the gate tests only the parent (exists, is and / is or), never the node's own kind or value; `no jump` (f[i] = i) is assigned only when there is no parent or the parent is neither and nor or; branch inheritance under an `if` is gated by exactly: parent exists, parent is cond, i > pIdx, parent has a target; scIdx is written for every node that is not a cond node", 6)
	fn := w.MustFn(r, rule, "calAndSetShortCircuit")
	if fn == nil {
		return
	}
	name := w.Name(fn)
	k := loadNodeKinds(w)
	var f *ssa.MakeSlice
	EachInstr(fn, func(in ssa.Instruction) {
		if ms, ok := in.(*ssa.MakeSlice); ok && f == nil {
			f = ms
		}
	})
	if f == nil {
		r.Unresolved(rule, "the target table (make []int16) of calAndSetShortCircuit was not found")
		return
	}
	// helpers relative to a loop counter value i
	nodeOf := func(i ssa.Value) func(ssa.Value) bool {
		return func(n ssa.Value) bool {
			idx, ok := nodesIndexOf(n)
			return ok && idx == i
		}
	}
	parentCallOf := func(v ssa.Value, i ssa.Value) (int, bool) {
		ex, ok := v.(*ssa.Extract)
		if !ok {
			return 0, false
		}
		call, ok := ex.Tuple.(*ssa.Call)
		if !ok || call.Call.StaticCallee() == nil || nm(call.Call.StaticCallee()) != "parentNode" || call.Call.Args[1] != i {
			return 0, false
		}
		return ex.Index, true
	}
	// classify a fact relative to counter i: returns a label, or "" (irrelevant), or "!node: …"
	classify := func(fc Fact, i ssa.Value) string {
		isNode := nodeOf(i)
		if bo, ok := fc.Cond.(*ssa.BinOp); ok {
			// pIdx == -1 / != -1
			for _, side := range [][2]ssa.Value{{bo.X, bo.Y}, {bo.Y, bo.X}} {
				if idx, ok := parentCallOf(side[0], i); ok && idx == 1 {
					if c, okc := constInt(side[1]); okc && c == -1 && (bo.Op == token.EQL || bo.Op == token.NEQ) {
						if (bo.Op == token.EQL) == fc.Truth {
							return "noparent"
						}
						return "hasparent"
					}
					if side[1] == i && side[0] == bo.Y && bo.Op == token.GTR && fc.Truth {
						return "i>pIdx"
					}
					if side[1] == i && side[0] == bo.X && bo.Op == token.LSS && fc.Truth {
						return "i>pIdx"
					}
				}
			}
			// p == nil
			if x, isEq, ok := nilCompare(bo); ok {
				if idx, okp := parentCallOf(x, i); okp && idx == 0 {
					if isEq == fc.Truth {
						return "noparent"
					}
					return "hasparent"
				}
			}
			// kind(p) == cond
			if n, c, isEq, ok := k.kindTest(bo); ok {
				if idx, okp := parentCallOf(n, i); okp && idx == 0 && c == k.cond && isEq == fc.Truth {
					return "parentcond"
				}
			}
			// f[pIdx] != pIdx
			if bo.Op == token.NEQ || bo.Op == token.EQL {
				for _, side := range [][2]ssa.Value{{bo.X, bo.Y}, {bo.Y, bo.X}} {
					if addr, ok := isLoad(side[0]); ok {
						if ia, ok := addr.(*ssa.IndexAddr); ok && ia.X == ssa.Value(f) && ia.Index == side[1] {
							if idx, okp := parentCallOf(side[1], i); okp && idx == 1 && (bo.Op == token.NEQ) == fc.Truth {
								return "parenthastarget"
							}
						}
					}
				}
			}
		}
		if call, ok := fc.Cond.(*ssa.Call); ok && call.Call.StaticCallee() != nil && len(call.Call.Args) == 1 {
			if idx, okp := parentCallOf(call.Call.Args[0], i); okp && idx == 0 {
				switch nm(call.Call.StaticCallee()) {
				case "isAndOpNode":
					if fc.Truth {
						return "parentand"
					}
					return "parentnotand"
				case "isOrOpNode":
					if fc.Truth {
						return "parentor"
					}
					return "parentnotor"
				case "isBoolOpNode":
					// isBoolOpNode(n) == isAndOpNode(n) || isOrOpNode(n)   (R-PAIRBOOL)
					if !fc.Truth {
						return "parentnotbool"
					}
					return "parentbool"
				}
			}
		}
		if mentionsNode(fc.Cond, isNode, 0) {
			// the only accepted test of the node itself: kind(n) == cond (false) before writing scIdx
			if n, c, isEq, ok := k.kindTest(fc.Cond); ok && isNode(n) && c == k.cond && isEq != fc.Truth {
				return "notcond"
			}
			return "!node: " + describe(fc.Cond) + fmt.Sprintf(" is %v", fc.Truth)
		}
		return ""
	}
	labelsAt := func(b *ssa.BasicBlock, i ssa.Value) (map[string]bool, []string) {
		m := map[string]bool{}
		var bad []string
		for _, fc := range factsAt(b) {
			l := classify(fc, i)
			if strings.HasPrefix(l, "!node") {
				bad = append(bad, l[7:])
			} else if l != "" {
				m[l] = true
			}
		}
		return m, bad
	}
	nFlag, nNoJump, nInherit, nSc := 0, 0, 0, 0
	EachInstr(fn, func(in ssa.Instruction) {
		st, ok := in.(*ssa.Store)
		if !ok {
			return
		}
		pos := w.InstrPos(st)
		// (a) stores into f
		if ia, ok := st.Addr.(*ssa.IndexAddr); ok && ia.X == ssa.Value(f) {
			i := ia.Index
			if _, isPhi := i.(*ssa.Phi); !isPhi {
				return
			}
			labels, bad := labelsAt(st.Block(), i)
			if st.Val == i {
				nNoJump++
				noJumpOK := func(l map[string]bool) bool {
					return l["noparent"] || (l["parentnotand"] && l["parentnotor"]) || l["parentnotbool"]
				}
				good := len(bad) == 0 && noJumpOK(labels)
				if !good && len(bad) == 0 && len(st.Block().Preds) > 1 {
					// `pIdx == -1 || !isBoolOpNode(p)`: the reason may differ per incoming edge
					good = true
					for _, pred := range st.Block().Preds {
						l := map[string]bool{}
						for k := range labels {
							l[k] = true
						}
						for _, fc := range append(factsAt(pred), factsAtEdgeTo(pred, st.Block())...) {
							c := classify(fc, i)
							if strings.HasPrefix(c, "!node") {
								good = false
							} else if c != "" {
								l[c] = true
							}
						}
						if !noJumpOK(l) {
							good = false
						}
					}
				}
				r.Check(good, rule, pos, name, "f[i] = i (no short-circuit target)", "only when the node has no parent, or its parent is neither and nor or", "a node is denied a short-circuit target for another reason ("+strings.Join(append(bad, keysOf(labels)...), "; ")+"): once it decides its parent, the remaining operands are still evaluated")
				return
			}
			if idx, okp := parentCallOf(st.Val, i); okp && idx == 1 {
				nFlag++
				good := len(bad) == 0 && labels["hasparent"] && !labels["notcond"]
				r.Check(good, rule, pos, name, "f[i] = pIdx (jump to the parent)", "for every child of an and/or node, whatever the child's own kind", "the jump to the parent depends on the node itself: "+strings.Join(bad, "; "))
				return
			}
			// f[i] = f[…]: climbing (loop 1) or inheritance (loop 2)
			if labels["parentcond"] {
				nInherit++
				good := len(bad) == 0 && labels["hasparent"] && labels["i>pIdx"] && labels["parenthastarget"]
				r.Check(good, rule, pos, name, "f[i] = f[pIdx] (a branch of an `if` inherits the `if` node's target)", "exactly for the two branches (i > pIdx) of a cond parent that has a target", "branch inheritance is gated differently: have "+strings.Join(keysOf(labels), ",")+" "+strings.Join(bad, "; "))
			}
			return
		}
		// (b) flag stores and scIdx stores on nodes[i]
		tn, fld, base, okf := fieldOf(st.Addr)
		if !okf || tn != "node" {
			return
		}
		i, okn := nodesIndexOf(base)
		if !okn {
			return
		}
		labels, bad := labelsAt(st.Block(), i)
		switch fld {
		case "flag":
			if labels["parentcond"] {
				good := len(bad) == 0 && labels["hasparent"] && labels["i>pIdx"] && labels["parenthastarget"]
				r.Check(good, rule, pos, name, "n.flag |= p.flag & scMask (branch of an `if`)", "exactly for the two branches of a cond parent that has a target", "branch flag inheritance is gated differently: have "+strings.Join(keysOf(labels), ",")+" "+strings.Join(bad, "; "))
				return
			}
			good := len(bad) == 0 && labels["hasparent"]
			r.Check(good, rule, pos, name, "n.flag |= flag (polarity of the and/or parent)", "for every child of an and/or node, whatever the child's own kind", "the short-circuit flag depends on the node itself: "+strings.Join(bad, "; ")+" — such a child no longer short-circuits its parent")
		case "scIdx":
			nSc++
			good := len(bad) == 0 && labels["notcond"] && !labels["hasparent"] && !labels["noparent"]
			r.Check(good, rule, pos, name, "n.scIdx = "+describe(st.Val), "for every node that is not a cond node (cond nodes keep the if/fi jump)", "scIdx is written under another gate: "+strings.Join(append(bad, keysOf(labels)...), "; "))
		}
	})
	if nFlag == 0 || nInherit == 0 || nSc == 0 {
		r.Unresolved(rule, fmt.Sprintf("table stores not recognised: jump-to-parent=%d no-jump=%d branch-inheritance=%d scIdx=%d", nFlag, nNoJump, nInherit, nSc))
	}
}

func keysOf(m map[string]bool) []string {
	var s []string
	for k := range m {
		s = append(s, k)
	}
	sort.Strings(s)
	return s
}

var tableWitnesses = append(append(kwTypeBenign, climbWitnesses...), []Witness{
	{Name: "stackrec-fi-adjustment-only-for-leaves", Rule: "R-STACKREC", Edits: []Edit{
		{File: "compiler.go", Old: "		if isEndIfNode(e, prev) {\n			_, prev = parentNode(e, prev)\n		}\n\n		n := e.nodes[i]\n		switch n.getNodeType() {\n		case constant, variable, fastOperator:\n			f[i] = f[prev] + 1", New: "		n := e.nodes[i]\n		switch n.getNodeType() {\n		case constant, variable, fastOperator:\n			if isEndIfNode(e, prev) {\n				_, prev = parentNode(e, prev)\n			}\n			f[i] = f[prev] + 1"}}},
	{Name: "stackrec-fi-adjustment-dropped", Rule: "R-STACKREC", Edits: []Edit{
		{File: "compiler.go", Old: "		if isEndIfNode(e, prev) {\n			_, prev = parentNode(e, prev)\n		}\n", New: "		_ = isEndIfNode\n"}}},
	{Name: "stackrec-operator-forgets-its-result", Rule: "R-STACKREC", Edits: []Edit{
		{File: "compiler.go", Old: "			f[i] = f[prev] - int16(n.childCnt) + 1", New: "			f[i] = f[prev] - int16(n.childCnt)"}}},
	{Name: "stackrec-if-fi-deltas-swapped", Rule: "R-STACKREC", Edits: []Edit{
		{File: "compiler.go", Old: "			if n.value == keywordIf {\n				f[i] = f[prev] - 1\n			} else {\n				f[i] = f[prev]\n			}", New: "			if n.value == keywordIf {\n				f[i] = f[prev]\n			} else {\n				f[i] = f[prev] - 1\n			}"}}},
	{Name: "stackrec-ostop-is-height", Rule: "R-STACKREC", Edits: []Edit{
		{File: "compiler.go", Old: "		n.osTop = f[i] - 1", New: "		n.osTop = f[i]"}}},
	{Name: "stackrec-fi-test-on-wrong-node", Rule: "R-STACKREC", Edits: []Edit{
		{File: "compiler.go", Old: "		if isEndIfNode(e, prev) {\n			_, prev = parentNode(e, prev)", New: "		if isEndIfNode(e, i) {\n			_, prev = parentNode(e, prev)"}}},
	{Name: "benign-stackrec-delta-reassociated", Benign: true, Edits: []Edit{
		{File: "compiler.go", Old: "			f[i] = f[prev] - int16(n.childCnt) + 1", New: "			f[i] = f[prev] + 1 - int16(n.childCnt)"}}},
	{Name: "scflags-constants-get-no-flag", Rule: "R-SCFLAGS", Edits: []Edit{
		{File: "compiler.go", Old: "		p, pIdx := parentNode(e, i)\n		if pIdx == -1 {\n			f[i] = i\n			continue\n		}\n\n		var flag uint8", New: "		p, pIdx := parentNode(e, i)\n		if pIdx == -1 || n.getNodeType() == constant {\n			f[i] = i\n			continue\n		}\n\n		var flag uint8"}}},
	{Name: "scflags-flag-only-for-operators", Rule: "R-SCFLAGS", Edits: []Edit{
		{File: "compiler.go", Old: "		n.flag |= flag\n		f[i] = pIdx", New: "		if n.getNodeType() != variable {\n			n.flag |= flag\n		}\n		f[i] = pIdx"}}},
	{Name: "scflags-condition-child-inherits-too", Rule: "R-SCFLAGS", Edits: []Edit{
		{File: "compiler.go", Old: "		if pIdx != -1 && p.getNodeType() == cond && i > pIdx {", New: "		if pIdx != -1 && p.getNodeType() == cond {"}}},
	{Name: "scflags-scidx-skipped-for-constants", Rule: "R-SCFLAGS", Edits: []Edit{
		{File: "compiler.go", Old: "		if n.getNodeType() == cond {\n			continue\n		}\n\n		if f[i] == size-1 {", New: "		if n.getNodeType() == cond || n.getNodeType() == constant {\n			continue\n		}\n\n		if f[i] == size-1 {"}}},
	{Name: "benign-scflags-parent-nil-test", Benign: true, Edits: []Edit{
		{File: "compiler.go", Old: "		p, pIdx := parentNode(e, i)\n		if pIdx == -1 {\n			f[i] = i\n			continue\n		}\n\n		var flag uint8", New: "		p, pIdx := parentNode(e, i)\n		if p == nil {\n			f[i] = i\n			continue\n		}\n\n		var flag uint8"}}},
	{Name: "kwtype-fi-compared-as-keyword", Rule: "R-KWTYPE", Edits: []Edit{
		{File: "compiler.go", Old: "		return n.getNodeType() == cond && n.value == \"fi\"", New: "		return n.getNodeType() == cond && n.value == keyword(\"fi\")"}}},
}...)

var kwTypeBenign = []Witness{
	{Name: "benign-kwtype-operator-name-compared-as-string", Benign: true, Edits: []Edit{
		{File: "engine.go", Old: "	case isAndOpNode(n) && contains(params, false):", New: "	case (n.value == \"and\" || isAndOpNode(n)) && contains(params, false):"}}},
}

// ---- R-SCCLIMB (part of R-SCFLAGS) ------------------------------------------------------

// ruleScClimb: the climbing loop of calAndSetShortCircuit and the loop directions.
func ruleScClimb(w *World, r *Report) {
	const rule = "R-SCCLIMB"
	r.Rule(rule, "calAndSetShortCircuit: a node's target is replaced by an ancestor's target (f[i] = f[a]) only while that ancestor a short-circuits on every polarity the node carries ((a.flag & flag) == flag, with flag the very value or-ed into the node's flag and a reached from i by parentNode steps); the first loop runs from the last node down (targets of ancestors are final before they are read), the second from the first node up", 3)
	fn := w.MustFn(r, rule, "calAndSetShortCircuit")
	if fn == nil {
		return
	}
	name := w.Name(fn)
	var f *ssa.MakeSlice
	EachInstr(fn, func(in ssa.Instruction) {
		if ms, ok := in.(*ssa.MakeSlice); ok && f == nil {
			f = ms
		}
	})
	if f == nil {
		r.Unresolved(rule, "the target table of calAndSetShortCircuit was not found")
		return
	}
	// the polarity value or-ed into n.flag in loop 1, per loop counter
	flagOf := map[ssa.Value]ssa.Value{}
	EachInstr(fn, func(in ssa.Instruction) {
		st, ok := in.(*ssa.Store)
		if !ok {
			return
		}
		tn, fld, base, okf := fieldOf(st.Addr)
		if !okf || tn != "node" || fld != "flag" {
			return
		}
		i, okn := nodesIndexOf(base)
		if !okn {
			return
		}
		bo, ok := st.Val.(*ssa.BinOp)
		if !ok || bo.Op != token.OR {
			return
		}
		for _, side := range [][2]ssa.Value{{bo.X, bo.Y}, {bo.Y, bo.X}} {
			if b2, ok := loadOfField(side[0], "node", "flag"); ok && (b2 == base || sameValueShape(b2, base)) {
				if _, isPhi := side[1].(*ssa.Phi); isPhi {
					flagOf[i] = side[1]
				}
			}
		}
	})
	// ancestor lineage: index phis whose edges are parentNode(e, i)#1 or parentNode(e, self)#1
	isAncestorIdx := func(v ssa.Value, i ssa.Value) (nodePhi ssa.Value, ok bool) {
		phi, okp := v.(*ssa.Phi)
		if !okp {
			return nil, false
		}
		var calls []*ssa.Call
		for _, e := range phi.Edges {
			ex, ok := e.(*ssa.Extract)
			if !ok || ex.Index != 1 {
				return nil, false
			}
			c, ok := ex.Tuple.(*ssa.Call)
			if !ok || c.Call.StaticCallee() == nil || nm(c.Call.StaticCallee()) != "parentNode" {
				return nil, false
			}
			if c.Call.Args[1] != i && c.Call.Args[1] != ssa.Value(phi) {
				return nil, false
			}
			calls = append(calls, c)
		}
		// the node phi of the same block fed by result #0 of the same calls
		for _, in := range phi.Block().Instrs {
			q, ok := in.(*ssa.Phi)
			if !ok {
				break
			}
			match := len(q.Edges) == len(calls)
			for k, e := range q.Edges {
				ex, ok := e.(*ssa.Extract)
				if !ok || ex.Index != 0 || ex.Tuple != ssa.Value(calls[k]) {
					match = false
				}
			}
			if match {
				return q, true
			}
		}
		return nil, false
	}
	climbs := 0
	EachInstr(fn, func(in ssa.Instruction) {
		st, ok := in.(*ssa.Store)
		if !ok {
			return
		}
		ia, ok := st.Addr.(*ssa.IndexAddr)
		if !ok || ia.X != ssa.Value(f) {
			return
		}
		i := ia.Index
		addr, okl := isLoad(st.Val)
		if !okl {
			return
		}
		src, ok := addr.(*ssa.IndexAddr)
		if !ok || src.X != ssa.Value(f) {
			return
		}
		// f[i] = f[X]
		if _, okp := src.Index.(*ssa.Phi); !okp {
			return // branch inheritance: f[i] = f[pIdx] with pIdx a call result (R-SCFLAGS)
		}
		climbs++
		pos := w.InstrPos(st)
		nodePhi, okA := isAncestorIdx(src.Index, i)
		if !okA {
			r.Fail(rule, pos, name, "f[i] = f["+describe(src.Index)+"]", "the index whose target is taken over is not reached from the node by parentNode steps: only an ancestor's target may be inherited")
			return
		}
		flag := flagOf[i]
		gated := false
		for _, fc := range factsAt(st.Block()) {
			bo, ok := fc.Cond.(*ssa.BinOp)
			if !ok || bo.Op != token.EQL || !fc.Truth {
				continue
			}
			for _, side := range [][2]ssa.Value{{bo.X, bo.Y}, {bo.Y, bo.X}} {
				and, ok := side[0].(*ssa.BinOp)
				if !ok || and.Op != token.AND || side[1] != flag || flag == nil {
					continue
				}
				for _, s2 := range [][2]ssa.Value{{and.X, and.Y}, {and.Y, and.X}} {
					if b, ok := loadOfField(s2[0], "node", "flag"); ok && b == nodePhi && s2[1] == flag {
						gated = true
					}
				}
			}
		}
		r.Check(gated, rule, pos, name, "f[i] = f[ancestor] (climb)", "only while (ancestor.flag & flag) == flag: the ancestor is decided by every result that decides the node", "the climb is taken although the ancestor does not short-circuit on every polarity the node carries: a result that does not decide the ancestor jumps past operands that must still run")
	})
	if climbs == 0 {
		r.Unresolved(rule, "no climbing store f[i] = f[ancestor] found")
	}
	// loop directions
	dirs := map[string]int{}
	seenPhi := map[*ssa.Phi]bool{}
	EachInstr(fn, func(in ssa.Instruction) {
		st, ok := in.(*ssa.Store)
		if !ok {
			return
		}
		ia, ok := st.Addr.(*ssa.IndexAddr)
		if !ok || ia.X != ssa.Value(f) {
			return
		}
		phi, ok := ia.Index.(*ssa.Phi)
		if !ok || seenPhi[phi] {
			return
		}
		seenPhi[phi] = true
		step := int64(0)
		for _, e := range phi.Edges {
			if bo, ok := e.(*ssa.BinOp); ok && bo.X == ssa.Value(phi) {
				if c, okc := constInt(bo.Y); okc {
					if bo.Op == token.ADD {
						step = c
					} else if bo.Op == token.SUB {
						step = -c
					}
				}
			}
		}
		// which loop: the one that or-s the polarity flag is the first
		which := "second"
		if flagOf[ssa.Value(phi)] != nil {
			which = "first"
		}
		want := int64(1)
		if which == "first" {
			want = -1
		}
		dirs[which]++
		r.Check(step == want, rule, w.Pos(phi.Pos()), name, fmt.Sprintf("%s loop steps by %+d", which, step), "first loop downwards (an ancestor has a larger index and must be final when read), second loop upwards (an `if` node precedes its branches)", "the loop visits nodes in the wrong direction: targets are read before they are computed")
	})
	if dirs["first"] != 1 || dirs["second"] != 1 {
		r.Unresolved(rule, fmt.Sprintf("the two loops over the target table were not both recognised (first=%d second=%d)", dirs["first"], dirs["second"]))
	}
}

// ---- R-FASTLAYOUT -----------------------------------------------------------------------

// ruleFastLayout: every place that steps over the inlined operands of a fast operator agrees on their number.
func ruleFastLayout(w *World, r *Report) {
	const rule = "R-FASTLAYOUT"
	r.Rule(rule, "a fast operator is followed by exactly two inlined operand nodes; every site that steps over them agrees: Eval and TryEval continue at i+2 after the fast arm, calAndSetEventNode continues at i+2, and `is last child` means parent index == idx+3 for a fast operator and idx+1 otherwise", 4)
	k := loadNodeKinds(w)
	for _, fnName := range []string{"(*Expr).Eval", "(*Expr).TryEval"} {
		s := recoverStep(w, r, rule, fnName)
		if s == nil {
			continue
		}
		found := false
		for _, b := range s.fn.Blocks {
			for _, in := range b.Instrs {
				p, ok := in.(*ssa.Phi)
				if !ok {
					break
				}
				if !isIntegerType(p.Type()) || (p != s.l.i && !flowsIntoArith(p, s.l.i)) {
					continue
				}
				for e, v := range p.Edges {
					pred := b.Preds[e]
					arm, ok := s.armOf(pred)
					if !ok || arm != s.k.fastOperator || blockReturn(pred) != nil {
						continue
					}
					// only the edge that leaves the arm towards the push
					if !s.push.Block().Dominates(s.push.Block()) || !reachable(b, s.push.Block()) {
						continue
					}
					lf, okl := linearise(v, func(x ssa.Value) string {
						if x == ssa.Value(s.l.i) {
							return "I"
						}
						return ""
					}, 0)
					if !okl {
						continue
					}
					found = true
					r.Check(lf.equal(mkLin("I", 1, "", 2)), rule, w.Pos(p.Pos()), s.name, "loop counter leaving the fast arm = "+lf.String(), "i+2: both inlined operands are stepped over", "the fast arm does not step over exactly its two inlined operands: an operand is executed again as a node of its own, or the node after them is skipped")
				}
			}
		}
		if !found {
			r.Unresolved(rule, "loop counter leaving the fast arm of "+fnName+" not found")
		}
	}
	// calAndSetEventNode
	if fn := w.MustFn(r, rule, "calAndSetEventNode"); fn != nil {
		found := false
		for _, b := range fn.Blocks {
			for _, in := range b.Instrs {
				p, ok := in.(*ssa.Phi)
				if !ok {
					break
				}
				if !isIntegerType(p.Type()) {
					continue
				}
				for e, v := range p.Edges {
					pred := b.Preds[e]
					// the loop counter i of the main loop: nodes[i] kind facts
					var iVal ssa.Value
					lf, okl := linearise(v, func(x ssa.Value) string {
						if q, ok := x.(*ssa.Phi); ok && isIntegerType(q.Type()) && q.Block().Dominates(pred) {
							iVal = q
							return "I"
						}
						return ""
					}, 0)
					if !okl || iVal == nil {
						continue
					}
					kinds := k.kindsUnionAt(pred, func(n ssa.Value) bool {
						addr, ok := isLoad(n)
						if !ok {
							return false
						}
						ia, ok := addr.(*ssa.IndexAddr)
						return ok && ia.Index == iVal
					})
					if kinds == nil || len(kinds) != 1 || !kinds[k.fastOperator] {
						continue
					}
					found = true
					r.Check(lf.equal(mkLin("I", 1, "", 2)), rule, w.Pos(p.Pos()), w.Name(fn), "loop counter leaving the fast-operator case = "+lf.String(), "i+2", "event-mode rebuilding does not step over exactly the two inlined operands")
				}
			}
		}
		if !found {
			r.Undecided(rule, w.Pos(fn.Pos()), w.Name(fn), "loop counter after the fast-operator case", "not recognised")
		}
	}
	// isLastChild
	if sc := w.MustFn(r, rule, "calAndSetShortCircuit"); sc != nil {
		var lc *ssa.Function
		callsParent := func(f *ssa.Function) bool {
			found := false
			EachInstr(f, func(in ssa.Instruction) {
				if c, ok := in.(*ssa.Call); ok && c.Call.StaticCallee() != nil && nm(c.Call.StaticCallee()) == "parentNode" && len(f.Params) == 2 && c.Call.Args[1] == ssa.Value(f.Params[1]) {
					found = true
				}
			})
			return found
		}
		cands := append([]*ssa.Function{}, sc.AnonFuncs...)
		EachInstr(sc, func(in ssa.Instruction) {
			if c, ok := in.(*ssa.Call); ok {
				if h := c.Call.StaticCallee(); h != nil && w.funcSet[h] {
					cands = append(cands, h)
				}
			}
		})
		for _, an := range cands {
			if len(an.Params) == 2 && an.Signature.Results().Len() == 1 && nm(an) != "parentNode" && callsParent(an) {
				if bt, ok := an.Signature.Results().At(0).Type().Underlying().(*types.Basic); ok && bt.Kind() == types.Bool {
					lc = an
				}
			}
		}
		if lc == nil {
			r.Unresolved(rule, "the last-child predicate of calAndSetShortCircuit was not found")
			return
		}
		idx := lc.Params[1]
		isN := func(n ssa.Value) bool {
			x, ok := nodesIndexOf(n)
			return ok && x == ssa.Value(idx)
		}
		n := 0
		for _, ret := range allReturns(lc) {
			bo, ok := ret.Results[0].(*ssa.BinOp)
			if !ok || bo.Op != token.EQL {
				r.Undecided(rule, w.InstrPos(ret), w.Name(lc), "return "+describe(ret.Results[0]), "not a comparison of the parent index")
				continue
			}
			var other ssa.Value
			for _, side := range [][2]ssa.Value{{bo.X, bo.Y}, {bo.Y, bo.X}} {
				if ex, ok := side[0].(*ssa.Extract); ok && ex.Index == 1 {
					if c, ok := ex.Tuple.(*ssa.Call); ok && c.Call.StaticCallee() != nil && nm(c.Call.StaticCallee()) == "parentNode" && c.Call.Args[1] == ssa.Value(idx) {
						other = side[1]
					}
				}
			}
			if other == nil {
				r.Undecided(rule, w.InstrPos(ret), w.Name(lc), "return "+describe(ret.Results[0]), "not a comparison of parentNode(e, idx)#1")
				continue
			}
			// idx + offset with the offset chosen first (offset = 1; if fast { offset = 3 })
			if bo2, okb := other.(*ssa.BinOp); okb && bo2.Op == token.ADD {
				var offPhi *ssa.Phi
				if bo2.X == ssa.Value(idx) {
					offPhi, _ = bo2.Y.(*ssa.Phi)
				} else if bo2.Y == ssa.Value(idx) {
					offPhi, _ = bo2.X.(*ssa.Phi)
				}
				if offPhi != nil {
					allOK := len(offPhi.Edges) >= 2
					desc := ""
					for i2, e2 := range offPhi.Edges {
						c, okc := constInt(e2)
						pred := offPhi.Block().Preds[i2]
						kinds := k.kindsFromFacts(append(factsAt(pred), factsAtEdgeTo(pred, offPhi.Block())...), isN)
						isFast := kinds != nil && len(kinds) == 1 && kinds[k.fastOperator]
						notFast := kinds != nil && !kinds[k.fastOperator]
						desc += fmt.Sprintf(" [fast=%v: idx+%d]", isFast, c)
						if !okc || !(isFast && c == 3 || notFast && c == 1) {
							allOK = false
						}
					}
					n += 2
					r.Check(allOK, rule, w.InstrPos(ret), w.Name(lc), "last child iff parent index == idx + offset,"+desc, "idx+3 for a fast operator (it is followed by its two operands), idx+1 otherwise", "the last-child test looks for the parent at the wrong distance")
					continue
				}
			}
			lf, okl := linearise(other, func(x ssa.Value) string {
				if x == ssa.Value(idx) {
					return "I"
				}
				return ""
			}, 0)
			kinds := k.kindsUnionAt(ret.Block(), isN)
			isFast := kinds != nil && len(kinds) == 1 && kinds[k.fastOperator]
			notFast := kinds != nil && !kinds[k.fastOperator]
			want := mkLin("I", 1, "", 1)
			label := "any other node"
			if isFast {
				want = mkLin("I", 1, "", 3)
				label = "a fast operator"
			} else if !notFast {
				r.Fail(rule, w.InstrPos(ret), w.Name(lc), "return "+describe(ret.Results[0]), "the answer does not distinguish fast operators (followed by two inlined operands) from other nodes")
				continue
			}
			n++
			r.Check(okl && lf.equal(want), rule, w.InstrPos(ret), w.Name(lc), fmt.Sprintf("last child (%s) iff parent index == %s", label, lf.String()), "idx+3 for a fast operator (it is followed by its two operands), idx+1 otherwise", "the last-child test looks for the parent at the wrong distance: a non-last child gets both polarities (its result is taken for the parent's), or the last child loses one")
		}
		if n < 2 {
			r.Unresolved(rule, "the two answers of the last-child predicate were not both recognised")
		}
	}
}

// flowsIntoArith: like flowsInto, also through +/- constant steps (i++ of the loop latch).
func flowsIntoArith(p *ssa.Phi, target *ssa.Phi) bool {
	seen := map[ssa.Value]bool{}
	var walk func(v ssa.Value) bool
	walk = func(v ssa.Value) bool {
		if v == ssa.Value(target) {
			return true
		}
		if seen[v] {
			return false
		}
		seen[v] = true
		for _, ref := range referrers(v) {
			switch q := ref.(type) {
			case *ssa.Phi:
				if walk(q) {
					return true
				}
			case *ssa.BinOp:
				if _, ok := constInt(q.Y); ok && q.X == v && (q.Op == token.ADD || q.Op == token.SUB) && walk(q) {
					return true
				}
			}
		}
		return false
	}
	return walk(p)
}

var climbWitnesses = []Witness{
	{Name: "scclimb-any-polarity-suffices", Rule: "R-SCCLIMB", Edits: []Edit{
		{File: "compiler.go", Old: "		for p.flag&flag == flag {", New: "		for p.flag&flag != 0 {"}}},
	{Name: "scclimb-compares-with-mask", Rule: "R-SCCLIMB", Edits: []Edit{
		{File: "compiler.go", Old: "		for p.flag&flag == flag {", New: "		for p.flag&scMask&flag == p.flag&scMask {"}}},
	{Name: "scclimb-first-loop-upwards", Rule: "R-SCCLIMB", Edits: []Edit{
		{File: "compiler.go", Old: "	for i := size - 1; i >= 0; i-- {\n		n := e.nodes[i]\n		p, pIdx := parentNode(e, i)", New: "	for i := int16(0); i < size; i++ {\n		n := e.nodes[i]\n		p, pIdx := parentNode(e, i)"}}},
	{Name: "benign-scclimb-stops-one-level-early", Benign: true, Edits: []Edit{
		{File: "compiler.go", Old: "			if p.flag&scMask == flag {\n				break\n			}", New: "			if p.flag&scMask == flag || pIdx == size-1 {\n				break\n			}"}}},
	{Name: "benign-scclimb-mirrored-test", Benign: true, Edits: []Edit{
		{File: "compiler.go", Old: "		for p.flag&flag == flag {", New: "		for flag == flag&p.flag {"}}},
	{Name: "fastlayout-last-child-at-plus-two", Rule: "R-FASTLAYOUT", Edits: []Edit{
		{File: "compiler.go", Old: "				return pIdx == idx+3", New: "				return pIdx == idx+2"}}},
	{Name: "fastlayout-last-child-ignores-fast", Rule: "R-FASTLAYOUT", Edits: []Edit{
		{File: "compiler.go", Old: "			if nodeType == fastOperator {\n				return pIdx == idx+3\n			} else {\n				return pIdx == idx+1\n			}", New: "			_ = nodeType\n			return pIdx == idx+1"}}},
	{Name: "fastlayout-tryeval-steps-over-one", Rule: "R-FASTLAYOUT", Edits: []Edit{
		{File: "engine.go", Old: "			res, err = executeOperatorProxy(ctx, curt, param2[:])\n			if err != nil {\n				return\n			}\n			i += 2", New: "			res, err = executeOperatorProxy(ctx, curt, param2[:])\n			if err != nil {\n				return\n			}\n			i += 1"}}},
	{Name: "fastlayout-eventnode-steps-over-three", Rule: "R-FASTLAYOUT", Edits: []Edit{
		{File: "compiler.go", Old: "			realIdxes[i+2] = int16(len(res) - 1)\n			i += 2", New: "			realIdxes[i+2] = int16(len(res) - 1)\n			i += 3"}}},
}
