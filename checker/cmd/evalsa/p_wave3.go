package main

// Rules added after the third seeding wave:
//
//	R-INTBASE    every integer-literal reader of the lexer/parser uses base 10 (C13, C17)
//	R-FMTDATA    rendered program text is never used as a format string (C13)
//	R-OPRESOLVE  the parser and the folder resolve an operator name to the same function (C02, C10)
//	R-GENOPT     generator option closures keep no state between applications (C20)

import (
	"fmt"
	"go/types"

	"golang.org/x/tools/go/ssa"
)

// ---- R-INTBASE --------------------------------------------------------------------------

func ruleIntBase(w *World, r *Report) {
	const rule = "R-INTBASE"
	r.Rule(rule, "every strconv integer parse of the package (token classification, scalar literal, list element, version component) reads base 10: the sites agree, and the text Dump prints in base 10 is read back as the same number", 3)
	n := 0
	for _, fn := range w.SortedFuncs(funcSet(w.Funcs)) {
		name := w.Name(fn)
		EachInstr(fn, func(in ssa.Instruction) {
			c, ok := in.(*ssa.Call)
			if !ok {
				return
			}
			switch calleeFullName(&c.Call) {
			case "strconv.ParseInt", "strconv.ParseUint":
				n++
				base, okb := constInt(c.Call.Args[1])
				r.Check(okb && base == 10, rule, w.InstrPos(c), name, "strconv.ParseInt(text, "+describe(c.Call.Args[1])+", …)", "integer literals are decimal at every site", "this site does not read base 10 while its siblings do: the same spelling (010) denotes different numbers as a scalar and as a list element, or after Dump")
			case "strconv.Atoi":
				n++
				r.OK(rule, w.InstrPos(c), name, "strconv.Atoi(text)", "decimal by definition")
			}
		})
	}
	if n == 0 {
		r.Unresolved(rule, "no integer parse found in the parser")
	}
}

// ---- R-FMTDATA --------------------------------------------------------------------------

// pureFormat: v is built only from constants, integers and formatting of integers.
func pureFormat(v ssa.Value, depth int) bool {
	if depth > 8 {
		return false
	}
	switch x := v.(type) {
	case *ssa.Const:
		return true
	case *ssa.BinOp:
		return pureFormat(x.X, depth+1) && pureFormat(x.Y, depth+1)
	case *ssa.Phi:
		for _, e := range x.Edges {
			if e != v && !pureFormat(e, depth+1) {
				return false
			}
		}
		return true
	case *ssa.Convert:
		return isIntegerType(x.X.Type()) || pureFormat(x.X, depth+1)
	case *ssa.Call:
		switch calleeFullName(&x.Call) {
		case "strconv.Itoa", "strconv.FormatInt":
			return true
		case "fmt.Sprintf":
			if len(x.Call.Args) == 0 || !pureFormat(x.Call.Args[0], depth+1) {
				return false
			}
			// operands: only integers
			for _, a := range variadicElems(x.Call.Args[len(x.Call.Args)-1]) {
				if mi, ok := a.(*ssa.MakeInterface); !ok || !isIntegerType(mi.X.Type()) {
					return false
				}
			}
			return true
		}
	case *ssa.UnOp:
		// a local variable holding a pure format
		if al, ok := x.X.(*ssa.Alloc); ok {
			sts := cellStores(al)
			if len(sts) == 0 {
				return false
			}
			for _, st := range sts {
				if !pureFormat(st.Val, depth+1) {
					return false
				}
			}
			return true
		}
	}
	if isIntegerType(v.Type()) {
		return true
	}
	return false
}

// variadicElems lists the elements of a variadic argument slice literal.
func variadicElems(v ssa.Value) []ssa.Value {
	sl, ok := v.(*ssa.Slice)
	if !ok {
		return nil
	}
	al, ok := sl.X.(*ssa.Alloc)
	if !ok {
		return nil
	}
	var out []ssa.Value
	for _, ref := range referrers(al) {
		ia, ok := ref.(*ssa.IndexAddr)
		if !ok {
			continue
		}
		for _, ref2 := range referrers(ia) {
			if st, ok := ref2.(*ssa.Store); ok && st.Addr == ssa.Value(ia) {
				out = append(out, st.Val)
			}
		}
	}
	return out
}

func ruleFmtData(w *World, r *Report) {
	const rule = "R-FMTDATA"
	r.Rule(rule, "in every fmt formatting call of the package the format string is built from constants and integers only: program text (literal contents, rendered children, names) is passed as an operand, never as the format — a `%` inside a string literal must survive Dump", 30)
	for _, fn := range w.SortedFuncs(funcSet(w.Funcs)) {
		name := w.Name(fn)
		EachInstr(fn, func(in ssa.Instruction) {
			c, ok := in.(*ssa.Call)
			if !ok {
				return
			}
			idx := -1
			switch calleeFullName(&c.Call) {
			case "fmt.Sprintf", "fmt.Errorf", "fmt.Printf":
				idx = 0
			case "fmt.Fprintf":
				idx = 1
			}
			if idx < 0 || len(c.Call.Args) <= idx {
				return
			}
			f := c.Call.Args[idx]
			r.Check(pureFormat(f, 0), rule, w.InstrPos(c), name, "format = "+describe(f), "constants and integers only", "the format string contains program text: a `%` in a literal or name is interpreted as a verb (\"100%\" is printed as \"100%!(NOVERB)\", \"50%% off\" loses a character)")
		})
	}
}

// ---- R-OPRESOLVE ------------------------------------------------------------------------

func ruleOpResolve(w *World, r *Report) {
	const rule = "R-OPRESOLVE"
	r.Rule(rule, "the parser resolves an operator name in the built-in table first and consults Config.OperatorMap only when the built-in table has no entry; constant folding applies builtinOperators[name] for a built-in stateless name: the function folded at compile time is the function the node runs", 2)
	gf := w.MustFn(r, rule, "(*parser).getOperator")
	isl := w.MustFn(r, rule, "isStatelessOp")
	if gf == nil || isl == nil {
		return
	}
	isBuiltinTable := func(v ssa.Value) bool {
		addr, ok := isLoad(v)
		if !ok {
			return false
		}
		g, ok := addr.(*ssa.Global)
		return ok && nm(g) == "builtinOperators"
	}
	isOpMap := func(v ssa.Value) bool {
		_, ok := loadOfField(v, "Config", "OperatorMap")
		return ok
	}
	var bLook, mLook *ssa.Lookup
	EachInstr(gf, func(in ssa.Instruction) {
		lk, ok := in.(*ssa.Lookup)
		if !ok {
			return
		}
		if isBuiltinTable(lk.X) {
			bLook = lk
		}
		if isOpMap(lk.X) {
			mLook = lk
		}
	})
	if bLook == nil || mLook == nil {
		r.Unresolved(rule, "getOperator no longer consults builtinOperators and Config.OperatorMap")
		return
	}
	// mLook only under (bLook found) == false
	gated := false
	for _, fc := range factsAt(mLook.Block()) {
		if ex, ok := fc.Cond.(*ssa.Extract); ok && ex.Index == 1 && ex.Tuple == ssa.Value(bLook) && !fc.Truth {
			gated = true
		}
		if x, isNil, ok := factIsNil(fc); ok && isNil {
			if ex, ok := x.(*ssa.Extract); ok && ex.Index == 0 && ex.Tuple == ssa.Value(bLook) {
				gated = true
			}
			if x == ssa.Value(bLook) {
				gated = true
			}
		}
	}
	r.Check(gated, rule, w.InstrPos(mLook), w.Name(gf), "Config.OperatorMap[name] consulted", "only when builtinOperators has no entry for the name", "a Config entry named like a built-in shadows it at run time while constant folding still applies the built-in: the value depends on whether ConstantFolding is enabled")
	// the folder's built-in arm returns builtinOperators[op]
	okFold := false
	for _, ret := range allReturns(isl) {
		if len(ret.Results) != 2 {
			continue
		}
		if b, ok := constBool(ret.Results[0]); !ok || !b {
			continue
		}
		if lk, ok := ret.Results[1].(*ssa.Lookup); ok && isBuiltinTable(lk.X) {
			okFold = true
			r.OK(rule, w.InstrPos(ret), w.Name(isl), "return true, builtinOperators[op]", "a built-in stateless name folds with the built-in implementation")
		}
	}
	if !okFold {
		r.Undecided(rule, w.Pos(isl.Pos()), w.Name(isl), "built-in arm of isStatelessOp", "the function returned for a built-in stateless name is no longer a direct lookup in builtinOperators")
	}
}

// ---- R-GENOPT ---------------------------------------------------------------------------

func ruleGenOpt(w *World, r *Report) {
	const rule = "R-GENOPT"
	r.Rule(rule, "a generator option (func(*GenExprConfig)) writes only through its parameter: it stores into no variable captured from the enclosing function, so applying the same option value twice (two GenerateRandomExpr calls) starts from the same state", 4)
	n := 0
	for _, fn := range w.SortedFuncs(funcSet(w.Funcs)) {
		sig := fn.Signature
		if sig.Params().Len() != 1 || sig.Results().Len() != 0 {
			continue
		}
		pt, ok := sig.Params().At(0).Type().(*types.Pointer)
		if !ok || typeNameOf(pt.Elem()) != "GenExprConfig" {
			continue
		}
		n++
		name := w.Name(fn)
		bad := ""
		EachInstr(fn, func(in ssa.Instruction) {
			st, ok := in.(*ssa.Store)
			if !ok {
				return
			}
			root := st.Addr
			for depth := 0; depth < 8; depth++ {
				switch x := root.(type) {
				case *ssa.FieldAddr:
					root = x.X
					continue
				case *ssa.IndexAddr:
					root = x.X
					continue
				}
				break
			}
			if fv, ok := root.(*ssa.FreeVar); ok {
				bad = fmt.Sprintf("%s at %s", fv.Name(), w.InstrPos(st))
			}
		})
		r.Check(bad == "", rule, w.Pos(fn.Pos()), name, "option closure "+name, "stores only through its *GenExprConfig parameter and its own locals", "the option writes the captured variable "+bad+": results of an earlier application (stale variable values, DNE status) leak into the next one and the reported result no longer matches the map")
	}
	if n == 0 {
		r.Unresolved(rule, "no generator option closure found")
	}
}

var wave3WitnessesC13 = []Witness{
	{Name: "intbase-list-elements-auto-base", Rule: "R-INTBASE", Edits: []Edit{
		{File: "parser.go", Old: "				v, err := strconv.ParseInt(s, 10, 64)", New: "				v, err := strconv.ParseInt(s, 0, 64)"}}},
	{Name: "fmtdata-leaf-text-as-format", Rule: "R-FMTDATA", Edits: []Edit{
		{File: "util.go", Old: "				sb.WriteString(fmt.Sprintf(\" %s\", cc))", New: "				fmt.Fprintf(&sb, \" \"+cc)"}}},
	{Name: "benign-fmtdata-fprintf-with-operand", Benign: true, Edits: []Edit{
		{File: "util.go", Old: "				sb.WriteString(fmt.Sprintf(\" %s\", cc))", New: "				fmt.Fprintf(&sb, \" %s\", cc)"}}},
}

var wave3WitnessesC02 = []Witness{
	{Name: "opresolve-config-operators-shadow-builtins", Rule: "R-OPRESOLVE", Edits: []Edit{
		{File: "parser.go", Old: "	op, exist := builtinOperators[opName]\n	if !exist {\n		op, exist = p.conf.OperatorMap[opName]\n	}", New: "	op, exist := p.conf.OperatorMap[opName]\n	if !exist {\n		op, exist = builtinOperators[opName]\n	}"}}},
	{Name: "benign-opresolve-early-return", Benign: true, Edits: []Edit{
		{File: "parser.go", Old: "	op, exist := builtinOperators[opName]\n	if !exist {\n		op, exist = p.conf.OperatorMap[opName]\n	}\n	return op, exist", New: "	if op, exist := builtinOperators[opName]; exist {\n		return op, true\n	}\n	op, exist := p.conf.OperatorMap[opName]\n	return op, exist"}}},
}

var wave3WitnessesC20 = []Witness{
	{Name: "genopt-result-slices-hoisted-out-of-option", Rule: "R-GENOPT", Edits: []Edit{
		{File: "util.go", Old: "		return func(c *GenExprConfig) {\n			var (\n				numVars  []GenExprResult\n				boolVars []GenExprResult\n				dneVars  []GenExprResult\n			)", New: "		var (\n			numVars  []GenExprResult\n			boolVars []GenExprResult\n			dneVars  []GenExprResult\n		)\n		return func(c *GenExprConfig) {"}}},
}

// ---- R-BOOLARITY ------------------------------------------------------------------------

// ruleBoolArity: an and/or node is never built with fewer than two operands.
func ruleBoolArity(w *World, r *Report) {
	const rule = "R-BOOLARITY"
	r.Rule(rule, "the engine may decide an and/or without calling the operator (a boolean last operand jumps past its parent), so the operator's own operand-count check cannot be relied on: wherever an operator node is built from a name and a children list, the path on which the node is a bool operator and len(children) < 2 ends in an error return", 1)
	n := 0
	for _, fn := range w.SortedFuncs(funcSet(w.Funcs)) {
		// builders: functions that store into astNode.children and into node.operator of a fresh node of kind operator
		var nodeLit *ssa.Alloc
		k := loadNodeKinds(w)
		var childrenSrc ssa.Value
		EachInstr(fn, func(in ssa.Instruction) {
			st, ok := in.(*ssa.Store)
			if !ok {
				return
			}
			tn, fld, base, okf := fieldOf(st.Addr)
			if !okf {
				return
			}
			if tn == "node" && fld == "flag" {
				if al, ok := base.(*ssa.Alloc); ok {
					if c, okc := constInt(st.Val); okc && c == k.operator {
						nodeLit = al
					}
				}
			}
			if tn == "astNode" && fld == "children" {
				if _, ok := base.(*ssa.Alloc); ok {
					childrenSrc = st.Val
				}
			}
		})
		if nodeLit == nil || childrenSrc == nil {
			continue
		}
		// only builders whose node name is not a constant (a name from the source text)
		n++
		name := w.Name(fn)
		guarded := false
		for _, b := range fn.Blocks {
			isBool, few := false, false
			for _, fc := range factsAt(b) {
				if c, ok := fc.Cond.(*ssa.Call); ok && fc.Truth && c.Call.StaticCallee() != nil && len(c.Call.Args) == 1 && c.Call.Args[0] == ssa.Value(nodeLit) {
					switch nm(c.Call.StaticCallee()) {
					case "isBoolOpNode":
						isBool = true
					}
				}
				if bo, ok := fc.Cond.(*ssa.BinOp); ok {
					if lenArgIs(bo.X, childrenSrc) {
						if c, okc := constInt(bo.Y); okc {
							switch {
							case bo.Op.String() == "<" && c == 2 && fc.Truth, bo.Op.String() == "<=" && c == 1 && fc.Truth,
								bo.Op.String() == ">=" && c == 2 && !fc.Truth, bo.Op.String() == ">" && c == 1 && !fc.Truth:
								few = true
							}
						}
					}
				}
			}
			if isBool && few {
				if ret := blockReturn(b); ret != nil {
					if nonNil, _ := isErrorReturn(ret); nonNil {
						guarded = true
					}
				}
			}
		}
		r.Check(guarded, rule, w.Pos(fn.Pos()), name, "operator node built from a source name and its children", "the path `bool operator with fewer than 2 operands` returns an error", "an and/or node with one operand can be built: Eval returns that operand's value ((and true) = true) where the operator, and TryEval, answer `unexpected params count`")
	}
	if n == 0 {
		r.Unresolved(rule, "no builder of operator nodes found")
	}
}

func lenArgIs(v ssa.Value, of ssa.Value) bool {
	c, ok := v.(*ssa.Call)
	if !ok {
		return false
	}
	b, ok := c.Call.Value.(*ssa.Builtin)
	return ok && nm(b) == "len" && len(c.Call.Args) == 1 && c.Call.Args[0] == of
}

var boolArityWitnesses = []Witness{
	{Name: "boolarity-check-removed (D14)", Rule: "R-BOOLARITY", Edits: []Edit{
		{File: "parser.go", Old: "	if isBoolOpNode(n) && len(children) < 2 {\n		return nil, p.paramsCountErr(2, len(children), car)\n	}", New: ""}}},
	{Name: "boolarity-only-empty-rejected", Rule: "R-BOOLARITY", Edits: []Edit{
		{File: "parser.go", Old: "	if isBoolOpNode(n) && len(children) < 2 {", New: "	if isBoolOpNode(n) && len(children) < 1 {"}}},
	{Name: "benign-boolarity-nested-ifs", Benign: true, Edits: []Edit{
		{File: "parser.go", Old: "	if isBoolOpNode(n) && len(children) < 2 {\n		return nil, p.paramsCountErr(2, len(children), car)\n	}", New: "	if isBoolOpNode(n) {\n		if len(children) <= 1 {\n			return nil, p.paramsCountErr(2, len(children), car)\n		}\n	}"}}},
}

// ---- R-COSTALL (C16) ----------------------------------------------------------------------

// ruleCostAll: every operand of a node contributes to the node's estimated cost.
func ruleCostAll(w *World, r *Report) {
	const rule = "R-COSTALL"
	r.Rule(rule, "calculateNodeCosts: for an `if` node exactly the operand children (condition, then, else — the indices calAndSetNodes emits as branches, not the appended `fi` marker) reach the node's cost; for every other node a loop over all children adds each child's cost", 2)
	fn := w.MustFn(r, rule, "calculateNodeCosts")
	cn := w.MustFn(r, rule, "calAndSetNodes")
	if fn == nil || cn == nil {
		return
	}
	name := w.Name(fn)
	// children indices of an `if` in calAndSetNodes: all constant indices of root.children; the marker is
	// the one whose node's scIdx is written
	childIdx := func(f *ssa.Function, v ssa.Value) (int64, bool) {
		addr, ok := isLoad(v)
		if !ok {
			return 0, false
		}
		ia, ok := addr.(*ssa.IndexAddr)
		if !ok {
			return 0, false
		}
		if _, okf := loadOfField(ia.X, "astNode", "children"); !okf {
			return 0, false
		}
		return constInt(ia.Index)
	}
	all := map[int64]bool{}
	marker := map[int64]bool{}
	EachInstr(cn, func(in ssa.Instruction) {
		if u, ok := in.(*ssa.UnOp); ok {
			if k, ok := childIdx(cn, u); ok {
				all[k] = true
			}
		}
		if st, ok := in.(*ssa.Store); ok {
			if tn, fld, base, okf := fieldOf(st.Addr); okf && tn == "node" && fld == "scIdx" {
				if nb, okn := loadOfField(base, "astNode", "node"); okn {
					if k, ok := childIdx(cn, nb); ok {
						marker[k] = true
					}
				}
			}
		}
	})
	want := map[int64]bool{}
	for k := range all {
		if !marker[k] {
			want[k] = true
		}
	}
	if len(want) < 2 || len(marker) != 1 {
		r.Unresolved(rule, fmt.Sprintf("branch / marker indices of an `if` in calAndSetNodes not recovered (all=%v marker=%v)", sortedInts(all), sortedInts(marker)))
		return
	}
	// in calculateNodeCosts: constant-index loads children[k].cost
	got := map[int64]bool{}
	EachInstr(fn, func(in ssa.Instruction) {
		u, ok := in.(*ssa.UnOp)
		if !ok {
			return
		}
		base, okf := loadOfField(u, "astNode", "cost")
		if !okf {
			return
		}
		addr, okl := isLoad(base)
		if !okl {
			return
		}
		ia, oki := addr.(*ssa.IndexAddr)
		if !oki {
			return
		}
		if k, okc := constInt(ia.Index); okc {
			got[k] = true
		}
	})
	same := len(got) == len(want)
	for k := range want {
		if !got[k] {
			same = false
		}
	}
	r.Check(same, rule, w.Pos(fn.Pos()), name, fmt.Sprintf("`if` cost reads children %v", sortedInts(got)), fmt.Sprintf("exactly the operand children %v (calAndSetNodes emits them as condition and branches; child %v is the `fi` marker)", sortedInts(want), sortedInts(marker)), "the cost of an `if` ignores one of its branches (or counts the marker instead): a name mentioned only there cannot push the operand behind its siblings however expensive it is")
	// the general arm: a range loop over children accumulating child.cost for every element
	loopOK := false
	EachInstr(fn, func(in ssa.Instruction) {
		u, ok := in.(*ssa.UnOp)
		if !ok {
			return
		}
		base, okf := loadOfField(u, "astNode", "cost")
		if !okf {
			return
		}
		addr, okl := isLoad(base)
		if !okl {
			return
		}
		ia, oki := addr.(*ssa.IndexAddr)
		if !oki {
			return
		}
		hdr, isRange := rangeIndexHeader(ia.Index, ia.X)
		if !isRange {
			return
		}
		// the loaded cost is added into a loop-carried accumulator
		for _, ref := range referrers(u) {
			if bo, ok := ref.(*ssa.BinOp); ok && bo.Op.String() == "+" {
				if loopVisitsAll(hdr, bo.Block()) {
					loopOK = true
				}
			}
		}
	})
	r.Check(loopOK, rule, w.Pos(fn.Pos()), name, "children cost of an ordinary node", "a loop over all children adds child.cost for every element", "not every child's cost reaches the parent")
}

// ---- R-OPNAMES (C15) ------------------------------------------------------------------------

// ruleOpNames: the leaf parser that makes undefined variables and the operator-node builder use one resolver.
func ruleOpNames(w *World, r *Report) {
	const rule = "R-OPNAMES"
	r.Rule(rule, "a name is read as an undefined variable only when the resolver that buildOperatorNode uses ((*parser).getOperator: built-in table, then Config.OperatorMap) does not know it; the infix parser tries leaves before operators, so a narrower test turns calls of registered operators into variables", 1)
	pu := w.MustFn(r, rule, "(*parser).parseUnknownVariable")
	bo := w.MustFn(r, rule, "(*parser).buildOperatorNode")
	if pu == nil || bo == nil {
		return
	}
	// the resolver: the static callee whose result #0 is stored into node.operator in buildOperatorNode
	var resolver *ssa.Function
	EachInstr(bo, func(in ssa.Instruction) {
		st, ok := in.(*ssa.Store)
		if !ok {
			return
		}
		if tn, fld, _, okf := fieldOf(st.Addr); okf && tn == "node" && fld == "operator" {
			if c := resultOf(st.Val); c != nil && c.Call.StaticCallee() != nil {
				resolver = c.Call.StaticCallee()
			}
		}
	})
	if resolver == nil {
		r.Unresolved(rule, "the operator resolver used by buildOperatorNode was not found")
		return
	}
	k := loadNodeKinds(w)
	n := 0
	EachInstr(pu, func(in ssa.Instruction) {
		al, ok := in.(*ssa.Alloc)
		if !ok || typeNameOf(deref(al.Type())) != "node" {
			return
		}
		if kc, okk := literalKind(al); !okk || kc != k.variable {
			return
		}
		n++
		gated := false
		for _, fc := range factsAt(al.Block()) {
			ex, ok := fc.Cond.(*ssa.Extract)
			if !ok || ex.Index != 1 || fc.Truth {
				continue
			}
			if c, ok := ex.Tuple.(*ssa.Call); ok && c.Call.StaticCallee() == resolver {
				gated = true
			}
		}
		r.Check(gated, rule, w.InstrPos(al), w.Name(pu), "undefined-variable node", "built only when "+w.Name(resolver)+" does not know the name", "the undefined-variable parser tests operator names with something else than the node builder's resolver: a registered operator's name is read as a variable (infix `clamp(a, 0, 10)` no longer parses, or parses to another tree)")
	})
	if n == 0 {
		r.Unresolved(rule, "no variable node literal in parseUnknownVariable")
	}
}

// ---- R-CACHEDGET (C04, C05) -------------------------------------------------------------------

// fetcherTerm renders conditions of a fetcher method over receiver S and parameters K0, K1.
func fetcherTermCtx(fn *ssa.Function) *termCtx {
	var tc *termCtx
	leaf := func(v ssa.Value) string {
		for i, p := range fn.Params {
			if v == ssa.Value(p) {
				if i == 0 {
					return "S"
				}
				return fmt.Sprintf("K%d", i-1)
			}
		}
		if c, ok := v.(*ssa.Call); ok {
			if b, okb := c.Call.Value.(*ssa.Builtin); okb && nm(b) == "len" && len(c.Call.Args) == 1 {
				return "len(" + tc.term(c.Call.Args[0]) + ")"
			}
		}
		if ex, ok := v.(*ssa.Extract); ok && ex.Index == 1 {
			if lk, ok := ex.Tuple.(*ssa.Lookup); ok && lk.CommaOk {
				return "has(" + tc.term(lk.X) + "," + tc.term(lk.Index) + ")"
			}
		}
		return ""
	}
	tc = &termCtx{leaf: leaf}
	return tc
}

func ruleCachedGet(w *World, r *Report) {
	const rule = "R-CACHEDGET"
	r.Rule(rule, "for every VariableFetcher of the package: whenever Cached(key, name) answers true, Get(key, name) does not fail — each condition under which Get returns an error is excluded (its exact negation holds) wherever Cached returns true; TryEval calls Get only after Cached == true and must not get a fetcher error for an unavailable variable", 2)
	n := 0
	for _, tn := range []string{"SliceVarFetcher", "MapVarFetcher"} {
		get := w.Fn("(" + tn + ").Get")
		cached := w.Fn("(" + tn + ").Cached")
		if get == nil || cached == nil {
			continue
		}
		n++
		gtc := fetcherTermCtx(get)
		// each way of reaching an error return of Get is a conjunction of branch outcomes; a failing block with several
		// ways in (`key < 0 || int(key) >= len(s)`) contributes one conjunction per incoming edge
		var errConds [][]string
		terms := func(tc *termCtx, facts []Fact) []string {
			var out []string
			for _, fc := range facts {
				t := tc.term(fc.Cond)
				if !fc.Truth {
					t = negateTerm(t)
				}
				out = append(out, t)
			}
			return out
		}
		for _, ret := range allReturns(get) {
			if nonNil, _ := isErrorReturn(ret); !nonNil {
				continue
			}
			b := ret.Block()
			if len(b.Preds) <= 1 {
				errConds = append(errConds, terms(gtc, factsAt(b)))
				continue
			}
			for _, p := range b.Preds {
				for k, sx := range p.Succs {
					if sx == b {
						errConds = append(errConds, terms(gtc, factsAtEdge(p, k)))
					}
				}
			}
		}
		ctc := fetcherTermCtx(cached)
		good := len(errConds) > 0
		why := ""
		for _, ret := range allReturns(cached) {
			// conditions known when true is returned
			have := terms(ctc, factsAt(ret.Block()))
			if b, ok := constBool(ret.Results[0]); ok {
				if !b {
					continue
				}
			} else {
				t := ctc.term(ret.Results[0])
				if parts, ok := splitTop(t, "&&"); ok {
					have = append(have, parts...)
				} else {
					have = append(have, t)
				}
			}
			for _, conj := range errConds {
				found := false
				for _, e := range conj {
					need := negateTerm(e)
					for _, h := range have {
						if h == need {
							found = true
						}
					}
				}
				if !found {
					good = false
					why = fmt.Sprintf("Get fails under %v; Cached answers true knowing only %v", conj, have)
				}
			}
		}
		r.Check(good, rule, w.Pos(cached.Pos()), "("+tn+").Cached", fmt.Sprintf("Cached true excludes every error condition of Get %v", errConds), "a variable reported as available can be fetched", "Cached can answer true for a key Get rejects: TryEval turns an unavailable variable into a fetcher error instead of DNE ("+why+")")
	}
	if n == 0 {
		r.Unresolved(rule, "no fetcher with Get and Cached found")
	}
}

var wave4Witnesses = []Witness{
	{Name: "costall-if-cost-reads-marker-instead-of-else", Rule: "R-COSTALL", Edits: []Edit{
		{File: "compiler.go", Old: "math.Max(children[1].cost, children[2].cost)", New: "math.Max(children[1].cost, children[3].cost)"}}},
	{Name: "costall-ordinary-node-skips-first-child", Rule: "R-COSTALL", Edits: []Edit{
		{File: "compiler.go", Old: "		for _, child := range children {\n			childrenCost += child.cost\n		}", New: "		for i, child := range children {\n			if i == 0 && len(children) > 3 {\n				continue\n			}\n			childrenCost += child.cost\n		}"}}},
	{Name: "benign-costall-max-arguments-swapped", Benign: true, Edits: []Edit{
		{File: "compiler.go", Old: "math.Max(children[1].cost, children[2].cost)", New: "math.Max(children[2].cost, children[1].cost)"}}},
}

var wave4WitnessesC15 = []Witness{
	{Name: "opnames-unknown-variable-tests-builtin-table-only", Rule: "R-OPNAMES", Edits: []Edit{
		{File: "parser.go", Old: "	_, exist := p.getOperator(t.val)\n	if exist {\n		return nil, nil\n	}", New: "	if _, exist := builtinOperators[t.val]; exist {\n		return nil, nil\n	}"}}},
}

var wave4WitnessesC05 = []Witness{
	{Name: "cachedget-slice-cached-without-lower-bound", Rule: "R-CACHEDGET", Doc: "Get rejects negative keys (D18); Cached must not report them available", Edits: []Edit{
		{File: "variable.go", Old: "func (s SliceVarFetcher) Cached(key VariableKey, _ string) bool {\n	if key < 0 || int(key) >= len(s) {", New: "func (s SliceVarFetcher) Cached(key VariableKey, _ string) bool {\n	if int(key) >= len(s) {"}}},
	{Name: "benign-cachedget-two-separate-tests", Benign: true, Edits: []Edit{
		{File: "variable.go", Old: "func (s SliceVarFetcher) Cached(key VariableKey, _ string) bool {\n	if key < 0 || int(key) >= len(s) {\n		return false\n	}", New: "func (s SliceVarFetcher) Cached(key VariableKey, _ string) bool {\n	if key < 0 {\n		return false\n	}\n	if int(key) >= len(s) {\n		return false\n	}"}}},
	{Name: "cachedget-slice-cached-off-by-one", Rule: "R-CACHEDGET", Edits: []Edit{
		{File: "variable.go", Old: "func (s SliceVarFetcher) Cached(key VariableKey, _ string) bool {\n	if key < 0 || int(key) >= len(s) {\n		return false\n	}\n	return true\n}", New: "func (s SliceVarFetcher) Cached(key VariableKey, _ string) bool {\n	return 0 <= int(key) && int(key) <= len(s)\n}"}}},
	{Name: "benign-cachedget-single-expression", Benign: true, Edits: []Edit{
		{File: "variable.go", Old: "func (s SliceVarFetcher) Cached(key VariableKey, _ string) bool {\n	if key < 0 || int(key) >= len(s) {\n		return false\n	}\n	return true\n}", New: "func (s SliceVarFetcher) Cached(key VariableKey, _ string) bool {\n	return key >= 0 && len(s) > int(key)\n}"}}},
	{Name: "cachedget-map-cached-always-true", Rule: "R-CACHEDGET", Edits: []Edit{
		{File: "variable.go", Old: "func (s MapVarFetcher) Cached(_ VariableKey, key string) bool {\n	_, exist := s[key]\n	return exist\n}", New: "func (s MapVarFetcher) Cached(_ VariableKey, key string) bool {\n	_, exist := s[key]\n	return exist || len(s) == 0\n}"}}},
}
