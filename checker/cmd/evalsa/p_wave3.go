package main

// Rules added after the third seeding wave:
//
//	R-INTBASE    every integer-literal reader of the lexer/parser uses base 10 (C13, C17)
//	R-FMTDATA    rendered program text is never used as a format string (C13)
//	R-OPRESOLVE  the parser and the folder resolve an operator name to the same function (C02, C10)
//	R-GENOPT     generator option closures keep no state between applications (C20)

import (
	"fmt"
	"go/types"
	"strings"

	"golang.org/x/tools/go/ssa"
)

// ---- R-INTBASE --------------------------------------------------------------------------

func ruleIntBase(w *World, r *Report) {
	const rule = "R-INTBASE"
	r.Rule(rule, "every strconv integer parse in the lexer/parser (token classification, scalar literal, list element) reads base 10: the three sites agree, and the text Dump prints in base 10 is read back as the same number", 3)
	n := 0
	for _, fn := range w.SortedFuncs(funcSet(w.Funcs)) {
		name := w.Name(fn)
		if !strings.Contains(name, "parser") {
			continue
		}
		EachInstr(fn, func(in ssa.Instruction) {
			c, ok := in.(*ssa.Call)
			if !ok {
				return
			}
			switch calleeFullName(&c.Call) {
			case "strconv.ParseInt", "strconv.ParseUint":
				n++
				base, okb := constInt(c.Call.Args[1])
				r.Check(okb && base == 10, rule, w.InstrPos(c), name, "strconv.ParseInt(text, "+describe(c.Call.Args[1])+", …)", "integer literals are decimal at every site", "this site does not read base 10 while its siblings do: the same spelling (010) denotes different numbers as a scalar and as a list element, or after Dump")
			case "strconv.Atoi":
				n++
				r.OK(rule, w.InstrPos(c), name, "strconv.Atoi(text)", "decimal by definition")
			}
		})
	}
	if n == 0 {
		r.Unresolved(rule, "no integer parse found in the parser")
	}
}

// ---- R-FMTDATA --------------------------------------------------------------------------

// pureFormat: v is built only from constants, integers and formatting of integers.
func pureFormat(v ssa.Value, depth int) bool {
	if depth > 8 {
		return false
	}
	switch x := v.(type) {
	case *ssa.Const:
		return true
	case *ssa.BinOp:
		return pureFormat(x.X, depth+1) && pureFormat(x.Y, depth+1)
	case *ssa.Phi:
		for _, e := range x.Edges {
			if e != v && !pureFormat(e, depth+1) {
				return false
			}
		}
		return true
	case *ssa.Convert:
		return isIntegerType(x.X.Type()) || pureFormat(x.X, depth+1)
	case *ssa.Call:
		switch calleeFullName(&x.Call) {
		case "strconv.Itoa", "strconv.FormatInt":
			return true
		case "fmt.Sprintf":
			if len(x.Call.Args) == 0 || !pureFormat(x.Call.Args[0], depth+1) {
				return false
			}
			// operands: only integers
			for _, a := range variadicElems(x.Call.Args[len(x.Call.Args)-1]) {
				if mi, ok := a.(*ssa.MakeInterface); !ok || !isIntegerType(mi.X.Type()) {
					return false
				}
			}
			return true
		}
	case *ssa.UnOp:
		// a local variable holding a pure format
		if al, ok := x.X.(*ssa.Alloc); ok {
			sts := cellStores(al)
			if len(sts) == 0 {
				return false
			}
			for _, st := range sts {
				if !pureFormat(st.Val, depth+1) {
					return false
				}
			}
			return true
		}
	}
	if isIntegerType(v.Type()) {
		return true
	}
	return false
}

// variadicElems lists the elements of a variadic argument slice literal.
func variadicElems(v ssa.Value) []ssa.Value {
	sl, ok := v.(*ssa.Slice)
	if !ok {
		return nil
	}
	al, ok := sl.X.(*ssa.Alloc)
	if !ok {
		return nil
	}
	var out []ssa.Value
	for _, ref := range referrers(al) {
		ia, ok := ref.(*ssa.IndexAddr)
		if !ok {
			continue
		}
		for _, ref2 := range referrers(ia) {
			if st, ok := ref2.(*ssa.Store); ok && st.Addr == ssa.Value(ia) {
				out = append(out, st.Val)
			}
		}
	}
	return out
}

func ruleFmtData(w *World, r *Report) {
	const rule = "R-FMTDATA"
	r.Rule(rule, "in every fmt formatting call of the package the format string is built from constants and integers only: program text (literal contents, rendered children, names) is passed as an operand, never as the format — a `%` inside a string literal must survive Dump", 30)
	for _, fn := range w.SortedFuncs(funcSet(w.Funcs)) {
		name := w.Name(fn)
		EachInstr(fn, func(in ssa.Instruction) {
			c, ok := in.(*ssa.Call)
			if !ok {
				return
			}
			idx := -1
			switch calleeFullName(&c.Call) {
			case "fmt.Sprintf", "fmt.Errorf", "fmt.Printf":
				idx = 0
			case "fmt.Fprintf":
				idx = 1
			}
			if idx < 0 || len(c.Call.Args) <= idx {
				return
			}
			f := c.Call.Args[idx]
			r.Check(pureFormat(f, 0), rule, w.InstrPos(c), name, "format = "+describe(f), "constants and integers only", "the format string contains program text: a `%` in a literal or name is interpreted as a verb (\"100%\" is printed as \"100%!(NOVERB)\", \"50%% off\" loses a character)")
		})
	}
}

// ---- R-OPRESOLVE ------------------------------------------------------------------------

func ruleOpResolve(w *World, r *Report) {
	const rule = "R-OPRESOLVE"
	r.Rule(rule, "the parser resolves an operator name in the built-in table first and consults Config.OperatorMap only when the built-in table has no entry; constant folding applies builtinOperators[name] for a built-in stateless name: the function folded at compile time is the function the node runs", 2)
	gf := w.MustFn(r, rule, "(*parser).getOperator")
	isl := w.MustFn(r, rule, "isStatelessOp")
	if gf == nil || isl == nil {
		return
	}
	isBuiltinTable := func(v ssa.Value) bool {
		addr, ok := isLoad(v)
		if !ok {
			return false
		}
		g, ok := addr.(*ssa.Global)
		return ok && g.Name() == "builtinOperators"
	}
	isOpMap := func(v ssa.Value) bool {
		_, ok := loadOfField(v, "Config", "OperatorMap")
		return ok
	}
	var bLook, mLook *ssa.Lookup
	EachInstr(gf, func(in ssa.Instruction) {
		lk, ok := in.(*ssa.Lookup)
		if !ok {
			return
		}
		if isBuiltinTable(lk.X) {
			bLook = lk
		}
		if isOpMap(lk.X) {
			mLook = lk
		}
	})
	if bLook == nil || mLook == nil {
		r.Unresolved(rule, "getOperator no longer consults builtinOperators and Config.OperatorMap")
		return
	}
	// mLook only under (bLook found) == false
	gated := false
	for _, fc := range factsAt(mLook.Block()) {
		if ex, ok := fc.Cond.(*ssa.Extract); ok && ex.Index == 1 && ex.Tuple == ssa.Value(bLook) && !fc.Truth {
			gated = true
		}
		if x, isNil, ok := factIsNil(fc); ok && isNil {
			if ex, ok := x.(*ssa.Extract); ok && ex.Index == 0 && ex.Tuple == ssa.Value(bLook) {
				gated = true
			}
			if x == ssa.Value(bLook) {
				gated = true
			}
		}
	}
	r.Check(gated, rule, w.InstrPos(mLook), w.Name(gf), "Config.OperatorMap[name] consulted", "only when builtinOperators has no entry for the name", "a Config entry named like a built-in shadows it at run time while constant folding still applies the built-in: the value depends on whether ConstantFolding is enabled")
	// the folder's built-in arm returns builtinOperators[op]
	okFold := false
	for _, ret := range allReturns(isl) {
		if len(ret.Results) != 2 {
			continue
		}
		if b, ok := constBool(ret.Results[0]); !ok || !b {
			continue
		}
		if lk, ok := ret.Results[1].(*ssa.Lookup); ok && isBuiltinTable(lk.X) {
			okFold = true
			r.OK(rule, w.InstrPos(ret), w.Name(isl), "return true, builtinOperators[op]", "a built-in stateless name folds with the built-in implementation")
		}
	}
	if !okFold {
		r.Undecided(rule, w.Pos(isl.Pos()), w.Name(isl), "built-in arm of isStatelessOp", "the function returned for a built-in stateless name is no longer a direct lookup in builtinOperators")
	}
}

// ---- R-GENOPT ---------------------------------------------------------------------------

func ruleGenOpt(w *World, r *Report) {
	const rule = "R-GENOPT"
	r.Rule(rule, "a generator option (func(*GenExprConfig)) writes only through its parameter: it stores into no variable captured from the enclosing function, so applying the same option value twice (two GenerateRandomExpr calls) starts from the same state", 4)
	n := 0
	for _, fn := range w.SortedFuncs(funcSet(w.Funcs)) {
		sig := fn.Signature
		if sig.Params().Len() != 1 || sig.Results().Len() != 0 {
			continue
		}
		pt, ok := sig.Params().At(0).Type().(*types.Pointer)
		if !ok || typeNameOf(pt.Elem()) != "GenExprConfig" {
			continue
		}
		n++
		name := w.Name(fn)
		bad := ""
		EachInstr(fn, func(in ssa.Instruction) {
			st, ok := in.(*ssa.Store)
			if !ok {
				return
			}
			root := st.Addr
			for depth := 0; depth < 8; depth++ {
				switch x := root.(type) {
				case *ssa.FieldAddr:
					root = x.X
					continue
				case *ssa.IndexAddr:
					root = x.X
					continue
				}
				break
			}
			if fv, ok := root.(*ssa.FreeVar); ok {
				bad = fmt.Sprintf("%s at %s", fv.Name(), w.InstrPos(st))
			}
		})
		r.Check(bad == "", rule, w.Pos(fn.Pos()), name, "option closure "+name, "stores only through its *GenExprConfig parameter and its own locals", "the option writes the captured variable "+bad+": results of an earlier application (stale variable values, DNE status) leak into the next one and the reported result no longer matches the map")
	}
	if n == 0 {
		r.Unresolved(rule, "no generator option closure found")
	}
}

var wave3WitnessesC13 = []Witness{
	{Name: "intbase-list-elements-auto-base", Rule: "R-INTBASE", Edits: []Edit{
		{File: "parser.go", Old: "				v, err := strconv.ParseInt(s, 10, 64)", New: "				v, err := strconv.ParseInt(s, 0, 64)"}}},
	{Name: "fmtdata-leaf-text-as-format", Rule: "R-FMTDATA", Edits: []Edit{
		{File: "util.go", Old: "				sb.WriteString(fmt.Sprintf(\" %s\", cc))", New: "				fmt.Fprintf(&sb, \" \"+cc)"}}},
	{Name: "benign-fmtdata-fprintf-with-operand", Benign: true, Edits: []Edit{
		{File: "util.go", Old: "				sb.WriteString(fmt.Sprintf(\" %s\", cc))", New: "				fmt.Fprintf(&sb, \" %s\", cc)"}}},
}

var wave3WitnessesC02 = []Witness{
	{Name: "opresolve-config-operators-shadow-builtins", Rule: "R-OPRESOLVE", Edits: []Edit{
		{File: "parser.go", Old: "	op, exist := builtinOperators[opName]\n	if !exist {\n		op, exist = p.conf.OperatorMap[opName]\n	}", New: "	op, exist := p.conf.OperatorMap[opName]\n	if !exist {\n		op, exist = builtinOperators[opName]\n	}"}}},
	{Name: "benign-opresolve-early-return", Benign: true, Edits: []Edit{
		{File: "parser.go", Old: "	op, exist := builtinOperators[opName]\n	if !exist {\n		op, exist = p.conf.OperatorMap[opName]\n	}\n	return op, exist", New: "	if op, exist := builtinOperators[opName]; exist {\n		return op, true\n	}\n	op, exist := p.conf.OperatorMap[opName]\n	return op, exist"}}},
}

var wave3WitnessesC20 = []Witness{
	{Name: "genopt-result-slices-hoisted-out-of-option", Rule: "R-GENOPT", Edits: []Edit{
		{File: "util.go", Old: "		return func(c *GenExprConfig) {\n			var (\n				numVars  []GenExprResult\n				boolVars []GenExprResult\n				dneVars  []GenExprResult\n			)", New: "		var (\n			numVars  []GenExprResult\n			boolVars []GenExprResult\n			dneVars  []GenExprResult\n		)\n		return func(c *GenExprConfig) {"}}},
}

// ---- R-BOOLARITY ------------------------------------------------------------------------

// ruleBoolArity: an and/or node is never built with fewer than two operands.
func ruleBoolArity(w *World, r *Report) {
	const rule = "R-BOOLARITY"
	r.Rule(rule, "the engine may decide an and/or without calling the operator (a boolean last operand jumps past its parent), so the operator's own operand-count check cannot be relied on: wherever an operator node is built from a name and a children list, the path on which the node is a bool operator and len(children) < 2 ends in an error return", 1)
	n := 0
	for _, fn := range w.SortedFuncs(funcSet(w.Funcs)) {
		// builders: functions that store into astNode.children and into node.operator of a fresh node of kind operator
		var nodeLit *ssa.Alloc
		k := loadNodeKinds(w)
		var childrenSrc ssa.Value
		EachInstr(fn, func(in ssa.Instruction) {
			st, ok := in.(*ssa.Store)
			if !ok {
				return
			}
			tn, fld, base, okf := fieldOf(st.Addr)
			if !okf {
				return
			}
			if tn == "node" && fld == "flag" {
				if al, ok := base.(*ssa.Alloc); ok {
					if c, okc := constInt(st.Val); okc && c == k.operator {
						nodeLit = al
					}
				}
			}
			if tn == "astNode" && fld == "children" {
				if _, ok := base.(*ssa.Alloc); ok {
					childrenSrc = st.Val
				}
			}
		})
		if nodeLit == nil || childrenSrc == nil {
			continue
		}
		// only builders whose node name is not a constant (a name from the source text)
		n++
		name := w.Name(fn)
		guarded := false
		for _, b := range fn.Blocks {
			isBool, few := false, false
			for _, fc := range factsAt(b) {
				if c, ok := fc.Cond.(*ssa.Call); ok && fc.Truth && c.Call.StaticCallee() != nil && len(c.Call.Args) == 1 && c.Call.Args[0] == ssa.Value(nodeLit) {
					switch c.Call.StaticCallee().Name() {
					case "isBoolOpNode":
						isBool = true
					}
				}
				if bo, ok := fc.Cond.(*ssa.BinOp); ok {
					if lenArgIs(bo.X, childrenSrc) {
						if c, okc := constInt(bo.Y); okc {
							switch {
							case bo.Op.String() == "<" && c == 2 && fc.Truth, bo.Op.String() == "<=" && c == 1 && fc.Truth,
								bo.Op.String() == ">=" && c == 2 && !fc.Truth, bo.Op.String() == ">" && c == 1 && !fc.Truth:
								few = true
							}
						}
					}
				}
			}
			if isBool && few {
				if ret := blockReturn(b); ret != nil {
					if nonNil, _ := isErrorReturn(ret); nonNil {
						guarded = true
					}
				}
			}
		}
		r.Check(guarded, rule, w.Pos(fn.Pos()), name, "operator node built from a source name and its children", "the path `bool operator with fewer than 2 operands` returns an error", "an and/or node with one operand can be built: Eval returns that operand's value ((and true) = true) where the operator, and TryEval, answer `unexpected params count`")
	}
	if n == 0 {
		r.Unresolved(rule, "no builder of operator nodes found")
	}
}

func lenArgIs(v ssa.Value, of ssa.Value) bool {
	c, ok := v.(*ssa.Call)
	if !ok {
		return false
	}
	b, ok := c.Call.Value.(*ssa.Builtin)
	return ok && b.Name() == "len" && len(c.Call.Args) == 1 && c.Call.Args[0] == of
}

var boolArityWitnesses = []Witness{
	{Name: "boolarity-check-removed (D14)", Rule: "R-BOOLARITY", Edits: []Edit{
		{File: "parser.go", Old: "	if isBoolOpNode(n) && len(children) < 2 {\n		return nil, p.paramsCountErr(2, len(children), car)\n	}", New: ""}}},
	{Name: "boolarity-only-empty-rejected", Rule: "R-BOOLARITY", Edits: []Edit{
		{File: "parser.go", Old: "	if isBoolOpNode(n) && len(children) < 2 {", New: "	if isBoolOpNode(n) && len(children) < 1 {"}}},
	{Name: "benign-boolarity-nested-ifs", Benign: true, Edits: []Edit{
		{File: "parser.go", Old: "	if isBoolOpNode(n) && len(children) < 2 {\n		return nil, p.paramsCountErr(2, len(children), car)\n	}", New: "	if isBoolOpNode(n) {\n		if len(children) <= 1 {\n			return nil, p.paramsCountErr(2, len(children), car)\n		}\n	}"}}},
}
