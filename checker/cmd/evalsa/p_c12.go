package main

// C12 — event reporting observes faithfully without changing evaluation.

import (
	"fmt"
	"go/token"
	"go/types"

	"golang.org/x/tools/go/ssa"
)

func init() {
	register(&Property{
		ID:    "C12",
		Level: "other",
		Explanation: "Decides the non-interference and payload clauses: (R-EVFRESH) for every send on a chan Event (today two: LOOP in reportEvent, OP_EXEC in the operator wrapper), every slice/map/pointer-typed component statically reachable in the sent value (Event.Stack, OpEventData.Params inside Data) is rooted in a make/append-to-nil inside the sending function, filled before the send and not written after it: a payload that aliases a buffer the engine reuses (param2, the operand stack) changes under the consumer's feet; " +
			"(R-WRAPID) the wrapper installed by calAndSetEventNode calls the captured original operator with its own (ctx, params) unchanged and returns exactly that call's two results, and reports name, a copy of the arguments taken BEFORE the operator is applied (D15), result and error of that very call; (R-EVNOOP) in Eval and TryEval, along the edge from the event arm to the loop latch every loop-carried variable is its loop-header value and the arm stores nothing: an event node only calls reportEvent(e, os, osTop, curt.value); " +
			"(R-DUMPSKIP) Dump's child enumeration excludes nodes of kind event, so the decompiled text does not depend on event mode; (R-EVGATE) calAndSetEventNode runs only under ReportEvent or Debug. Writes of the wrapper/reportEvent beyond the send are excluded by C07 R-EFFECT. (R-EVREMAP) calAndSetEventNode rebuilds node array and parent table entry by entry in step (an event node mirrors its real node), records every appended node's position in the index table keyed by its original index, and relabels scIdx through the real-node table and parents through the event/real table under the -1 guards. NOT decided: ordering of OP_EXEC events relative to evaluation order. (R-EVSTACK) the LOOP event's Stack has osTop+1 elements, element i from os[i] for every i, complete before the send. Round 2: (R-WRAPALL) in calAndSetEventNode every path through one iteration of the node loop on which the node can be an operator or a fast operator stores the event wrapper into node.operator; R-EVREMAP also requires every appended real or event node to be the subject of an index-table store.",
		Run:       runC12,
		Witnesses: append(append([]Witness{}, delWitnessesC12...), c12Witnesses...),
	})
}

func runC12(w *World, r *Report) {
	ruleEvFresh(w, r)
	ruleEvStack(w, r)
	ruleWrapID(w, r)
	ruleWrapAll(w, r)
	ruleEvNoop(w, r)
	ruleDumpSkip(w, r)
	ruleEvGate(w, r)
	ruleEvRemap(w, r)
	// event insertion lengthens the program: turning events on must not push it past the 16-bit limit unnoticed
	ruleGrow(w, r)
}

// ---- R-EVFRESH ----------------------------------------------------------------

func isEventChan(t types.Type) bool {
	ch, ok := t.Underlying().(*types.Chan)
	return ok && typeNameOf(ch.Elem()) == "Event"
}

// freshSlice: v is a slice allocated in this function (make, or append to
// nil) that does not escape other than into the payload, and every element
// store precedes the send.
func freshSlice(v ssa.Value, send *ssa.Send, holder ssa.Instruction, depth int) (bool, string) {
	if depth > 4 {
		return false, "too deep"
	}
	switch x := v.(type) {
	case *ssa.MakeSlice:
		for _, ref := range referrers(x) {
			switch rr := ref.(type) {
			case *ssa.IndexAddr:
				for _, ref2 := range referrers(rr) {
					if st, ok := ref2.(*ssa.Store); ok && st.Addr == ssa.Value(rr) {
						if mayFollow(send, st) {
							return false, "an element is written after the send"
						}
					}
				}
			case *ssa.Store:
				if ref != holder {
					return false, "the snapshot is also stored elsewhere"
				}
			case *ssa.Call:
				name := calleeFullName(&rr.Call)
				if name == "builtin.copy" && rr.Call.Args[0] == ssa.Value(x) {
					if mayFollow(send, rr) {
						return false, "filled after the send"
					}
					continue
				}
				if name == "builtin.len" || name == "builtin.cap" {
					continue
				}
				return false, "the snapshot is passed to " + name
			case *ssa.DebugRef:
			default:
				return false, "the snapshot is used by " + ref.String()
			}
		}
		return true, "make in the sending function, filled before the send"
	case *ssa.Call:
		if calleeFullName(&x.Call) == "builtin.append" && len(x.Call.Args) == 2 {
			if isNilConst(x.Call.Args[0]) {
				return true, "append to a nil slice: a fresh copy"
			}
			if ok, _ := freshSlice(x.Call.Args[0], send, nil, depth+1); ok {
				return true, "append to a fresh slice"
			}
			return false, "append to a slice that is not fresh: may write and alias its backing array"
		}
		return false, "result of " + calleeFullName(&x.Call)
	case *ssa.Phi:
		for _, e := range x.Edges {
			if ok, why := freshSlice(e, send, holder, depth+1); !ok {
				return false, why
			}
		}
		return true, "fresh on every path"
	case *ssa.Const:
		if x.Value == nil {
			return true, "nil"
		}
	case *ssa.Slice:
		return false, "a reslice of " + describe(x.X) + ": shares its backing array"
	case *ssa.Parameter:
		return false, "the caller's slice " + x.Name() + " itself"
	}
	return false, "rooted in " + describe(v)
}

func ruleEvFresh(w *World, r *Report) {
	const rule = "R-EVFRESH"
	r.Rule(rule, "every container-typed component of a sent Event is allocated in the sending function, filled before the send and never written afterwards", 2)
	sends := 0
	for _, fn := range w.Funcs {
		EachInstr(fn, func(in ssa.Instruction) {
			send, ok := in.(*ssa.Send)
			if !ok || !isEventChan(send.Chan.Type()) {
				return
			}
			sends++
			name := w.Name(fn)
			addr, okl := isLoad(send.X)
			al, oka := addr.(*ssa.Alloc)
			if !okl || !oka {
				r.Fail(rule, w.InstrPos(send), name, "send "+describe(send.X), "the sent event is not a literal built in the sending function")
				return
			}
			checkPayload(w, r, rule, fn, send, al, "Event", 0)
		})
	}
	if sends < 2 {
		r.Unresolved(rule, fmt.Sprintf("only %d send(s) on a chan Event found (LOOP and OP_EXEC expected)", sends))
	}
}

func checkPayload(w *World, r *Report, rule string, fn *ssa.Function, send *ssa.Send, al *ssa.Alloc, path string, depth int) {
	if depth > 3 {
		return
	}
	name := w.Name(fn)
	for _, ref := range referrers(al) {
		fa, ok := ref.(*ssa.FieldAddr)
		if !ok {
			continue
		}
		fname := fieldName(fa.X.Type(), fa.Field)
		for _, ref2 := range referrers(fa) {
			st, ok := ref2.(*ssa.Store)
			if !ok || st.Addr != ssa.Value(fa) {
				continue
			}
			comp := path + "." + fname
			v := st.Val
			switch v.Type().Underlying().(type) {
			case *types.Slice:
				ok, why := freshSlice(v, send, st, 0)
				r.Check(ok, rule, w.InstrPos(st), name, comp+" = "+describe(v), "private to the event: "+why, "the event payload aliases memory the engine keeps using: "+why)
			case *types.Map, *types.Pointer, *types.Chan:
				_, isMake := v.(*ssa.MakeMap)
				_, isAlloc := v.(*ssa.Alloc)
				r.Check(isMake || isAlloc || isNilConst(v), rule, w.InstrPos(st), name, comp+" = "+describe(v), "freshly made", "a shared container is published in the event")
			case *types.Interface:
				if mi, ok := v.(*ssa.MakeInterface); ok {
					if addr, ok := isLoad(mi.X); ok {
						if inner, ok := addr.(*ssa.Alloc); ok {
							checkPayload(w, r, rule, fn, send, inner, comp+".("+typeNameOf(mi.X.Type())+")", depth+1)
						}
					}
				}
			case *types.Struct:
				if addr, ok := isLoad(v); ok {
					if inner, ok := addr.(*ssa.Alloc); ok {
						checkPayload(w, r, rule, fn, send, inner, comp, depth+1)
					}
				}
			}
		}
	}
}

// mayFollow reports whether instruction b can execute after instruction a.
func mayFollow(a, b ssa.Instruction) bool {
	if a.Block() == b.Block() && instrIndex(a) < instrIndex(b) {
		return true
	}
	for _, s := range a.Block().Succs {
		if reachable(s, b.Block()) {
			return true
		}
	}
	return false
}

// ---- R-WRAPID -----------------------------------------------------------------

func eventWrapper(w *World) (*ssa.Function, *ssa.Function) {
	outer := w.Fn("calAndSetEventNode")
	if outer == nil {
		return nil, nil
	}
	// the wrapper is the function with the Operator signature that sends on the event channel — a closure of
	// calAndSetEventNode or of a helper it calls
	var found *ssa.Function
	sig := operatorSig(w)
	for _, fn := range w.Funcs {
		if sig == nil || !types.Identical(fn.Signature, sig) {
			continue
		}
		sends := false
		EachInstr(fn, func(in ssa.Instruction) {
			if _, ok := in.(*ssa.Send); ok {
				sends = true
			}
		})
		if sends && found == nil {
			found = fn
		}
	}
	return outer, found
}

func ruleWrapID(w *World, r *Report) {
	const rule = "R-WRAPID"
	r.Rule(rule, "the event wrapper is a transparent forwarder: one call of the captured operator with the wrapper's own (ctx, params), whose two results are returned and reported", 3)
	_, wr := eventWrapper(w)
	if wr == nil {
		r.Unresolved(rule, "event wrapper closure not found in calAndSetEventNode")
		return
	}
	name := w.Name(wr)
	var calls []*ssa.Call
	EachInstr(wr, func(in ssa.Instruction) {
		if c, ok := in.(*ssa.Call); ok && isOperatorCall(w, &c.Call) {
			calls = append(calls, c)
		}
	})
	if len(calls) != 1 {
		r.Fail(rule, w.Pos(wr.Pos()), name, fmt.Sprintf("%d operator calls in the wrapper", len(calls)), "the wrapper must apply the original operator exactly once")
		return
	}
	c := calls[0]
	// callee: the captured original operator (free variable bound to n.operator read before the wrapper was installed)
	fromFree := false
	if addr, ok := isLoad(c.Call.Value); ok {
		_, fromFree = addr.(*ssa.FreeVar)
	}
	if _, ok := c.Call.Value.(*ssa.FreeVar); ok {
		fromFree = true
	}
	argsOK := len(c.Call.Args) == 2 && c.Call.Args[0] == ssa.Value(wr.Params[0]) && c.Call.Args[1] == ssa.Value(wr.Params[1])
	r.Check(fromFree && argsOK, rule, w.InstrPos(c), name, describe(c), "the captured original operator applied to the wrapper's own (ctx, params)", "the wrapper calls something else, or with altered arguments")
	retOK := true
	for _, ret := range allReturns(wr) {
		e0, ok0 := ret.Results[0].(*ssa.Extract)
		e1, ok1 := ret.Results[1].(*ssa.Extract)
		if !(ok0 && ok1 && e0.Tuple == ssa.Value(c) && e1.Tuple == ssa.Value(c) && e0.Index == 0 && e1.Index == 1) {
			retOK = false
		}
	}
	r.Check(retOK, rule, w.Pos(wr.Pos()), name, "returns of the wrapper", "exactly the (value, error) pair of the operator call", "the wrapper alters the operator's result or error: enabling events changes evaluation")
	// the captured operator is the node's operator read before the store that installs the wrapper
	// reported Res / Err are that call's results
	resOK, errOK := false, false
	EachInstr(wr, func(in ssa.Instruction) {
		st, ok := in.(*ssa.Store)
		if !ok {
			return
		}
		tn, fld, _, okf := fieldOf(st.Addr)
		if !okf || tn != "OpEventData" {
			return
		}
		if ex, ok := st.Val.(*ssa.Extract); ok && ex.Tuple == ssa.Value(c) {
			if fld == "Res" && ex.Index == 0 {
				resOK = true
			}
			if fld == "Err" && ex.Index == 1 {
				errOK = true
			}
		}
	})
	r.Check(resOK && errOK, rule, w.Pos(wr.Pos()), name, "OpEventData.Res / .Err", "the result and error of that very call", "the event does not carry the call's own result and error")
	// the reported arguments are a snapshot taken before the operator runs ("as they were at call time")
	EachInstr(wr, func(in ssa.Instruction) {
		st, ok := in.(*ssa.Store)
		if !ok {
			return
		}
		tn, fld, _, okf := fieldOf(st.Addr)
		if !okf || tn != "OpEventData" || fld != "Params" {
			return
		}
		snap, isInstr := st.Val.(ssa.Instruction)
		before := isInstr && instrDominates(snap, c) && snap != ssa.Instruction(c)
		// the snapshot reads the wrapper's params
		reads := false
		if cp, ok := isAppendCall(st.Val); ok && len(cp.Call.Args) == 2 && cp.Call.Args[1] == ssa.Value(wr.Params[1]) {
			reads = true
		}
		if !reads {
			// make + copy form
			if ms, ok := st.Val.(*ssa.MakeSlice); ok {
				for _, ref := range referrers(ms) {
					if cc, ok := ref.(*ssa.Call); ok {
						if b, okb := cc.Call.Value.(*ssa.Builtin); okb && nm(b) == "copy" && cc.Call.Args[0] == ssa.Value(ms) && cc.Call.Args[1] == ssa.Value(wr.Params[1]) {
							reads = true
							before = instrDominates(cc, c)
						}
					}
				}
			}
		}
		r.Check(reads && before, rule, w.InstrPos(st), name, "OpEventData.Params = "+describe(st.Val), "a copy of the wrapper's params taken before the operator is applied", "the arguments are copied after the operator ran (an operator that writes to its argument slice is reported with the modified values), or not from the wrapper's params")
	})
}

// ---- R-EVNOOP -----------------------------------------------------------------

func ruleEvNoop(w *World, r *Report) {
	const rule = "R-EVNOOP"
	r.Rule(rule, "the event arm of Eval and TryEval only calls reportEvent(e, os, osTop, curt.value): it stores nothing and leaves every loop-carried variable at its loop-header value", 2)
	k := loadNodeKinds(w)
	re := w.Fn("reportEvent")
	for _, name := range []string{"(*Expr).Eval", "(*Expr).TryEval"} {
		fn := w.MustFn(r, rule, name)
		if fn == nil {
			continue
		}
		l, why := recoverEvalLoop(w, fn)
		if l == nil {
			r.Unresolved(rule, "main loop of "+name+" not recognised: "+why)
			continue
		}
		var call *ssa.Call
		EachInstr(fn, func(in ssa.Instruction) {
			if c, ok := in.(*ssa.Call); ok && re != nil && c.Call.StaticCallee() == re {
				call = c
			}
		})
		if call == nil {
			r.Fail(rule, w.Pos(fn.Pos()), name, "event arm", "no call of reportEvent: LOOP events are never reported")
			continue
		}
		blk := call.Block()
		// reached only when no other kind matched
		isCurt := func(n ssa.Value) bool { off, ok := l.nodeAt(n); return ok && off == 0 }
		poss := k.kindsPossibleAt(blk, isCurt)
		onlyEvent := poss != nil && len(poss) == 1 && poss[k.event]
		// arguments
		argsOK := len(call.Call.Args) == 4 && call.Call.Args[0] == ssa.Value(fn.Params[0])
		if argsOK {
			base, okv := loadOfField(call.Call.Args[3], "node", "value")
			argsOK = okv && isCurt(base)
		}
		// no other effects in the arm, and the loop-carried values pass through
		pure := true
		for _, in := range blk.Instrs {
			switch x := in.(type) {
			case *ssa.Store, *ssa.MapUpdate, *ssa.Send:
				pure = false
			case *ssa.Call:
				if x != call {
					if _, isBuiltin := x.Call.Value.(*ssa.Builtin); !isBuiltin {
						pure = false
					}
				}
			}
		}
		pass := len(blk.Succs) == 1
		if pass {
			succ := blk.Succs[0]
			for _, in := range succ.Instrs {
				phi, ok := in.(*ssa.Phi)
				if !ok {
					break
				}
				for i, p := range succ.Preds {
					if p != blk {
						continue
					}
					hp, isPhi := phi.Edges[i].(*ssa.Phi)
					if !isPhi || hp.Block() != l.hdr {
						pass = false
					}
				}
			}
			// the latch must lead back to the header
			if !(succ == l.hdr || (len(succ.Succs) == 1 && succ.Succs[0] == l.hdr)) {
				pass = false
			}
		}
		r.Check(onlyEvent && argsOK && pure && pass, rule, w.InstrPos(call), name, describe(call),
			"reached only for kind event; arguments (e, os, osTop, curt.value); no store; i, osTop, res, err continue with their loop-header values",
			fmt.Sprintf("the event arm interferes with evaluation (kind-gate=%v args=%v no-effects=%v pass-through=%v)", onlyEvent, argsOK, pure, pass))
	}
}

// ---- R-DUMPSKIP ---------------------------------------------------------------

func ruleDumpSkip(w *World, r *Report) {
	const rule = "R-DUMPSKIP"
	r.Rule(rule, "Dump's child enumeration collects index i only if kind(e.nodes[i]) != event", 1)
	k := loadNodeKinds(w)
	dump := w.MustFn(r, rule, "Dump")
	if dump == nil {
		return
	}
	found := false
	for _, an := range dump.AnonFuncs {
		EachInstr(an, func(in ssa.Instruction) {
			c, ok := in.(*ssa.Call)
			if !ok || calleeFullName(&c.Call) != "builtin.append" || len(c.Call.Args) != 2 {
				return
			}
			if sl, ok := c.Type().Underlying().(*types.Slice); !ok || !types.Identical(sl.Elem(), types.Typ[types.Int16]) {
				return
			}
			// the appended element is the loop index over e.parentIdx
			found = true
			poss := k.kindsPossibleAt(c.Block(), func(n ssa.Value) bool {
				addr, ok := isLoad(n)
				if !ok {
					return false
				}
				ia, ok := addr.(*ssa.IndexAddr)
				if !ok {
					return false
				}
				_, okn := loadOfField(ia.X, "Expr", "nodes")
				return okn
			})
			r.Check(poss != nil && !poss[k.event], rule, w.InstrPos(c), w.Name(an), describe(c), "a child index is collected only for a node whose kind is not event", "event nodes are enumerated as children: the decompiled text depends on event mode")
			// nothing else filters children: the dominating conditions are the loop guard, the parent-index match and the kind test
			var extra []string
			var loopHdr *ssa.BasicBlock
			if acc, isPhi := c.Call.Args[0].(*ssa.Phi); isPhi {
				loopHdr = acc.Block()
			}
			for _, f := range factsAt(c.Block()) {
				if _, _, _, okk := k.kindTest(f.Cond); okk {
					continue
				}
				// decided before the enumeration starts: holds for every candidate alike, selects none
				if loopHdr != nil && f.If != nil && (f.If.Parent() != loopHdr.Parent() || (f.If.Block() != loopHdr && f.If.Block().Dominates(loopHdr))) {
					continue
				}
				if bo, ok := f.Cond.(*ssa.BinOp); ok {
					if bo.Op == token.LSS {
						if _, okl := lenArg(bo.Y); okl {
							continue // loop guard
						}
					}
					if bo.Op == token.EQL || bo.Op == token.NEQ {
						isParent := func(v ssa.Value) bool {
							addr, ok := isLoad(v)
							if !ok {
								return false
							}
							ia, ok := addr.(*ssa.IndexAddr)
							if !ok {
								return false
							}
							_, okp := loadOfField(ia.X, "Expr", "parentIdx")
							return okp
						}
						if isParent(bo.X) || isParent(bo.Y) {
							continue
						}
					}
				}
				extra = append(extra, describe(f.Cond))
			}
			r.Check(len(extra) == 0, rule, w.InstrPos(c), w.Name(an), "conditions that select a child", "only the parent index and the node kind decide whether a node is a child", fmt.Sprintf("children are also filtered by %v: operands that happen to match are dropped from the decompiled text", extra))
		})
	}
	if !found {
		r.Unresolved(rule, "child enumeration of Dump not found")
	}
}

// ---- R-EVGATE -----------------------------------------------------------------

func ruleEvGate(w *World, r *Report) {
	const rule = "R-EVGATE"
	r.Rule(rule, "event nodes and wrappers are installed only under CompileOptions[ReportEvent] || CompileOptions[Debug]", 1)
	ev := w.Fn("calAndSetEventNode")
	if ev == nil {
		r.Unresolved(rule, "calAndSetEventNode not found")
		return
	}
	n := 0
	for _, fn := range w.Funcs {
		EachInstr(fn, func(in ssa.Instruction) {
			c, ok := in.(*ssa.Call)
			if !ok || c.Call.StaticCallee() != ev {
				return
			}
			n++
			isOpt := func(v ssa.Value) bool {
				if lk, ok := v.(*ssa.Lookup); ok {
					if _, okm := loadOfField(lk.X, "Config", "CompileOptions"); okm {
						if s, oks := constString(unwrapConv(lk.Index)); oks && (s == "report_event" || s == "debug") {
							return true
						}
					}
				}
				return false
			}
			var check func(facts []Fact) bool
			check = func(facts []Fact) bool {
				for _, f := range facts {
					if !f.Truth {
						continue
					}
					if isOpt(f.Cond) {
						return true
					}
					// the disjunction computed into a variable first: every way the value can be true is one of the options
					if p, ok := f.Cond.(*ssa.Phi); ok && len(p.Edges) >= 2 {
						all := true
						for i, e := range p.Edges {
							if isOpt(e) {
								continue
							}
							if b, okb := constBool(e); okb {
								if !b {
									continue // this way the value is false: the call is not reached
								}
								pred := p.Block().Preds[i]
								if check(append(factsAtLocal(pred), factsAtEdgeTo(pred, p.Block())...)) {
									continue
								}
							}
							all = false
						}
						if all {
							return true
						}
					}
				}
				return false
			}
			good := check(factsAt(c.Block())) || everyEdgeInto(c.Block(), check)
			r.Check(good, rule, w.InstrPos(c), w.Name(fn), describe(c), "reached only with ReportEvent or Debug enabled", "event instrumentation can be installed without the option: programs change shape (and block on a nil channel)")
		})
	}
	if n == 0 {
		r.Unresolved(rule, "calAndSetEventNode is never called")
	}
}

var c12Witnesses = append(wrapAllWitnesses, []Witness{
	{Name: "loop-event-stack-copy-leaves-after-eight", Rule: "R-EVSTACK", Edits: []Edit{
		{File: "engine.go", Old: "	for i := int16(0); i <= osTop; i++ {\n		stack[i] = os[i]\n	}", New: "	for i := int16(0); i <= osTop; i++ {\n		if i > 7 {\n			break\n		}\n		stack[i] = os[i]\n	}"}}},
	{Name: "loop-event-stack-misses-top", Rule: "R-EVSTACK", Edits: []Edit{
		{File: "engine.go", Old: "	for i := int16(0); i <= osTop; i++ {\n		stack[i] = os[i]\n	}", New: "	for i := int16(0); i < osTop; i++ {\n		stack[i] = os[i]\n	}"}}},
	{Name: "benign-loop-event-stack-with-copy", Rule: "R-EVSTACK", Benign: true, Edits: []Edit{
		{File: "engine.go", Old: "	for i := int16(0); i <= osTop; i++ {\n		stack[i] = os[i]\n	}", New: "	copy(stack, os[:osTop+1])"}}},
	{Name: "op-event-params-copied-after-the-call", Rule: "R-WRAPID", Edits: []Edit{
		{File: "compiler.go", Old: "			args := append([]Value(nil), params...)\n			res, err = op(ctx, params)", New: "			res, err = op(ctx, params)\n			args := append([]Value(nil), params...)"}}},
	{Name: "benign-op-event-params-make-copy", Benign: true, Edits: []Edit{
		{File: "compiler.go", Old: "			args := append([]Value(nil), params...)\n			res, err = op(ctx, params)", New: "			args := make([]Value, len(params))\n			copy(args, params)\n			res, err = op(ctx, params)"}}},
	{Name: "op-event-aliases-params", Rule: "R-EVFRESH", Edits: []Edit{
		{File: "compiler.go", Old: "			args := append([]Value(nil), params...)\n", New: "			args := params\n"}}},
	{Name: "loop-event-aliases-stack", Rule: "R-EVFRESH", Edits: []Edit{
		{File: "engine.go", Old: "		Stack:     stack,\n		Data:      data,", New: "		Stack:     os[:osTop+1],\n		Data:      data,"}}},
	{Name: "loop-event-copy-only-when-small", Rule: "R-EVFRESH", Edits: []Edit{
		{File: "engine.go", Old: "	stack := make([]Value, osTop+1)\n	for i := int16(0); i <= osTop; i++ {\n		stack[i] = os[i]\n	}", New: "	stack := os[:osTop+1]\n	if osTop < 64 {\n		stack = make([]Value, osTop+1)\n		for i := int16(0); i <= osTop; i++ {\n			stack[i] = os[i]\n		}\n	}"}}},
	{Name: "wrapper-swallows-error", Rule: "R-WRAPID", Edits: []Edit{
		{File: "compiler.go", Old: "					Err:      err,\n				},\n			}\n			return\n		}", New: "					Err:      err,\n				},\n			}\n			return res, nil\n		}"}}},
	{Name: "wrapper-passes-copy-to-operator", Rule: "R-WRAPID", Edits: []Edit{
		{File: "compiler.go", Old: "			res, err = op(ctx, params)\n			e.EventChan <- Event{", New: "			res, err = op(ctx, params[:len(params):len(params)][:0])\n			e.EventChan <- Event{"}}},
	{Name: "event-arm-pops-stack", Rule: "R-EVNOOP", Edits: []Edit{
		{File: "engine.go", Old: "		default:\n			reportEvent(e, os, osTop, curt.value)\n			continue\n		}\n		if b, ok := res.(bool); ok {", New: "		default:\n			reportEvent(e, os, osTop, curt.value)\n			if osTop > 8 {\n				osTop--\n			}\n			continue\n		}\n		if b, ok := res.(bool); ok {"}}},
	{Name: "tryeval-event-arm-clears-slot", Rule: "R-EVNOOP", Edits: []Edit{
		{File: "engine.go", Old: "		default:\n			reportEvent(e, os, osTop, curt.value)\n			continue\n		}\n\n		for matchesShortCircuit(res, curt) {", New: "		default:\n			reportEvent(e, os, osTop, curt.value)\n			os[osTop+1] = nil\n			continue\n		}\n\n		for matchesShortCircuit(res, curt) {"}}},
	{Name: "dump-counts-event-nodes", Rule: "R-DUMPSKIP", Edits: []Edit{
		{File: "util.go", Old: "			if p == idx && e.nodes[i].getNodeType() != event {", New: "			if p == idx && e.nodes[i].getNodeType() != cond {"}}},
	{Name: "dump-skips-children-by-value", Rule: "R-DUMPSKIP", Edits: []Edit{
		{File: "util.go", Old: "			if p == idx && e.nodes[i].getNodeType() != event {", New: "			if p == idx && e.nodes[i].getNodeType() != event && e.nodes[i].value != \"fi\" {"}}},
	{Name: "events-installed-for-infix", Rule: "R-EVGATE", Edits: []Edit{
		{File: "compiler.go", Old: "	if cc.CompileOptions[ReportEvent] || cc.CompileOptions[Debug] {", New: "	if cc.CompileOptions[ReportEvent] || cc.CompileOptions[Debug] || cc.CompileOptions[InfixNotation] {"}}},
	{Name: "benign-snapshot-with-copy", Benign: true, Edits: []Edit{
		{File: "engine.go", Old: "	stack := make([]Value, osTop+1)\n	for i := int16(0); i <= osTop; i++ {\n		stack[i] = os[i]\n	}", New: "	stack := make([]Value, osTop+1)\n	copy(stack, os)"}}},
	{Name: "benign-wrapper-copy-with-make", Benign: true, Edits: []Edit{
		{File: "compiler.go", Old: "			args := append([]Value(nil), params...)\n", New: "			cp := make([]Value, len(params))\n			copy(cp, params)\n			args := cp\n"}}},
}...)

// ---- R-EVSTACK ----------------------------------------------------------------

// ruleEvStack: the LOOP event shows the whole operand stack — Event.Stack has osTop+1 elements and element i is
// os[i] for every i, filled by copy or by a loop from 0 that only ends past osTop, before the send.
func ruleEvStack(w *World, r *Report) {
	const rule = "R-EVSTACK"
	r.Rule(rule, "the LOOP event's Stack is a copy of os[0..osTop]: osTop+1 elements, element i from os[i], for every i, before the send", 1)
	fn := w.MustFn(r, rule, "reportEvent")
	if fn == nil || len(fn.Params) < 3 {
		return
	}
	name := w.Name(fn)
	var os, osTop ssa.Value
	for _, p := range fn.Params {
		if sl, ok := p.Type().Underlying().(*types.Slice); ok && typeNameOf(sl.Elem()) == "Value" {
			os = p
		}
		if bt, ok := p.Type().Underlying().(*types.Basic); ok && bt.Info()&types.IsInteger != 0 {
			osTop = p
		}
	}
	var send *ssa.Send
	EachInstr(fn, func(in ssa.Instruction) {
		if s, ok := in.(*ssa.Send); ok && isEventChan(s.Chan.Type()) {
			send = s
		}
	})
	if os == nil || osTop == nil || send == nil {
		r.Unresolved(rule, "reportEvent: operand stack, stack pointer or send not found")
		return
	}
	isTopPlus := func(v ssa.Value, k int64) bool { // osTop + k, through integer conversions
		for {
			if cv, ok := v.(*ssa.Convert); ok {
				v = cv.X
				continue
			}
			break
		}
		if k == 0 {
			return v == osTop
		}
		bo, ok := v.(*ssa.BinOp)
		if !ok || bo.Op != token.ADD {
			return false
		}
		x := bo.X
		for {
			if cv, ok := x.(*ssa.Convert); ok {
				x = cv.X
				continue
			}
			break
		}
		c, okc := constInt(bo.Y)
		return okc && c == k && x == osTop
	}
	// the snapshot
	var snap *ssa.MakeSlice
	EachInstr(fn, func(in ssa.Instruction) {
		if ms, ok := in.(*ssa.MakeSlice); ok {
			if sl, oks := ms.Type().Underlying().(*types.Slice); oks && typeNameOf(sl.Elem()) == "Value" {
				snap = ms
			}
		}
	})
	if snap == nil {
		r.Fail(rule, w.InstrPos(send), name, "Event.Stack", "no snapshot of the operand stack is made")
		return
	}
	pos := w.InstrPos(snap)
	if !isTopPlus(snap.Len, 1) {
		r.Fail(rule, pos, name, "make([]Value, "+describe(snap.Len)+")", "the snapshot does not have osTop+1 elements")
		return
	}
	filled, why := false, "the snapshot is not filled from os[0..osTop]"
	for _, ref := range referrers(snap) {
		switch x := ref.(type) {
		case *ssa.Call:
			if calleeFullName(&x.Call) == "builtin.copy" && x.Call.Args[0] == ssa.Value(snap) {
				src := x.Call.Args[1]
				if src == os {
					filled = true // copy stops at len(snapshot) = osTop+1
				} else if sl, ok := src.(*ssa.Slice); ok && sl.X == os && (sl.Low == nil || isZeroConst(sl.Low)) && (sl.High == nil || isTopPlus(sl.High, 1)) {
					filled = true
				} else {
					why = "copied from " + describe(src) + ", not from the bottom of the operand stack"
				}
				if filled && mayFollow(send, x) {
					filled, why = false, "copied after the send"
				}
			}
		case *ssa.IndexAddr:
			if ms, isMS := x.X.(*ssa.MakeSlice); !isMS || ms != snap {
				continue
			}
			// `for i := range stack` / `for i := 0; i < len(stack); i++`
			if h, okR := rangeIndexHeader(x.Index, snap); okR {
				for _, ref2 := range referrers(x) {
					st, okS := ref2.(*ssa.Store)
					if !okS || st.Addr != ssa.Value(x) {
						continue
					}
					addr, okL := isLoad(st.Val)
					sia, okA := addr.(*ssa.IndexAddr)
					if !okL || !okA || sia.X != os || sia.Index != x.Index {
						why = "element i of the snapshot is not os[i]"
						continue
					}
					every := true
					for _, p := range h.Preds {
						if h.Dominates(p) && !st.Block().Dominates(p) {
							every = false
						}
					}
					if !every {
						why = "an iteration can go by without copying its element"
					} else if !edgeDominates(h, 1, send.Block()) {
						why = "the event can be sent before the whole stack was copied (the fill loop can be left early)"
					} else {
						filled = true
					}
				}
				continue
			}
			i, ok := x.Index.(*ssa.Phi)
			if !ok {
				if cv, okc := x.Index.(*ssa.Convert); okc {
					i, ok = cv.X.(*ssa.Phi)
				}
			}
			if !ok {
				continue
			}
			hdr := i.Block()
			zero, step := false, false
			for k, e := range i.Edges {
				if !hdr.Dominates(hdr.Preds[k]) {
					zero = isZeroConst(e)
					continue
				}
				if bo, okb := e.(*ssa.BinOp); okb && bo.Op == token.ADD && bo.X == ssa.Value(i) {
					if c, okc := constInt(bo.Y); okc && c == 1 {
						step = true
						continue
					}
				}
				step = false
			}
			iff, okIf := hdr.Instrs[len(hdr.Instrs)-1].(*ssa.If)
			if !zero || !step || !okIf {
				why = "the fill loop does not count from 0 in steps of one"
				continue
			}
			// the loop goes on while i <= osTop (or i < osTop+1, i < len(snapshot))
			exitEdge := -1
			if cmp, okc := iff.Cond.(*ssa.BinOp); okc && cmp.X == ssa.Value(i) {
				switch {
				case cmp.Op == token.GTR && isTopPlus(cmp.Y, 0):
					exitEdge = 0
				case cmp.Op == token.LEQ && isTopPlus(cmp.Y, 0):
					exitEdge = 1
				case cmp.Op == token.LSS && (isTopPlus(cmp.Y, 1) || isLenOf(cmp.Y, snap)):
					exitEdge = 1
				}
			}
			if exitEdge < 0 {
				why = "the fill loop is not bounded by osTop"
				continue
			}
			for _, ref2 := range referrers(x) {
				st, okS := ref2.(*ssa.Store)
				if !okS || st.Addr != ssa.Value(x) {
					continue
				}
				addr, okL := isLoad(st.Val)
				if !okL {
					why = "an element of the snapshot is not taken from the operand stack"
					continue
				}
				sia, okA := addr.(*ssa.IndexAddr)
				if !okA || sia.X != os || sia.Index != x.Index {
					why = "element i of the snapshot is not os[i]"
					continue
				}
				every := true
				for k := range i.Edges {
					if p := hdr.Preds[k]; hdr.Dominates(p) && !st.Block().Dominates(p) {
						every = false
					}
				}
				if !every {
					why = "an iteration can go by without copying its element"
					continue
				}
				if !edgeDominates(hdr, exitEdge, send.Block()) {
					why = "the event can be sent before the whole stack was copied (the fill loop can be left early)"
					continue
				}
				filled = true
			}
		}
	}
	r.Check(filled, rule, pos, name, "Event.Stack = copy of os[0..osTop]", "osTop+1 elements, element i from os[i], complete before the send", why)
}

func isZeroConst(v ssa.Value) bool {
	for {
		if cv, ok := v.(*ssa.Convert); ok {
			v = cv.X
			continue
		}
		break
	}
	c, ok := constInt(v)
	return ok && c == 0
}
