package main

// C02 — every optimization combination preserves meaning: the structural
// necessary conditions of each pass and of the option/directive plumbing.
// The semantic equivalence itself is not decided.

import (
	"fmt"
	"go/token"
	"sort"
	"strings"

	"golang.org/x/tools/go/ssa"
)

func init() {
	register(&Property{
		ID:    "C02",
		Level: "other",
		Explanation: "C02 as a whole (equal values for all programs x inputs x 16 optimisation subsets) is a run-time relation and is NOT decided. What is decided are structural necessary conditions, each of which must hold for any subset to preserve meaning: " +
			"(R-FLATTEN) ReduceNesting replaces root.children only for a bool operator, only after a complete pass over its children, and the replacement is built by appending, for every child in order, either the child itself (a constant or variable leaf) or the child's own children when the child is a bool operator of the same kind as the parent (isBoolOpNode(child) and isAndOpNode(child) == isAndOpNode(parent)); every other path leaves the function without writing: operands are never dropped, duplicated, reordered or merged across and/or; " +
			"(R-OPTGATE) optimize runs, for each element of the optimizations list in order, the optimizer registered under that very option, exactly when the option is enabled or absent from CompileOptions, on its own (config, tree); " +
			"(R-DIREQ) sibling agreement between the Optimizations option and the ;;;; directive parser: both write CompileOptions[opt] = flag for every element of the optimizations list when the switch-all option is named, and for a single named option only under optimizerMap[opt] != nil — 'set programmatically or by directive comments, which must be equivalent'; " +
			"plus the per-pass conditions decided under C10 (fold only constants through operators approved as stateless, only on success: R-FOLDGATE, R-FOLDOK, R-FOLDCONST, R-STATELESS), C16 (reordering only permutes and/or operands, stably: R-SORTGATE, R-STABLE, R-LESS) and C01 (fast-operator marking only for operators with exactly two leaf children: R-KIND), re-run here because each is a necessary condition of C02 too. " +
			"(R-OPRESOLVE) the parser consults Config.OperatorMap only when the built-in table has no entry for the name, and the folder applies builtinOperators[name] for a built-in stateless name: the function folded at compile time is the function the node runs. (R-CALLSITES, R-FASTORDER, R-STEPRES, R-STEPARGS, R-FASTLAYOUT, R-FASTPROXY, shared with C03/C04) FastEvaluation turns a two-leaf operator into the evaluator's fast arm: that arm fetches each of the two inlined operands itself, once, with that operand's own keys, and hands them to the node's operator in source order, as the plain operator arm does. NOT decided: that the re-derived jump/stack tables of the rewritten tree denote the same evaluation (table values), hence value equality across subsets.",
		Run:       runC02,
		Witnesses: c02Witnesses,
	})
}

func runC02(w *World, r *Report) {
	rulePassOrder(w, r)
	ruleFlatten(w, r)
	ruleOptGate(w, r)
	ruleDirEq(w, r)
	// per-pass necessary conditions shared with C10 / C16 / C01
	runC10Core(w, r)
	if fn := w.Fn("optimizeReordering"); fn != nil {
		set := w.Closure(w.VTA, []*ssa.Function{fn}, true)
		ruleSortGate(w, r, fn, set)
	}
	ruleKind(w, r)
	rulePairBool(w, r)
	ruleOpResolve(w, r)
	// flattening can raise an operand count: the limits check must see the optimised tree
	ruleOrder(w, r)
	// Compile works on a copy of the Config: what decides a pass (stateless list, options, costs) must survive the copy unshared
	ruleCopyAll(w, r)
	// ... and Compile must not write the caller's Config at all: a `;;;;` directive applied to the caller's own option map
	// changes which passes every later compilation with that Config runs (directive and option stop being equivalent)
	ruleConfTaint(w, r)
	// FastEvaluation replaces a two-leaf operator by the evaluator's fast arm: that arm must fetch exactly the two inlined
	// operands and hand them over in order, as the plain operator arm does for the same nodes (both evaluators)
	runC03Sites(w, r)
	ruleStepArgs(w, r, ruleStepRes(w, r, "(*Expr).Eval"))
	ruleFastLayout(w, r)
	ruleFastProxy(w, r)
}

// runC10Core re-runs the folding rules of C10.
func runC10Core(w *World, r *Report) {
	const rule = "R-FOLDGATE"
	r.Rule(rule, "every dynamic Operator call in the compile closure takes its function from isStatelessOp's result #1 and is dominated by result #0 == true of the same call", 1)
	_, set, _ := compileClosure(w, r, rule)
	if set == nil {
		return
	}
	isl := w.Fn("isStatelessOp")
	for _, fn := range w.SortedFuncs(set) {
		EachInstr(fn, func(in ssa.Instruction) {
			c, ok := in.(*ssa.Call)
			if !ok || !isOperatorCall(w, &c.Call) {
				return
			}
			ex, okx := c.Call.Value.(*ssa.Extract)
			var src *ssa.Call
			if okx && ex.Index == 1 {
				src, _ = ex.Tuple.(*ssa.Call)
			}
			gated := false
			if src != nil && isl != nil && src.Call.StaticCallee() == isl {
				for _, f := range factsAt(c.Block()) {
					if e0, ok := f.Cond.(*ssa.Extract); ok && e0.Tuple == ssa.Value(src) && e0.Index == 0 && f.Truth {
						gated = true
					}
				}
			}
			if r.Check(gated, rule, w.InstrPos(c), w.Name(fn), describe(c), "approved by isStatelessOp", "an operator runs at compile time without the stateless approval: its result is baked into some optimisation subsets only") {
				ruleFoldOK(w, r, c)
				ruleFoldConst(w, r, c)
			}
		})
	}
	ruleStateless(w, r, isl)
}

// ---- R-FLATTEN ----------------------------------------------------------------

func ruleFlatten(w *World, r *Report) {
	const rule = "R-FLATTEN"
	r.Rule(rule, "ReduceNesting rebuilds the operand list of a bool operator by appending, for every child in order, the leaf child itself or the operands of a same-kind bool child; otherwise it writes nothing", 3)
	fn := w.MustFn(r, rule, "optimizeReduceNesting")
	if fn == nil || len(fn.Params) != 2 {
		return
	}
	k := loadNodeKinds(w)
	name := w.Name(fn)
	root := ssa.Value(fn.Params[1])
	isRootChildren := func(v ssa.Value) bool {
		base, ok := loadOfField(v, "astNode", "children")
		return ok && base == root
	}
	isRootNode := func(v ssa.Value) bool {
		base, ok := loadOfField(v, "astNode", "node")
		return ok && base == root
	}
	var stores []*ssa.Store
	EachInstr(fn, func(in ssa.Instruction) {
		if st, ok := in.(*ssa.Store); ok {
			if tn, fld, _, okf := fieldOf(st.Addr); okf && tn == "astNode" && (fld == "children" || fld == "node") {
				stores = append(stores, st)
			}
		}
	})
	if len(stores) != 1 {
		r.Fail(rule, w.Pos(fn.Pos()), name, fmt.Sprintf("%d writes to the tree", len(stores)), "exactly one write (root.children = flattened list) is expected")
		return
	}
	st := stores[0]
	_, fld, base, _ := fieldOf(st.Addr)
	if fld != "children" || base != root {
		r.Fail(rule, w.InstrPos(st), name, describe(st.Addr)+" = "+describe(st.Val), "the pass writes something other than its own node's operand list")
		return
	}
	// gate: isBoolOpNode(root.node)
	gate := false
	for _, f := range factsAt(st.Block()) {
		if c, callee := staticCallee(f.Cond); c != nil && callee != nil && nm(callee) == "isBoolOpNode" && f.Truth && isRootNode(c.Call.Args[0]) {
			gate = true
		}
	}
	r.Check(gate, rule, w.InstrPos(st), name, "root.children = …", "only for an and/or node", "operands of an operator that is not and/or can be rewritten")
	acc, ok := st.Val.(*ssa.Phi)
	if !ok {
		r.Fail(rule, w.InstrPos(st), name, describe(st.Val), "the new operand list is not accumulated in a loop over the old one")
		return
	}
	hdr := acc.Block()
	// the loop ranges over root.children completely and the store is on its exit edge
	var idx ssa.Value
	full := false
	if iff, okIf := hdr.Instrs[len(hdr.Instrs)-1].(*ssa.If); okIf {
		if cmp, okc := iff.Cond.(*ssa.BinOp); okc && cmp.Op == token.LSS {
			if x, okl := lenArg(cmp.Y); okl && isRootChildren(x) {
				if _, okh := rangeIndexHeader(cmp.X, x); okh {
					idx = cmp.X
					full = edgeDominates(hdr, 1, st.Block())
				}
			}
		}
	}
	r.Check(full, rule, w.InstrPos(st), name, "completion", "the list is installed only after every child was processed (exit edge of a full range over root.children)", "the list can be installed before every child was looked at: operands are dropped")
	if idx == nil {
		return
	}
	child := func(v ssa.Value) bool { // root.children[idx]
		addr, ok := isLoad(v)
		if !ok {
			return false
		}
		ia, ok := addr.(*ssa.IndexAddr)
		return ok && ia.Index == idx && isRootChildren(ia.X)
	}
	childNode := func(v ssa.Value) bool { // child.node
		base, ok := loadOfField(v, "astNode", "node")
		return ok && child(base)
	}
	// every back edge carries exactly one append of the accumulator
	for i, e := range acc.Edges {
		pred := hdr.Preds[i]
		if !hdr.Dominates(pred) {
			r.Check(isNilConst(e), rule, w.InstrPos(acc), name, "initial list "+describe(e), "starts empty", "the flattened list does not start empty")
			continue
		}
		call, okc := e.(*ssa.Call)
		if !okc || calleeFullName(&call.Call) != "builtin.append" || len(call.Call.Args) != 2 || call.Call.Args[0] != ssa.Value(acc) {
			r.Fail(rule, w.InstrPos(pred.Instrs[len(pred.Instrs)-1]), name, "loop continues with "+describe(e), "an iteration continues without appending to the list built so far: that child is dropped (or the list is replaced)")
			continue
		}
		facts := append(factsAt(call.Block()), factsAtEdgeTo(pred, hdr)...)
		arg := call.Call.Args[1]
		pos := w.InstrPos(call)
		// (a) the child itself
		if sl, oks := arg.(*ssa.Slice); oks {
			if al, oka := sl.X.(*ssa.Alloc); oka {
				one := false
				for _, ref := range referrers(al) {
					if ia, ok := ref.(*ssa.IndexAddr); ok {
						for _, ref2 := range referrers(ia) {
							if s2, ok := ref2.(*ssa.Store); ok && s2.Addr == ssa.Value(ia) && child(s2.Val) {
								one = true
							}
						}
					}
				}
				leaf := func(fs []Fact) bool {
					return someFact(fs, func(f Fact) bool {
						n, kc, isEq, okk := k.kindTest(f.Cond)
						return okk && childNode(n) && isEq == f.Truth && (kc == k.constant || kc == k.variable)
					})
				}
				isLeaf := leaf(facts) || everyEdgeInto(call.Block(), leaf)
				r.Check(one && isLeaf, rule, pos, name, "append(list, child)", "the child itself is kept, only when it is a constant or variable leaf", "a child that is not a leaf is kept as is without the whole pass giving up, or something other than the child is appended")
				continue
			}
		}
		// (b) the child's children
		if base, okb := loadOfField(arg, "astNode", "children"); okb && child(base) {
			var isBool, sameKind bool
			for _, f := range facts {
				if c, callee := staticCallee(f.Cond); c != nil && callee != nil && nm(callee) == "isBoolOpNode" && f.Truth && childNode(c.Call.Args[0]) {
					isBool = true
				}
				if bo, ok := f.Cond.(*ssa.BinOp); ok && ((bo.Op == token.EQL) == f.Truth) && (bo.Op == token.EQL || bo.Op == token.NEQ) {
					cx, fx := staticCallee(bo.X)
					cy, fy := staticCallee(bo.Y)
					if cx != nil && cy != nil && fx != nil && fy != nil && fx == fy && (nm(fx) == "isAndOpNode" || nm(fx) == "isOrOpNode") {
						a, b := cx.Call.Args[0], cy.Call.Args[0]
						if (childNode(a) && isRootNode(b)) || (childNode(b) && isRootNode(a)) {
							sameKind = true
						}
					}
				}
			}
			r.Check(isBool && sameKind, rule, pos, name, "append(list, child.children...)", "a nested bool operator's operands are spliced in only when it is of the same kind as its parent", "operands are merged across different operators (an `or` inside an `and`, or a non-bool operator): the meaning changes")
			continue
		}
		r.Fail(rule, pos, name, "append(list, "+describe(arg)+")", "something other than the child or the child's operands is appended")
	}
}

// ---- R-OPTGATE ----------------------------------------------------------------

func ruleOptGate(w *World, r *Report) {
	const rule = "R-OPTGATE"
	r.Rule(rule, "optimize runs optimizerMap[opt](cc, root) for each opt of the optimizations list, exactly when CompileOptions[opt] is true or absent", 1)
	fn := w.MustFn(r, rule, "optimize")
	if fn == nil || len(fn.Params) != 2 {
		return
	}
	n := 0
	EachInstr(fn, func(in ssa.Instruction) {
		c, ok := in.(*ssa.Call)
		if !ok || !isDynamicCall(&c.Call) {
			return
		}
		n++
		pos := w.InstrPos(c)
		lk, okl := c.Call.Value.(*ssa.Lookup)
		fromMap := false
		var opt ssa.Value
		if okl {
			if addr, ok := isLoad(lk.X); ok {
				if g, ok := addr.(*ssa.Global); ok && nm(g) == "optimizerMap" {
					fromMap = true
					opt = lk.Index
				}
			}
		}
		// opt ranges over the optimizations list
		ranged := false
		if opt != nil {
			if addr, ok := isLoad(opt); ok {
				if ia, ok := addr.(*ssa.IndexAddr); ok {
					if a2, ok := isLoad(ia.X); ok {
						if g, ok := a2.(*ssa.Global); ok && nm(g) == "optimizations" {
							if _, okh := rangeIndexHeader(ia.Index, ia.X); okh {
								ranged = true
							}
						}
					}
				}
			}
		}
		argsOK := len(c.Call.Args) == 2 && c.Call.Args[0] == ssa.Value(fn.Params[0]) && c.Call.Args[1] == ssa.Value(fn.Params[1])
		// gate: every edge into the call block carries enabled == true or exist == false for CompileOptions[opt]
		gate := func(fs []Fact) bool {
			for _, f := range fs {
				ex, ok := f.Cond.(*ssa.Extract)
				if !ok {
					continue
				}
				l2, ok := ex.Tuple.(*ssa.Lookup)
				if !ok || l2.Index != opt {
					continue
				}
				if base, okb := loadOfField(l2.X, "Config", "CompileOptions"); !okb || base != ssa.Value(fn.Params[0]) {
					continue
				}
				if (ex.Index == 0 && f.Truth) || (ex.Index == 1 && !f.Truth) {
					return true
				}
			}
			return false
		}
		gated := gate(factsAt(c.Block())) || everyEdgeInto(c.Block(), gate)
		// and conversely: the skip edge carries enabled == false && exist == true
		r.Check(fromMap && ranged && argsOK && gated, rule, pos, "optimize", describe(c), "the optimizer registered under the ranged option, on (cc, root), only when the option is enabled or absent", "a pass can run although its option is switched off (or a different pass runs): the subset semantics of options/directives is broken")
	})
	if n != 1 {
		r.Unresolved(rule, fmt.Sprintf("%d dynamic calls in optimize (want 1)", n))
	}
}

// ---- R-DIREQ ------------------------------------------------------------------

// optionWrites summarises the writes of CompileOptions in a function:
//
//	"all"        key ranges over the optimizations list
//	"one:mapped" a single key, under optimizerMap[key] != nil
//	"one"        a single key without that guard
func optionWrites(w *World, fn *ssa.Function) map[string]bool {
	out := map[string]bool{}
	EachInstr(fn, func(in ssa.Instruction) {
		mu, ok := in.(*ssa.MapUpdate)
		if !ok {
			return
		}
		if _, okf := loadOfField(mu.Map, "Config", "CompileOptions"); !okf {
			return
		}
		key := mu.Key
		// ranged over optimizations?
		if addr, ok := isLoad(key); ok {
			if ia, ok := addr.(*ssa.IndexAddr); ok {
				src := ia.X
				// directly the global, or a phi / cell that may hold it
				if mayBeGlobal(src, "optimizations", 0) {
					if _, okh := rangeIndexHeader(ia.Index, ia.X); okh {
						// guarded by optimizerMap[key] != nil ?
						if mappedGuard(mu, key) {
							out["ranged:mapped"] = true
						} else {
							out["ranged"] = true
						}
						return
					}
				}
			}
		}
		if mappedGuard(mu, key) {
			out["one:mapped"] = true
		} else {
			out["one"] = true
		}
	})
	return out
}

func mayBeGlobal(v ssa.Value, name string, depth int) bool {
	if depth > 4 {
		return false
	}
	if addr, ok := isLoad(v); ok {
		if g, ok := addr.(*ssa.Global); ok && g.Name() == name {
			return true
		}
		if cell := resolveCell(addr); cell != nil {
			for _, st := range cellStores(cell) {
				if mayBeGlobal(st.Val, name, depth+1) {
					return true
				}
			}
		}
	}
	if p, ok := v.(*ssa.Phi); ok {
		for _, e := range p.Edges {
			if mayBeGlobal(e, name, depth+1) {
				return true
			}
		}
	}
	return false
}

func mappedGuard(mu *ssa.MapUpdate, key ssa.Value) bool {
	for _, f := range factsAt(mu.Block()) {
		x, isNil, ok := factIsNil(f)
		if !ok || isNil {
			continue
		}
		if lk, ok := x.(*ssa.Lookup); ok && (lk.Index == key || sameValueShape(lk.Index, key)) {
			if addr, ok := isLoad(lk.X); ok {
				if g, ok := addr.(*ssa.Global); ok && nm(g) == "optimizerMap" {
					return true
				}
			}
		}
	}
	return false
}

func ruleDirEq(w *World, r *Report) {
	const rule = "R-DIREQ"
	r.Rule(rule, "the Optimizations option and the directive parser write CompileOptions in the same way: every element of the optimizations list for the switch-all option, a single option only if it has an optimizer", 2)
	outer := w.GlobalFuncValue("Optimizations")
	pc := w.MustFn(r, rule, "(*parser).parseConfig")
	if outer == nil || len(outer.AnonFuncs) == 0 || pc == nil {
		r.Unresolved(rule, "Optimizations option or parseConfig not found")
		return
	}
	opt := optionWrites(w, outer.AnonFuncs[0])
	dir := optionWrites(w, pc)
	show := func(m map[string]bool) string {
		var ks []string
		for k := range m {
			ks = append(ks, k)
		}
		sort.Strings(ks)
		return strings.Join(ks, " ")
	}
	// the option: one loop over `opts`, which is replaced by the optimizations list for the switch-all case, each write under optimizerMap[opt] != nil
	okOpt := (opt["ranged:mapped"] || (opt["ranged"] && opt["one:mapped"])) && !opt["one"]
	r.Check(okOpt, rule, w.Pos(outer.Pos()), "Optimizations", "option writes: "+show(opt), "all optimizations for the switch-all case; a named option only when it has an optimizer", "the programmatic option can set an option that has no optimizer, or does not cover the whole list")
	okDir := dir["ranged"] || dir["ranged:mapped"]
	okDir = okDir && dir["one:mapped"] && !dir["one"]
	r.Check(okDir, rule, w.Pos(pc.Pos()), w.Name(pc), "directive writes: "+show(dir), "all optimizations for `optimize`; a named option only when it has an optimizer", "the directive parser sets options differently from the Optimizations option: directives and options are no longer equivalent")
	// both write the flag they were given (the bool parsed / passed), not a constant
	for _, fn := range []*ssa.Function{outer.AnonFuncs[0], pc} {
		constWrite := false
		EachInstr(fn, func(in ssa.Instruction) {
			if mu, ok := in.(*ssa.MapUpdate); ok {
				if _, okf := loadOfField(mu.Map, "Config", "CompileOptions"); okf {
					if _, isC := mu.Value.(*ssa.Const); isC {
						constWrite = true
					}
				}
			}
		})
		r.Check(!constWrite, rule, w.Pos(fn.Pos()), w.Name(fn), "value written", "the flag that was passed / parsed", "a constant is written instead of the requested flag")
	}
}

var c02Witnesses = append(wave3WitnessesC02, []Witness{
	{Name: "flatten-merges-or-into-and", Rule: "R-FLATTEN", Edits: []Edit{
		{File: "compiler.go", Old: "		if isAndOpNode(cn) == rootOpType {\n			children = append(children, child.children...)\n			continue\n		}\n		return", New: "		if isAndOpNode(cn) == rootOpType || len(child.children) == 1 {\n			children = append(children, child.children...)\n			continue\n		}\n		return"}}},
	{Name: "flatten-drops-non-bool-children", Rule: "R-FLATTEN", Edits: []Edit{
		{File: "compiler.go", Old: "		if !isBoolOpNode(cn) {\n			return\n		}\n		if isAndOpNode(cn) == rootOpType {", New: "		if !isBoolOpNode(cn) {\n			continue\n		}\n		if isAndOpNode(cn) == rootOpType {"}}},
	{Name: "flatten-keeps-operator-children-as-leaves", Rule: "R-FLATTEN", Edits: []Edit{
		{File: "compiler.go", Old: "		if typ := cn.getNodeType(); typ == constant || typ == variable {\n			children = append(children, child)\n			continue\n		}\n		if !isBoolOpNode(cn) {", New: "		if typ := cn.getNodeType(); typ == constant || typ == variable || typ == cond {\n			children = append(children, child)\n			continue\n		}\n		if !isBoolOpNode(cn) {"}}},
	{Name: "flatten-every-operator", Rule: "R-FLATTEN", Edits: []Edit{
		{File: "compiler.go", Old: "	n := root.node\n	if !isBoolOpNode(n) {\n		return\n	}\n\n	var children []*astNode", New: "	n := root.node\n	if !isBoolOpNode(n) && n.getNodeType() != operator {\n		return\n	}\n\n	var children []*astNode"}}},
	{Name: "disabled-pass-still-runs", Rule: "R-OPTGATE", Edits: []Edit{
		{File: "compiler.go", Old: "		if enabled || !exist {\n			optimizerMap[opt](cc, root)\n		}", New: "		if enabled || !exist || opt == ReduceNesting {\n			optimizerMap[opt](cc, root)\n		}"}}},
	{Name: "directive-sets-unknown-option", Rule: "R-DIREQ", Edits: []Edit{
		{File: "parser.go", Old: "			case optimizerMap[option] != nil:\n				p.conf.CompileOptions[option] = enabled", New: "			case optimizerMap[option] != nil || option == InfixNotation:\n				p.conf.CompileOptions[option] = enabled"}}},
	{Name: "directive-optimize-skips-reordering", Rule: "R-DIREQ", Edits: []Edit{
		{File: "parser.go", Old: "				for _, opt := range optimizations {\n					p.conf.CompileOptions[opt] = enabled\n				}", New: "				for _, opt := range optimizations[:3] {\n					p.conf.CompileOptions[opt] = enabled\n				}"}}},
	{Name: "benign-flatten-positive-kind-test", Benign: true, Edits: []Edit{
		{File: "compiler.go", Old: "		if !isBoolOpNode(cn) {\n			return\n		}\n		if isAndOpNode(cn) == rootOpType {\n			children = append(children, child.children...)\n			continue\n		}\n		return", New: "		if isBoolOpNode(cn) && rootOpType == isAndOpNode(cn) {\n			children = append(children, child.children...)\n			continue\n		}\n		return"}}},
}...)
