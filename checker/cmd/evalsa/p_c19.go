package main

// C19 — version and date encodings preserve order.

import (
	"fmt"
	"go/token"
	"math/big"
	"sort"
	"strings"

	"golang.org/x/tools/go/ssa"
)

func init() {
	register(&Property{
		ID:    "C19",
		Level: "other",
		Explanation: "Decides the constant-agreement and time-zone clauses: (R-VERCONST) from versionConvert.execute are extracted the radix R (every constant the accumulator is multiplied by; all equal), the largest admitted component B-1 (bounds proven by the branch facts at the accumulation), the admitted length range [lo, hi] (bounds proven at the conversion of the second parameter) and the default lengths of the operator table; the oracle is B <= R (no component carries into its neighbour, which is exactly what breaks order at 9999/10000), lo >= 1, every default in [lo, hi], R^hi - 1 <= MaxInt64 (no overflow), the accumulation is acc*R + component for present components and acc*R for missing ones, over i = 0..validLen-1 in order, and a component that does not parse returns an error; " +
			"(R-UTC) the only time-parsing callee of timeConvert.execute is time.Parse (UTC when the layout has no zone; not ParseInLocation, no time.Local), the value returned is (time.Time).Unix of that parse, and the parse error is returned, not dropped — the sandbox runs in UTC, so a local-zone mutant passes every test here; (R-TIMEMODES) every mode a table entry constructs is handled by the switch, the default layouts are the documented ones, and the layout handed to time.Parse is parameter 2 exactly in the arities/modes that accept one (custom layouts honoured), else the entry's own layout. " +
			"Components are parsed with strconv.ParseInt(_, 10, _) (base clause of R-VERCONST). NOT decided: the order relation itself over all pairs (arithmetic on those constants, stated not mechanised beyond them); negative components (outside the stated domain). Round 2: the fold rules of C10 shared (literals are folded at compile time).",
		Run:       runC19,
		Witnesses: c19Witnesses,
	})
}

func runC19(w *World, r *Report) {
	// version and date literals are folded at compile time: the folded value must be the operator applied to these
	// very arguments (fold only through the approved call, on success, no cache in between)
	runC10Core(w, r)
	ruleVerConst(w, r)
	ruleUTC(w, r)
	ruleTimeModes(w, r)
}

func ruleVerConst(w *World, r *Report) {
	const rule = "R-VERCONST"
	r.Rule(rule, "version encoding constants are mutually consistent and overflow-free", 7)
	fn := w.MustFn(r, rule, "(versionConvert).execute")
	if fn == nil {
		return
	}
	name := w.Name(fn)
	params := paramsParam(fn)
	pos := w.Pos(fn.Pos())
	// radix
	radices := map[int64]bool{}
	var muls []*ssa.BinOp
	EachInstr(fn, func(in ssa.Instruction) {
		bo, ok := in.(*ssa.BinOp)
		if !ok || bo.Op != token.MUL {
			return
		}
		if c, okc := constInt(bo.Y); okc {
			radices[c] = true
			muls = append(muls, bo)
		} else if c, okc := constInt(bo.X); okc {
			radices[c] = true
			muls = append(muls, bo)
		}
	})
	var R int64
	if len(radices) == 1 {
		for c := range radices {
			R = c
		}
	}
	r.Check(len(radices) == 1 && R > 1 && len(muls) >= 2, rule, pos, name, fmt.Sprintf("radix constants %v at %d multiplication(s)", sortedInts(radices), len(muls)), "one radix, used both when a component is present and when it is padded", "the accumulator is multiplied by different constants (present vs missing component), or not at all: encodings of different lengths are not comparable")

	// accumulation: acc*R + v where v is the parsed component
	var v ssa.Value
	var parse *ssa.Call
	EachInstr(fn, func(in ssa.Instruction) {
		c, ok := in.(*ssa.Call)
		if ok && calleeFullName(&c.Call) == "strconv.ParseInt" {
			parse = c
			for _, ref := range referrers(c) {
				if ex, ok := ref.(*ssa.Extract); ok && ex.Index == 0 {
					v = ex
				}
			}
		}
	})
	if parse == nil || v == nil {
		r.Unresolved(rule, "no strconv.ParseInt of a component")
		return
	}
	// components are decimal: base 10, not auto-detected (010 would be octal, 0x1F accepted)
	if len(parse.Call.Args) == 3 {
		base, okb := constInt(parse.Call.Args[1])
		r.Check(okb && base == 10, rule, w.InstrPos(parse), name, "strconv.ParseInt(component, "+describe(parse.Call.Args[1])+", …)", "components are read as decimal numbers", "components are not parsed in base 10: a leading zero switches to octal (1.010.0 sorts below 1.9.0, 08 is rejected) and prefixed literals are accepted")
	}
	var acc *ssa.BinOp
	EachInstr(fn, func(in ssa.Instruction) {
		bo, ok := in.(*ssa.BinOp)
		if !ok || bo.Op != token.ADD {
			return
		}
		if bo.Y == v || bo.X == v {
			acc = bo
		}
	})
	if acc == nil {
		r.Fail(rule, pos, name, "accumulation", "the parsed component is not added into the accumulator")
		return
	}
	// accumulator phi
	var accPhi *ssa.Phi
	tc := &termCtx{leaf: func(x ssa.Value) string {
		if x == v {
			return "V"
		}
		if p, ok := x.(*ssa.Phi); ok && accPhi != nil && p == accPhi {
			return "ACC"
		}
		return ""
	}}
	for _, m := range muls {
		if p, ok := m.X.(*ssa.Phi); ok {
			accPhi = p
		}
	}
	term := tc.term(acc)
	want := normBin(token.ADD, normBin(token.MUL, "ACC", fmt.Sprint(R)), "V")
	r.Check(term == want, rule, w.InstrPos(acc), name, "component step "+term, "positional: the accumulator is shifted by one radix position, then the component is added", "want "+want)
	padOK := false
	for _, m := range muls {
		if tc.term(m) == normBin(token.MUL, "ACC", fmt.Sprint(R)) && ssa.Value(m) != acc.X && ssa.Value(m) != acc.Y {
			padOK = true
		}
	}
	r.Check(padOK, rule, pos, name, "padding step", fmt.Sprintf("a missing component multiplies the accumulator by the same radix %d (reads as 0)", R), "missing components are not padded with the radix: \"1.2\" and \"1.2.0\" would differ")
	// the returned value is the accumulator
	retOK := false
	for _, ret := range valueReturns(fn) {
		if p, ok := unwrapIface(ret.Results[0]).(*ssa.Phi); ok && p == accPhi {
			retOK = true
		}
	}
	r.Check(retOK && accPhi != nil, rule, pos, name, "result", "the accumulator after the last position", "the encoded value returned is not the accumulator")

	// component bound at the accumulation
	_, hi, _, hasHi := intBoundsAt(acc.Block(), v)
	r.Check(hasHi && hi+1 <= R, rule, w.InstrPos(acc), name, fmt.Sprintf("component <= %d at the accumulation (radix %d)", hi, R),
		"no admitted component can carry into its neighbour", fmt.Sprintf("components up to %d are admitted but the radix is %d: order breaks at the boundary (e.g. 1.%d vs 2.0)", hi, R, R))
	// parse error is an error
	parseChecked := false
	for _, ref := range referrers(parse) {
		ex, ok := ref.(*ssa.Extract)
		if !ok || ex.Index != 1 {
			continue
		}
		for _, ref2 := range referrers(ex) {
			if bo, ok := ref2.(*ssa.BinOp); ok {
				if x, isEq, okn := nilCompare(bo); okn && x == ssa.Value(ex) {
					for _, ref3 := range referrers(bo) {
						if iff, ok := ref3.(*ssa.If); ok {
							edge := 0
							if isEq {
								edge = 1
							}
							if onlyErrorReturnsFrom(iff.Block().Succs[edge]) && edgeDominates(iff.Block(), 1-edge, acc.Block()) {
								parseChecked = true
							}
						}
					}
				}
			}
		}
	}
	r.Check(parseChecked, rule, w.InstrPos(parse), name, "non-numeric component", "returns an error; the component is used only after a successful parse", "a component that does not parse is not rejected")

	// length range at the conversion of params[1]
	var lenConv *ssa.Convert
	EachInstr(fn, func(in ssa.Instruction) {
		cv, ok := in.(*ssa.Convert)
		if !ok {
			return
		}
		if ex, ok := cv.X.(*ssa.Extract); ok && ex.Index == 0 {
			if ta, ok := ex.Tuple.(*ssa.TypeAssert); ok {
				if k, okk := paramIndex(ta.X, params); okk && k == 1 {
					lenConv = cv
				}
			}
		}
	})
	var lo, hiL int64 = -1, -1
	if lenConv != nil {
		l, h, okl, okh := intBoundsAt(lenConv.Block(), lenConv.X)
		if okl && okh {
			lo, hiL = l, h
		}
	}
	r.Check(lo >= 1 && hiL >= lo, rule, pos, name, fmt.Sprintf("admitted valid length [%d, %d]", lo, hiL), "bounded below by 1 and above by a constant", "the valid-length parameter is not range-checked before use")
	if hiL >= 1 && R > 1 {
		pow := new(big.Int).Exp(big.NewInt(R), big.NewInt(hiL), nil)
		pow.Sub(pow, big.NewInt(1))
		max := new(big.Int).SetUint64(1<<63 - 1)
		r.Check(pow.Cmp(max) <= 0, rule, pos, name, fmt.Sprintf("largest encoding %d^%d - 1 = %s", R, hiL, pow.String()), "fits int64", "the encoding overflows int64 for admitted inputs: order is lost by wrap-around")
	}
	// defaults from the table
	table, err := w.OperatorTable("builtinOperators")
	if err != nil {
		r.Unresolved(rule, err.Error())
		return
	}
	for _, impl := range table {
		if impl.Recv != "versionConvert" {
			continue
		}
		d, ok := impl.FieldInt("validLen")
		r.Check(ok && d >= lo && d <= hiL && lo >= 1, rule, w.Pos(impl.Pos), "builtinOperators", fmt.Sprintf("%q default valid length %d", impl.Key, d), "inside the admitted range", "the default length lies outside the range the operator itself admits")
	}
	// the loop visits positions 0..validLen-1 in increasing order, reading arr[i]
	loopOK := false
	EachInstr(fn, func(in ssa.Instruction) {
		ia, ok := in.(*ssa.IndexAddr)
		if !ok {
			return
		}
		c, okc := ia.X.(*ssa.Call)
		if !okc || calleeFullName(&c.Call) != "strings.Split" {
			return
		}
		phi, okp := ia.Index.(*ssa.Phi)
		if !okp {
			return
		}
		init, step := false, false
		for _, e := range phi.Edges {
			if cst, ok := constInt(e); ok && cst == 0 {
				init = true
			} else if inc, ok := e.(*ssa.BinOp); ok && inc.Op == token.ADD && inc.X == ssa.Value(phi) {
				if cst, ok := constInt(inc.Y); ok && cst == 1 {
					step = true
				}
			}
		}
		// guarded by i < len(arr)
		_, hiB, _, _ := intBoundsAt(ia.Block(), phi)
		_ = hiB
		guard := false
		for _, f := range factsAt(ia.Block()) {
			if bo, ok := f.Cond.(*ssa.BinOp); ok && bo.Op == token.LSS && f.Truth && bo.X == ssa.Value(phi) && isLenOf(bo.Y, ia.X) {
				guard = true
			}
		}
		if init && step && guard {
			loopOK = true
		}
	})
	r.Check(loopOK, rule, pos, name, "component loop", "i = 0, 1, … reading arr[i] under i < len(arr): most significant component first", "components are not consumed left to right from index 0")
}

// ---- R-UTC --------------------------------------------------------------------

func ruleUTC(w *World, r *Report) {
	const rule = "R-UTC"
	r.Rule(rule, "dates are parsed with time.Parse (UTC for zone-less layouts) and encoded as Unix seconds of that parse; the parse error is returned", 3)
	fn := w.MustFn(r, rule, "(timeConvert).execute")
	if fn == nil {
		return
	}
	name := w.Name(fn)
	var parses []*ssa.Call
	clean := true
	EachInstr(fn, func(in ssa.Instruction) {
		// any reference to time.Local / time.LoadLocation
		var ops []*ssa.Value
		for _, op := range in.Operands(ops) {
			if g, ok := (*op).(*ssa.Global); ok && g.Pkg != nil && g.Pkg.Pkg.Path() == "time" && nm(g) == "Local" {
				clean = false
				r.Fail(rule, w.InstrPos(in), name, "use of time.Local", "the encoding depends on the machine's time zone")
			}
		}
		c, ok := in.(*ssa.Call)
		if !ok {
			return
		}
		cn := calleeFullName(&c.Call)
		if strings.HasPrefix(cn, "time.") || strings.HasPrefix(cn, "(time.") || strings.HasPrefix(cn, "(*time.") {
			switch cn {
			case "time.Parse":
				parses = append(parses, c)
			case "(time.Time).Unix":
			default:
				clean = false
				r.Fail(rule, w.InstrPos(c), name, "call "+cn, "only time.Parse and (time.Time).Unix may take part in the date encoding")
			}
		}
	})
	if len(parses) != 1 {
		r.Fail(rule, w.Pos(fn.Pos()), name, fmt.Sprintf("%d calls of time.Parse", len(parses)), "exactly one parse is expected")
		return
	}
	if clean {
		r.OK(rule, w.InstrPos(parses[0]), name, "time callees", "time.Parse and (time.Time).Unix only; no location is supplied, so zone-less layouts are read as UTC")
	}
	p := parses[0]
	var t, errV ssa.Value
	for _, ref := range referrers(p) {
		if ex, ok := ref.(*ssa.Extract); ok {
			if ex.Index == 0 {
				t = ex
			} else {
				errV = ex
			}
		}
	}
	retOK := false
	for _, ret := range valueReturns(fn) {
		if c, ok := unwrapIface(ret.Results[0]).(*ssa.Call); ok && calleeFullName(&c.Call) == "(time.Time).Unix" && len(c.Call.Args) == 1 && c.Call.Args[0] == t {
			retOK = true
		} else {
			retOK = false
			break
		}
	}
	r.Check(retOK, rule, w.Pos(fn.Pos()), name, "value returned", "Unix seconds of the parsed time, and nothing else", "the value returned is not (parsed time).Unix(): chronological order is not preserved")
	errOK := false
	if errV != nil {
		for _, ref := range referrers(errV) {
			if bo, ok := ref.(*ssa.BinOp); ok {
				if x, isEq, okn := nilCompare(bo); okn && x == errV {
					for _, ref2 := range referrers(bo) {
						if iff, ok := ref2.(*ssa.If); ok {
							edge := 0
							if isEq {
								edge = 1
							}
							if onlyErrorReturnsFrom(iff.Block().Succs[edge]) {
								errOK = true
							}
						}
					}
				}
			}
		}
	}
	r.Check(errOK, rule, w.InstrPos(p), name, "unparsable text", "the parse error leads to a non-nil error return", "unparsable text is not an error (the zero time would be encoded)")
}

// ---- R-TIMEMODES --------------------------------------------------------------

func ruleTimeModes(w *World, r *Report) {
	const rule = "R-TIMEMODES"
	r.Rule(rule, "every constructed time mode is handled; default layouts are the documented ones; the layout parsed with is parameter 2 exactly where a custom layout is accepted", 10)
	fn := w.MustFn(r, rule, "(timeConvert).execute")
	table, err := w.OperatorTable("builtinOperators")
	if fn == nil || err != nil {
		if err != nil {
			r.Unresolved(rule, err.Error())
		}
		return
	}
	name := w.Name(fn)
	params := paramsParam(fn)
	var parse *ssa.Call
	EachInstr(fn, func(in ssa.Instruction) {
		if c, ok := in.(*ssa.Call); ok && calleeFullName(&c.Call) == "time.Parse" {
			parse = c
		}
	})
	if parse == nil {
		r.Unresolved(rule, "time.Parse not found")
		return
	}
	// text argument is params[0] asserted to string
	textOK := false
	if ex, ok := parse.Call.Args[1].(*ssa.Extract); ok && ex.Index == 0 {
		if ta, ok := ex.Tuple.(*ssa.TypeAssert); ok {
			if k, okk := paramIndex(ta.X, params); okk && k == 0 {
				textOK = true
			}
		}
	}
	r.Check(textOK, rule, w.InstrPos(parse), name, "text parsed", "operand 1 asserted to string", "the text parsed is not operand 1")
	// layout sources per (mode, arity)
	modeSets := constSetAnalysis(fn, func(v ssa.Value) bool { return isRecvField(v, "mode") })
	lenSets := constSetAnalysis(fn, func(v ssa.Value) bool { return isLenOf(v, params) })
	for i := range modeSets {
		if modeSets[i] == nil {
			modeSets[i] = map[int64]bool{}
		}
		if lenSets[i] == nil {
			lenSets[i] = map[int64]bool{}
		}
	}
	type key struct{ mode, arity int64 }
	source := map[key]map[string]bool{}
	isMode := func(v ssa.Value) bool { return isRecvField(v, "mode") }
	isLen := func(v ssa.Value) bool { return isLenOf(v, params) }
	var walk func(v ssa.Value, modes, lens map[int64]bool, depth int)
	walk = func(v ssa.Value, modes, lens map[int64]bool, depth int) {
		if depth > 6 {
			return
		}
		if phi, ok := v.(*ssa.Phi); ok {
			for i, e := range phi.Edges {
				pred := phi.Block().Preds[i]
				walk(e, constSetOnEdge(modeSets, pred, phi.Block(), isMode), constSetOnEdge(lenSets, pred, phi.Block(), isLen), depth+1)
			}
			return
		}
		src := "?" + describe(v)
		if isRecvField(v, "layout") {
			src = "entry"
		} else if ex, ok := v.(*ssa.Extract); ok && ex.Index == 0 {
			if ta, ok := ex.Tuple.(*ssa.TypeAssert); ok {
				if k, okk := paramIndex(ta.X, params); okk && k == 1 {
					src = "param2"
				}
			}
		} else if c, ok := v.(*ssa.Const); ok && c.Value != nil {
			src = "const " + c.Value.ExactString()
		}
		for m := range modes {
			for a := range lens {
				k := key{m, a}
				if source[k] == nil {
					source[k] = map[string]bool{}
				}
				source[k][src] = true
			}
		}
	}
	walk(parse.Call.Args[0], modeSets[parse.Block().Index], lenSets[parse.Block().Index], 0)

	wantLayout := map[string]string{"date": "2006-01-02", "to_date": "2006-01-02", "td_date": "2006-01-02",
		"datetime": "2006-01-02 15:04:05", "to_datetime": "2006-01-02 15:04:05", "td_time": "2006-01-02 15:04:05"}
	// arity -> expected source, per public name
	wantSrc := map[string]map[int64]string{
		"date": {1: "entry", 2: "param2"}, "to_date": {1: "entry", 2: "param2"},
		"datetime": {1: "entry", 2: "param2"}, "to_datetime": {1: "entry", 2: "param2"},
		"t_time": {2: "param2"}, "t_date": {2: "param2"},
		"td_time": {1: "entry"}, "td_date": {1: "entry"},
	}
	handled := map[int64]bool{}
	for k := range source {
		handled[k.mode] = true
	}
	for _, impl := range table {
		if impl.Recv != "timeConvert" {
			continue
		}
		mode, okm := impl.FieldInt("mode")
		pos := w.Pos(impl.Pos)
		if !okm {
			r.Fail(rule, pos, "builtinOperators", fmt.Sprintf("%q", impl.Key), "no constant mode")
			continue
		}
		if want, ok := wantLayout[impl.Key]; ok {
			got, _ := impl.FieldString("layout")
			r.Check(got == want, rule, pos, "builtinOperators", fmt.Sprintf("%q default layout %q", impl.Key, got), "the documented default layout", "want "+want)
		}
		ws, ok := wantSrc[impl.Key]
		if !ok {
			r.Undecided(rule, pos, "builtinOperators", fmt.Sprintf("%q", impl.Key), "a time operator this rule has no expectation for")
			continue
		}
		var arities []int64
		for a := range ws {
			arities = append(arities, a)
		}
		sort.Slice(arities, func(i, j int) bool { return arities[i] < arities[j] })
		for _, a := range arities {
			got := source[key{mode, a}]
			var gs []string
			for s := range got {
				gs = append(gs, s)
			}
			sort.Strings(gs)
			r.Check(len(gs) == 1 && gs[0] == ws[a], rule, pos, name, fmt.Sprintf("%q with %d operand(s): layout from %v", impl.Key, a, gs), "as documented ("+ws[a]+")", fmt.Sprintf("want the layout from %s: a custom layout would be ignored, or a default used where none is configured", ws[a]))
		}
	}
}

var c19Witnesses = []Witness{
	{Name: "version-components-parsed-with-auto-base", Rule: "R-VERCONST", Edits: []Edit{
		{File: "operator.go", Old: "			v, err := strconv.ParseInt(arr[i], 10, 64)", New: "			v, err := strconv.ParseInt(arr[i], 0, 64)"}}},
	{Name: "benign-version-components-parsed-as-int32", Benign: true, Edits: []Edit{
		{File: "operator.go", Old: "			v, err := strconv.ParseInt(arr[i], 10, 64)", New: "			v, err := strconv.ParseInt(arr[i], 10, 32)"}}},
	{Name: "component-10000-admitted", Rule: "R-VERCONST", Edits: []Edit{
		{File: "operator.go", Old: "			if v >= 10000 {", New: "			if v > 10000 {"}}},
	{Name: "valid-length-up-to-5", Rule: "R-VERCONST", Edits: []Edit{
		{File: "operator.go", Old: "		if temp > 4 || temp < 1 {", New: "		if temp > 5 || temp < 1 {"}}},
	{Name: "valid-length-zero-admitted", Rule: "R-VERCONST", Edits: []Edit{
		{File: "operator.go", Old: "		if temp > 4 || temp < 1 {", New: "		if temp > 4 || temp < 0 {"}}},
	{Name: "padding-with-1000", Rule: "R-VERCONST", Edits: []Edit{
		{File: "operator.go", Old: "			res = res * 10000\n", New: "			res = res * 1000\n"}}},
	{Name: "unparsable-component-reads-zero", Rule: "R-VERCONST", Edits: []Edit{
		{File: "operator.go", Old: "			v, err := strconv.ParseInt(arr[i], 10, 64)\n			if err != nil {\n				return nil, OpExecError(modeNames[c.mode], fmt.Errorf(\"version layout error, %s\", s))\n			}", New: "			v, err := strconv.ParseInt(arr[i], 10, 64)\n			if err != nil && i == 0 {\n				return nil, OpExecError(modeNames[c.mode], fmt.Errorf(\"version layout error, %s\", s))\n			}"}}},
	{Name: "default-length-five", Rule: "R-VERCONST", Edits: []Edit{
		{File: "operator.go", Old: "		\"to_version\": versionConvert{mode: version, validLen: 3}.execute,", New: "		\"to_version\": versionConvert{mode: version, validLen: 5}.execute,"}}},
	{Name: "parse-in-local-zone", Rule: "R-UTC", Edits: []Edit{
		{File: "operator.go", Old: "	t, err := time.Parse(layout, v)", New: "	t, err := time.ParseInLocation(layout, v, time.Local)"}}},
	{Name: "unix-milli", Rule: "R-UTC", Edits: []Edit{
		{File: "operator.go", Old: "	return t.Unix(), nil\n}", New: "	return t.UnixMilli() / 1000, nil\n}"}}},
	{Name: "date-ignores-custom-layout", Rule: "R-TIMEMODES", Edits: []Edit{
		{File: "operator.go", Old: "			temp, ok := params[1].(string)\n			if !ok {\n				return nil, errTypeStr(c.mode, params[1])\n			}\n			layout = temp\n		default:\n			return nil, ParamsCountError(modeNames[c.mode], 1, len(params))", New: "			temp, ok := params[1].(string)\n			if !ok {\n				return nil, errTypeStr(c.mode, params[1])\n			}\n			layout = temp\n			if c.mode == date {\n				layout = c.layout\n			}\n		default:\n			return nil, ParamsCountError(modeNames[c.mode], 1, len(params))"}}},
	{Name: "td-date-default-layout-changed", Rule: "R-TIMEMODES", Edits: []Edit{
		{File: "operator.go", Old: "		\"td_date\": timeConvert{mode: toDefaultDate, layout: defaultDateLayout}.execute,", New: "		\"td_date\": timeConvert{mode: toDefaultDate, layout: defaultDatetimeLayout}.execute,"}}},
	{Name: "benign-version-bound-respelled", Benign: true, Edits: []Edit{
		{File: "operator.go", Old: "			if v >= 10000 {", New: "			if v > 9999 {"}}},
	{Name: "benign-length-range-respelled", Benign: true, Edits: []Edit{
		{File: "operator.go", Old: "		if temp > 4 || temp < 1 {", New: "		if temp < 1 || temp >= 5 {"}}},
}
