package main

// C15, second part — the reduction discipline of the shunting-yard parser:
// when an operator may be taken off the operator stack and built.

import (
	"fmt"
	"go/constant"
	"go/token"
	"go/types"

	"golang.org/x/tools/go/ssa"
)

// infixClosures finds comparePrecedence and buildTopOperators by signature.
func infixClosures(pie *ssa.Function) (cmp, reduce *ssa.Function) {
	isTok := func(t types.Type) bool { return typeNameOf(t) == "token" }
	isCmp := func(f *ssa.Function) bool {
		n := len(f.Params)
		if n < 2 || f.Signature.Results().Len() != 1 {
			return false
		}
		bt, ok := f.Signature.Results().At(0).Type().Underlying().(*types.Basic)
		return ok && bt.Kind() == types.Int && isTok(f.Params[n-1].Type()) && isTok(f.Params[n-2].Type()) && (n == 2 || (n == 3 && f.Signature.Recv() != nil))
	}
	for _, an := range pie.AnonFuncs {
		sig := an.Signature
		if isCmp(an) {
			cmp = an
		}
		if sig.Params().Len() == 1 && sig.Results().Len() == 1 && isTok(sig.Params().At(0).Type()) && isErrorType(sig.Results().At(0).Type()) {
			reduce = an
		}
	}
	if cmp == nil && reduce != nil {
		// the comparison as a named function or method called from the reduction
		EachInstr(reduce, func(in ssa.Instruction) {
			if c, ok := in.(*ssa.Call); ok {
				if h := c.Call.StaticCallee(); h != nil && len(h.Blocks) > 0 && isCmp(h) {
					cmp = h
				}
			}
		})
	}
	return
}

// cmpParams returns the (car, top) parameters of the precedence comparison (a closure, function or method).
func cmpParams(cmp *ssa.Function) (car, top *ssa.Parameter) {
	n := len(cmp.Params)
	return cmp.Params[n-2], cmp.Params[n-1]
}

// callsClosure: c is a dynamic call of a local variable / captured variable that holds closure fn.
func callsClosure(c *ssa.Call, fn *ssa.Function) bool {
	if c.Call.IsInvoke() {
		return false
	}
	if c.Call.StaticCallee() != nil {
		return c.Call.StaticCallee() == fn
	}
	addr, ok := isLoad(c.Call.Value)
	if !ok {
		return false
	}
	cell := resolveCell(addr)
	if cell == nil {
		return false
	}
	for _, st := range cellStores(cell) {
		if mc, ok := st.Val.(*ssa.MakeClosure); ok && mc.Fn == fn {
			return true
		}
	}
	return false
}

// constStringNamed: the value of a package-level string constant.
func constStringNamed(w *World, name string) (string, bool) {
	c := w.ConstObj(name)
	if c == nil || c.Val().Kind() != constant.String {
		return "", false
	}
	return constant.StringVal(c.Val()), true
}

// cmpStopFact recognises `comparePrecedence(..) > 0` style tests: it returns the call and
// which truth value means "stop reducing".
func cmpStopFact(v ssa.Value, cmp *ssa.Function) (call *ssa.Call, stopTruth bool, ok bool) {
	bo, okb := v.(*ssa.BinOp)
	if !okb {
		return nil, false, false
	}
	c, okc := bo.X.(*ssa.Call)
	if !okc || !callsClosure(c, cmp) {
		return nil, false, false
	}
	k, okk := constInt(bo.Y)
	if !okk {
		return nil, false, false
	}
	switch {
	case bo.Op == token.GTR && k == 0, bo.Op == token.GEQ && k == 1:
		return c, true, true
	case bo.Op == token.LEQ && k == 0, bo.Op == token.LSS && k == 1:
		return c, false, true
	}
	return nil, false, false
}

// arityOfArriving: v is the childCount field of getInfixOpInfo(<x>.val) with x rooted at root.
func arityOfArriving(v ssa.Value, root func(ssa.Value) bool) bool {
	f, ok := v.(*ssa.Field)
	if !ok || fieldName(f.X.Type(), f.Field) != "childCount" {
		return false
	}
	c, ok := f.X.(*ssa.Call)
	if !ok || c.Call.StaticCallee() == nil || nm(c.Call.StaticCallee()) != "getInfixOpInfo" {
		return false
	}
	arg := c.Call.Args[len(c.Call.Args)-1]
	base, okb := loadOfField(arg, "token", "val")
	if !okb {
		if fv, okf := arg.(*ssa.Field); okf && fieldName(fv.X.Type(), fv.Field) == "val" {
			return root(fv.X)
		}
		return false
	}
	return root(base) || root(mustLoadOf(base))
}

func ruleReduceGate(w *World, r *Report) {
	const rule = "R-REDUCEGATE"
	r.Rule(rule, "an operator leaves the operator stack and is built only after losing the precedence comparison against the arriving token; closing a parenthesis ends the reduction; a prefix (one-operand) operator arriving never reduces what is on the stack", 3)
	pie := w.MustFn(r, rule, "(*parser).parseInfixExpression")
	if pie == nil {
		return
	}
	cmp, reduce := infixClosures(pie)
	if cmp == nil || reduce == nil {
		r.Unresolved(rule, "comparePrecedence / buildTopOperators closures not found")
		return
	}
	name := w.Name(reduce)
	// (1) every buildParentNode call in the reduction closure is on the losing edge of the comparison
	n := 0
	EachInstr(reduce, func(in ssa.Instruction) {
		c, ok := in.(*ssa.Call)
		if !ok || c.Call.StaticCallee() == nil || nm(c.Call.StaticCallee()) != "buildParentNode" {
			return
		}
		n++
		gated := false
		for _, f := range factsAt(c.Block()) {
			if call, stopTruth, ok := cmpStopFact(f.Cond, cmp); ok && f.Truth != stopTruth {
				if na := len(call.Call.Args); na >= 2 && varRoot(call.Call.Args[na-2]) == reduce.Params[0] {
					gated = true
				}
			}
		}
		r.Check(gated, rule, w.InstrPos(c), name, "p.buildParentNode(top.t, children)", "reached only when comparePrecedence(car, top.t) > 0 is false: the stack top binds at least as tightly as the arriving token", "an operator is reduced on a path that did not lose the precedence comparison: the tree no longer follows precedence (e.g. f(a)*b or a+f(b)*c grouped early)")
	})
	if n == 0 {
		r.Unresolved(rule, "no buildParentNode call in the reduction closure")
	}
	// (2) the parenthesis match leaves the loop: after popping `(` for `)` no further reduction
	parenOK, parenSeen := false, false
	EachInstr(reduce, func(in ssa.Instruction) {
		iff, ok := in.(*ssa.If)
		if !ok {
			return
		}
		bo, ok := iff.Cond.(*ssa.BinOp)
		if !ok || bo.Op != token.EQL {
			return
		}
		base, okf := loadOfField(bo.X, "token", "typ")
		if !okf {
			return
		}
		k, okk := constString(bo.Y)
		lp, okl := constStringNamed(w, "lParen")
		if !okk || !okl || k != lp {
			return
		}
		// top.t.typ == lParen under car.typ == rParen
		_ = base
		underR := false
		rp, _ := constStringNamed(w, "rParen")
		for _, f := range factsAtEdge(iff.Block(), 0) {
			if b2, ok := f.Cond.(*ssa.BinOp); ok && b2.Op == token.EQL && f.Truth {
				if bb, ok := loadOfField(b2.X, "token", "typ"); ok && (varRoot(mustLoadOf(bb)) == ssa.Value(reduce.Params[0]) || bb == ssa.Value(reduce.Params[0])) {
					if kk, ok := constString(b2.Y); ok && kk == rp {
						underR = true
					}
				}
			}
		}
		if !underR {
			return
		}
		parenSeen = true
		if onlyReturnsFrom(iff.Block().Succs[0]) || blockReturn(iff.Block().Succs[0]) != nil {
			parenOK = true
		}
	})
	if !parenSeen {
		r.Undecided(rule, w.Pos(reduce.Pos()), name, "`)` meets `(`", "the parenthesis match of the reduction loop was not recognised")
	} else {
		r.Check(parenOK, rule, w.Pos(reduce.Pos()), name, "`)` meets `(`: pop and stop", "after the opening parenthesis is popped the closure returns without building anything", "the reduction continues past the matched parenthesis: operators outside the parentheses are built before their right operand is read")
	}
	// (3) prefix operators
	rulePrefixOp(w, r, pie, cmp, reduce)
}

func rulePrefixOp(w *World, r *Report, pie, cmp, reduce *ssa.Function) {
	const rule = "R-REDUCEGATE"
	name := w.Name(pie)
	identK, ok := constStringNamed(w, "ident")
	if !ok {
		r.Unresolved(rule, "token type constant ident not found")
		return
	}
	// the arriving token: result #0 of p.next() in the main function
	var car ssa.Value
	EachInstr(pie, func(in ssa.Instruction) {
		if ex, ok := in.(*ssa.Extract); ok && ex.Index == 0 {
			if c, ok := ex.Tuple.(*ssa.Call); ok && c.Call.StaticCallee() != nil && nm(c.Call.StaticCallee()) == "next" {
				car = ex
			}
		}
	})
	if car == nil {
		r.Unresolved(rule, "the arriving token (p.next()) was not found in parseInfixExpression")
		return
	}
	isCar := func(v ssa.Value) bool {
		if v == car {
			return true
		}
		// spilled copy: an Alloc whose only store is car
		if al, ok := v.(*ssa.Alloc); ok {
			st := cellStores(al)
			return len(st) == 1 && st[0].Val == car
		}
		if u, ok := v.(*ssa.UnOp); ok && u.Op == token.MUL {
			if al, ok := u.X.(*ssa.Alloc); ok {
				st := cellStores(al)
				return len(st) == 1 && st[0].Val == car
			}
		}
		return false
	}
	sites := 0
	EachInstr(pie, func(in ssa.Instruction) {
		c, ok := in.(*ssa.Call)
		if !ok || !callsClosure(c, reduce) || len(c.Call.Args) != 1 || !isCar(c.Call.Args[0]) {
			return
		}
		// is this the ident arm?
		inIdent := false
		for _, f := range factsAt(c.Block()) {
			bo, ok := f.Cond.(*ssa.BinOp)
			if !ok || bo.Op != token.EQL || !f.Truth {
				continue
			}
			var x ssa.Value = bo.X
			if fl, okf := x.(*ssa.Field); okf && fieldName(fl.X.Type(), fl.Field) == "typ" && isCar(fl.X) {
				if k, okk := constString(bo.Y); okk && k == identK {
					inIdent = true
				}
			} else if b, okl := loadOfField(x, "token", "typ"); okl && isCar(b) {
				if k, okk := constString(bo.Y); okk && k == identK {
					inIdent = true
				}
			}
		}
		if !inIdent {
			return
		}
		sites++
		// accepted: a test of the arriving operator's arity against 1 gates the call …
		gated := false
		for _, f := range factsAt(c.Block()) {
			bo, ok := f.Cond.(*ssa.BinOp)
			if !ok {
				continue
			}
			if !arityOfArriving(bo.X, isCar) {
				continue
			}
			k, okk := constInt(bo.Y)
			if !okk {
				continue
			}
			switch {
			case k == 1 && bo.Op == token.NEQ && f.Truth, k == 1 && bo.Op == token.EQL && !f.Truth,
				k == 2 && bo.Op == token.EQL && f.Truth, k == 1 && bo.Op == token.GTR && f.Truth, k == 2 && bo.Op == token.GEQ && f.Truth:
				gated = true
			}
		}
		where := "at the call site"
		if !gated {
			// … or the closure itself / comparePrecedence looks at the arriving operator's arity
			for _, fn := range []*ssa.Function{reduce, cmp} {
				p0 := fn.Params[0]
				root := func(v ssa.Value) bool { return v == ssa.Value(p0) || varRoot(v) == ssa.Value(p0) }
				EachInstr(fn, func(in ssa.Instruction) {
					if bo, ok := in.(*ssa.BinOp); ok && arityOfArriving(bo.X, root) {
						if _, okk := constInt(bo.Y); okk {
							gated = true
							where = "inside " + w.Name(fn)
						}
					}
				})
			}
		}
		r.Check(gated, rule, w.InstrPos(c), name, "buildTopOperators(car) for an arriving operator name",
			fmt.Sprintf("the arity of the arriving operator is consulted %s: a prefix operator (one operand, written before it) reduces nothing", where),
			"an arriving prefix operator is compared like a binary one and reduces the stack top against the wrong operands: `a && ! !b` becomes (&& (! a) (! b))")
	})
	if sites == 0 {
		r.Unresolved(rule, "no reduction call for an arriving operator name found in parseInfixExpression")
	}
}

// ---- R-INFIXWHOLE -------------------------------------------------------------

// ruleInfixWhole: the infix parser consumes the whole token list and hands every popped operand to the node it
// builds — (a) parseInfixExpression returns a tree (nil error) only over the `!p.hasNext()` edge of its main
// loop; (b) the operand slice passed to buildParentNode has cnt elements and is filled completely before the call:
// by one copy of the top cnt entries of the output stack, or by a loop from cnt-1 down to 0 that stores a popped
// entry on every iteration and is left only below 0.
func ruleInfixWhole(w *World, r *Report) {
	const rule = "R-INFIXWHOLE"
	r.Rule(rule, "the infix parser's main loop ends only when no token is left, and every operator node receives all the operands popped for it", 2)
	fn := w.MustFn(r, rule, "(*parser).parseInfixExpression")
	if fn == nil {
		return
	}
	name := w.Name(fn)
	// (a)
	var hdr *ssa.BasicBlock
	for _, b := range fn.Blocks {
		if len(b.Succs) != 2 || !reachable(b.Succs[0], b) {
			continue
		}
		iff, ok := b.Instrs[len(b.Instrs)-1].(*ssa.If)
		if !ok {
			continue
		}
		if c, callee := staticCallee(iff.Cond); c != nil && callee != nil && nm(callee) == "hasNext" {
			if hdr == nil || b.Dominates(hdr) {
				hdr = b
			}
		}
	}
	if hdr == nil {
		r.Unresolved(rule, "main loop `for p.hasNext()` of the infix parser not found")
	} else {
		whole := true
		n := 0
		for _, ret := range allReturns(fn) {
			if len(ret.Results) != 2 || !isNilConst(ret.Results[1]) || !hdr.Dominates(ret.Block()) {
				continue
			}
			n++
			if !edgeDominates(hdr, 1, ret.Block()) {
				whole = false
			}
		}
		r.Check(whole && n > 0, rule, w.InstrPos(hdr.Instrs[len(hdr.Instrs)-1]), name, "success returns of the infix parser", "a tree is returned only when p.hasNext() is false: every token was consumed", "the main loop can be left while tokens remain: the rest of the expression is silently ignored")
	}
	// (b)
	bp := w.Fn("(*parser).buildParentNode")
	found := false
	for _, an := range append([]*ssa.Function{fn}, allAnon(fn)...) {
		EachInstr(an, func(in ssa.Instruction) {
			call, ok := in.(*ssa.Call)
			if !ok || bp == nil || call.Call.StaticCallee() != bp {
				return
			}
			arg := call.Call.Args[len(call.Call.Args)-1]
			ms, isMake := arg.(*ssa.MakeSlice)
			if !isMake {
				return
			}
			found = true
			pos := w.InstrPos(call)
			complete, why := false, "the operand slice is not filled from the output stack"
			for _, ref := range referrers(ms) {
				switch x := ref.(type) {
				case *ssa.Call:
					if calleeFullName(&x.Call) == "builtin.copy" && x.Call.Args[0] == ssa.Value(ms) && (x.Block() == call.Block() || x.Block().Dominates(call.Block())) {
						complete = true // R-REDUCEGATE and the C06 ledger judge the source range
					}
				case *ssa.IndexAddr:
					i, okP := x.Index.(*ssa.Phi)
					if !okP {
						continue
					}
					h := i.Block()
					startOK, stepOK := false, false
					for k, e := range i.Edges {
						if !h.Dominates(h.Preds[k]) {
							if bo, okb := e.(*ssa.BinOp); okb && bo.Op == token.SUB && bo.X == ms.Len {
								if c, okc := constInt(bo.Y); okc && c == 1 {
									startOK = true
								}
							}
							continue
						}
						if bo, okb := e.(*ssa.BinOp); okb && bo.Op == token.SUB && bo.X == ssa.Value(i) {
							if c, okc := constInt(bo.Y); okc && c == 1 {
								stepOK = true
								continue
							}
						}
						stepOK = false
					}
					iff, okIf := h.Instrs[len(h.Instrs)-1].(*ssa.If)
					exitEdge := -1
					if okIf {
						if cmp, okc := iff.Cond.(*ssa.BinOp); okc && cmp.X == ssa.Value(i) {
							if c, okz := constInt(cmp.Y); okz && c == 0 {
								switch cmp.Op {
								case token.LSS:
									exitEdge = 0
								case token.GEQ:
									exitEdge = 1
								}
							}
						}
					}
					if !startOK || !stepOK || exitEdge < 0 {
						why = "the fill loop does not run from cnt-1 down to 0"
						continue
					}
					for _, ref2 := range referrers(x) {
						st, okS := ref2.(*ssa.Store)
						if !okS || st.Addr != ssa.Value(x) {
							continue
						}
						every := true
						for k := range i.Edges {
							if p := h.Preds[k]; h.Dominates(p) && !st.Block().Dominates(p) {
								every = false
							}
						}
						if !every {
							why = "an iteration can go by without storing its operand"
						} else if !edgeDominates(h, exitEdge, call.Block()) {
							why = "the node can be built before all its operands were popped (the fill loop can be left early): operands are nil or stay on the stack"
						} else {
							complete = true
						}
					}
				}
			}
			r.Check(complete, rule, pos, w.Name(an), "operands handed to buildParentNode", "all cnt popped entries, filled before the call", why)
			// (c) an operand count is refused only when it is impossible: below zero or more than the output stack
			// holds — a call without arguments (`f()`, count 0) builds a node like its prefix form `(f)`
			cnt := ms.Len
			for _, b := range an.Blocks {
				ret := blockReturn(b)
				if ret == nil || len(ret.Results) == 0 || isNilConst(ret.Results[len(ret.Results)-1]) || !b.Dominates(b) {
					continue
				}
				for _, p := range b.Preds {
					for _, f := range factsAtEdgeTo(p, b) {
						bo, okB := f.Cond.(*ssa.BinOp)
						if !okB || (bo.X != cnt && bo.Y != cnt) {
							continue
						}
						okRefuse := false
						if bo.X == cnt {
							if c, okc := constInt(bo.Y); okc && c == 0 && bo.Op == token.LSS && f.Truth {
								okRefuse = true // cnt < 0
							}
							if _, okl := lenArg(bo.Y); okl && bo.Op == token.GTR && f.Truth {
								okRefuse = true // cnt > len(outputStack)
							}
						}
						r.Check(okRefuse, rule, w.InstrPos(ret), w.Name(an), "operand count refused under "+describe(bo)+fmt.Sprintf(" = %v", f.Truth), "only a negative count or one beyond the output stack is refused", "a possible operand count is refused: infix rejects (or treats differently) a call that the prefix notation accepts")
					}
				}
			}
		})
	}
	if !found {
		r.Unresolved(rule, "no buildParentNode call with a freshly made operand slice in the infix parser")
	}
}

// allAnon lists the closures of fn, nested ones included.
func allAnon(fn *ssa.Function) []*ssa.Function {
	var out []*ssa.Function
	for _, a := range fn.AnonFuncs {
		out = append(out, a)
		out = append(out, allAnon(a)...)
	}
	return out
}

var infixWholeWitnesses = []Witness{
	{Name: "infix-refuses-zero-argument-calls", Rule: "R-INFIXWHOLE", Edits: []Edit{
		{File: "parser.go", Old: "				if cnt < 0 || cnt > len(outputStack) {", New: "				if cnt <= 0 || cnt > len(outputStack) {"}}},
	{Name: "infix-main-loop-stops-on-deep-stack", Rule: "R-INFIXWHOLE", Edits: []Edit{
		{File: "parser.go", Old: "	for p.hasNext() {\n		ast, err := p.buildLeafNode()\n		if err != nil {\n			return nil, err\n		}", New: "	for p.hasNext() {\n		if len(operatorStack) > 64 {\n			break\n		}\n		ast, err := p.buildLeafNode()\n		if err != nil {\n			return nil, err\n		}"}}},
	{Name: "infix-operand-fill-leaves-after-eight", Rule: "R-INFIXWHOLE", Edits: []Edit{
		{File: "parser.go", Old: "				for i := cnt - 1; i >= 0; i-- {\n					children[i] = pop()\n				}", New: "				for i := cnt - 1; i >= 0; i-- {\n					if cnt-i > 8 {\n						break\n					}\n					children[i] = pop()\n				}"}}},
	{Name: "infix-operand-fill-stops-above-zero", Rule: "R-INFIXWHOLE", Edits: []Edit{
		{File: "parser.go", Old: "				for i := cnt - 1; i >= 0; i-- {\n					children[i] = pop()\n				}", New: "				for i := cnt - 1; i > 0; i-- {\n					children[i] = pop()\n				}"}}},
}
