package main

// C08 — Compile is a pure, deterministic function of config contents and source.

import (
	"fmt"
	"go/token"
	"go/types"
	"strings"

	"golang.org/x/tools/go/callgraph"
	"golang.org/x/tools/go/ssa"
)

func init() {
	register(&Property{
		ID:    "C08",
		Level: "proof",
		Explanation: "Proves, for the code under analysis, the theorem: no instruction reachable from Compile writes memory reachable from its *Config argument or any package-level variable; the parser's working config is a copy none of whose containers is shared with the argument; and the closure contains no source of nondeterminism. " +
			"(R-CONFTAINT) ownership/taint analysis (effects.go) with the label 'reachable from Compile's config argument' propagated through loads, field stores (so `conf: cc` taints parser.conf), calls and closures: no write effect has that label; no pointer/map/slice/chan field of Expr, node, astNode, parser and no closure binding holds it. " +
			"(R-GLOBALS) no write effect in the closure is rooted in a package variable. (R-COPYALL) for every field of Config, copyConfig transfers it element-wise from src into dst (map: update under a range over src's map; slice: append of ranged elements; scalar: assignment), never assigns a container of src to dst, never writes through src; NewConfig hands out freshly made containers; CopyConfig and ExtendConf pass such a fresh config as dst. " +
			"(R-DETERM) every range over a map in the closure has a body whose only effect is a map update at the ranged key (order-independent); no call into math/rand, time.Now, os, crypto/rand, no go/select, no pointer-to-integer conversion; sort callees are the stable ones. " +
			"Hence Compile is a function of (config contents, source): repeatable, order-independent, race-free on a shared Config. NOT decided: that a user-declared stateless operator really is pure (assumption of the property).",
		Assumptions: []string{
			"A3 interface-typed Values and func-typed Operators copied from the config are values, not containers (a user constant that is itself a slice is shared by design)",
			"A4 library callees are summarised by a frozen table",
		},
		Run:       runC08,
		Witnesses: c08Witnesses,
	})
}

// compileClosure computes the functions reachable from Compile. The dynamic
// call opt(conf) inside NewConfig is not followed when every call of NewConfig
// in the closure passes no options (then the loop over opts is dead here).
func compileClosure(w *World, r *Report, rule string) ([]*ssa.Function, map[*ssa.Function]bool, string) {
	entry := w.MustFn(r, rule, "Compile")
	if entry == nil {
		return nil, nil, ""
	}
	entries := []*ssa.Function{entry}
	newConfig := w.Fn("NewConfig")
	note := ""
	var skip func(e *callgraph.Edge) bool
	if newConfig != nil {
		isDynOut := func(e *callgraph.Edge) bool {
			return e.Caller.Func == newConfig && e.Site != nil && isDynamicCall(e.Site.Common())
		}
		pre := w.ClosureSkip(w.VTA, entries, true, isDynOut)
		allNil := true
		calls := 0
		for fn := range pre {
			EachInstr(fn, func(in ssa.Instruction) {
				ci, ok := in.(ssa.CallInstruction)
				if !ok || ci.Common().StaticCallee() != newConfig {
					return
				}
				calls++
				args := ci.Common().Args
				if len(args) != 1 || !isNilConst(args[0]) {
					allNil = false
				}
			})
		}
		if usedAsValueAnywhere(w, newConfig) {
			allNil = false
		}
		if allNil && calls > 0 {
			skip = isDynOut
			note = fmt.Sprintf("NewConfig is called %d time(s) in the closure, always with no options: its loop over opts is dead in this context and the option closures are not part of the closure", calls)
		}
	}
	return entries, w.ClosureSkip(w.VTA, entries, true, skip), note
}

func usedAsValueAnywhere(w *World, fn *ssa.Function) bool { return funcUsedAsValue(w, fn) }

func isContainerType(t types.Type) bool {
	switch t.Underlying().(type) {
	case *types.Pointer, *types.Map, *types.Slice, *types.Chan:
		return true
	}
	return false
}

func runC08(w *World, r *Report) {
	set := ruleConfTaint(w, r)
	if set == nil {
		return
	}
	ruleCopyAll(w, r)
	ruleDeterm(w, r, set)
}

// ruleConfTaint: R-CONFTAINT and R-GLOBALS over the compile closure (also run under C02: a directive that leaks into
// the caller's Config changes what later compilations with that Config mean).
func ruleConfTaint(w *World, r *Report) map[*ssa.Function]bool {
	const rule = "R-CONFTAINT"
	r.Rule(rule, "no write effect in the compile closure is rooted in memory reachable from Compile's *Config argument; no container field of the program or parser and no surviving closure holds such memory", 150)
	r.Rule("R-GLOBALS", "no write effect in the compile closure is rooted in a package-level variable", 150)
	entries, set, note := compileClosure(w, r, rule)
	if entries == nil {
		return nil
	}
	if note != "" {
		r.Note("%s", note)
	}
	cha := w.Closure(w.CHA, entries, true)
	r.Extra["closure_COMPILE"] = w.SortedNames(set)
	r.Extra["closure_sizes"] = map[string]int{"vta": len(set), "cha": len(cha)}
	if len(set) < 60 {
		r.Unresolved(rule, fmt.Sprintf("the compile closure has only %d functions (confirmed by hand: >= 60)", len(set)))
	}
	a := NewEffectAnalysis(w, set, entries)
	conf := paramLabel(0)
	gmask := a.GlobalMask()
	for _, e := range a.Effects {
		fn := e.Instr.Parent()
		pos := w.InstrPos(e.Instr)
		what := effectText(e)
		if e.Kind == EffSend {
			r.Fail(rule, pos, w.Name(fn), what, "channel send during compilation")
			continue
		}
		if e.Kind == EffUnknown {
			if e.Labels&(conf|gmask) != 0 {
				r.Fail(rule, pos, w.Name(fn), what, "unsummarised library callee "+e.Note+" receives memory labelled "+a.LabelNames(e.Labels)+": undecided under A4")
			}
			continue
		}
		r.Check(e.Labels&conf == 0, rule, pos, w.Name(fn), what,
			"root is not reachable from the config argument ("+a.LabelNames(e.Labels)+")",
			"writes memory reachable from the caller's Config: root labelled "+a.LabelNames(e.Labels))
		r.Check(e.Labels&gmask == 0, "R-GLOBALS", pos, w.Name(fn), what,
			"root is not a package variable ("+a.LabelNames(e.Labels)+")",
			"writes a package-level variable during compilation: root labelled "+a.LabelNames(e.Labels))
	}
	// container fields of long-lived structures must not hold the caller's containers
	for _, tn := range []string{"Expr", "node", "astNode", "parser"} {
		named := w.NamedType(tn)
		if named == nil {
			r.Unresolved(rule, "type "+tn+" not found")
			continue
		}
		st, ok := named.Underlying().(*types.Struct)
		if !ok {
			continue
		}
		for i := 0; i < st.NumFields(); i++ {
			f := st.Field(i)
			if !isContainerType(f.Type()) {
				continue
			}
			l := a.loc[a.find(fieldLoc(named, i))]
			r.Check(l&conf == 0, rule, w.Pos(f.Pos()), tn, fmt.Sprintf("container field %s.%s %s", tn, f.Name(), types.TypeString(f.Type(), relTo)),
				"nothing stored into it anywhere in the closure is reachable from the config argument ("+a.LabelNames(l)+")",
				"a value reachable from the caller's Config is stored into it: the compilation aliases the caller's state ("+a.LabelNames(l)+")")
		}
	}
	for _, fn := range w.SortedFuncs(set) {
		EachInstr(fn, func(in ssa.Instruction) {
			mc, ok := in.(*ssa.MakeClosure)
			if !ok {
				return
			}
			for i, b := range mc.Bindings {
				pt := deref(b.Type())
				if !isContainerType(pt) && !isContainerType(b.Type()) {
					continue
				}
				// the binding is the address of a captured variable: what matters is what the variable holds
				l := a.L(b)
				if _, isPtr := b.Type().Underlying().(*types.Pointer); isPtr {
					l |= a.content(a.locsOfAddr(b)) & containerOnly(pt)
				}
				name := mc.Fn.(*ssa.Function).FreeVars[i].Name()
				r.Check(l&conf == 0, rule, w.InstrPos(mc), w.Name(fn), fmt.Sprintf("closure %s captures %s", mc.Fn.Name(), name),
					"the captured variable does not hold a container of the caller's Config", "the closure captures memory reachable from the caller's Config ("+a.LabelNames(l)+")")
			}
		})
	}
	return set
}

// containerOnly returns an all-ones mask when the type is a container (so the
// content labels count), zero otherwise.
func containerOnly(t types.Type) Label {
	if isContainerType(t) {
		return ^Label(0)
	}
	return 0
}

// ---- R-COPYALL ----------------------------------------------------------------

func ruleCopyAll(w *World, r *Report) {
	const rule = "R-COPYALL"
	r.Rule(rule, "copyConfig transfers every field of Config element-wise from src into dst, shares no container, never writes through src; NewConfig makes fresh containers; CopyConfig/ExtendConf copy into a fresh config", 14)
	fn := w.MustFn(r, rule, "copyConfig")
	named := w.NamedType("Config")
	if fn == nil || named == nil || len(fn.Params) != 2 {
		r.Unresolved(rule, "copyConfig(dst, src *Config) or type Config not found")
		return
	}
	st := named.Underlying().(*types.Struct)
	dst, src := fn.Params[0], fn.Params[1]
	name := w.Name(fn)

	for i := 0; i < st.NumFields(); i++ {
		f := st.Field(i)
		what := fmt.Sprintf("Config.%s %s", f.Name(), types.TypeString(f.Type(), relTo))
		pos := w.Pos(f.Pos())
		switch f.Type().Underlying().(type) {
		case *types.Map:
			ok := false
			EachInstr(fn, func(in ssa.Instruction) {
				mu, isMU := in.(*ssa.MapUpdate)
				if !isMU || !isLoadOfParamField(mu.Map, dst, i) {
					return
				}
				// key and value come from a range over src.<field>
				k, okk := mu.Key.(*ssa.Extract)
				v, okv := mu.Value.(*ssa.Extract)
				if !okk || !okv || k.Tuple != v.Tuple || k.Index != 1 || v.Index != 2 {
					return
				}
				nx, isNext := k.Tuple.(*ssa.Next)
				if !isNext {
					return
				}
				rg, isRange := nx.Iter.(*ssa.Range)
				if !isRange || !isLoadOfParamField(rg.X, src, i) {
					return
				}
				// every element: the update executes on every iteration (no filtered entries)
				if !loopVisitsAll(nx.Block(), mu.Block()) {
					return
				}
				ok = true
			})
			r.Check(ok, rule, pos, name, what, "dst."+f.Name()+"[k] = v under `for k, v := range src."+f.Name()+"`",
				"no element-wise transfer from src."+f.Name()+" into dst."+f.Name()+": the copy silently loses this field")
		case *types.Slice:
			ok := false
			EachInstr(fn, func(in ssa.Instruction) {
				stre, isSt := in.(*ssa.Store)
				if !isSt || !isParamFieldAddr(stre.Addr, dst, i) {
					return
				}
				call, isCall := stre.Val.(*ssa.Call)
				if !isCall || calleeFullName(&call.Call) != "builtin.append" || len(call.Call.Args) != 2 {
					return
				}
				if !isLoadOfParamField(call.Call.Args[0], dst, i) {
					return
				}
				// appended elements originate from src.<field>: either src.F... directly or a one-element
				// varargs array filled from a range element of src.F
				if sliceDerivedFromParamField(call.Call.Args[1], src, i) {
					// inside a loop the append must execute on every iteration
					every := true
					if addr, okl := isLoad(firstElemOf(call.Call.Args[1])); okl {
						if ia, oki := addr.(*ssa.IndexAddr); oki {
							if hdr, okh := rangeIndexHeader(ia.Index, ia.X); okh {
								every = loopVisitsAll(hdr, call.Block())
							}
						}
					}
					if every {
						ok = true
					}
				}
			})
			r.Check(ok, rule, pos, name, what, "dst."+f.Name()+" = append(dst."+f.Name()+", elements of src."+f.Name()+")",
				"no element-wise transfer from src."+f.Name()+" into dst."+f.Name())
		default:
			ok := false
			EachInstr(fn, func(in ssa.Instruction) {
				stre, isSt := in.(*ssa.Store)
				if isSt && isParamFieldAddr(stre.Addr, dst, i) && isLoadOfParamField(stre.Val, src, i) {
					ok = true
				}
			})
			r.Check(ok, rule, pos, name, what, "dst."+f.Name()+" = src."+f.Name(), "field is not copied")
		}
	}

	// no container of src is assigned into dst; no write through src
	b := newLocalTaint(fn, src)
	shared := 0
	EachInstr(fn, func(in ssa.Instruction) {
		switch x := in.(type) {
		case *ssa.Store:
			if b.tainted(x.Addr) {
				r.Fail(rule, w.InstrPos(in), name, describe(x.Addr)+" = "+describe(x.Val), "copyConfig writes through its source argument")
				shared++
			} else if isContainerType(x.Val.Type()) && b.tainted(x.Val) {
				r.Fail(rule, w.InstrPos(in), name, describe(x.Addr)+" = "+describe(x.Val), "a container of src is assigned into dst: the copy shares mutable state with its source")
				shared++
			}
		case *ssa.MapUpdate:
			if b.tainted(x.Map) {
				r.Fail(rule, w.InstrPos(in), name, effectText(Effect{Instr: in}), "copyConfig writes a map of its source argument")
				shared++
			}
		}
	})
	if shared == 0 {
		r.OK(rule, w.Pos(fn.Pos()), name, "stores in copyConfig", "no store writes through src and no container-typed value derived from src is stored anywhere")
	}

	// NewConfig: every container field of the fresh Config is freshly made
	if nc := w.MustFn(r, rule, "NewConfig"); nc != nil {
		var alloc *ssa.Alloc
		for _, ret := range allReturns(nc) {
			if al, ok := ret.Results[0].(*ssa.Alloc); ok {
				alloc = al
			} else {
				r.Fail(rule, w.InstrPos(ret), "NewConfig", "return "+describe(ret.Results[0]), "NewConfig does not return a freshly allocated Config")
			}
		}
		if alloc != nil {
			for i := 0; i < st.NumFields(); i++ {
				f := st.Field(i)
				if !isContainerType(f.Type()) {
					continue
				}
				fresh := false
				EachInstr(nc, func(in ssa.Instruction) {
					stre, ok := in.(*ssa.Store)
					if !ok {
						return
					}
					fa, ok := stre.Addr.(*ssa.FieldAddr)
					if !ok || fa.X != alloc || fa.Field != i {
						return
					}
					switch v := stre.Val.(type) {
					case *ssa.MakeMap, *ssa.MakeSlice:
						fresh = true
					case *ssa.Slice:
						if _, ok := v.X.(*ssa.Alloc); ok {
							fresh = true
						}
					}
				})
				r.Check(fresh, rule, w.Pos(f.Pos()), "NewConfig", "fresh Config."+f.Name(), "initialised with a newly made container", "the new Config's container is not freshly made (nil map writes panic; shared containers alias)")
			}
		}
	}
	// CopyConfig and the ExtendConf closure hand copyConfig a fresh dst
	if cc := w.MustFn(r, rule, "CopyConfig"); cc != nil {
		okCall := false
		EachInstr(cc, func(in ssa.Instruction) {
			call, ok := in.(*ssa.Call)
			if !ok || call.Call.StaticCallee() != fn {
				return
			}
			if c2, ok := call.Call.Args[0].(*ssa.Call); ok && c2.Call.StaticCallee() == w.Fn("NewConfig") && call.Call.Args[1] == cc.Params[0] {
				okCall = true
				// the same fresh config is what CopyConfig returns
				for _, ret := range allReturns(cc) {
					if ret.Results[0] != c2 {
						okCall = false
					}
				}
			}
		})
		r.Check(okCall, rule, w.Pos(cc.Pos()), "CopyConfig", "copyConfig(NewConfig(), origin) and return of that fresh config", "dst is the fresh result of NewConfig() and is what is returned", "CopyConfig does not copy into (and return) a fresh config")
	}
	if ec := w.GlobalFuncValue("ExtendConf"); ec != nil {
		inner := (*ssa.Function)(nil)
		for _, an := range ec.AnonFuncs {
			inner = an
		}
		okCall := false
		if inner != nil && len(inner.Params) == 1 && len(inner.FreeVars) == 1 {
			EachInstr(inner, func(in ssa.Instruction) {
				call, ok := in.(*ssa.Call)
				if !ok || call.Call.StaticCallee() != fn {
					return
				}
				srcArg := call.Call.Args[1]
				if ld, ok := isLoad(srcArg); ok {
					srcArg = ld
				}
				if call.Call.Args[0] == inner.Params[0] && (srcArg == inner.FreeVars[0] || call.Call.Args[1] == inner.FreeVars[0]) {
					okCall = true
				}
			})
		}
		r.Check(okCall, rule, w.Pos(ec.Pos()), w.Name(ec), "ExtendConf(src) applies copyConfig(c, src) to the config under construction", "dst is the option's own config, src the captured source", "ExtendConf does not copy element-wise")
	} else {
		r.Unresolved(rule, "ExtendConf option not found")
	}
}

// firstElemOf: the value stored into the one-element varargs array behind a slice (nil if not of that shape).
func firstElemOf(v ssa.Value) ssa.Value {
	sl, ok := v.(*ssa.Slice)
	if !ok {
		return nil
	}
	al, ok := sl.X.(*ssa.Alloc)
	if !ok {
		return nil
	}
	for _, ref := range referrers(al) {
		if ia, ok := ref.(*ssa.IndexAddr); ok {
			for _, ref2 := range referrers(ia) {
				if st, ok := ref2.(*ssa.Store); ok && st.Addr == ssa.Value(ia) {
					return st.Val
				}
			}
		}
	}
	return nil
}

func isParamFieldAddr(v ssa.Value, p *ssa.Parameter, field int) bool {
	fa, ok := v.(*ssa.FieldAddr)
	return ok && fa.X == p && fa.Field == field
}

func isLoadOfParamField(v ssa.Value, p *ssa.Parameter, field int) bool {
	addr, ok := isLoad(v)
	return ok && isParamFieldAddr(addr, p, field)
}

// sliceDerivedFromParamField: the slice is p.F itself (or a reslice), or a
// varargs array whose elements were loaded from a range over p.F.
func sliceDerivedFromParamField(v ssa.Value, p *ssa.Parameter, field int) bool {
	if isLoadOfParamField(v, p, field) {
		return true
	}
	sl, ok := v.(*ssa.Slice)
	if !ok {
		return false
	}
	if isLoadOfParamField(sl.X, p, field) {
		return true
	}
	al, ok := sl.X.(*ssa.Alloc)
	if !ok {
		return false
	}
	all := true
	n := 0
	for _, ref := range referrers(al) {
		ia, ok := ref.(*ssa.IndexAddr)
		if !ok {
			continue
		}
		for _, ref2 := range referrers(ia) {
			st, ok := ref2.(*ssa.Store)
			if !ok || st.Addr != ia {
				continue
			}
			n++
			// value is a load of p.F[i]
			addr, ok := isLoad(st.Val)
			if !ok {
				all = false
				continue
			}
			ea, ok := addr.(*ssa.IndexAddr)
			if !ok || !isLoadOfParamField(ea.X, p, field) {
				all = false
			}
		}
	}
	return all && n > 0
}

// localTaint: intraprocedural forward taint from one parameter through
// address arithmetic, loads, slices, phis, extracts (container-typed values).
type localTaint struct {
	t map[ssa.Value]bool
}

func newLocalTaint(fn *ssa.Function, src ssa.Value) *localTaint {
	lt := &localTaint{t: map[ssa.Value]bool{src: true}}
	for changed := true; changed; {
		changed = false
		EachInstr(fn, func(in ssa.Instruction) {
			v, ok := in.(ssa.Value)
			if !ok || lt.t[v] {
				return
			}
			var from []ssa.Value
			switch x := v.(type) {
			case *ssa.FieldAddr:
				from = []ssa.Value{x.X}
			case *ssa.IndexAddr:
				from = []ssa.Value{x.X}
			case *ssa.Slice:
				from = []ssa.Value{x.X}
			case *ssa.UnOp:
				if x.Op == token.MUL {
					from = []ssa.Value{x.X}
				}
			case *ssa.Phi:
				from = x.Edges
			case *ssa.ChangeType:
				from = []ssa.Value{x.X}
			case *ssa.Lookup:
				from = []ssa.Value{x.X}
			case *ssa.Range:
				from = []ssa.Value{x.X}
			case *ssa.Next:
				from = []ssa.Value{x.Iter}
			case *ssa.Extract:
				from = []ssa.Value{x.Tuple}
			case *ssa.Call:
				if calleeFullName(&x.Call) == "builtin.append" {
					from = x.Call.Args[:1]
				}
			}
			for _, f := range from {
				if lt.t[f] {
					lt.t[v] = true
					changed = true
				}
			}
		})
	}
	return lt
}

func (lt *localTaint) tainted(v ssa.Value) bool { return lt.t[v] }

// ---- R-DETERM -----------------------------------------------------------------

func ruleDeterm(w *World, r *Report, set map[*ssa.Function]bool) {
	const rule = "R-DETERM"
	r.Rule(rule, "no source of nondeterminism in the compile closure: map iteration only with order-independent bodies; no random/time/os callee; no go/select; no pointer-to-integer conversion; stable sort only", 6)
	banned := []string{"math/rand.", "(*math/rand.", "crypto/rand.", "time.Now", "time.Since", "os.", "(*os.", "runtime.", "math/rand/v2."}
	clean := true
	for _, fn := range w.SortedFuncs(set) {
		EachInstr(fn, func(in ssa.Instruction) {
			pos := w.InstrPos(in)
			switch x := in.(type) {
			case *ssa.Go:
				clean = false
				r.Fail(rule, pos, w.Name(fn), "go statement", "concurrency inside Compile makes the result schedule-dependent")
			case *ssa.Select:
				clean = false
				r.Fail(rule, pos, w.Name(fn), "select", "nondeterministic choice")
			case *ssa.Convert:
				if _, isPtr := x.X.Type().Underlying().(*types.Pointer); isPtr {
					if b, ok := x.Type().Underlying().(*types.Basic); ok && b.Info()&types.IsInteger != 0 {
						clean = false
						r.Fail(rule, pos, w.Name(fn), describe(x), "pointer-to-integer conversion: address-dependent result")
					}
				}
			case *ssa.Range:
				if _, isMap := x.X.Type().Underlying().(*types.Map); !isMap {
					return
				}
				ok, why := mapRangeOrderIndependent(x)
				r.Check(ok, rule, pos, w.Name(fn), "range over map "+describe(x.X), "the loop body's only effect is a map update at the ranged key: independent of iteration order", why)
			case ssa.CallInstruction:
				name := calleeFullName(x.Common())
				for _, b := range banned {
					if strings.HasPrefix(name, b) {
						clean = false
						r.Fail(rule, pos, w.Name(fn), "call "+name, "a source of nondeterminism inside Compile")
					}
				}
				if strings.HasPrefix(name, "sort.") {
					stable := name == "sort.SliceStable" || name == "sort.Stable" || name == "sort.SearchInts" || name == "sort.SearchStrings" || name == "sort.Search"
					r.Check(stable, rule, pos, w.Name(fn), "call "+name, "stable sort: the result is a function of the input order", "an unstable sort makes the order of equal-cost operands implementation-dependent")
				}
			}
		})
	}
	if clean {
		r.OK(rule, "-", "-", fmt.Sprintf("%d functions of the compile closure", len(set)), "no go/select, no random/time/os/runtime callee, no pointer-to-integer conversion")
	}
}

// mapRangeOrderIndependent: all instructions in the loop of a map range are
// address computations, loads, the iteration itself, or a MapUpdate whose key
// is the ranged key.
func mapRangeOrderIndependent(rg *ssa.Range) (bool, string) {
	var next *ssa.Next
	for _, ref := range referrers(rg) {
		if n, ok := ref.(*ssa.Next); ok {
			next = n
		}
	}
	if next == nil {
		return false, "no iteration found for the range"
	}
	hdr := next.Block()
	iff, ok := hdr.Instrs[len(hdr.Instrs)-1].(*ssa.If)
	if !ok {
		return false, "unrecognised loop shape"
	}
	_ = iff
	body := hdr.Succs[0]
	// loop blocks: reachable from body without leaving through hdr's exit, until back at hdr
	blocks := map[*ssa.BasicBlock]bool{}
	stack := []*ssa.BasicBlock{body}
	for len(stack) > 0 {
		b := stack[len(stack)-1]
		stack = stack[:len(stack)-1]
		if b == hdr || blocks[b] {
			continue
		}
		blocks[b] = true
		stack = append(stack, b.Succs...)
	}
	for b := range blocks {
		if !hdr.Dominates(b) {
			return false, "loop body is not single-entry"
		}
		for _, in := range b.Instrs {
			switch x := in.(type) {
			case *ssa.Extract, *ssa.FieldAddr, *ssa.Jump, *ssa.If, *ssa.DebugRef, *ssa.IndexAddr, *ssa.Lookup, *ssa.BinOp, *ssa.Phi:
			case *ssa.UnOp:
				if x.Op != token.MUL && x.Op != token.NOT {
					return false, "instruction " + x.String() + " in the loop body"
				}
			case *ssa.MapUpdate:
				k, ok := x.Key.(*ssa.Extract)
				if !ok || k.Tuple != next || k.Index != 1 {
					return false, "map update at a key other than the ranged key: last writer wins, order-dependent"
				}
			case *ssa.Return:
				return false, "return inside the map iteration: which element is seen first depends on the iteration order"
			default:
				return false, "effect or call inside the map iteration (" + in.String() + "): the result may depend on the iteration order"
			}
		}
	}
	return true, ""
}

var c08Witnesses = []Witness{
	{Name: "parser-works-on-callers-config", Rule: "R-CONFTAINT", Edits: []Edit{
		{File: "parser.go", Old: "		conf:   CopyConfig(cc),", New: "		conf:   cc,"}}},
	{Name: "copy-skipped-when-no-directives", Rule: "R-CONFTAINT", Edits: []Edit{
		{File: "parser.go", Old: "func newParser(cc *Config, source string) *parser {\n	return &parser{\n		source: source,\n		conf:   CopyConfig(cc),\n	}\n}",
			New: "func newParser(cc *Config, source string) *parser {\n	p := &parser{source: source, conf: cc}\n	if cc == nil || strings.Contains(source, \";;;;\") {\n		p.conf = CopyConfig(cc)\n	}\n	return p\n}"}}},
	{Name: "undefined-variable-registered-in-origin", Rule: "R-CONFTAINT", Edits: []Edit{
		{File: "compiler.go", Old: "	ast, conf, err := newParser(originConf, exprStr).parse()\n	if err != nil {\n		return nil, err\n	}\n", New: "	ast, conf, err := newParser(originConf, exprStr).parse()\n	if err != nil {\n		return nil, err\n	}\n	if originConf != nil && conf.CompileOptions[AllowUndefinedVariable] {\n		originConf.CompileOptions[AllowUndefinedVariable] = true\n	}\n"}}},
	{Name: "copyconfig-shares-stateless-list", Rule: "R-COPYALL", Edits: []Edit{
		{File: "compiler.go", Old: "	for _, op := range src.StatelessOperators {\n		dst.StatelessOperators = append(dst.StatelessOperators, op)\n	}", New: "	dst.StatelessOperators = src.StatelessOperators"}}},
	{Name: "copyconfig-shares-costs-map", Rule: "R-COPYALL", Edits: []Edit{
		{File: "compiler.go", Old: "	for k, v := range src.CostsMap {\n		dst.CostsMap[k] = v\n	}", New: "	dst.CostsMap = src.CostsMap"}}},
	{Name: "copyconfig-forgets-costs-map", Rule: "R-COPYALL", Edits: []Edit{
		{File: "compiler.go", Old: "	for k, v := range src.CostsMap {\n		dst.CostsMap[k] = v\n	}\n", New: ""}}},
	{Name: "copyconfig-skips-zero-costs", Rule: "R-COPYALL", Edits: []Edit{
		{File: "compiler.go", Old: "	for k, v := range src.CostsMap {\n		dst.CostsMap[k] = v\n	}", New: "	for k, v := range src.CostsMap {\n		if v == 0 {\n			continue\n		}\n		dst.CostsMap[k] = v\n	}"}}},
	{Name: "new-config-field-not-copied", Rule: "R-COPYALL", Edits: []Edit{
		{File: "compiler.go", Old: "	StatelessOperators []string\n}", New: "	StatelessOperators []string\n\n	// MaxDepth limits nesting\n	MaxDepth int\n}"}}},
	{Name: "optimizer-cache-in-package-map", Rule: "R-GLOBALS", Edits: []Edit{
		{File: "compiler.go", Old: "func optimize(cc *Config, root *astNode) {\n	for _, opt := range optimizations {", New: "var optimizeRuns = map[CompileOption]int{}\n\nfunc optimize(cc *Config, root *astNode) {\n	for _, opt := range optimizations {\n		optimizeRuns[opt]++"}}},
	{Name: "compile-registers-builtin-alias", Rule: "R-GLOBALS", Edits: []Edit{
		{File: "parser.go", Old: "	op, exist := builtinOperators[opName]\n	if !exist {\n		op, exist = p.conf.OperatorMap[opName]\n	}\n	return op, exist", New: "	op, exist := builtinOperators[opName]\n	if !exist {\n		op, exist = p.conf.OperatorMap[opName]\n		if exist && p.conf.CompileOptions[Optimize] {\n			builtinOperators[opName] = op\n		}\n	}\n	return op, exist"}}},
	{Name: "unstable-sort", Rule: "R-DETERM", Edits: []Edit{
		{File: "compiler.go", Old: "	sort.SliceStable(root.children, func(i, j int) bool {", New: "	sort.Slice(root.children, func(i, j int) bool {"}}},
	{Name: "constants-resolved-by-map-iteration", Rule: "R-DETERM", Edits: []Edit{
		{File: "parser.go", Old: "	if val, ok := p.conf.ConstantMap[t.val]; ok {\n		p.walk()\n		return p.valNode(val), nil\n	}\n	return nil, nil", New: "	for name, val := range p.conf.ConstantMap {\n		if strings.EqualFold(name, t.val) {\n			p.walk()\n			return p.valNode(val), nil\n		}\n	}\n	return nil, nil"}}},
	{Name: "benign-copyconfig-reordered-and-renamed", Benign: true, Edits: []Edit{
		{File: "compiler.go", Old: "	for k, v := range src.ConstantMap {\n		dst.ConstantMap[k] = v\n	}\n	for k, v := range src.VariableKeyMap {\n		dst.VariableKeyMap[k] = v\n	}", New: "	for name, key := range src.VariableKeyMap {\n		dst.VariableKeyMap[name] = key\n	}\n	consts := dst.ConstantMap\n	for k, v := range src.ConstantMap {\n		consts[k] = v\n	}"}}},
	{Name: "benign-stateless-bulk-append", Benign: true, Edits: []Edit{
		{File: "compiler.go", Old: "	for _, op := range src.StatelessOperators {\n		dst.StatelessOperators = append(dst.StatelessOperators, op)\n	}", New: "	dst.StatelessOperators = append(dst.StatelessOperators, src.StatelessOperators...)"}}},
}
