package main

// C15 — infix notation means the same as the equivalent prefix expression:
// the operator table and the associativity rule.

import (
	"fmt"
	"go/ast"
	"go/constant"
	"go/token"
	"go/types"
	"sort"
	"strings"
	"unicode"

	"golang.org/x/tools/go/ssa"
)

func init() {
	register(&Property{
		ID:    "C15",
		Level: "other",
		Explanation: "Decides the operator-table clause: (R-PREC) the switch of getInfixOpInfo is read as a table name -> (precedence, arity): * / % share a level above + -, above !, above the seven comparisons (one level), above & &&, above | ||, above the comma, above parentheses, above the end marker; the function level exceeds all; arity is 2 for binary symbols and 1 for !; every key of builtinOperators that is not identifier-shaped has an explicit entry (a missing one silently becomes a function name) and aliases of one operator share a level; names without an entry get the function level and 'count from the stack'; " +
			"(R-ASSOC) in the reduction loop of the shunting-yard parser the loop stops only when the incoming operator binds strictly tighter than the stack top (comparePrecedence(car, top) > 0, with comparePrecedence = precedence(car) - precedence(top), or the function level for a function name), so equal precedence reduces first: left associativity; a function name never reduces what is below it; the operands of a reduced operator are popped into their slots from last to first (source order is kept). " +
			"(R-REDUCEGATE) every buildParentNode call of the reduction closure is edge-dominated by the losing outcome of comparePrecedence(car, top.t) > 0 for the closure's own arriving token; after `)` meets `(` the closure returns without building; for an arriving operator name its arity is consulted so that a prefix operator reduces nothing (D13, repaired). " +
			"(R-OPNAMES) a name is read as an undefined variable only when the resolver of buildOperatorNode (getOperator: built-in table, then Config.OperatorMap) does not know it; the infix parser tries leaves before operators. Panic-freedom of the shunting-yard stacks is C06. NOT decided: call arity from the recorded stack height and `!ident` splitting in the lexer, i.e. tree equality for all expressions. (R-INFIXWHOLE) the infix parser returns a tree only over the !p.hasNext() edge of its main loop, and every operator node is built from a completely filled slice of the cnt operands popped for it. Round 2: (R-LEAFFIRST) a token is consumed as an operator only on the edge where buildLeafNode returned no leaf for it; (R-REDUCEALL) the reduction loop is left only with an empty operator stack, after the parenthesis match, on winning the precedence comparison, or with an error; (R-WIDTH) no stack height of the infix parser is narrowed.",
		Run:       runC15,
		Witnesses: c15Witnesses,
	})
}

type infixEntry struct {
	prec, arity int64
	pos         token.Pos
}

// infixTable extracts the switch of getInfixOpInfo.
func infixTable(w *World) (map[string]infixEntry, *infixEntry, error) {
	fd := w.FuncDecl("parser", "getInfixOpInfo")
	if fd == nil {
		return nil, nil, fmt.Errorf("method getInfixOpInfo not found")
	}
	var sw *ast.SwitchStmt
	findSwitches(fd.Body, func(s *ast.SwitchStmt) {
		if sw == nil {
			sw = s
		}
	})
	if sw == nil {
		// the same table as data: `if info, ok := TABLE[op]; ok { return info }; return <default literal>` over a
		// package-level map literal that nothing else writes
		if t, d, err := infixTableFromMap(w, fd); err == nil {
			return t, d, nil
		} else if err != errNoMapTable {
			return nil, nil, err
		}
	}
	if sw == nil || sw.Tag == nil {
		return nil, nil, fmt.Errorf("getInfixOpInfo is not a switch over its argument")
	}
	if id, ok := ast.Unparen(sw.Tag).(*ast.Ident); !ok || len(fd.Type.Params.List) != 1 || w.Info.Uses[id] != w.Info.Defs[fd.Type.Params.List[0].Names[0]] {
		return nil, nil, fmt.Errorf("the switch tag is not the operator name parameter")
	}
	constOf := func(val ast.Expr) (int64, bool) {
		tv := w.Info.Types[val]
		if tv.Value == nil || tv.Value.Kind() != constant.Int {
			return 0, false
		}
		v, _ := constant.Int64Val(tv.Value)
		return v, true
	}
	var entryOf func(body []ast.Stmt) (*infixEntry, error)
	// the same table written as assignments to a result variable that is returned after the switch
	assignForm := func(body []ast.Stmt) (*infixEntry, error) {
		if len(body) == 0 {
			return nil, fmt.Errorf("empty case body")
		}
		e := &infixEntry{pos: body[0].Pos()}
		for _, st := range body {
			as, ok := st.(*ast.AssignStmt)
			if !ok || len(as.Lhs) != 1 || len(as.Rhs) != 1 || as.Tok != token.ASSIGN {
				return nil, fmt.Errorf("case body is neither a single return nor assignments to the result")
			}
			switch lhs := as.Lhs[0].(type) {
			case *ast.Ident:
				if _, isLit := ast.Unparen(as.Rhs[0]).(*ast.CompositeLit); !isLit {
					return nil, fmt.Errorf("assigned value is not a literal")
				}
				sub, err := entryOf([]ast.Stmt{&ast.ReturnStmt{Return: as.Pos(), Results: []ast.Expr{as.Rhs[0]}}})
				if err != nil {
					return nil, err
				}
				e.prec, e.arity = sub.prec, sub.arity
			case *ast.SelectorExpr:
				v, okc := constOf(as.Rhs[0])
				if !okc {
					return nil, fmt.Errorf("non-constant field value")
				}
				switch lhs.Sel.Name {
				case "precedence":
					e.prec = v
				case "childCount":
					e.arity = v
				default:
					return nil, fmt.Errorf("unknown field %s", lhs.Sel.Name)
				}
			default:
				return nil, fmt.Errorf("unexpected assignment target")
			}
		}
		return e, nil
	}
	entryOf = func(body []ast.Stmt) (*infixEntry, error) {
		if len(body) != 1 {
			return assignForm(body)
		}
		ret, ok := body[0].(*ast.ReturnStmt)
		if !ok || len(ret.Results) != 1 {
			return assignForm(body)
		}
		cl, ok := ast.Unparen(ret.Results[0]).(*ast.CompositeLit)
		if !ok {
			return nil, fmt.Errorf("return value is not a literal")
		}
		e := &infixEntry{pos: ret.Pos()}
		for i, el := range cl.Elts {
			name := ""
			val := el
			if kv, ok := el.(*ast.KeyValueExpr); ok {
				name = kv.Key.(*ast.Ident).Name
				val = kv.Value
			} else if i == 0 {
				name = "precedence"
			} else {
				name = "childCount"
			}
			tv := w.Info.Types[val]
			if tv.Value == nil || tv.Value.Kind() != constant.Int {
				return nil, fmt.Errorf("non-constant %s", name)
			}
			v, _ := constant.Int64Val(tv.Value)
			switch name {
			case "precedence":
				e.prec = v
			case "childCount":
				e.arity = v
			}
		}
		return e, nil
	}
	table := map[string]infixEntry{}
	var dflt *infixEntry
	for _, st := range sw.Body.List {
		cc := st.(*ast.CaseClause)
		e, err := entryOf(cc.Body)
		if err != nil {
			return nil, nil, fmt.Errorf("%s at %s", err, w.Pos(cc.Pos()))
		}
		if cc.List == nil {
			dflt = e
			continue
		}
		for _, x := range cc.List {
			tv := w.Info.Types[x]
			if tv.Value == nil || tv.Value.Kind() != constant.String {
				return nil, nil, fmt.Errorf("non-constant case at %s", w.Pos(x.Pos()))
			}
			k := constant.StringVal(tv.Value)
			if _, dup := table[k]; dup {
				return nil, nil, fmt.Errorf("duplicate case %q", k)
			}
			table[k] = *e
		}
	}
	return table, dflt, nil
}

func identShaped(s string) bool {
	if s == "" {
		return false
	}
	for i, r := range s {
		if unicode.IsLetter(r) || r == '_' || r == '.' || (i > 0 && unicode.IsNumber(r)) {
			continue
		}
		return false
	}
	return true
}

func runC15(w *World, r *Report) {
	if kc, kn := ruleCheckConstants(w, r); true {
		// the infix parser keeps stack heights: none of them may be narrowed (R-WIDTH)
		ruleWidth(w, r, kc, kn)
	}
	ruleLeafFirst(w, r)
	const rule = "R-PREC"
	r.Rule(rule, "precedence/arity table of infix operators: documented level order, arities, coverage of every symbolic operator of the operator table", 14)
	table, dflt, err := infixTable(w)
	if err != nil {
		r.Unresolved(rule, err.Error())
		return
	}
	funcPrec, okf := w.ConstInt("funcPrecedence")
	if !okf {
		r.Unresolved(rule, "funcPrecedence not found")
		return
	}
	rendered := map[string]string{}
	for k, e := range table {
		rendered[k] = fmt.Sprintf("prec=%d arity=%d", e.prec, e.arity)
	}
	r.Extra["infix_table"] = rendered
	pos := func(k string) string {
		if e, ok := table[k]; ok {
			return w.Pos(e.pos)
		}
		return "-"
	}
	levels := [][]string{
		{"*", "/", "%"},
		{"+", "-"},
		{"!"},
		{"=", "==", "!=", "<", ">", "<=", ">="},
		{"&", "&&"},
		{"|", "||"},
		{","},
		{"(", ")"},
		{""},
	}
	levelPrec := make([]int64, len(levels))
	for i, lv := range levels {
		same := true
		var p int64
		missing := ""
		for j, k := range lv {
			e, ok := table[k]
			if !ok {
				missing = k
				same = false
				break
			}
			if j == 0 {
				p = e.prec
			} else if e.prec != p {
				same = false
			}
		}
		levelPrec[i] = p
		why := "operators of one level do not share a precedence"
		if missing != "" {
			why = fmt.Sprintf("%q has no entry: it is read as a function name", missing)
		}
		r.Check(same, rule, pos(lv[0]), "getInfixOpInfo", fmt.Sprintf("level %v -> %d", lv, p), "one precedence for the whole level (aliases included)", why)
	}
	for i := 0; i+1 < len(levels); i++ {
		r.Check(levelPrec[i] > levelPrec[i+1], rule, pos(levels[i][0]), "getInfixOpInfo", fmt.Sprintf("%v (%d) binds tighter than %v (%d)", levels[i], levelPrec[i], levels[i+1], levelPrec[i+1]), "conventional order", "the documented precedence order is violated")
	}
	maxp := levelPrec[0]
	r.Check(funcPrec > maxp && dflt != nil && dflt.prec == funcPrec && dflt.arity == -1, rule, "-", "getInfixOpInfo", fmt.Sprintf("function level %d, default entry %+v", funcPrec, fmtEntry(dflt)), "names without an entry bind tightest and take their operand count from the stack", "function calls do not bind tighter than every operator, or the default entry is not the function entry")
	// arities
	for _, lv := range levels[:6] {
		for _, k := range lv {
			want := int64(2)
			if k == "!" {
				want = 1
			}
			if e, ok := table[k]; ok {
				r.Check(e.arity == want, rule, w.Pos(e.pos), "getInfixOpInfo", fmt.Sprintf("%q arity %d", k, e.arity), "as the notation requires", fmt.Sprintf("want %d", want))
			}
		}
	}
	// coverage of the operator table
	ops, err := w.OperatorTable("builtinOperators")
	if err != nil {
		r.Unresolved(rule, err.Error())
		return
	}
	var symbolic, uncovered []string
	for _, impl := range ops {
		if identShaped(impl.Key) {
			continue
		}
		symbolic = append(symbolic, impl.Key)
		if _, ok := table[impl.Key]; !ok {
			uncovered = append(uncovered, impl.Key)
		}
	}
	sort.Strings(symbolic)
	r.Check(len(uncovered) == 0 && len(symbolic) >= 10, rule, "-", "getInfixOpInfo", fmt.Sprintf("%d symbolic operators of the operator table", len(symbolic)), "each has an explicit precedence entry", fmt.Sprintf("no entry for %v: in infix notation it would be treated as a function name", uncovered))
	// aliases share implementation => share a level (cross-check with the operator table)
	byCanon := map[string][]string{}
	for _, impl := range ops {
		if _, ok := table[impl.Key]; ok {
			byCanon[impl.Canon()] = append(byCanon[impl.Canon()], impl.Key)
		}
	}
	for canon, names := range byCanon {
		ok := true
		for _, n := range names[1:] {
			if table[n] != (infixEntry{prec: table[names[0]].prec, arity: table[names[0]].arity, pos: table[n].pos}) {
				ok = false
			}
		}
		if len(names) > 1 {
			sort.Strings(names)
			r.Check(ok, rule, pos(names[0]), "getInfixOpInfo", fmt.Sprintf("aliases %v of %s", names, canon), "same precedence and arity", "aliases of one operator parse differently")
		}
	}
	ruleAssoc(w, r, funcPrec)
	ruleReduceGate(w, r)
	ruleReduceAll(w, r)
	ruleInfixWhole(w, r)
	ruleOpNames(w, r)
}

func fmtEntry(e *infixEntry) string {
	if e == nil {
		return "<none>"
	}
	return fmt.Sprintf("{prec %d arity %d}", e.prec, e.arity)
}

func ruleAssoc(w *World, r *Report, funcPrec int64) {
	const rule = "R-ASSOC"
	r.Rule(rule, "reduction stops only for a strictly tighter incoming operator (left associativity); comparePrecedence is precedence(car) - precedence(top) or the function level; operands are popped last to first", 3)
	pie := w.MustFn(r, rule, "(*parser).parseInfixExpression")
	if pie == nil {
		return
	}
	cmp, reduce := infixClosures(pie)
	if cmp == nil || reduce == nil {
		r.Unresolved(rule, "comparePrecedence / buildTopOperators closures not found")
		return
	}
	// comparePrecedence
	precOf := func(v ssa.Value) string {
		f, ok := v.(*ssa.Field)
		if !ok || fieldName(f.X.Type(), f.Field) != "precedence" {
			return ""
		}
		c, ok := f.X.(*ssa.Call)
		if !ok || c.Call.StaticCallee() == nil || nm(c.Call.StaticCallee()) != "getInfixOpInfo" {
			return ""
		}
		arg := c.Call.Args[len(c.Call.Args)-1]
		base, okb := loadOfField(arg, "token", "val")
		if !okb {
			return ""
		}
		carP, topP := cmpParams(cmp)
		switch varRoot(mustLoadOf(base)) {
		case carP:
			return "P(car)"
		case topP:
			return "P(top)"
		}
		return ""
	}
	tc := &termCtx{leaf: precOf}
	var terms []string
	fnLevelOK := true
	for _, ret := range allReturns(cmp) {
		t := tc.term(ret.Results[0])
		if c, ok := constInt(ret.Results[0]); ok {
			// constant: only the function level, under P(car) == funcPrecedence
			under := false
			for _, f := range factsAt(ret.Block()) {
				if bo, ok := f.Cond.(*ssa.BinOp); ok && bo.Op == token.EQL && f.Truth && precOf(bo.X) == "P(car)" {
					if k, okk := constInt(bo.Y); okk && k == funcPrec {
						under = true
					}
				}
			}
			if c != funcPrec || !under {
				fnLevelOK = false
			}
			continue
		}
		terms = append(terms, t)
	}
	r.Check(len(terms) == 1 && terms[0] == "(P(car) - P(top))" && fnLevelOK, rule, w.Pos(cmp.Pos()), w.Name(cmp), "comparePrecedence returns "+strings.Join(terms, " / "), "precedence(car) - precedence(top); a function name compares as tightest", "comparePrecedence does not compare the incoming operator with the stack top in that direction")
	// the loop's stop condition
	stopOK := false
	popOrderOK := false
	EachInstr(reduce, func(in ssa.Instruction) {
		iff, ok := in.(*ssa.If)
		if !ok {
			return
		}
		bo, ok := iff.Cond.(*ssa.BinOp)
		if !ok {
			return
		}
		c, okc := bo.X.(*ssa.Call)
		if !okc || !callsClosure(c, cmp) {
			return
		}
		k, okk := constInt(bo.Y)
		if !okk {
			return
		}
		// the stopping edge leaves the loop: it reaches a return without another reduction
		stopEdge := -1
		switch {
		case bo.Op == token.GTR && k == 0, bo.Op == token.GEQ && k == 1:
			stopEdge = 0
		case bo.Op == token.LEQ && k == 0, bo.Op == token.LSS && k == 1:
			stopEdge = 1
		}
		if stopEdge < 0 {
			return
		}
		// args: (car, top.t)
		na := len(c.Call.Args)
		argsOK := na >= 2 && varRoot(c.Call.Args[na-2]) == reduce.Params[0]
		if argsOK {
			argsOK = tokenOfStackTop(c.Call.Args[na-1])
		}
		leaves := blockReturn(iff.Block().Succs[stopEdge]) != nil || onlyReturnsFrom(iff.Block().Succs[stopEdge])
		if argsOK && leaves {
			stopOK = true
		}
	})
	r.Check(stopOK, rule, w.Pos(reduce.Pos()), w.Name(reduce), "reduction loop stop condition", "stops exactly when comparePrecedence(car, top) > 0: equal precedence reduces first (left associative)", "the reduction loop stops on equal precedence too (right associativity) or compares in the wrong direction")
	// operands are popped into children[cnt-1 .. 0]
	EachInstr(reduce, func(in ssa.Instruction) {
		st, ok := in.(*ssa.Store)
		if !ok {
			return
		}
		ia, ok := st.Addr.(*ssa.IndexAddr)
		if !ok {
			return
		}
		if _, isMS := ia.X.(*ssa.MakeSlice); !isMS {
			return
		}
		phi, okp := ia.Index.(*ssa.Phi)
		if !okp {
			return
		}
		down := false
		for _, e := range phi.Edges {
			if bo, ok := e.(*ssa.BinOp); ok && bo.Op == token.SUB && bo.X == ssa.Value(phi) {
				if c, okc := constInt(bo.Y); okc && c == 1 {
					down = true
				}
			}
		}
		if _, isCall := st.Val.(*ssa.Call); isCall && down {
			popOrderOK = true
		}
	})
	if !popOrderOK {
		// the operands taken in one piece: copy(children, outputStack[len-cnt:]) keeps the source order too
		fns := []*ssa.Function{reduce}
		EachInstr(reduce, func(in ssa.Instruction) {
			if c, ok := in.(*ssa.Call); ok && !c.Call.IsInvoke() {
				if h := c.Call.StaticCallee(); h != nil && len(h.Blocks) > 0 && h.Parent() == reduce.Parent() {
					fns = append(fns, h)
				}
			}
		})
		for _, an := range reduce.Parent().AnonFuncs {
			fns = append(fns, an)
		}
		for _, f := range fns {
			EachInstr(f, func(in ssa.Instruction) {
				c, ok := in.(*ssa.Call)
				if !ok {
					return
				}
				b, okb := c.Call.Value.(*ssa.Builtin)
				if !okb || nm(b) != "copy" {
					return
				}
				dst, okd := c.Call.Args[0].(*ssa.MakeSlice)
				src, oks := c.Call.Args[1].(*ssa.Slice)
				if !okd || !oks || src.High != nil || src.Low == nil {
					return
				}
				// Low = len(stack) - cnt with cnt the length of dst
				if lo, okl := src.Low.(*ssa.BinOp); okl && lo.Op == token.SUB && isLenCall(lo.X) && lo.Y == dst.Len {
					popOrderOK = true
				}
			})
		}
	}
	r.Check(popOrderOK, rule, w.Pos(reduce.Pos()), w.Name(reduce), "children[i] = pop() for i = cnt-1 … 0", "the last pushed operand becomes the last child: source order is kept", "operands are popped into their slots in the wrong direction: operand order is reversed")
}

func mustLoadOf(base ssa.Value) ssa.Value {
	// base is the address space root (an Alloc spilled from a parameter): build the load shape varRoot expects
	if al, ok := base.(*ssa.Alloc); ok {
		for _, ref := range referrers(al) {
			if u, ok := ref.(*ssa.UnOp); ok && u.Op == token.MUL {
				return u
			}
		}
		// no direct load: emulate through its single store
		stores := cellStores(al)
		if len(stores) == 1 {
			return stores[0].Val
		}
	}
	return base
}

// onlyReturnsFrom: every path from b reaches a return without passing a call.
func onlyReturnsFrom(b *ssa.BasicBlock) bool {
	seen := map[*ssa.BasicBlock]bool{}
	stack := []*ssa.BasicBlock{b}
	for len(stack) > 0 {
		x := stack[len(stack)-1]
		stack = stack[:len(stack)-1]
		if seen[x] {
			return false
		}
		seen[x] = true
		for _, in := range x.Instrs {
			if _, ok := in.(*ssa.Call); ok {
				return false
			}
		}
		if blockReturn(x) != nil {
			continue
		}
		stack = append(stack, x.Succs...)
	}
	return true
}

var c15Witnesses = append(append(append(append(wave4WitnessesC15, infixWholeWitnesses...), leafFirstWitnesses...), append(append(infixMapTableWitnesses, wave9Witnesses15...), wave10Witnesses15...)...), []Witness{
	{Name: "mod-at-additive-level", Rule: "R-PREC", Edits: []Edit{
		{File: "parser.go", Old: "	case \"*\", \"/\", \"%\":\n		return infixOpInfo{precedence: 8, childCount: 2}\n	case \"+\", \"-\":", New: "	case \"*\", \"/\":\n		return infixOpInfo{precedence: 8, childCount: 2}\n	case \"+\", \"-\", \"%\":"}}},
	{Name: "double-equals-missing", Rule: "R-PREC", Edits: []Edit{
		{File: "parser.go", Old: "	case \"=\", \"==\", \"!=\", \"<\", \">\", \"<=\", \">=\":", New: "	case \"=\", \"!=\", \"<\", \">\", \"<=\", \">=\":"}}},
	{Name: "and-or-same-level", Rule: "R-PREC", Edits: []Edit{
		{File: "parser.go", Old: "	case \"|\", \"||\":\n		return infixOpInfo{precedence: 3, childCount: 2}", New: "	case \"|\", \"||\":\n		return infixOpInfo{precedence: 4, childCount: 2}"}}},
	{Name: "not-binary", Rule: "R-PREC", Edits: []Edit{
		{File: "parser.go", Old: "		return infixOpInfo{precedence: 6, childCount: 1}", New: "		return infixOpInfo{precedence: 6, childCount: 2}"}}},
	{Name: "right-associative-stop", Rule: "R-ASSOC", Edits: []Edit{
		{File: "parser.go", Old: "				if comparePrecedence(car, top.t) > 0 {", New: "				if comparePrecedence(car, top.t) >= 0 {"}}},
	{Name: "compare-direction-swapped", Rule: "R-ASSOC", Edits: []Edit{
		{File: "parser.go", Old: "			return p1 - p2\n", New: "			return p2 - p1\n"}}},
	{Name: "operands-popped-forward", Rule: "R-ASSOC", Edits: []Edit{
		{File: "parser.go", Old: "				for i := cnt - 1; i >= 0; i-- {\n					children[i] = pop()\n				}", New: "				for i := 0; i < cnt; i++ {\n					children[i] = pop()\n				}"}}},
	{Name: "prefix-operator-reduces-stack (D13)", Rule: "R-REDUCEGATE", Edits: []Edit{
		{File: "parser.go", Old: "			if p.getInfixOpInfo(car.val).childCount != 1 {\n				err = buildTopOperators(car)\n				if err != nil {\n					return nil, err\n				}\n			}", New: "			err = buildTopOperators(car)\n			if err != nil {\n				return nil, err\n			}"}}},
	{Name: "call-built-early-at-closing-paren", Rule: "R-REDUCEGATE", Edits: []Edit{
		{File: "parser.go", Old: "			for l := len(operatorStack); l != 0; l = len(operatorStack) {\n				top := operatorStack[l-1]\n				if car.typ == rParen && top.t.typ == lParen {\n					operatorStack = operatorStack[:l-1]\n					break\n				}\n\n				if comparePrecedence(car, top.t) > 0 {", New: "			closeCall := false\n			for l := len(operatorStack); l != 0; l = len(operatorStack) {\n				top := operatorStack[l-1]\n				if car.typ == rParen && top.t.typ == lParen {\n					operatorStack = operatorStack[:l-1]\n					if l > 1 && operatorStack[l-2].t.typ == ident && operatorStack[l-2].l == top.l {\n						closeCall = true\n						continue\n					}\n					break\n				}\n\n				if !closeCall && comparePrecedence(car, top.t) > 0 {"}}},
	{Name: "paren-match-keeps-reducing", Rule: "R-REDUCEGATE", Edits: []Edit{
		{File: "parser.go", Old: "				if car.typ == rParen && top.t.typ == lParen {\n					operatorStack = operatorStack[:l-1]\n					break\n				}", New: "				if car.typ == rParen && top.t.typ == lParen {\n					operatorStack = operatorStack[:l-1]\n					car = token{}\n					continue\n				}"}}},
	{Name: "benign-prefix-test-inside-closure", Benign: true, Edits: []Edit{
		{File: "parser.go", Old: "			if p.getInfixOpInfo(car.val).childCount != 1 {\n				err = buildTopOperators(car)\n				if err != nil {\n					return nil, err\n				}\n			}", New: "			err = buildTopOperators(car)\n			if err != nil {\n				return nil, err\n			}"},
		{File: "parser.go", Old: "		buildTopOperators = func(car token) error {\n", New: "		buildTopOperators = func(car token) error {\n			if car.typ == ident && p.getInfixOpInfo(car.val).childCount == 1 {\n				return nil\n			}\n"}}},
	{Name: "benign-stop-test-inverted-form", Benign: true, Edits: []Edit{
		{File: "parser.go", Old: "				if comparePrecedence(car, top.t) > 0 {\n					break\n				}\n", New: "				if c := comparePrecedence(car, top.t); c >= 1 {\n					break\n				}\n"}}},
	{Name: "benign-precedence-renumbered", Benign: true, Edits: []Edit{
		{File: "parser.go", Old: "		return infixOpInfo{precedence: 8, childCount: 2}", New: "		return infixOpInfo{precedence: 9, childCount: 2}"}}},
}...)

// tokenOfStackTop: v is a token-typed field of a value loaded from a slice element (the top entry of the operator
// stack), whatever the entry type and its fields are called.
func tokenOfStackTop(v ssa.Value) bool {
	if typeNameOf(v.Type()) != "token" {
		return false
	}
	for depth := 0; depth < 6; depth++ {
		switch x := v.(type) {
		case *ssa.UnOp:
			if x.Op != token.MUL {
				return false
			}
			v = x.X
		case *ssa.FieldAddr:
			v = x.X
		case *ssa.Field:
			v = x.X
		case *ssa.IndexAddr:
			return true
		case *ssa.Alloc:
			// a local copy of the stack top: its single store comes from a slice element
			sts := cellStores(x)
			if len(sts) != 1 {
				return false
			}
			v = sts[0].Val
		default:
			return false
		}
	}
	return false
}


var errNoMapTable = fmt.Errorf("no map table")

func infixTableFromMap(w *World, fd *ast.FuncDecl) (map[string]infixEntry, *infixEntry, error) {
	if len(fd.Body.List) != 2 || len(fd.Type.Params.List) != 1 {
		return nil, nil, errNoMapTable
	}
	ifs, ok := fd.Body.List[0].(*ast.IfStmt)
	ret, ok2 := fd.Body.List[1].(*ast.ReturnStmt)
	if !ok || !ok2 || ifs.Else != nil || ifs.Init == nil || len(ret.Results) != 1 {
		return nil, nil, errNoMapTable
	}
	as, ok := ifs.Init.(*ast.AssignStmt)
	if !ok || len(as.Lhs) != 2 || len(as.Rhs) != 1 {
		return nil, nil, errNoMapTable
	}
	ix, ok := ast.Unparen(as.Rhs[0]).(*ast.IndexExpr)
	if !ok {
		return nil, nil, errNoMapTable
	}
	tid, ok := ast.Unparen(ix.X).(*ast.Ident)
	kid, ok2 := ast.Unparen(ix.Index).(*ast.Ident)
	if !ok || !ok2 || w.Info.Uses[kid] != w.Info.Defs[fd.Type.Params.List[0].Names[0]] {
		return nil, nil, errNoMapTable
	}
	// `ok` is the condition, `info` is returned
	cid, ok := ast.Unparen(ifs.Cond).(*ast.Ident)
	if !ok || w.Info.Uses[cid] != w.Info.Defs[as.Lhs[1].(*ast.Ident)] || len(ifs.Body.List) != 1 {
		return nil, nil, errNoMapTable
	}
	r1, ok := ifs.Body.List[0].(*ast.ReturnStmt)
	if !ok || len(r1.Results) != 1 {
		return nil, nil, errNoMapTable
	}
	rid, ok := ast.Unparen(r1.Results[0]).(*ast.Ident)
	if !ok || w.Info.Uses[rid] != w.Info.Defs[as.Lhs[0].(*ast.Ident)] {
		return nil, nil, errNoMapTable
	}
	gv, isVar := w.Info.Uses[tid].(*types.Var)
	if !isVar || gv.Parent() != w.Types.Scope() {
		return nil, nil, errNoMapTable
	}
	init, _ := w.globalInit(gv.Name())
	cl, ok := ast.Unparen(init).(*ast.CompositeLit)
	if init == nil || !ok {
		return nil, nil, fmt.Errorf("the infix table %s is not initialised by a map literal", gv.Name())
	}
	// nothing writes the table after initialisation
	if g := w.GlobalVar(gv.Name()); g != nil {
		for _, fn := range w.SortedFuncs(funcSet(w.Funcs)) {
			if fn.Name() == "init" && fn.Parent() == nil && fn.Signature.Recv() == nil {
				continue // the package initialiser is what fills the literal
			}
			bad := false
			EachInstr(fn, func(in ssa.Instruction) {
				switch x := in.(type) {
				case *ssa.MapUpdate:
					if a, okl := isLoad(x.Map); okl && a == ssa.Value(g) {
						bad = true
					}
				case *ssa.Store:
					if x.Addr == ssa.Value(g) {
						bad = true
					}
				}
			})
			if bad {
				return nil, nil, fmt.Errorf("the infix table %s is written in %s", gv.Name(), w.Name(fn))
			}
		}
	}
	lit := func(e ast.Expr, pos token.Pos) (*infixEntry, error) {
		c, ok := ast.Unparen(e).(*ast.CompositeLit)
		if !ok {
			return nil, fmt.Errorf("table value is not a literal at %s", w.Pos(e.Pos()))
		}
		out := &infixEntry{pos: pos}
		for i, el := range c.Elts {
			name, val := "", el
			if kv, ok := el.(*ast.KeyValueExpr); ok {
				name, val = kv.Key.(*ast.Ident).Name, kv.Value
			} else if i == 0 {
				name = "precedence"
			} else {
				name = "childCount"
			}
			tv := w.Info.Types[val]
			if tv.Value == nil || tv.Value.Kind() != constant.Int {
				return nil, fmt.Errorf("non-constant %s at %s", name, w.Pos(val.Pos()))
			}
			v, _ := constant.Int64Val(tv.Value)
			switch name {
			case "precedence":
				out.prec = v
			case "childCount":
				out.arity = v
			}
		}
		return out, nil
	}
	table := map[string]infixEntry{}
	for _, el := range cl.Elts {
		kv, ok := el.(*ast.KeyValueExpr)
		if !ok {
			return nil, nil, fmt.Errorf("table element without key at %s", w.Pos(el.Pos()))
		}
		tv := w.Info.Types[kv.Key]
		if tv.Value == nil || tv.Value.Kind() != constant.String {
			return nil, nil, fmt.Errorf("non-constant table key at %s", w.Pos(kv.Key.Pos()))
		}
		e, err := lit(kv.Value, kv.Pos())
		if err != nil {
			return nil, nil, err
		}
		k := constant.StringVal(tv.Value)
		if _, dup := table[k]; dup {
			return nil, nil, fmt.Errorf("duplicate table key %q", k)
		}
		table[k] = *e
	}
	d, err := lit(ret.Results[0], ret.Pos())
	if err != nil {
		return nil, nil, err
	}
	return table, d, nil
}
