package main

// Loading of the repository under analysis and the shared program model:
// type-checked syntax, SSA form, call graphs (CHA seed, VTA refinement) and
// lookup helpers. Everything here reads source; nothing is executed.

import (
	"fmt"
	"go/ast"
	"go/token"
	"go/types"
	"os"
	"path/filepath"
	"sort"
	"strings"

	"golang.org/x/tools/go/callgraph"
	"golang.org/x/tools/go/callgraph/cha"
	"golang.org/x/tools/go/callgraph/vta"
	"golang.org/x/tools/go/packages"
	"golang.org/x/tools/go/ssa"
	"golang.org/x/tools/go/ssa/ssautil"
)

const targetPkgPath = "github.com/onheap/eval"

// LoadConfig selects the tree and build configuration to analyse.
type LoadConfig struct {
	Dir     string            // repository root
	Tags    string            // extra build tags
	GOARCH  string            // "" = default
	Overlay map[string][]byte // in-memory file replacements (witness mutants)
	Inline  bool              // analyse the program with new (non-reference) helpers inlined at source level
}

// World is the resolved program.
type World struct {
	alias        map[*ssa.Function]string // renamed functions -> reference relative name (rename.go)
	aliasObj     map[types.Object]string
	Renamed      []string // what was resolved, for the evidence
	SplitReturns int      // join-and-return blocks folded back into their predecessors (splitret.go)
	InlineDescr  string   // helpers inlined at source level ("" = program as written)
	useSites     map[*ssa.Function][]ssa.Instruction
	Cfg          LoadConfig
	Fset         *token.FileSet
	Pkg          *packages.Package
	Types        *types.Package
	Info         *types.Info
	Prog         *ssa.Program
	SPkg         *ssa.Package

	// All functions with bodies that belong to the package (declared functions,
	// methods, anonymous functions, init) plus synthetic wrappers over them.
	Funcs   []*ssa.Function
	byName  map[string]*ssa.Function
	CHA     *callgraph.Graph
	VTA     *callgraph.Graph
	Files   []string
	funcSet map[*ssa.Function]bool
}

// loadError is returned when the tree cannot be analysed at all (exit 2).
type loadError struct{ msg string }

func (e *loadError) Error() string { return e.msg }

func Load(cfg LoadConfig) (*World, error) {
	env := os.Environ()
	filtered := env[:0:0]
	for _, kv := range env {
		if strings.HasPrefix(kv, "GOWORK=") || strings.HasPrefix(kv, "GOFLAGS=") ||
			strings.HasPrefix(kv, "GOPROXY=") || strings.HasPrefix(kv, "GOARCH=") ||
			strings.HasPrefix(kv, "GOTOOLCHAIN=") || strings.HasPrefix(kv, "GOSUMDB=") {
			continue
		}
		filtered = append(filtered, kv)
	}
	filtered = append(filtered, "GOWORK=off", "GOFLAGS=-mod=mod", "GOPROXY=off",
		"GOSUMDB=off", "GOTOOLCHAIN=local")
	if cfg.GOARCH != "" {
		filtered = append(filtered, "GOARCH="+cfg.GOARCH)
	}
	pc := &packages.Config{
		Mode:    packages.LoadAllSyntax,
		Dir:     cfg.Dir,
		Env:     filtered,
		Tests:   false,
		Overlay: cfg.Overlay,
	}
	if cfg.Tags != "" {
		pc.BuildFlags = []string{"-tags=" + cfg.Tags}
	}
	pkgs, err := packages.Load(pc, ".")
	if err != nil {
		return nil, &loadError{"packages.Load: " + err.Error()}
	}
	if len(pkgs) != 1 {
		return nil, &loadError{fmt.Sprintf("expected exactly one package in %s, got %d", cfg.Dir, len(pkgs))}
	}
	root := pkgs[0]
	if root.PkgPath != targetPkgPath {
		return nil, &loadError{fmt.Sprintf("package path %q, want %q", root.PkgPath, targetPkgPath)}
	}
	var errs []string
	packages.Visit(pkgs, nil, func(p *packages.Package) {
		for _, e := range p.Errors {
			errs = append(errs, e.Error())
		}
	})
	if len(errs) > 0 {
		if len(errs) > 8 {
			errs = errs[:8]
		}
		return nil, &loadError{"load/type errors: " + strings.Join(errs, "; ")}
	}
	if len(root.Syntax) == 0 || root.Types == nil {
		return nil, &loadError{"no syntax or types for the root package"}
	}

	inlineDescr := ""
	if cfg.Inline {
		d, ierr := inlineNewHelpers(root)
		if ierr != nil {
			return nil, &loadError{"inlining: " + ierr.Error()}
		}
		if d == "" {
			return nil, &loadError{"inlining: no call of a new helper could be inlined"}
		}
		inlineDescr = d
	}

	prog, spkgs := ssautil.Packages(pkgs, ssa.InstantiateGenerics)
	if len(spkgs) != 1 || spkgs[0] == nil {
		return nil, &loadError{"SSA package construction failed"}
	}
	prog.Build()

	w := &World{
		InlineDescr: inlineDescr,
		Cfg:         cfg,
		Fset:        root.Fset,
		Pkg:         root,
		Types:       root.Types,
		Info:        root.TypesInfo,
		Prog:        prog,
		SPkg:        spkgs[0],
		byName:      map[string]*ssa.Function{},
	}
	for _, f := range root.CompiledGoFiles {
		w.Files = append(w.Files, filepath.Base(f))
	}
	sort.Strings(w.Files)

	all := ssautil.AllFunctions(prog)
	w.funcSet = map[*ssa.Function]bool{}
	for fn := range all {
		if w.belongs(fn) && len(fn.Blocks) > 0 {
			w.Funcs = append(w.Funcs, fn)
			w.funcSet[fn] = true
		}
	}
	sort.Slice(w.Funcs, func(i, j int) bool { return w.Name(w.Funcs[i]) < w.Name(w.Funcs[j]) })
	for _, fn := range w.Funcs {
		n := w.Name(fn)
		if _, dup := w.byName[n]; !dup {
			w.byName[n] = fn
		}
	}
	for _, fn := range w.Funcs {
		canonicaliseComparisons(fn)
		canonicaliseBranches(fn)
		touched := 0
		for k := 0; k < 4; k++ {
			n := splitReturns(fn) + threadConstBranches(fn)
			touched += n
			if n == 0 {
				break
			}
		}
		if touched > 0 {
			w.SplitReturns += touched
			var sb strings.Builder
			if !ssaSanityCheck(fn, &sb) {
				return nil, &loadError{"SSA normalisation left " + w.Name(fn) + " ill-formed: " + firstLines(sb.String(), 6)}
			}
		}
	}
	w.resolveRenames()
	w.indexCallSites()
	curWorld = w
	if len(w.Funcs) == 0 {
		return nil, &loadError{"no functions with bodies found in the package"}
	}
	w.CHA = cha.CallGraph(prog)
	w.VTA = vta.CallGraph(all, w.CHA)
	return w, nil
}

// belongs reports whether fn is source of the analysed package (including
// anonymous functions and compiler-made wrappers around its methods).
func (w *World) belongs(fn *ssa.Function) bool {
	for f := fn; f != nil; f = f.Parent() {
		if f.Pkg == w.SPkg {
			return true
		}
	}
	if fn.Pkg == nil && fn.Synthetic != "" {
		// bound-method closures and thunks: attribute them to their method's package
		if obj := fn.Object(); obj != nil && obj.Pkg() == w.Types {
			return true
		}
		if strings.Contains(fn.String(), targetPkgPath) {
			return true
		}
	}
	return false
}

// InPkg reports whether fn is one of the analysed functions.
func (w *World) InPkg(fn *ssa.Function) bool { return fn != nil && w.funcSet[fn] }

// Name is a stable, package-relative function name: "Compile",
// "(*Expr).Eval", "(*parser).lex$1", "init$3", "(arithmetic).execute$bound".
func (w *World) Name(fn *ssa.Function) string {
	if fn == nil {
		return "<nil>"
	}
	if ref, ok := w.alias[fn]; ok {
		return ref // a renamed reference function is reported and keyed under its reference name
	}
	return fn.RelString(w.Types)
}

// Fn returns the function with the given relative name or nil.
func (w *World) Fn(name string) *ssa.Function { return w.byName[name] }

// MustFn is Fn that records an unresolved anchor on the report when missing.
func (w *World) MustFn(r *Report, rule, name string) *ssa.Function {
	fn := w.byName[name]
	if fn == nil {
		r.Unresolved(rule, "function "+name+" not found in the package")
	}
	return fn
}

// Pos renders a position as file:line relative to the repository.
func (w *World) Pos(p token.Pos) string {
	if !p.IsValid() {
		return "-"
	}
	pp := w.Fset.Position(p)
	return fmt.Sprintf("%s:%d", filepath.Base(pp.Filename), pp.Line)
}

// InstrPos finds the best available position of an instruction.
func (w *World) InstrPos(in ssa.Instruction) string {
	if in == nil {
		return "-"
	}
	if p := in.Pos(); p.IsValid() {
		return w.Pos(p)
	}
	// operands often carry a position when the instruction itself does not
	var ops []*ssa.Value
	for _, op := range in.Operands(ops) {
		if *op != nil {
			if p := (*op).Pos(); p.IsValid() {
				return w.Pos(p)
			}
		}
	}
	if b := in.Block(); b != nil {
		for _, other := range b.Instrs {
			if p := other.Pos(); p.IsValid() {
				return w.Pos(p) + "~"
			}
		}
	}
	if fn := in.Parent(); fn != nil {
		return w.Pos(fn.Pos()) + "~"
	}
	return "-"
}

// GlobalVar returns the SSA global with the given name, or nil.
func (w *World) GlobalVar(name string) *ssa.Global {
	if m, ok := w.SPkg.Members[name]; ok {
		if g, ok := m.(*ssa.Global); ok {
			return g
		}
	}
	return nil
}

// ConstVal returns the constant object with the given name.
func (w *World) ConstObj(name string) *types.Const {
	if o := w.Types.Scope().Lookup(name); o != nil {
		if c, ok := o.(*types.Const); ok {
			return c
		}
	}
	return nil
}

// NamedType returns the named type declared in the package.
func (w *World) NamedType(name string) *types.Named {
	if o := w.Types.Scope().Lookup(name); o != nil {
		if tn, ok := o.(*types.TypeName); ok {
			if n, ok := tn.Type().(*types.Named); ok {
				return n
			}
		}
	}
	return nil
}

// StructField returns the index of a field in a named struct type, or -1.
func (w *World) StructField(typeName, field string) (*types.Struct, int) {
	n := w.NamedType(typeName)
	if n == nil {
		return nil, -1
	}
	st, ok := n.Underlying().(*types.Struct)
	if !ok {
		return nil, -1
	}
	for i := 0; i < st.NumFields(); i++ {
		if st.Field(i).Name() == field {
			return st, i
		}
	}
	return st, -1
}

// FuncDecl returns the syntax of a declared function or method.
// recv is "" for plain functions, else the receiver type name without '*'.
func (w *World) FuncDecl(recv, name string) *ast.FuncDecl {
	for _, f := range w.Pkg.Syntax {
		for _, d := range f.Decls {
			fd, ok := d.(*ast.FuncDecl)
			if !ok || fd.Name.Name != name {
				continue
			}
			if recv == "" && fd.Recv == nil {
				return fd
			}
			if recv != "" && fd.Recv != nil && len(fd.Recv.List) == 1 {
				t := fd.Recv.List[0].Type
				if s, ok := t.(*ast.StarExpr); ok {
					t = s.X
				}
				if id, ok := t.(*ast.Ident); ok && id.Name == recv {
					return fd
				}
			}
		}
	}
	// a renamed reference function (rename.go)
	for _, rel := range []string{name, "(*" + recv + ")." + name, "(" + recv + ")." + name} {
		if recv == "" && rel != name {
			continue
		}
		if fn := w.byName[rel]; fn != nil && w.alias[fn] != "" {
			if fd, ok := fn.Syntax().(*ast.FuncDecl); ok {
				return fd
			}
		}
	}
	return nil
}

// Callees returns the resolved callees of a call instruction under the given graph.
func (w *World) Callees(g *callgraph.Graph, site ssa.CallInstruction) []*ssa.Function {
	fn := site.Parent()
	n := g.Nodes[fn]
	if n == nil {
		return nil
	}
	var out []*ssa.Function
	seen := map[*ssa.Function]bool{}
	for _, e := range n.Out {
		if e.Site == site && e.Callee != nil && e.Callee.Func != nil && !seen[e.Callee.Func] {
			seen[e.Callee.Func] = true
			out = append(out, e.Callee.Func)
		}
	}
	sort.Slice(out, func(i, j int) bool { return w.Name(out[i]) < w.Name(out[j]) })
	return out
}

// Closure computes the set of package functions reachable from the entries
// through call edges of graph g whose callee is a package function. Anonymous
// functions are reached through the calls that invoke them, or, when
// viaMakeClosure is set, also through the MakeClosure that creates them
// (needed when a closure is created in the closure and handed to a callee
// outside the package, e.g. sort.SliceStable).
func (w *World) Closure(g *callgraph.Graph, entries []*ssa.Function, viaMakeClosure bool) map[*ssa.Function]bool {
	return w.ClosureSkip(g, entries, viaMakeClosure, nil)
}

// ClosureSkip is Closure with a filter: call edges for which skip returns
// true are not followed (used for call sites proved dead in the context of
// the entry points, with the proof recorded by the caller).
func (w *World) ClosureSkip(g *callgraph.Graph, entries []*ssa.Function, viaMakeClosure bool, skip func(e *callgraph.Edge) bool) map[*ssa.Function]bool {
	seen := map[*ssa.Function]bool{}
	var work []*ssa.Function
	push := func(f *ssa.Function) {
		if f != nil && w.InPkg(f) && !seen[f] {
			seen[f] = true
			work = append(work, f)
		}
	}
	for _, e := range entries {
		push(e)
	}
	for len(work) > 0 {
		fn := work[len(work)-1]
		work = work[:len(work)-1]
		if n := g.Nodes[fn]; n != nil {
			for _, e := range n.Out {
				if skip != nil && skip(e) {
					continue
				}
				push(e.Callee.Func)
			}
		}
		if viaMakeClosure {
			for _, b := range fn.Blocks {
				for _, in := range b.Instrs {
					if mc, ok := in.(*ssa.MakeClosure); ok {
						if f, ok := mc.Fn.(*ssa.Function); ok && w.closurePassedOut(mc) {
							push(f)
						}
					}
				}
			}
		}
	}
	return seen
}

// closurePassedOut reports whether a closure value is handed to a callee
// outside the package (e.g. the less function of sort.SliceStable): such a
// callee invokes it although no call edge is visible in the package.
func (w *World) closurePassedOut(mc *ssa.MakeClosure) bool {
	seen := map[ssa.Value]bool{}
	var visit func(v ssa.Value) bool
	visit = func(v ssa.Value) bool {
		if seen[v] {
			return false
		}
		seen[v] = true
		for _, ref := range referrers(v) {
			switch x := ref.(type) {
			case ssa.CallInstruction:
				cc := x.Common()
				isArg := false
				for _, a := range cc.Args {
					if a == v {
						isArg = true
					}
				}
				if !isArg {
					continue
				}
				if _, isBuiltin := cc.Value.(*ssa.Builtin); isBuiltin {
					continue
				}
				callee := cc.StaticCallee()
				if callee == nil || !w.InPkg(callee) {
					return true
				}
			case *ssa.ChangeType:
				if visit(x) {
					return true
				}
			case *ssa.MakeInterface:
				if visit(x) {
					return true
				}
			case *ssa.Phi:
				if visit(x) {
					return true
				}
			}
		}
		return false
	}
	return visit(mc)
}

// SortedNames lists a function set by name.
func (w *World) SortedNames(set map[*ssa.Function]bool) []string {
	var out []string
	for f := range set {
		out = append(out, w.Name(f))
	}
	sort.Strings(out)
	return out
}

// SortedFuncs lists a function set ordered by name.
func (w *World) SortedFuncs(set map[*ssa.Function]bool) []*ssa.Function {
	var out []*ssa.Function
	for f := range set {
		out = append(out, f)
	}
	sort.Slice(out, func(i, j int) bool { return w.Name(out[i]) < w.Name(out[j]) })
	return out
}

// GlobalFuncValue finds the function stored into a package-level variable by
// the package initialiser (e.g. RegVarAndOp, ExtendConf, EnableDebug).
func (w *World) GlobalFuncValue(name string) *ssa.Function {
	g := w.GlobalVar(name)
	if g == nil {
		return nil
	}
	init := w.SPkg.Func("init")
	if init == nil {
		return nil
	}
	for _, b := range init.Blocks {
		for _, in := range b.Instrs {
			st, ok := in.(*ssa.Store)
			if !ok || st.Addr != g {
				continue
			}
			v := st.Val
			for {
				switch x := v.(type) {
				case *ssa.ChangeType:
					v = x.X
					continue
				case *ssa.MakeClosure:
					if f, ok := x.Fn.(*ssa.Function); ok {
						return f
					}
				case *ssa.Function:
					return x
				}
				break
			}
		}
	}
	return nil
}

// EachInstr visits every instruction of fn.
func EachInstr(fn *ssa.Function, f func(ssa.Instruction)) {
	for _, b := range fn.Blocks {
		for _, in := range b.Instrs {
			f(in)
		}
	}
}

// canonicaliseComparisons rewrites every comparison of the package's SSA into one operand order, so that
// `a < b` and `b > a` (and `nil == x`, `2 == len(p)`) are the same instruction for every rule: constants go
// to the right, loop-carried values (phis) to the left, lengths to the right of what they bound. The
// rewrite mirrors the operator, so the meaning of the instruction is unchanged.
func canonicaliseComparisons(fn *ssa.Function) {
	mirror := map[token.Token]token.Token{token.LSS: token.GTR, token.GTR: token.LSS, token.LEQ: token.GEQ, token.GEQ: token.LEQ, token.EQL: token.EQL, token.NEQ: token.NEQ}
	var rank func(v ssa.Value, d int) int
	rank = func(v ssa.Value, d int) int {
		switch x := v.(type) {
		case *ssa.Const:
			return 5
		case *ssa.MakeInterface:
			if _, ok := x.X.(*ssa.Const); ok {
				return 5
			}
			return 2
		case *ssa.Global:
			return 4
		case *ssa.UnOp:
			if x.Op == token.MUL {
				if _, ok := x.X.(*ssa.Global); ok {
					return 4 // a package-level marker (DNE, ErrDNE)
				}
			}
			return 2
		case *ssa.Call:
			if b, ok := x.Call.Value.(*ssa.Builtin); ok && nm(b) == "len" {
				return 3
			}
			return 2
		case *ssa.Convert:
			if d < 3 {
				return rank(x.X, d+1)
			}
			return 2
		case *ssa.BinOp:
			// a length or constant expression ± constant keeps the rank of its left operand
			if _, ok := x.Y.(*ssa.Const); ok && d < 3 && (x.Op == token.ADD || x.Op == token.SUB) {
				return rank(x.X, d+1)
			}
			return 2
		case *ssa.Phi:
			return 0
		case *ssa.Parameter:
			return 1
		}
		return 2
	}
	for _, b := range fn.Blocks {
		for _, in := range b.Instrs {
			bo, ok := in.(*ssa.BinOp)
			if !ok {
				continue
			}
			m, isCmp := mirror[bo.Op]
			if !isCmp {
				continue
			}
			if rank(bo.X, 0) > rank(bo.Y, 0) {
				bo.X, bo.Y = bo.Y, bo.X
				bo.Op = m
			}
		}
	}
}

// canonicaliseBranches turns `if a != b goto T else F` into `if a == b goto F else T` when the comparison has
// no other user: an inverted condition with swapped branches is then the same SSA as the original. The
// successor order is part of the block, predecessors and phi edges are untouched, so the CFG is unchanged.
func canonicaliseBranches(fn *ssa.Function) {
	for _, b := range fn.Blocks {
		if len(b.Instrs) == 0 || len(b.Succs) != 2 {
			continue
		}
		iff, ok := b.Instrs[len(b.Instrs)-1].(*ssa.If)
		if !ok {
			continue
		}
		bo, ok := iff.Cond.(*ssa.BinOp)
		if !ok {
			continue
		}
		neg := map[token.Token]token.Token{token.NEQ: token.EQL, token.GEQ: token.LSS, token.LEQ: token.GTR}
		n, okn := neg[bo.Op]
		if !okn {
			continue
		}
		// only integer/other ordered comparisons whose negation is exact (floats: NaN makes !(a >= b) differ from a < b)
		if bo.Op != token.NEQ {
			if bt, okb := bo.X.Type().Underlying().(*types.Basic); !okb || bt.Info()&types.IsInteger == 0 {
				continue
			}
		}
		refs := bo.Referrers()
		if refs == nil || len(*refs) != 1 {
			continue
		}
		bo.Op = n
		b.Succs[0], b.Succs[1] = b.Succs[1], b.Succs[0]
	}
}

// ---- helper transparency ------------------------------------------------------------------
//
// A function of the package that is referenced from exactly one place, and that place is a static
// call, is a helper someone extracted: its parameters are the arguments of that call and the facts that hold at
// the call hold throughout its body. The primitives below let rules look through such helpers.

var curWorld *World

func (w *World) indexCallSites() {
	w.useSites = map[*ssa.Function][]ssa.Instruction{}
	for _, fn := range w.Funcs {
		for _, b := range fn.Blocks {
			for _, in := range b.Instrs {
				for _, op := range in.Operands(nil) {
					if op == nil || *op == nil {
						continue
					}
					if f, ok := (*op).(*ssa.Function); ok && w.funcSet[f] {
						w.useSites[f] = append(w.useSites[f], in)
					}
				}
			}
		}
	}
}

// UniqueCall returns the only call of fn when fn is an unexported package function or method that is used
// nowhere else (not stored, not passed, not called twice).
func (w *World) UniqueCall(fn *ssa.Function) *ssa.Call {
	if w == nil || fn == nil || fn.Parent() != nil || len(fn.FreeVars) > 0 {
		return nil
	}
	if obj := fn.Object(); obj == nil || obj.Exported() {
		return nil
	}
	sites := w.useSites[fn]
	if len(sites) != 1 {
		return nil
	}
	c, ok := sites[0].(*ssa.Call)
	if !ok || c.Call.StaticCallee() != fn {
		return nil
	}
	return c
}

// resolveParam replaces a parameter of an extracted helper by the argument at its only call (transitively).
func resolveParam(v ssa.Value) ssa.Value {
	for depth := 0; depth < 4; depth++ {
		p, ok := v.(*ssa.Parameter)
		if !ok || curWorld == nil {
			return v
		}
		c := curWorld.UniqueCall(p.Parent())
		if c == nil {
			return v
		}
		idx := -1
		for i, q := range p.Parent().Params {
			if q == p {
				idx = i
			}
		}
		if idx < 0 || idx >= len(c.Call.Args) {
			return v
		}
		v = c.Call.Args[idx]
	}
	return v
}

// EachInstrDeep visits fn and, transitively, the extracted helpers it calls (unique call site inside the visited set).
func EachInstrDeep(fn *ssa.Function, f func(ssa.Instruction)) {
	seen := map[*ssa.Function]bool{}
	var visit func(g *ssa.Function, depth int)
	visit = func(g *ssa.Function, depth int) {
		if seen[g] || depth > 4 {
			return
		}
		seen[g] = true
		for _, b := range g.Blocks {
			for _, in := range b.Instrs {
				f(in)
				if c, ok := in.(*ssa.Call); ok && curWorld != nil {
					if h := c.Call.StaticCallee(); h != nil && curWorld.UniqueCall(h) == c {
						visit(h, depth+1)
					}
				}
			}
		}
	}
	visit(fn, 0)
}
