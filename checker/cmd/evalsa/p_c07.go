package main

// C07 — compiled expressions are immutable, re-entrant and goroutine-safe.

import (
	"fmt"
	"go/types"
	"strings"

	"golang.org/x/tools/go/ssa"
)

func init() {
	register(&Property{
		ID:    "C07",
		Level: "proof",
		Explanation: "Proves, for the code under analysis, the theorem: no instruction reachable from Eval/EvalBool/TryEval/TryEvalBool/Dump/DumpTable (through static calls and every VTA-resolved dynamic call that lands in the package: built-in operators, if/fi closures, the event wrapper, both fetchers) writes memory that outlives the call, except by sending on Expr.EventChan; and the closure reads no package-level variable that anything writes after package initialisation. " +
			"(R-EFFECT) every Store, MapUpdate, append, copy, delete, mutating library call in the closure has a root with an empty label set under the field/type-based ownership analysis (effects.go): the written memory was allocated by the current activation; this also covers escape of call-local buffers, since storing them anywhere shared is itself a foreign write. " +
			"(R-SHAREDREAD) every package variable read in the closure has no writer anywhere in the package outside the package initialiser (whole-package run of the same engine). (R-NOCONC) the closure contains no go statement, select, receive, sync/atomic use, and its only channel operation is a send on the EventChan field. " +
			"Consequence: concurrent evaluations share only read-only memory and a channel (no data race), and a call's result is a function of the immutable program and its own Ctx. NOT decided: behaviour of user callbacks (assumption A1), and that a consumer drains the channel.",
		Assumptions: []string{
			"A3 interface-typed elements are values: checked here, a Value obtained by type assertion that is written through carries the label of where it came from",
			"A4 library callees are summarised by a frozen table (pure / mutates first argument); an unsummarised callee receiving foreign memory fails the check",
		},
		Run:       runC07,
		Witnesses: c07Witnesses,
	})
}

var evalEntryNames = []string{"(*Expr).Eval", "(*Expr).EvalBool", "(*Expr).TryEval", "(*Expr).TryEvalBool", "Dump", "DumpTable"}

func entryFuncs(w *World, r *Report, rule string, names []string) []*ssa.Function {
	var out []*ssa.Function
	for _, n := range names {
		if fn := w.MustFn(r, rule, n); fn != nil {
			out = append(out, fn)
		}
	}
	return out
}

func evalClosure(w *World, r *Report, rule string) ([]*ssa.Function, map[*ssa.Function]bool) {
	entries := entryFuncs(w, r, rule, evalEntryNames)
	set := w.Closure(w.VTA, entries, true)
	return entries, set
}

func runC07(w *World, r *Report) {
	const rule = "R-EFFECT"
	r.Rule(rule, "every write effect in the evaluation closure targets memory allocated by the current activation (empty label set)", 60)
	entries, set := evalClosure(w, r, rule)
	if len(entries) == 0 {
		return
	}
	cha := w.Closure(w.CHA, entries, true)
	r.Extra["closure_EVAL"] = w.SortedNames(set)
	r.Extra["closure_sizes"] = map[string]int{"vta": len(set), "cha": len(cha)}
	if len(set) < 40 {
		r.Unresolved(rule, fmt.Sprintf("the evaluation closure has only %d functions (confirmed by hand: >= 40)", len(set)))
	}
	a := NewEffectAnalysis(w, set, entries)
	for _, e := range a.Effects {
		fn := e.Instr.Parent()
		pos := w.InstrPos(e.Instr)
		what := effectText(e)
		switch e.Kind {
		case EffSend:
			continue // R-NOCONC
		case EffUnknown:
			if e.Labels == 0 {
				continue // a library callee that receives only call-local memory
			}
			r.Fail(rule, pos, w.Name(fn), what, "unsummarised library callee "+e.Note+" receives memory labelled "+a.LabelNames(e.Labels)+": undecided under A4")
			continue
		}
		if e.Labels == 0 {
			why := "root is local to the activation"
			if e.Note != "" {
				why += " (" + e.Note + ")"
			}
			r.OK(rule, pos, w.Name(fn), what, why)
		} else {
			r.Fail(rule, pos, w.Name(fn), what, "writes memory that outlives the call: root labelled "+a.LabelNames(e.Labels))
		}
	}

	ruleSharedRead(w, r, set)
	ruleNoConc(w, r, set)
}

func effectText(e Effect) string {
	switch x := e.Instr.(type) {
	case *ssa.Store:
		return fmt.Sprintf("%s = %s", describe(x.Addr), describe(x.Val))
	case *ssa.MapUpdate:
		return fmt.Sprintf("%s[%s] = %s", describe(x.Map), describe(x.Key), describe(x.Value))
	case *ssa.Send:
		return fmt.Sprintf("%s <- %s", describe(x.Chan), describe(x.X))
	case ssa.CallInstruction:
		return describeCall(x.Common(), 5)
	}
	return e.Instr.String()
}

// ruleSharedRead: package variables read in the closure have no writers
// outside the package initialiser.
func ruleSharedRead(w *World, r *Report, set map[*ssa.Function]bool) {
	const rule = "R-SHAREDREAD"
	r.Rule(rule, "every package-level variable read in the evaluation closure has no Store/MapUpdate/append/copy/mutating call anywhere in the package outside the package initialiser", 3)
	read := map[*ssa.Global]ssa.Instruction{}
	for _, fn := range w.SortedFuncs(set) {
		EachInstr(fn, func(in ssa.Instruction) {
			var ops []*ssa.Value
			for _, op := range in.Operands(ops) {
				if g, ok := (*op).(*ssa.Global); ok && g.Pkg == w.SPkg {
					if _, seen := read[g]; !seen {
						read[g] = in
					}
				}
			}
		})
	}
	// whole-package effect analysis: every function is an entry
	all := map[*ssa.Function]bool{}
	var entries []*ssa.Function
	for _, fn := range w.Funcs {
		all[fn] = true
		entries = append(entries, fn)
	}
	wa := NewEffectAnalysis(w, all, entries)
	writers := map[*ssa.Global][]Effect{}
	for _, e := range wa.Effects {
		if e.Kind == EffSend {
			continue
		}
		fn := e.Instr.Parent()
		if nm(fn) == "init" && fn.Parent() == nil && fn.Synthetic != "" {
			continue // the package initialiser
		}
		for _, g := range wa.globals {
			if e.Labels&wa.GlobalBit(g) != 0 {
				writers[g] = append(writers[g], e)
			}
		}
	}
	var names []string
	for g := range read {
		names = append(names, g.Name())
	}
	for _, name := range sortedStrings(names) {
		g := w.GlobalVar(name)
		in := read[g]
		ws := writers[g]
		what := "package variable " + name + " (read in " + w.Name(in.Parent()) + ")"
		if len(ws) == 0 {
			r.OK(rule, w.InstrPos(in), w.Name(in.Parent()), what, "no writer anywhere in the package outside the package initialiser")
			continue
		}
		for _, e := range ws {
			r.Fail(rule, w.InstrPos(e.Instr), w.Name(e.Instr.Parent()), what+" is written: "+effectText(e),
				"a variable read during evaluation is mutated after initialisation: evaluations are no longer independent of history")
		}
	}
}

func sortedStrings(s []string) []string {
	out := append([]string{}, s...)
	for i := 1; i < len(out); i++ {
		for j := i; j > 0 && out[j] < out[j-1]; j-- {
			out[j], out[j-1] = out[j-1], out[j]
		}
	}
	return out
}

// ruleNoConc: no goroutines, selects, receives, sync/atomic; the only channel
// operation is a send on Expr.EventChan.
func ruleNoConc(w *World, r *Report, set map[*ssa.Function]bool) {
	const rule = "R-NOCONC"
	r.Rule(rule, "the evaluation closure has no go statement, select, channel receive/close, sync or atomic use; its only channel operation is a send on the EventChan field of Expr", 2)
	clean := true
	sends := 0
	for _, fn := range w.SortedFuncs(set) {
		EachInstr(fn, func(in ssa.Instruction) {
			pos := w.InstrPos(in)
			switch x := in.(type) {
			case *ssa.Go:
				clean = false
				r.Fail(rule, pos, w.Name(fn), "go "+describeCall(x.Common(), 4), "a goroutine started during evaluation outlives the call")
			case *ssa.Select:
				clean = false
				r.Fail(rule, pos, w.Name(fn), "select", "channel multiplexing inside evaluation")
			case *ssa.MakeChan:
				clean = false
				r.Fail(rule, pos, w.Name(fn), "make(chan)", "channel creation inside evaluation")
			case *ssa.UnOp:
				if x.Op.String() == "<-" {
					clean = false
					r.Fail(rule, pos, w.Name(fn), "receive "+describe(x.X), "evaluation must not wait on shared channels")
				}
			case *ssa.Send:
				sends++
				tn, f, _, ok := fieldOfLoad(x.Chan)
				if ok && tn == "Expr" && f == "EventChan" {
					r.OK(rule, pos, w.Name(fn), "send on "+describe(x.Chan), "the permitted communication: events go through Expr.EventChan")
				} else {
					clean = false
					r.Fail(rule, pos, w.Name(fn), "send on "+describe(x.Chan), "a channel other than Expr.EventChan")
				}
			case ssa.CallInstruction:
				cc := x.Common()
				name := calleeFullName(cc)
				if strings.HasPrefix(name, "sync.") || strings.HasPrefix(name, "(*sync.") || strings.HasPrefix(name, "sync/atomic.") ||
					strings.HasPrefix(name, "(*sync/atomic.") || name == "builtin.close" {
					clean = false
					r.Fail(rule, pos, w.Name(fn), "call "+name, "synchronisation primitives imply shared mutable state inside evaluation")
				}
				if cc.IsInvoke() {
					if n, ok := cc.Value.Type().(*types.Named); ok && n.Obj().Pkg() != nil && n.Obj().Pkg().Path() == "sync" {
						clean = false
						r.Fail(rule, pos, w.Name(fn), "invoke on sync."+n.Obj().Name(), "synchronisation primitives imply shared mutable state inside evaluation")
					}
				}
			}
		})
	}
	if clean {
		r.OK(rule, "-", "-", fmt.Sprintf("%d functions of the evaluation closure", len(set)), fmt.Sprintf("no go/select/receive/close/sync/atomic; %d send(s), all on Expr.EventChan", sends))
	}
}

// fieldOfLoad matches a load of x.f and returns (type, field).
func fieldOfLoad(v ssa.Value) (string, string, ssa.Value, bool) {
	if addr, ok := isLoad(v); ok {
		return fieldOf(addr)
	}
	return fieldOf(v)
}

var c07Witnesses = []Witness{
	{Name: "cache-last-params-in-expr", Rule: "R-EFFECT", Edits: []Edit{
		{File: "engine.go", Old: "	EventChan chan Event\n}", New: "	EventChan chan Event\n	lastParams []Value\n}"},
		{File: "engine.go", Old: "			res, err = curt.operator(ctx, params)\n			if err != nil {\n				return\n			}\n		case cond:\n			res, osTop = os[osTop], osTop-1\n			res, err = curt.operator(ctx, []Value{res})\n			if err != nil {\n				return\n			}\n			if res == true {\n				osTop = curt.osTop\n				i = curt.scIdx\n			}\n			continue\n		default:\n			reportEvent(e, os, osTop, curt.value)",
			New: "			e.lastParams = params\n			res, err = curt.operator(ctx, params)\n			if err != nil {\n				return\n			}\n		case cond:\n			res, osTop = os[osTop], osTop-1\n			res, err = curt.operator(ctx, []Value{res})\n			if err != nil {\n				return\n			}\n			if res == true {\n				osTop = curt.osTop\n				i = curt.scIdx\n			}\n			continue\n		default:\n			reportEvent(e, os, osTop, curt.value)"},
	}},
	{Name: "reuse-stack-in-expr", Rule: "R-EFFECT", Edits: []Edit{
		{File: "engine.go", Old: "	EventChan chan Event\n}", New: "	EventChan chan Event\n	stack []Value\n}"},
		{File: "engine.go", Old: "	default:\n		os = make([]Value, size)\n	}\n\n	var (\n		params []Value", New: "	default:\n		if int(size) > len(e.stack) {\n			e.stack = make([]Value, size)\n		}\n		os = e.stack\n	}\n\n	var (\n		params []Value"},
	}},
	{Name: "param2-hoisted-to-package-var", Rule: "R-EFFECT", Edits: []Edit{
		{File: "engine.go", Old: "	var (\n		params []Value\n		param2 [2]Value\n		curt   *node\n	)", New: "	var (\n		params []Value\n		curt   *node\n	)"},
		{File: "engine.go", Old: "type Expr struct {", New: "var param2 [2]Value\n\ntype Expr struct {"},
		{File: "engine.go", Old: "	var (\n		param  []Value\n		param2 [2]Value\n		curt   *node\n	)", New: "	var (\n		param  []Value\n		param2 [2]Value\n		curt   *node\n	)\n	_ = param2"},
	}},
	{Name: "event-wrapper-counts-calls", Rule: "R-EFFECT", Edits: []Edit{
		{File: "compiler.go", Old: "			isFastOp = n.getNodeType() == fastOperator\n		)\n		return func(ctx *Ctx, params []Value) (res Value, err error) {\n", New: "			isFastOp = n.getNodeType() == fastOperator\n			calls    int\n		)\n		return func(ctx *Ctx, params []Value) (res Value, err error) {\n			calls++\n"},
	}},
	{Name: "overlap-sorts-constant-list-in-place", Rule: "R-EFFECT", Edits: []Edit{
		{File: "operator.go", Old: "			if len(A) > len(B) {\n				A, B = B, A\n			}\n			set := make(map[int64]struct{}, len(A))", New: "			if len(A) > len(B) {\n				A, B = B, A\n			}\n			sort.Slice(A, func(i, j int) bool { return A[i] < A[j] })\n			set := make(map[int64]struct{}, len(A))"},
		{File: "operator.go", Old: "	\"reflect\"\n", New: "	\"reflect\"\n	\"sort\"\n"},
	}},
	{Name: "in-sorts-list-in-place", Rule: "R-EFFECT", Edits: []Edit{
		{File: "operator.go", Old: "		case []int64:\n			for _, i := range coll {\n				if i == v {\n					return true, nil\n				}\n			}\n			return false, nil\n		case []string: // the empty list", New: "		case []int64:\n			sort.Slice(coll, func(i, j int) bool { return coll[i] < coll[j] })\n			for _, i := range coll {\n				if i == v {\n					return true, nil\n				}\n			}\n			return false, nil\n		case []string: // the empty list"},
		{File: "operator.go", Old: "	\"reflect\"\n", New: "	\"reflect\"\n	\"sort\"\n"},
	}},
	{Name: "dump-memoises-in-node", Rule: "R-EFFECT", Edits: []Edit{
		{File: "util.go", Old: "		n := e.nodes[idx]\n		if n.childCnt == 0 {\n			return dumpLeafNode(n)\n		}", New: "		n := e.nodes[idx]\n		if n.childCnt == 0 {\n			n.osTop = n.osTop + 0\n			return dumpLeafNode(n)\n		}"},
	}},
	{Name: "dne-reassigned-by-helper", Rule: "R-SHAREDREAD", Edits: []Edit{
		{File: "variable.go", Old: "var ErrDNE = errors.New(\"DNE\")", New: "var ErrDNE = errors.New(\"DNE\")\n\n// SetDNEName renames the DNE marker\nfunc SetDNEName(s string) { DNE.DoesNotExist = s }"},
	}},
	{Name: "mode-names-patched-at-runtime", Rule: "R-SHAREDREAD", Edits: []Edit{
		{File: "operator.go", Old: "func RegisterOperator(cc *Config, name string, op Operator) error {", New: "func RegisterOperator(cc *Config, name string, op Operator) error {\n	modeNames[toVersion] = \"t_version\""},
	}},
	{Name: "eval-spawns-goroutine-for-events", Rule: "R-NOCONC", Edits: []Edit{
		{File: "engine.go", Old: "	e.EventChan <- Event{\n		EventType: LoopEvent,\n		Stack:     stack,\n		Data:      data,\n	}", New: "	go func() {\n		e.EventChan <- Event{\n			EventType: LoopEvent,\n			Stack:     stack,\n			Data:      data,\n		}\n	}()"},
	}},
	{Name: "benign-eval-local-rename-and-helper", Benign: true, Edits: []Edit{
		{File: "engine.go", Old: "	stack := make([]Value, osTop+1)\n	for i := int16(0); i <= osTop; i++ {\n		stack[i] = os[i]\n	}", New: "	snapshot := make([]Value, osTop+1)\n	copy(snapshot, os[:osTop+1])\n	stack := snapshot"},
	}},
	{Name: "benign-overlap-local-sort-copy", Benign: true, Edits: []Edit{
		{File: "operator.go", Old: "			set := make(map[int64]struct{}, len(A))\n			for _, i := range A {\n				set[i] = empty\n			}", New: "			set := make(map[int64]struct{}, len(A))\n			tmp := append([]int64(nil), A...)\n			for _, i := range tmp {\n				set[i] = empty\n			}"},
	}},
}
