package main

// Function renames.
//
// The rules find their anchors by name. A function of the reference tree that is missing under its name is looked for
// under a new name: among the package functions whose names the reference tree does not have, the one (it must be
// unique) whose body has the same structural fingerprint as the reference function had — same signature, same
// instruction sequence block by block (operators, constants, types, fields, library callees by name, package callees
// by signature), same closures. Such a function is the same function under another name; it is registered under the
// reference name, its closures likewise, and name tests in the rules (`nm(callee) == "parentNode"`) see the reference
// name. A renamed function whose body was also edited is not matched: the anchor stays unresolved and the check
// fails, as before. Reference fingerprints: fingerprints_gen.go (`evalsa -genfingerprints`).

import (
	"crypto/sha1"
	"fmt"
	"go/types"
	"reflect"
	"sort"
	"strings"

	"golang.org/x/tools/go/ssa"
)

func (w *World) fingerprint(fn *ssa.Function) string {
	var sb strings.Builder
	w.fingerprintInto(&sb, fn, 0)
	return fmt.Sprintf("%x", sha1.Sum([]byte(sb.String())))[:20]
}

func (w *World) fingerprintInto(sb *strings.Builder, fn *ssa.Function, depth int) {
	fmt.Fprintf(sb, "sig %s blocks %d\n", typeStr(fn.Signature), len(fn.Blocks))
	for _, b := range fn.Blocks {
		fmt.Fprintf(sb, "b%d p%d s%d\n", b.Index, len(b.Preds), len(b.Succs))
		for _, in := range b.Instrs {
			sb.WriteString(reflect.TypeOf(in).Elem().Name())
			switch x := in.(type) {
			case *ssa.BinOp:
				sb.WriteString(" " + x.Op.String())
			case *ssa.UnOp:
				sb.WriteString(" " + x.Op.String())
			case *ssa.Call:
				sb.WriteString(" " + w.calleeToken(&x.Call, fn))
			case *ssa.Defer:
				sb.WriteString(" " + w.calleeToken(&x.Call, fn))
			case *ssa.Go:
				sb.WriteString(" " + w.calleeToken(&x.Call, fn))
			case *ssa.FieldAddr:
				fmt.Fprintf(sb, " %s.%d", typeStr(deref(x.X.Type())), x.Field)
			case *ssa.Field:
				fmt.Fprintf(sb, " %s.%d", typeStr(x.X.Type()), x.Field)
			case *ssa.Phi:
				fmt.Fprintf(sb, " %d", len(x.Edges))
			case *ssa.Extract:
				fmt.Fprintf(sb, " %d", x.Index)
			case *ssa.TypeAssert:
				fmt.Fprintf(sb, " %s %v", typeStr(x.AssertedType), x.CommaOk)
			case *ssa.MakeClosure:
				if depth < 3 {
					sb.WriteString(" {")
					w.fingerprintInto(sb, x.Fn.(*ssa.Function), depth+1)
					sb.WriteString("}")
				}
			}
			if v, ok := in.(ssa.Value); ok {
				sb.WriteString(" :" + typeStr(v.Type()))
			}
			for _, op := range in.Operands(nil) {
				if op == nil || *op == nil {
					continue
				}
				switch o := (*op).(type) {
				case *ssa.Const:
					sb.WriteString(" c=" + o.String())
				case *ssa.Global:
					sb.WriteString(" g=" + o.Name())
				case *ssa.Builtin:
					sb.WriteString(" bi=" + o.Name())
				}
			}
			sb.WriteByte('\n')
		}
	}
}

func typeStr(t interface{ String() string }) string { return t.String() }

func (w *World) calleeToken(cc *ssa.CallCommon, self *ssa.Function) string {
	if b, ok := cc.Value.(*ssa.Builtin); ok {
		return "builtin." + b.Name()
	}
	if cc.IsInvoke() {
		return "invoke." + cc.Method.Name()
	}
	if f := cc.StaticCallee(); f != nil {
		if f == self {
			return "self"
		}
		if w.funcSet[f] || (f.Pkg != nil && f.Pkg.Pkg == w.Types) {
			return "pkg:" + typeStr(f.Signature)
		}
		return calleeFullName(cc)
	}
	return "dyn:" + typeStr(cc.Signature())
}

// resolveRenames registers renamed reference functions under their reference names.
func (w *World) resolveRenames() {
	w.alias = map[*ssa.Function]string{}
	if len(refFingerprints) == 0 {
		return
	}
	var missing []string
	for name := range refFingerprints {
		if w.byName[name] == nil {
			missing = append(missing, name)
		}
	}
	if len(missing) == 0 {
		return
	}
	sort.Strings(missing)
	// candidates: top-level functions and methods under names the reference tree does not have
	fps := map[string][]*ssa.Function{}
	for _, fn := range w.Funcs {
		if fn.Parent() != nil || fn.Synthetic != "" {
			continue
		}
		if _, known := refFingerprints[w.relName(fn)]; known {
			continue
		}
		fp := w.fingerprint(fn)
		fps[fp] = append(fps[fp], fn)
	}
	for _, name := range missing {
		c := fps[refFingerprints[name]]
		if len(c) != 1 {
			continue
		}
		fn := c[0]
		// a method keeps its receiver: (*parser).lex can only have become another method of *parser
		if recvOf(name) != recvOf(w.relName(fn)) {
			continue
		}
		w.registerAlias(fn, name)
		w.Renamed = append(w.Renamed, fmt.Sprintf("%s (was %s)", w.relName(fn), name))
	}
}

func recvOf(rel string) string {
	if i := strings.LastIndex(rel, ")."); i >= 0 && strings.HasPrefix(rel, "(") {
		return rel[:i+1]
	}
	return ""
}

func shortOf(rel string) string {
	if i := strings.LastIndex(rel, ")."); i >= 0 && strings.HasPrefix(rel, "(") {
		return rel[i+2:]
	}
	return rel
}

func (w *World) registerAlias(fn *ssa.Function, refRel string) {
	w.byName[refRel] = fn
	w.alias[fn] = refRel
	if obj := fn.Object(); obj != nil {
		if w.aliasObj == nil {
			w.aliasObj = map[types.Object]string{}
		}
		w.aliasObj[obj] = refRel
	}
	for k, an := range fn.AnonFuncs {
		w.registerAlias(an, fmt.Sprintf("%s$%d", refRel, k+1))
	}
}

// relName is the function's own relative name in this tree.
func (w *World) relName(fn *ssa.Function) string { return fn.RelString(w.Types) }

// nm is the name a rule should compare with: the reference name of a renamed function, else the value's own name.
func nm(x interface{ Name() string }) string {
	if fn, ok := x.(*ssa.Function); ok {
		if fn == nil {
			return ""
		}
		if curWorld != nil {
			if ref, ok := curWorld.alias[fn]; ok {
				return shortOf(ref)
			}
		}
	}
	if tf, ok := x.(*types.Func); ok && tf != nil && curWorld != nil {
		if ref, ok := curWorld.aliasObj[tf]; ok {
			return shortOf(ref)
		}
	}
	if x == nil || (reflect.ValueOf(x).Kind() == reflect.Ptr && reflect.ValueOf(x).IsNil()) {
		return ""
	}
	return x.Name()
}

// genFingerprints prints fingerprints_gen.go for the tree under repo.
func genFingerprints(repo string) int {
	w, err := Load(LoadConfig{Dir: repo})
	if err != nil {
		fmt.Println(err)
		return 2
	}
	var names []string
	fp := map[string]string{}
	for _, fn := range w.Funcs {
		if fn.Parent() != nil || fn.Synthetic != "" {
			continue
		}
		n := w.relName(fn)
		names = append(names, n)
		fp[n] = w.fingerprint(fn)
	}
	sort.Strings(names)
	fmt.Println("package main\n\n// Code generated by `evalsa -genfingerprints`; structural fingerprints of the reference tree's functions (rename.go).\nvar refFingerprints = map[string]string{")
	for _, n := range names {
		fmt.Printf("\t%q: %q,\n", n, fp[n])
	}
	fmt.Println("}")
	return 0
}
