package main

// C06 — Compile and evaluation are total: a panic-site obligation ledger over
// the API closure, plus result-or-error and no-abort rules.

import (
	"fmt"
	"go/token"
	"go/types"
	"sort"
	"strings"

	"golang.org/x/tools/go/ssa"
)

func init() {
	register(&Property{
		ID:    "C06",
		Level: "other",
		Explanation: "A panic-site obligation ledger over COMPILE ∪ EVAL ∪ {IndentByParentheses}: every instruction that can panic — slice/string/array index, slice expression, single-result type assertion, integer / and %, == on two interface values, make with a non-constant size, explicit panic, call of a function value taken from a table — is an obligation with exactly one verdict: " +
			"(1) discharged by a sound local rule: a forward must-dataflow of guard facts (index < len(S), len(S) >= k, v >= 0, emptiness tests, switch on len, loop and range headers, the hasNext predicate inlined as a summary, HasPrefix with a constant, same-variable re-loads with no intervening write), kind tests before value.(string) using the node-kind invariants (R-KIND of C01), comma-ok forms, divisor != 0, one interface operand of comparable static type, sizes that are len(x) or len(x)+c or guarded non-negative; " +
			"(2) invariant-governed (only table-based sites; a string indexed or cut in these functions is text, not a table, and needs its own proof — seeded change C06-k): the index is a compile-time table value (nodes[i], os[osTop+k], parentIdx[i], f[prev], the four children of an `if` node …) in Eval, TryEval, calAndSet*, Dump*, DumpTable*, parentNode, reportEvent, calculateNodeCosts: enumerated, listed with the invariant's name, NOT decided, never an alarm; (3) frozen-table: sites in input-facing code whose safety needs arithmetic the dataflow does not do, confirmed by reading, keyed by rule + function + operand shape with one line of reason each; (4) violated: an input-facing obligation that is neither discharged nor in the table — this is what a deleted guard produces. " +
			"(R-TYPEERR / R-ARITY / R-IFACEEQ / R-DIV0 as in C18) for all built-ins; (R-NILNIL) at every return of Compile either the error is non-nil or the *Expr is a fresh allocation; (R-NOFAIL) no panic, os.Exit, log.Fatal, go statement in the closure and optimizers have no failure channel; (R-STATELESS-TABLE) as in C10. " +
			"NOT decided: termination of the lexer/parser loops and recursion, 'positions strictly increasing' (depends on scIdx > i, a table value), blocking on an unconsumed EventChan (a precondition of event mode), everything in class 2. (R-ERRDROP) no return of the API closure yields a nil error on the non-nil edge of an error obtained from a call: a swallowed parser error is how a nil node reaches a dereference, which the ledger itself does not model. Round 2: R-ERRDROP also requires every error result of a call in the API closure to be looked at; the comparability guard of eq/ne must be a value-level walk (R-IFACEEQ, D17); R-DIREQ shared from C02.",
		Run:       runC06,
		Witnesses: append(append(append(append([]Witness{}, delWitnessesC06...), capturedLenWitnesses...), errPathWitnesses...), c06Witnesses...),
	})
}

// c06Closure: the functions whose panics would surface from the API calls the
// property names.
func c06Closure(w *World, r *Report, rule string) map[*ssa.Function]bool {
	_, cset, _ := compileClosure(w, r, rule)
	_, eset := evalClosure(w, r, rule)
	set := map[*ssa.Function]bool{}
	for f := range cset {
		set[f] = true
	}
	for f := range eset {
		set[f] = true
	}
	if fm := w.Fn("IndentByParentheses"); fm != nil {
		for f := range w.Closure(w.VTA, []*ssa.Function{fm}, true) {
			set[f] = true
		}
		for _, an := range fm.AnonFuncs {
			set[an] = true
		}
	}
	// closures created in the closure run when their creator's product is used (if/fi closures, event wrapper)
	for changed := true; changed; {
		changed = false
		for f := range set {
			for _, an := range f.AnonFuncs {
				if !set[an] {
					set[an] = true
					changed = true
				}
			}
		}
	}
	return set
}

// invariantGoverned: functions whose index arithmetic runs over compile-time
// tables (program counter, stack slots, parent indices, tree shape set by the
// parser). Their sites are listed, not decided.
var invariantGoverned = map[string]string{
	"(*Expr).Eval":                "program tables: i < len(nodes), 0 <= osTop+k < len(os) (scIdx/osTop/maxStackSize computed by calAndSet*)",
	"(*Expr).TryEval":             "program tables: i < len(nodes), 0 <= osTop+k < len(os), parentIdx/scIdx in range",
	"parentNode":                  "parentIdx has one entry per node with values in [-1, len(nodes))",
	"reportEvent":                 "osTop < len(os) (program tables)",
	"calAndSetNodes":              "tree shape: an `if` node has exactly four children (buildKeywordNode)",
	"calAndSetParentIndex":        "root.idx in [0, len(nodes)) (assigned by calAndSetNodes)",
	"calAndSetStackSize":          "program tables: parent and previous indices in range; at least one node",
	"calAndSetStackSize$1":        "program tables",
	"calAndSetShortCircuit":       "program tables: parent indices in range",
	"calAndSetShortCircuit$1":     "program tables",
	"calAndSetShortCircuitForRCO": "program tables",
	"calAndSetEventNode":          "program tables: scIdx/parentIdx in range; a fast operator is followed by its two leaves",
	"calAndSetEventNode$1":        "program tables",
	"calculateNodeCosts":          "tree shape: an `if` node has at least three children (buildKeywordNode)",
	"Dump":                        "program tables: exactly one root (parentIdx == -1)",
	"Dump$1":                      "program tables: an `if` node has four non-event children",
	"Dump$2":                      "program tables",
	"DumpTable":                   "program tables",
	"DumpTable$2":                 "program tables", "DumpTable$3": "program tables", "DumpTable$4": "program tables",
	"DumpTable$5": "program tables", "DumpTable$6": "program tables", "DumpTable$7": "program tables",
	"DumpTable$8": "program tables", "DumpTable$9": "program tables",
}

type panicSite struct {
	fn    *ssa.Function
	in    ssa.Instruction
	kind  string
	what  string
	shape string // operand shape, for the frozen table
}

func runC06(w *World, r *Report) {
	// NewCtxFromVars chooses the fetcher from the CALLER's options: the source text must not be able to switch on
	// undefined-variable mode (whose marker key the slice-backed fetcher cannot index) or any option but the optimisations
	ruleDirEq(w, r)
	const rule = "R-PANIC"
	r.Rule(rule, "panic-site ledger: every instruction that can panic in the API closure is discharged by a local guard rule, listed as invariant-governed (not decided), covered by a frozen-table entry with its reason, or reported", 150)
	set := c06Closure(w, r, rule)
	r.Extra["closure_C06"] = len(set)
	if len(set) < 120 {
		r.Unresolved(rule, fmt.Sprintf("the API closure has only %d functions (confirmed by hand: >= 120)", len(set)))
	}
	led := newLedger(w, r, set)
	for _, fn := range w.SortedFuncs(set) {
		led.scan(fn)
	}
	led.summary()

	// shared rules (reported under this property)
	ruleArity(w, r)
	ruleTypeErr(w, r)
	ruleNilNil(w, r)
	ruleNoFail(w, r, set)
	ruleErrDrop(w, r, set)
	ruleCondArg(w, r)
	// the invariant-governed sites of the evaluators (operand stack, operand vectors) rest on the
	// capacity rules of C09: a violation there is a panic here
	ruleOrder(w, r)
	kc, kn := ruleCheckConstants(w, r)
	ruleCheckAll(w, r)
	ruleWidth(w, r, kc, kn)
	ruleGrow(w, r)
	ruleStackClass(w, r)
	ruleStackMax(w, r)
	ruleStackRec(w, r)
}

// ---- R-NILNIL / R-NOFAIL / R-CONDARG -------------------------------------------

func ruleNilNil(w *World, r *Report) {
	const rule = "R-NILNIL"
	r.Rule(rule, "at every return of Compile either the error is non-nil or the *Expr is a fresh allocation (never both nil)", 3)
	fn := w.MustFn(r, rule, "Compile")
	if fn == nil {
		return
	}
	be := w.Fn("buildExpr")
	beFresh := false
	if be != nil {
		beFresh = true
		for _, ret := range allReturns(be) {
			if _, ok := ret.Results[0].(*ssa.Alloc); !ok {
				beFresh = false
			}
		}
	}
	for _, ret := range allReturns(fn) {
		pos := w.InstrPos(ret)
		what := "return " + describe(ret.Results[0]) + ", " + describe(ret.Results[1])
		ev := ret.Results[1]
		if isNilConst(ev) {
			c, ok := ret.Results[0].(*ssa.Call)
			good := ok && c.Call.StaticCallee() == be && beFresh
			if _, isAlloc := ret.Results[0].(*ssa.Alloc); isAlloc {
				good = true
			}
			r.Check(good, rule, pos, "Compile", what, "the program is the fresh &Expr{} that buildExpr returns on all paths", "Compile can return a nil program with a nil error")
			continue
		}
		// error non-nil on this path
		nonNil := false
		if c, ok := ev.(*ssa.Call); ok && errorCallNonNil(c) {
			nonNil = true
		}
		for _, f := range factsAt(ret.Block()) {
			if x, isNil, ok := factIsNil(f); ok && !isNil && (x == ev || sameValueShape(x, ev)) {
				nonNil = true
			}
		}
		r.Check(nonNil, rule, pos, "Compile", what, "the error is non-nil on this path", "Compile can return (nil, nil): the error returned here is not known to be non-nil")
	}
}

func ruleNoFail(w *World, r *Report, set map[*ssa.Function]bool) {
	const rule = "R-NOFAIL"
	r.Rule(rule, "no explicit panic, os.Exit, log.Fatal*, runtime.Goexit or go statement in the API closure", 1)
	bad := 0
	for _, fn := range w.SortedFuncs(set) {
		EachInstr(fn, func(in ssa.Instruction) {
			pos := w.InstrPos(in)
			switch x := in.(type) {
			case *ssa.Panic:
				bad++
				r.Fail(rule, pos, w.Name(fn), "panic("+describe(x.X)+")", "an explicit panic on an API path")
			case *ssa.Go:
				bad++
				r.Fail(rule, pos, w.Name(fn), "go statement", "a goroutine started on an API path can outlive or deadlock the call")
			case ssa.CallInstruction:
				name := calleeFullName(x.Common())
				if name == "os.Exit" || strings.HasPrefix(name, "log.Fatal") || strings.HasPrefix(name, "log.Panic") || name == "runtime.Goexit" {
					bad++
					r.Fail(rule, pos, w.Name(fn), "call "+name, "aborts the process or goroutine instead of returning an error")
				}
			}
		})
	}
	if bad == 0 {
		r.OK(rule, "-", "-", fmt.Sprintf("%d functions of the API closure", len(set)), "no panic/exit/fatal/go")
	}
}

// ruleCondArg: the cond closures index params[0]; every call of a cond node's
// operator passes a one-element literal.
func ruleCondArg(w *World, r *Report) {
	const rule = "R-CONDARG"
	r.Rule(rule, "the if/fi closures are applied only to a one-element argument literal", 2)
	k := loadNodeKinds(w)
	for _, name := range []string{"(*Expr).Eval", "(*Expr).TryEval"} {
		fn := w.MustFn(r, rule, name)
		if fn == nil {
			continue
		}
		l, _ := recoverEvalLoop(w, fn)
		if l == nil {
			r.Unresolved(rule, "main loop of "+name+" not recognised")
			continue
		}
		found := false
		EachInstr(fn, func(in ssa.Instruction) {
			c, ok := in.(*ssa.Call)
			if !ok || !isOperatorCall(w, &c.Call) {
				return
			}
			base, okf := loadOfField(c.Call.Value, "node", "operator")
			if !okf {
				return
			}
			poss := k.kindsPossibleAt(c.Block(), func(n ssa.Value) bool { return n == base || sameValueShape(n, base) })
			if poss == nil || !poss[k.cond] {
				return
			}
			found = true
			one := false
			if sl, ok := c.Call.Args[1].(*ssa.Slice); ok {
				if al, ok := sl.X.(*ssa.Alloc); ok {
					if arr, ok := deref(al.Type()).Underlying().(*types.Array); ok && arr.Len() >= 1 {
						one = true
					}
				}
			}
			r.Check(one, rule, w.InstrPos(c), name, describe(c), "a literal with at least one element: params[0] in the cond closure is in range", "the cond closure can be applied to an empty argument list")
		})
		if !found {
			r.Unresolved(rule, "cond-arm operator call of "+name+" not found")
		}
	}
	// cond nodes get their operator only from buildKeywordNode (R-KIND: operators are replaced only for operator/fastOperator nodes)
}

var _ = sort.Strings
var _ = token.ADD

var c06Witnesses = []Witness{
	{Name: "slice-fetcher-get-without-lower-bound", Rule: "R-PANIC", Doc: "D18 returns (the tree as found: a negative key, e.g. UndefinedVarKey, indexes the slice)", Edits: []Edit{
		{File: "variable.go", Old: "func (s SliceVarFetcher) Get(key VariableKey, _ string) (Value, error) {\n	if key < 0 || int(key) >= len(s) {", New: "func (s SliceVarFetcher) Get(key VariableKey, _ string) (Value, error) {\n	if int(key) >= len(s) {"}}},
	{Name: "dumptable-label-cut-scans-forward-without-bound", Rule: "R-PANIC", Doc: "seeded change C06-k: text handled inside an invariant-governed function is not governed by the table invariants, and s[i] on a string is an obligation", Edits: []Edit{
		{File: "util.go", Old: "					res = res[:width-1] + \"…\"", New: "					cut := width - 1\n					for res[cut]&0xC0 == 0x80 {\n						cut++\n					}\n					res = res[:cut] + \"…\""}}},
	{Name: "dumptable-label-cut-one-past-width", Rule: "R-PANIC", Edits: []Edit{
		{File: "util.go", Old: "				if l := len(res); l > width {\n					res = res[:width-1] + \"…\"", New: "				if l := len(res); l >= width {\n					res = res[:width+1] + \"…\""}}},
	{Name: "benign-dumptable-label-cut-scans-backward", Benign: true, Edits: []Edit{
		{File: "util.go", Old: "					res = res[:width-1] + \"…\"", New: "					cut := width - 1\n					for cut > 0 && res[cut]&0xC0 == 0x80 {\n						cut--\n					}\n					res = res[:cut] + \"…\""}}},
	{Name: "indent-pair-table-with-one-rune-entry", Rule: "R-PANIC", Edits: []Edit{
		{File: "util.go", Old: "	for _, pair := range []string{\"[]\", \"()\"} {", New: "	for _, pair := range []string{\"[]\", \"()\", \"{\"} {"}}},
	{Name: "parse-drops-lexer-error", Rule: "R-ERRDROP", Edits: []Edit{
		{File: "parser.go", Old: "	err := p.lex()\n	if err != nil {\n		return nil, nil, err\n	}", New: "	err := p.lex()\n	if err != nil {\n		return nil, nil, nil\n	}"}}},
	{Name: "evalbool-drops-eval-error", Rule: "R-ERRDROP", Edits: []Edit{
		{File: "engine.go", Old: "	res, err := e.Eval(ctx)\n	if err != nil {\n		return false, err\n	}\n	b, ok := res.(bool)", New: "	res, err := e.Eval(ctx)\n	if err != nil {\n		return false, nil\n	}\n	b, ok := res.(bool)"}}},
	{Name: "leaf-dispatch-drops-parser-error", Rule: "R-ERRDROP", Edits: []Edit{
		{File: "parser.go", Old: "		if ast != nil || err != nil {\n			return ast, err\n		}", New: "		if ast != nil || err != nil {\n			return ast, nil\n		}"}}},
	{Name: "sort-comparator-indexes-past-own-index", Rule: "R-PANIC", Edits: []Edit{
		{File: "compiler.go", Old: "		return root.children[i].cost < root.children[j].cost", New: "		return root.children[i].cost < root.children[j+1].cost"}}},
	{Name: "sort-comparator-indexes-other-slice", Rule: "R-PANIC", Edits: []Edit{
		{File: "compiler.go", Old: "	sort.SliceStable(root.children, func(i, j int) bool {", New: "	sort.SliceStable(append(root.children, root), func(i, j int) bool {"}}},
	{Name: "empty-token-list-guard-removed", Rule: "R-PANIC", Edits: []Edit{
		{File: "parser.go", Old: "	last := len(p.tokens) - 1\n	if last < 0 {\n		return p.invalidExprErr(0)\n	}\n", New: "	last := len(p.tokens) - 1\n"}}},
	{Name: "list-opener-lookahead-unguarded", Rule: "R-PANIC", Edits: []Edit{
		{File: "parser.go", Old: "		if T[i].typ != leftType || i+1 >= len(T) {", New: "		if T[i].typ != leftType {"}}},
	{Name: "infix-pop-unguarded", Rule: "R-PANIC", Edits: []Edit{
		{File: "parser.go", Old: "			l := len(outputStack)\n			if l == 0 {\n				return nil\n			}\n", New: "			l := len(outputStack)\n"}}},
	{Name: "infix-operand-count-unchecked", Rule: "R-PANIC", Edits: []Edit{
		{File: "parser.go", Old: "				if cnt < 0 || cnt > len(outputStack) {\n					return p.invalidExprErr(top.t.pos)\n				}\n", New: ""}}},
	{Name: "empty-source-position", Rule: "R-PANIC", Edits: []Edit{
		{File: "parser.go", Old: "	A := []rune(p.source)\n	if len(A) == 0 {\n		return \"\"\n	}\n", New: "	A := []rune(p.source)\n"}}},
	{Name: "peek-without-hasnext", Rule: "R-PANIC", Edits: []Edit{
		{File: "parser.go", Old: "func (p *parser) peek() (token, error) {\n	if !p.hasNext() {\n		return token{}, p.errNoNextToken()\n	}\n", New: "func (p *parser) peek() (token, error) {\n"}}},
	{Name: "hasnext-off-by-one", Rule: "R-PANIC", Edits: []Edit{
		{File: "parser.go", Old: "	return p.idx < len(p.tokens)", New: "	return p.idx <= len(p.tokens)"}}},
	{Name: "lexer-comment-scan-overruns", Rule: "R-PANIC", Edits: []Edit{
		{File: "parser.go", Old: "			start := i\n			for ; i < len(A); i++ {\n				if A[i] == '\\n' {\n					break\n				}\n			}", New: "			start := i\n			for ; i <= len(A); i++ {\n				if A[i] == '\\n' {\n					break\n				}\n			}"}}},
	{Name: "formatter-lookbehind-unguarded", Rule: "R-PANIC", Edits: []Edit{
		{File: "util.go", Old: "				for j := i - 1; j >= 0; j-- {", New: "				for j := i - 1; j >= -1; j-- {"}}},
	{Name: "int-assertion-single-result", Rule: "R-PANIC", Edits: []Edit{
		{File: "operator.go", Old: "	i, ok := params[0].(int64)\n	if !ok {\n		return nil, errTypeInt(c.mode, params[0])\n	}\n\n	j, ok := params[1].(int64)", New: "	i := params[0].(int64)\n\n	j, ok := params[1].(int64)"}}},
	{Name: "mod-zero-test-deleted", Rule: "R-PANIC", Edits: []Edit{
		{File: "operator.go", Old: "			case mod:\n				if v == 0 {\n					return nil, OpExecError(\"mod\", errors.New(\"divide by zero\"))\n				}\n				res %= v", New: "			case mod:\n				res %= v"}}},
	{Name: "eq-comparability-guard-removed", Rule: "R-PANIC", Edits: []Edit{
		{File: "operator.go", Old: "	for _, p := range params {\n		if !isComparable(p) {\n			return nil, ParamTypeError(modeNames[equals], \"comparable\", p)\n		}\n	}\n", New: ""}}},
	{Name: "comparison-arity-test-deleted", Rule: "R-PANIC", Edits: []Edit{
		{File: "operator.go", Old: "func (c comparison) execute(_ *Ctx, params []Value) (Value, error) {\n	if len(params) != 2 {\n		return nil, errCnt2(c.mode, params)\n	}\n", New: "func (c comparison) execute(_ *Ctx, params []Value) (Value, error) {\n"}}},
	{Name: "version-component-index-unguarded", Rule: "R-PANIC", Edits: []Edit{
		{File: "operator.go", Old: "		if i < len(arr) {\n			v, err := strconv.ParseInt(arr[i], 10, 64)", New: "		if i <= len(arr) {\n			v, err := strconv.ParseInt(arr[i], 10, 64)"}}},
	{Name: "new-mode-beyond-name-table", Rule: "R-PANIC", Edits: []Edit{
		{File: "operator.go", Old: "var modeNames = [...]string{", New: "var modeNames = [25]string{"},
		{File: "operator.go", Old: "	toVersion: \"toVersion\",\n", New: ""}}},
	{Name: "compile-returns-nil-nil", Rule: "R-NILNIL", Edits: []Edit{
		{File: "compiler.go", Old: "	res := check(ast)\n	if res.err != nil {\n		return nil, res.err\n	}\n", New: "	res := check(ast)\n	if res.err != nil {\n		return nil, nil\n	}\n"}}},
	{Name: "operator-panics-on-bad-mode", Rule: "R-NOFAIL", Edits: []Edit{
		{File: "operator.go", Old: "			default:\n				return 0, errInvalidMode(a.mode, \"arithmetic\")", New: "			default:\n				panic(\"invalid arithmetic mode\")"}}},
	{Name: "cond-closure-called-with-empty-args", Rule: "R-CONDARG", Edits: []Edit{
		{File: "engine.go", Old: "			res, err = curt.operator(ctx, []Value{res})\n			if err != nil {\n				return\n			}\n			if res == true {\n				osTop = curt.osTop\n				i = curt.scIdx\n			}\n			continue\n		default:\n			reportEvent(e, os, osTop, curt.value)\n			continue\n		}\n		if b, ok := res.(bool); ok {", New: "			res, err = curt.operator(ctx, params[:0])\n			if err != nil {\n				return\n			}\n			if res == true {\n				osTop = curt.osTop\n				i = curt.scIdx\n			}\n			continue\n		default:\n			reportEvent(e, os, osTop, curt.value)\n			continue\n		}\n		if b, ok := res.(bool); ok {"}}},
	{Name: "benign-empty-token-guard-respelled", Benign: true, Edits: []Edit{
		{File: "parser.go", Old: "	last := len(p.tokens) - 1\n	if last < 0 {\n		return p.invalidExprErr(0)\n	}\n", New: "	if len(p.tokens) == 0 {\n		return p.invalidExprErr(0)\n	}\n	last := len(p.tokens) - 1\n"}}},
	{Name: "benign-peek-inlined-guard", Benign: true, Edits: []Edit{
		{File: "parser.go", Old: "func (p *parser) peek() (token, error) {\n	if !p.hasNext() {\n		return token{}, p.errNoNextToken()\n	}\n", New: "func (p *parser) peek() (token, error) {\n	if p.idx >= len(p.tokens) {\n		return token{}, p.errNoNextToken()\n	}\n"}}},
	{Name: "benign-pop-guard-respelled", Benign: true, Edits: []Edit{
		{File: "parser.go", Old: "			l := len(outputStack)\n			if l == 0 {\n				return nil\n			}\n", New: "			l := len(outputStack)\n			if l < 1 {\n				return nil\n			}\n"}}},
}

// ---- R-ERRDROP ------------------------------------------------------------------

// errDropAllowed: functions of the pinned tree that deliberately turn a failed attempt into "no answer" — each
// confirmed by reading (key: function | callee whose error is dropped).
var errDropAllowed = map[string]string{}

// ruleErrDrop: an error that a function has just found to be non-nil is not turned into success. In every function
// of the API closure whose last result is an error: a return that yields a nil error must not lie on the
// `err != nil` edge of an error value obtained from a call — there the function has to report an error (that one or
// another non-nil one). Dropping it makes the caller go on with a missing node or value: the parser's callers
// dereference the node they are handed whenever the error is nil.
func ruleErrDrop(w *World, r *Report, set map[*ssa.Function]bool) {
	const rule = "R-ERRDROP"
	r.Rule(rule, "in the API closure no return reports success (nil error) on the non-nil edge of an error obtained from a call, except the listed deliberate 'no answer' conversions", 40)
	// an error result is never thrown away: every call in the closure whose last result is an error has that result
	// looked at (tested, returned, wrapped or stored) — `_ = p.eat(rParen)` lets a malformed source compile
	for _, fn := range w.SortedFuncs(set) {
		name := w.Name(fn)
		EachInstr(fn, func(in ssa.Instruction) {
			c, ok := in.(*ssa.Call)
			if !ok {
				return
			}
			sig := c.Call.Signature()
			if sig == nil || sig.Results().Len() == 0 || !isErrorType(sig.Results().At(sig.Results().Len()-1).Type()) {
				return
			}
			callee := calleeFullName(&c.Call)
			if callee == "" {
				callee = "dynamic call"
			}
			// library callees whose error is documented to be always nil
			switch callee {
			case "(*strings.Builder).WriteString", "(*strings.Builder).WriteRune", "(*strings.Builder).WriteByte", "(*strings.Builder).Write", "fmt.Fprintf", "fmt.Fprint", "fmt.Fprintln", "fmt.Println", "fmt.Printf", "fmt.Print":
				return
			}
			used := false
			if sig.Results().Len() == 1 {
				used = len(referrers(c)) > 0
			} else {
				for _, ref := range referrers(c) {
					if ex, okx := ref.(*ssa.Extract); okx && ex.Index == sig.Results().Len()-1 && len(referrers(ex)) > 0 {
						used = true
					}
				}
			}
			r.Check(used, rule, w.InstrPos(c), name, "error result of "+callee, "the error is looked at", "the error result of this call is thrown away: a failure is silently turned into success (a malformed source compiles, a missing node is dereferenced)")
		})
	}
	// once an error obtained from a call has been found non-nil, the function does not go back to its normal flow: every
	// return reachable from the non-nil edge of the test reports an error (path rule; the dominance clause below cannot see
	// a failing edge that rejoins the success path before the return)
	for _, fn := range w.SortedFuncs(set) {
		res := fn.Signature.Results()
		if res.Len() == 0 || !isErrorType(res.At(res.Len()-1).Type()) {
			continue
		}
		name := w.Name(fn)
		for _, b := range fn.Blocks {
			iff, ok := b.Instrs[len(b.Instrs)-1].(*ssa.If)
			if !ok || b.Succs[0] == b.Succs[1] {
				continue
			}
			x, isEq, okn := nilCompare(iff.Cond)
			if !okn || !isErrorType(x.Type()) {
				continue
			}
			fromCall := false
			switch v := x.(type) {
			case *ssa.Extract:
				_, fromCall = v.Tuple.(*ssa.Call)
			case *ssa.Call:
				fromCall = true
			}
			if !fromCall {
				continue
			}
			failing := b.Succs[0]
			if isEq {
				failing = b.Succs[1]
			}
			seen := map[*ssa.BasicBlock]bool{failing: true}
			stack := []*ssa.BasicBlock{failing}
			var leak *ssa.Return
			for len(stack) > 0 && leak == nil {
				y := stack[len(stack)-1]
				stack = stack[:len(stack)-1]
				if ret := blockReturn(y); ret != nil {
					ev := ret.Results[len(ret.Results)-1]
					switch {
					case isNilConst(ev):
						leak = ret
					case zeroValueResults(ret):
						// an explicit failure return (`return nil, <some error>`), possibly shared with another failing test
					case failing.Dominates(y) && len(failing.Preds) == 1:
						// a return of the failing path itself: whatever it reports was decided there
					case errCarries(ev, x, map[ssa.Value]bool{}):
						// the tested error travels on to a shared return
					default:
						// the failing path has rejoined the normal flow and the return reports some other call's outcome
						leak = ret
					}
					continue
				}
				for _, sy := range y.Succs {
					if !seen[sy] {
						seen[sy] = true
						stack = append(stack, sy)
					}
				}
			}
			if leak != nil {
				r.Fail(rule, w.InstrPos(iff), name, "failing edge of the test of "+describe(x), "after this error was found non-nil the function can still reach the return at "+w.InstrPos(leak)+", which reports success or the outcome of a later call: the failure is silently dropped")
			} else {
				r.OK(rule, w.InstrPos(iff), name, "failing edge of the test of "+describe(x), "every return reachable from the failing edge reports an error")
			}
		}
	}
	for _, fn := range w.SortedFuncs(set) {
		res := fn.Signature.Results()
		if res.Len() == 0 || !isErrorType(res.At(res.Len()-1).Type()) {
			continue
		}
		name := w.Name(fn)
		for _, ret := range allReturns(fn) {
			ev := ret.Results[len(ret.Results)-1]
			// the error values known to be non-nil here
			var known []ssa.Value
			seenK := map[ssa.Value]bool{}
			collect := func(facts []Fact) {
				for _, f := range facts {
					x, isNil, ok := factIsNil(f)
					if !ok || isNil || !isErrorType(x.Type()) || seenK[x] {
						continue
					}
					seenK[x] = true
					known = append(known, x)
				}
			}
			collect(factsAtLocal(ret.Block()))
			// `if node != nil || err != nil { return … }`: the failing edge is one of several ways in
			if len(ret.Block().Preds) > 1 {
				for _, p := range ret.Block().Preds {
					collect(factsAtEdgeTo(p, ret.Block()))
				}
			}
			pos := w.InstrPos(ret)
			if len(known) == 0 {
				r.OK(rule, pos, name, "return …, "+describe(ev), "no error is known to be non-nil on this path")
				continue
			}
			if !isNilConst(ev) {
				r.OK(rule, pos, name, "return …, "+describe(ev), "an error is reported on the failing edge")
				continue
			}
			for _, x := range known {
				callee := "?"
				if ex, ok := x.(*ssa.Extract); ok {
					if c, okc := ex.Tuple.(*ssa.Call); okc {
						callee = calleeFullName(&c.Call)
						if callee == "" {
							callee = "dynamic call"
						}
					}
				} else if c, okc := x.(*ssa.Call); okc {
					callee = calleeFullName(&c.Call)
				}
				if why, ok := errDropAllowed[name+"|"+callee]; ok {
					r.Add(Obligation{Rule: rule, Pos: pos, Func: name, What: "return …, nil after " + callee + " failed", Verdict: Discharged, Why: "listed: " + why})
					continue
				}
				r.Fail(rule, pos, name, "return …, nil after "+callee+" failed", "the function has just found this error to be non-nil and reports success: the caller continues with a missing result (a nil node is dereferenced, a malformed source compiles)")
			}
		}
	}
}


// errCarries: v is x, or a phi one of whose ways in is (a phi carrying) x.
func errCarries(v, x ssa.Value, seen map[ssa.Value]bool) bool {
	if v == x {
		return true
	}
	if seen[v] {
		return false
	}
	seen[v] = true
	if phi, ok := v.(*ssa.Phi); ok {
		for _, e := range phi.Edges {
			if errCarries(e, x, seen) {
				return true
			}
		}
	}
	return false
}


// zeroValueResults: every result but the last (the error) is a nil / zero / false constant.
func zeroValueResults(ret *ssa.Return) bool {
	if len(ret.Results) < 2 {
		return false
	}
	for _, v := range ret.Results[:len(ret.Results)-1] {
		c, ok := v.(*ssa.Const)
		if !ok {
			return false
		}
		if c.Value == nil {
			continue
		}
		if b, okb := constBool(c); okb && !b {
			continue
		}
		if n, okn := constInt(c); okn && n == 0 {
			continue
		}
		if sv, oks := constString(c); oks && sv == "" {
			continue
		}
		return false
	}
	return true
}
