package main

// C20 — GenerateRandomExpr reports the true value: the mechanisms its in-line
// oracle rests on.

import (
	"fmt"
	"go/token"
	"go/types"
	"sort"
	"strings"

	"golang.org/x/tools/go/ssa"
)

func init() {
	register(&Property{
		ID:    "C20",
		Level: "other",
		Explanation: "Decides the mechanisms the generator's oracle rests on: (R-EXECOP) sibling agreement between the generator's execOp and the engine's executeOperatorProxy: the same decision table — `and` with a false operand -> false; `or` with a true operand -> true; any DNE operand -> DNE; otherwise the table operator builtinOperators[op](nil, operands) — with the same polarity and the same order (the shortcuts are not conditioned on the absence of DNE); a different order is a different three-valued logic; " +
			"(R-GENIF) the value reported for `(if c a b)` is a's value under c == true, b's under c == false, DNE under c == DNE, for the sub-results rendered in that textual order; (R-GENSAFE) the operator list containing / or % is indexed only under the 'no later operand is zero' flag, the flag starts true and is cleared exactly under operand == int64(0) for every operand but the first (a full loop over childRes[1:]), the fallback list contains neither / % div mod, every listed operator is a key of the operator table, every index `x % len(L)` has a non-empty L (R-DIV0 of C18); the reported value of an n-ary node is execOp(op, all child values in order) for the rendered op. " +
			"(R-GENOPT) every func(*GenExprConfig) option stores only through its parameter and its own locals, never into a captured variable: no state between applications. Listed, not decided: the operator error discarded in execOp (`res, _ := fn(…)`) is a stated belief justified by R-GENSAFE and operand types. NOT decided: that the reported value equals a reference evaluator's on every seed (value semantics).",
		Run:       runC20,
		Witnesses: c20Witnesses,
	})
}

func runC20(w *World, r *Report) {
	gen := w.MustFn(r, "R-EXECOP", "GenerateRandomExpr")
	if gen == nil {
		return
	}
	var execOp, helper *ssa.Function
	for _, an := range gen.AnonFuncs {
		if an.Signature.Variadic() {
			execOp = an
		} else if an.Signature.Params().Len() == 2 {
			helper = an
		}
	}
	if execOp == nil {
		// the oracle as a named function: the variadic in-package function the generator's closures call
		for _, an := range append([]*ssa.Function{gen}, gen.AnonFuncs...) {
			EachInstr(an, func(in ssa.Instruction) {
				if c, ok := in.(*ssa.Call); ok {
					if h := c.Call.StaticCallee(); h != nil && w.funcSet[h] && h.Signature.Variadic() && h.Signature.Results().Len() == 1 {
						execOp = h
					}
				}
			})
		}
	}
	if execOp == nil || helper == nil {
		r.Unresolved("R-EXECOP", "execOp / helper closures of GenerateRandomExpr not found")
		return
	}
	ruleExecOp(w, r, execOp)
	ruleContains(w, r)
	ruleGenIf(w, r, helper)
	ruleGenSafe(w, r, gen, helper, execOp)
	ruleGenForm(w, r, gen, execOp)
	ruleGenVars(w, r)
	ruleGenOpt(w, r)
}

// ruleGenForm: what GenerateRandomExpr returns is a parenthesised expression
// (a bare atom is not an expression in prefix notation and does not compile).
func ruleGenForm(w *World, r *Report, gen, execOp *ssa.Function) {
	const rule = "R-GENFORM"
	r.Rule(rule, "every result of GenerateRandomExpr is rendered with a leading parenthesis, or returned only under strings.HasPrefix(expr, \"(\"); a wrapped atom reports execOp of the wrapping operator", 1)
	for _, ret := range allReturns(gen) {
		pos := w.InstrPos(ret)
		v := ret.Results[0]
		// the struct value returned: a load of a local literal, or a call result
		okForm, why := false, ""
		var exprOf func(v ssa.Value) (ssa.Value, ssa.Value, bool)
		exprOf = func(v ssa.Value) (ssa.Value, ssa.Value, bool) {
			addr, ok := isLoad(v)
			if !ok {
				return nil, nil, false
			}
			al, ok := addr.(*ssa.Alloc)
			if !ok {
				return nil, nil, false
			}
			var ex, res ssa.Value
			for _, ref := range referrers(al) {
				fa, ok := ref.(*ssa.FieldAddr)
				if !ok {
					continue
				}
				for _, ref2 := range referrers(fa) {
					if st, ok := ref2.(*ssa.Store); ok && st.Addr == ssa.Value(fa) {
						switch fieldName(fa.X.Type(), fa.Field) {
						case "Expr":
							ex = st.Val
						case "Res":
							res = st.Val
						}
					}
				}
			}
			return ex, res, ex != nil
		}
		if ex, res, ok := exprOf(v); ok {
			if c, okc := ex.(*ssa.Call); okc && calleeFullName(&c.Call) == "fmt.Sprintf" {
				if f, okf := constString(c.Call.Args[0]); okf && strings.HasPrefix(f, "(") {
					okForm, why = true, "rendered by Sprintf with a leading parenthesis"
					// the value of a wrapped atom comes from execOp
					if rc, okr := unwrapConv(res).(*ssa.Call); !okr || !(closureBehind(rc.Call.Value) == execOp) {
						okForm, why = false, "the wrapped expression's value is not computed by execOp"
					}
				}
			}
		}
		if !okForm {
			// returned as is under HasPrefix(x.Expr, "(")
			for _, f := range factsAt(ret.Block()) {
				c, okc := f.Cond.(*ssa.Call)
				if !okc || !f.Truth || calleeFullName(&c.Call) != "strings.HasPrefix" {
					continue
				}
				if p, okp := constString(c.Call.Args[1]); okp && p == "(" {
					if base, okb := loadOfField(c.Call.Args[0], "GenExprResult", "Expr"); okb {
						if addr, okl := isLoad(v); okl && addr == base {
							okForm, why = true, "returned only when its text starts with a parenthesis"
						}
					}
				}
			}
		}
		r.Check(okForm, rule, pos, w.Name(gen), "return "+describe(v), why, "GenerateRandomExpr can return a bare atom (level 0), which is not an expression in prefix notation: Compile rejects it")
	}
}

// ruleGenVars: GenVariables files a variable under the type of its unified
// value and reports that same unified value.
func ruleGenVars(w *World, r *Report) {
	const rule = "R-GENVARS"
	r.Rule(rule, "GenVariables reports for each variable the very value whose type it tested, and that value is UnifyType of the map entry (the engine normalises bindings the same way)", 2)
	outer := w.GlobalFuncValue("GenVariables")
	if outer == nil || len(outer.AnonFuncs) == 0 {
		r.Unresolved(rule, "GenVariables option not found")
		return
	}
	fn := outer.AnonFuncs[0]
	n := 0
	EachInstr(fn, func(in ssa.Instruction) {
		st, ok := in.(*ssa.Store)
		if !ok {
			return
		}
		tn, fld, _, okf := fieldOf(st.Addr)
		if !okf || tn != "GenExprResult" || fld != "Res" {
			return
		}
		// which type test dominates this literal
		var tested ssa.Value
		for _, f := range factsAt(st.Block()) {
			if ex, ok := f.Cond.(*ssa.Extract); ok && ex.Index == 1 && f.Truth {
				if ta, ok := ex.Tuple.(*ssa.TypeAssert); ok {
					tested = ta.X
				}
			}
		}
		if tested == nil {
			return // the DNE pool: no type test
		}
		n++
		same := unwrapConv(st.Val) == unwrapConv(tested)
		unified := false
		if c, ok := unwrapConv(tested).(*ssa.Call); ok && c.Call.StaticCallee() != nil && nm(c.Call.StaticCallee()) == "UnifyType" {
			unified = true
		}
		r.Check(same && unified, rule, w.InstrPos(st), w.Name(fn), "Res = "+describe(st.Val)+" under a type test of "+describe(tested), "the reported value is the unified value whose type was tested", "the reported value is not the normalised value the type test looked at: the generator's oracle computes with a value the engine never sees")
	})
	if n < 2 {
		r.Unresolved(rule, "typed variable pools of GenVariables not recognised")
	}
}

// proxyTable extracts return-kind -> operand/polarity facts.
func proxyTable(fn *ssa.Function) map[string][]string {
	out := map[string][]string{}
	for _, ret := range allReturns(fn) {
		kind := proxyReturnKind(ret)
		var keep []string
		for _, f := range proxyFacts(ret.Block()) {
			// keep operand conditions and the positive operator condition
			if strings.HasPrefix(f, "has:") || f == "and=T" || f == "or=T" {
				keep = append(keep, f)
			}
		}
		sort.Strings(keep)
		out[kind] = keep
	}
	return out
}

func ruleExecOp(w *World, r *Report, execOp *ssa.Function) {
	const rule = "R-EXECOP"
	r.Rule(rule, "the generator's execOp has the same decision table as executeOperatorProxy and applies builtinOperators[op] to all operands", 5)
	proxy := w.MustFn(r, rule, "executeOperatorProxy")
	if proxy == nil {
		return
	}
	a, b := proxyTable(proxy), proxyTable(execOp)
	r.Extra["proxy_table_engine"] = a
	r.Extra["proxy_table_generator"] = b
	name := w.Name(execOp)
	for _, kind := range []string{"false", "true", "DNE", "operator"} {
		ga, oka := a[kind]
		gb, okb := b[kind]
		r.Check(oka && okb && strings.Join(ga, " ") == strings.Join(gb, " "), rule, w.Pos(execOp.Pos()), name,
			fmt.Sprintf("return %s: generator [%s], engine [%s]", kind, strings.Join(gb, " "), strings.Join(ga, " ")), "sibling implementations agree", "the generator's three-valued logic differs from the engine's operator proxy: the reported result is computed by a different logic than the one evaluated")
	}
	want := map[string]string{"false": "and=T has:false=T", "true": "has:true=T or=T", "DNE": "has:DNE=T", "operator": "has:DNE=F"}
	for _, kind := range []string{"false", "true", "DNE", "operator"} {
		r.Check(strings.Join(b[kind], " ") == want[kind], rule, w.Pos(execOp.Pos()), name, fmt.Sprintf("return %s under [%s]", kind, strings.Join(b[kind], " ")), "Kleene table with shortcuts before poisoning", "want ["+want[kind]+"]")
	}
	// the operator applied: builtinOperators[op](nil, param)
	EachInstr(execOp, func(in ssa.Instruction) {
		c, ok := in.(*ssa.Call)
		if !ok || !isOperatorCall(w, &c.Call) {
			return
		}
		good := false
		if lk, ok := c.Call.Value.(*ssa.Lookup); ok {
			if addr, okl := isLoad(lk.X); okl {
				if g, okg := addr.(*ssa.Global); okg && nm(g) == "builtinOperators" && lk.Index == ssa.Value(execOp.Params[0]) {
					good = len(c.Call.Args) == 2 && c.Call.Args[1] == ssa.Value(execOp.Params[1])
				}
			}
		}
		r.Check(good, rule, w.InstrPos(c), name, describe(c), "the table operator of the rendered name applied to all operand values", "the value is computed by a different operator or on different operands than the expression text says")
		// discarded error: stated belief
		used := false
		for _, ref := range referrers(c) {
			if ex, ok := ref.(*ssa.Extract); ok && ex.Index == 1 && len(referrers(ex)) > 0 {
				used = true
			}
		}
		if !used {
			r.Undecided(rule, w.InstrPos(c), name, "error of "+describe(c)+" discarded", "stated belief: generated operands are well-typed and / % are chosen only without zero divisors (R-GENSAFE)")
		}
	})
}

// ---- R-GENIF ------------------------------------------------------------------

func ruleGenIf(w *World, r *Report, helper *ssa.Function) {
	const rule = "R-GENIF"
	r.Rule(rule, "(if c a b) reports a's value under c == true, b's under c == false, DNE under c == DNE, in the textual order", 3)
	name := w.Name(helper)
	// the Sprintf("(if %s %s %s)", ...) call
	var sp *ssa.Call
	EachInstr(helper, func(in ssa.Instruction) {
		if c, ok := in.(*ssa.Call); ok && calleeFullName(&c.Call) == "fmt.Sprintf" {
			if s, oks := constString(c.Call.Args[0]); oks && strings.HasPrefix(s, "(if") {
				sp = c
			}
		}
	})
	if sp == nil {
		r.Unresolved(rule, "rendering of the if node not found")
		return
	}
	// the three locals in textual order
	var locals [3]ssa.Value
	if sl, ok := sp.Call.Args[1].(*ssa.Slice); ok {
		if arr, ok := sl.X.(*ssa.Alloc); ok {
			for _, ref := range referrers(arr) {
				ia, ok := ref.(*ssa.IndexAddr)
				if !ok {
					continue
				}
				k, okk := constInt(ia.Index)
				if !okk || k < 0 || k > 2 {
					continue
				}
				for _, ref2 := range referrers(ia) {
					if st, ok := ref2.(*ssa.Store); ok && st.Addr == ssa.Value(ia) {
						if base, okf := loadOfField(unwrapIface(st.Val), "GenExprResult", "Expr"); okf {
							locals[k] = base
						}
					}
				}
			}
		}
	}
	if locals[0] == nil || locals[1] == nil || locals[2] == nil {
		r.Unresolved(rule, "the three rendered sub-results of the if node were not identified")
		return
	}
	// the Res stored next to that rendering
	var resPhi *ssa.Phi
	EachInstr(helper, func(in ssa.Instruction) {
		st, ok := in.(*ssa.Store)
		if !ok || st.Block() != sp.Block() {
			return
		}
		if tn, fld, _, okf := fieldOf(st.Addr); okf && tn == "GenExprResult" && fld == "Res" {
			resPhi, _ = st.Val.(*ssa.Phi)
		}
	})
	if resPhi == nil {
		r.Unresolved(rule, "the reported value of the if node is not a merge of the three cases")
		return
	}
	condRes := func(v ssa.Value) bool {
		base, ok := loadOfField(v, "GenExprResult", "Res")
		return ok && base == locals[0]
	}
	got := map[string]string{}
	for i, e := range resPhi.Edges {
		pred := resPhi.Block().Preds[i]
		which := ""
		for _, f := range append(factsAt(pred), factsAtEdgeTo(pred, resPhi.Block())...) {
			bo, ok := f.Cond.(*ssa.BinOp)
			if !ok || bo.Op != token.EQL || !f.Truth {
				continue
			}
			if condRes(bo.X) {
				which = markerName(bo.Y)
			} else if condRes(bo.Y) {
				which = markerName(bo.X)
			}
		}
		val := "?" + describe(e)
		if base, ok := loadOfField(e, "GenExprResult", "Res"); ok {
			switch base {
			case locals[1]:
				val = "then"
			case locals[2]:
				val = "else"
			case locals[0]:
				val = "cond"
			}
		} else if m := markerName(e); m == "DNE" {
			val = "DNE"
		} else if isNilConst(e) {
			val = "nil"
		}
		if which == "" {
			which = "none"
		}
		got[which] = val
	}
	want := map[string]string{"true": "then", "false": "else", "DNE": "DNE"}
	for _, k := range []string{"true", "false", "DNE"} {
		r.Check(got[k] == want[k], rule, w.InstrPos(resPhi), name, fmt.Sprintf("condition == %s reports %s", k, got[k]), "the chosen branch's value", "want "+want[k]+": the reported value of a generated `if` is wrong")
	}
}

// ---- R-GENSAFE ----------------------------------------------------------------

// constStringList resolves a captured []string variable that is assigned once
// from a literal and returns its elements.
func constStringList(addr ssa.Value) ([]string, bool) {
	cell := resolveCell(addr)
	if cell == nil {
		return nil, false
	}
	stores := cellStores(cell)
	if len(stores) != 1 {
		return nil, false
	}
	sl, ok := stores[0].Val.(*ssa.Slice)
	if !ok {
		return nil, false
	}
	arr, ok := sl.X.(*ssa.Alloc)
	if !ok {
		return nil, false
	}
	at, ok := deref(arr.Type()).Underlying().(*types.Array)
	if !ok {
		return nil, false
	}
	out := make([]string, at.Len())
	n := 0
	for _, ref := range referrers(arr) {
		ia, ok := ref.(*ssa.IndexAddr)
		if !ok {
			continue
		}
		k, okk := constInt(ia.Index)
		if !okk {
			return nil, false
		}
		for _, ref2 := range referrers(ia) {
			if st, ok := ref2.(*ssa.Store); ok && st.Addr == ssa.Value(ia) {
				s, oks := constString(st.Val)
				if !oks {
					return nil, false
				}
				out[k] = s
				n++
			}
		}
	}
	return out, int64(n) == at.Len()
}

func ruleGenSafe(w *World, r *Report, gen, helper, execOp *ssa.Function) {
	const rule = "R-GENSAFE"
	r.Rule(rule, "division operators are chosen only when no later operand is zero; the fallback list has no division; listed operators exist; n-ary nodes report execOp(op, all children in order)", 6)
	name := w.Name(helper)
	table, err := w.OperatorTable("builtinOperators")
	if err != nil {
		r.Unresolved(rule, err.Error())
		return
	}
	keys := map[string]bool{}
	for _, impl := range table {
		keys[impl.Key] = true
	}
	isDivision := func(op string) bool {
		for _, impl := range table {
			if impl.Key == op && impl.Recv == "arithmetic" {
				m, _ := impl.FieldInt("mode")
				for _, other := range table {
					if (other.Key == "/" || other.Key == "%") && other.Recv == "arithmetic" {
						if om, _ := other.FieldInt("mode"); om == m {
							return true
						}
					}
				}
			}
		}
		return false
	}
	// operator selections: op = (*list)[r % len(list)]
	type sel struct {
		list  []string
		blk   *ssa.BasicBlock
		instr ssa.Instruction
		lname string
	}
	var sels []sel
	EachInstr(helper, func(in ssa.Instruction) {
		ia, ok := in.(*ssa.IndexAddr)
		if !ok {
			return
		}
		addr, okl := isLoad(ia.X)
		if !okl {
			return
		}
		fv, okf := addr.(*ssa.FreeVar)
		if !okf {
			return
		}
		if sl, oks := deref(fv.Type()).Underlying().(*types.Slice); !oks || !isStringLike(sl.Elem()) {
			return
		}
		list, okc := constStringList(fv)
		if !okc {
			r.Fail(rule, w.InstrPos(ia), name, describe(ia), "operator list is not a once-assigned literal")
			return
		}
		sels = append(sels, sel{list: list, blk: ia.Block(), instr: ia, lname: fv.Name()})
	})
	if len(sels) < 3 {
		r.Unresolved(rule, "operator selections of the generator not found")
		return
	}
	// the safe flag
	// found structurally (not by name): a bool phi with a constant-false edge that gates, as a true fact,
	// the indexing of an operator list containing a division operator
	var safePhi *ssa.Phi
	for _, s := range sels {
		hasDiv := false
		for _, op := range s.list {
			if isDivision(op) {
				hasDiv = true
			}
		}
		if !hasDiv || safePhi != nil {
			continue
		}
		for _, f := range factsAt(s.blk) {
			p, ok := f.Cond.(*ssa.Phi)
			if !ok || !f.Truth {
				continue
			}
			if phiHasConstEdge(p, false, 0) {
				safePhi = p
			}
		}
	}
	for _, s := range sels {
		var missing []string
		hasDiv := false
		for _, op := range s.list {
			if !keys[op] {
				missing = append(missing, op)
			}
			if isDivision(op) {
				hasDiv = true
			}
		}
		pos := w.InstrPos(s.instr)
		r.Check(len(missing) == 0, rule, pos, name, fmt.Sprintf("%s = %v", s.lname, s.list), "every listed operator is a key of the operator table", fmt.Sprintf("operators %v do not exist: the generated expression would not compile", missing))
		if !hasDiv {
			continue
		}
		gated := false
		if safePhi != nil {
			for _, f := range factsAt(s.blk) {
				if f.Cond == ssa.Value(safePhi) && f.Truth {
					gated = true
				}
			}
		}
		r.Check(gated, rule, pos, name, fmt.Sprintf("%s contains a division operator", s.lname), "indexed only under the 'no later operand is zero' flag", "a division operator can be chosen although a later operand is zero: the generated expression fails and the reported value is wrong")
	}
	// the flag: true initially, false exactly under elem == int64(0), over a full range of childRes[1:]
	if safePhi == nil {
		r.Fail(rule, w.Pos(helper.Pos()), name, "zero-divisor flag", "no flag guarding the choice of division operators")
		return
	}
	initTrue, clearOK, keepOK := false, true, true
	var scanned ssa.Value
	var scanLow int64 = -1      // first index of the scanned region of `scanned`
	var scanHdr *ssa.BasicBlock // header of the scan loop
	// a counting loop joins its arms in the post block first: such a join inside the loop is taken apart
	type flagEdge struct {
		e        ssa.Value
		pred, to *ssa.BasicBlock
	}
	var fedges []flagEdge
	var expandFlag func(e ssa.Value, pred, to *ssa.BasicBlock, depth int)
	expandFlag = func(e ssa.Value, pred, to *ssa.BasicBlock, depth int) {
		if p2, isPhi := e.(*ssa.Phi); isPhi && p2 != safePhi && depth < 4 && safePhi.Block().Dominates(p2.Block()) && p2.Block() != safePhi.Block() && p2.Comment != "&&" && p2.Comment != "||" {
			for j, e2 := range p2.Edges {
				expandFlag(e2, p2.Block().Preds[j], p2.Block(), depth+1)
			}
			return
		}
		fedges = append(fedges, flagEdge{e, pred, to})
	}
	for i, e := range safePhi.Edges {
		expandFlag(e, safePhi.Block().Preds[i], safePhi.Block(), 0)
	}
	for _, fe := range fedges {
		e, pred := fe.e, fe.pred
		if b, ok := constBool(e); ok {
			if !safePhi.Block().Dominates(pred) {
				initTrue = b
				continue
			}
			if b {
				clearOK = false
				continue
			}
			// cleared: under elem == int64(0)
			under := false
			for _, f := range append(factsAt(pred), factsAtEdgeTo(pred, fe.to)...) {
				bo, ok := f.Cond.(*ssa.BinOp)
				if !ok || bo.Op != token.EQL || !f.Truth {
					continue
				}
				x, y := bo.X, bo.Y
				if _, isMI := x.(*ssa.MakeInterface); isMI {
					x, y = y, x
				}
				if c, okc := constInt(unwrapIface(y)); okc && c == 0 {
					if bt, okb := unwrapIface(y).Type().Underlying().(*types.Basic); okb && bt.Kind() == types.Int64 {
						if addr, okl := isLoad(x); okl {
							if ia, oki := addr.(*ssa.IndexAddr); oki {
								if h, okh := rangeIndexHeader(ia.Index, ia.X); okh {
									under = true
									scanned = ia.X
									scanLow = 0
									scanHdr = h
								} else if start, okc := countingFrom(ia.Index, ia.X); okc {
									// for i := 1; i < len(X); i++ { X[i] … }
									under = true
									scanned = ia.X
									scanLow = start
									scanHdr = ia.Index.(*ssa.Phi).Block()
								}
							}
						}
					}
				}
			}
			if !under {
				clearOK = false
			}
		} else if e != ssa.Value(safePhi) {
			keepOK = false
		}
	}
	r.Check(initTrue && clearOK && keepOK, rule, w.InstrPos(safePhi), name, "zero-divisor flag", "starts true, is cleared exactly under operand == int64(0), otherwise keeps its value", "the flag does not track 'an operand is zero' (wrong initial value, wrong comparison or reset)")
	scanOK := false
	if scanned != nil && scanLow == 1 {
		// the counting form: indices 1 .. len-1 of the slice itself
		EachInstr(helper, func(in ssa.Instruction) {
			c, ok := in.(*ssa.Call)
			if !ok || !c.Call.Signature().Variadic() || len(c.Call.Args) != 2 {
				return
			}
			if c.Call.Args[1] == scanned {
				scanOK = true
			}
		})
	}
	if sl, ok := scanned.(*ssa.Slice); ok && sl.High == nil && scanLow == 0 {
		if lo, okl := constInt(sl.Low); okl && lo == 1 {
			// of the child results handed to execOp
			EachInstr(helper, func(in ssa.Instruction) {
				c, ok := in.(*ssa.Call)
				if !ok || !c.Call.Signature().Variadic() || len(c.Call.Args) != 2 {
					return
				}
				if c.Call.Args[1] == sl.X {
					scanOK = true
				}
			})
		}
	}
	// the flag is consulted only after the scan ran to its end
	if scanOK && scanHdr != nil {
		for _, s := range sels {
			hasDiv := false
			for _, op := range s.list {
				hasDiv = hasDiv || isDivision(op)
			}
			if hasDiv && !edgeDominates(scanHdr, 1, s.blk) {
				scanOK = false
			}
		}
	}
	r.Check(scanOK, rule, w.InstrPos(safePhi), name, "operands scanned for zero", "every operand but the first (childRes[1:]) of the very slice passed to execOp", "the zero scan does not cover all divisors (all operands but the first)")
	// n-ary node: Res = execOp(op, childRes...) with op the rendered operator
	naryOK := false
	EachInstr(helper, func(in ssa.Instruction) {
		c, ok := in.(*ssa.Call)
		if !ok || calleeFullName(&c.Call) != "fmt.Sprintf" {
			return
		}
		if s, oks := constString(c.Call.Args[0]); !oks || s != "(%s %s)" {
			return
		}
		// rendered op = first vararg; join of childExpr = second
		var rendered ssa.Value
		if sl, ok := c.Call.Args[1].(*ssa.Slice); ok {
			if arr, ok := sl.X.(*ssa.Alloc); ok {
				for _, ref := range referrers(arr) {
					if ia, ok := ref.(*ssa.IndexAddr); ok {
						if k, okk := constInt(ia.Index); okk && k == 0 {
							for _, ref2 := range referrers(ia) {
								if st, ok := ref2.(*ssa.Store); ok && st.Addr == ssa.Value(ia) {
									rendered = unwrapIface(st.Val)
								}
							}
						}
					}
				}
			}
		}
		for _, in2 := range c.Block().Instrs {
			ec, ok := in2.(*ssa.Call)
			if !ok || !ec.Call.Signature().Variadic() || len(ec.Call.Args) != 2 || ec == c {
				continue
			}
			if closureBehind(ec.Call.Value) != execOp {
				continue
			}
			if rendered != nil && ec.Call.Args[0] == rendered {
				if _, isPhi := rendered.(*ssa.Phi); isPhi {
					naryOK = true
				}
			}
		}
	})
	r.Check(naryOK, rule, w.Pos(helper.Pos()), name, "n-ary node: Res = execOp(op, childRes...)", "computed with the very operator that is rendered into the text", "the operator evaluated differs from the operator rendered")
}

var c20Witnesses = append(wave3WitnessesC20, []Witness{
	{Name: "benign-zero-scan-counting-loop", Rule: "R-GENSAFE", Benign: true, Edits: []Edit{
		{File: "util.go", Old: "\t\t\tfor _, res := range childRes[1:] {\n\t\t\t\tif res == int64(0) {\n\t\t\t\t\tsafe = false\n\t\t\t\t}\n\t\t\t}\n", New: "\t\t\tfor i := 1; i < l; i++ {\n\t\t\t\tif childRes[i] == int64(0) {\n\t\t\t\t\tsafe = false\n\t\t\t\t}\n\t\t\t}\n"}}},
	{Name: "zero-scan-counting-loop-leaves-early", Rule: "R-GENSAFE", Edits: []Edit{
		{File: "util.go", Old: "\t\t\tfor _, res := range childRes[1:] {\n\t\t\t\tif res == int64(0) {\n\t\t\t\t\tsafe = false\n\t\t\t\t}\n\t\t\t}\n", New: "\t\t\tfor i := 1; i < l; i++ {\n\t\t\t\tif i > 2 {\n\t\t\t\t\tbreak\n\t\t\t\t}\n\t\t\t\tif childRes[i] == int64(0) {\n\t\t\t\t\tsafe = false\n\t\t\t\t}\n\t\t\t}\n"}}},
	{Name: "zero-scan-range-loop-leaves-early", Rule: "R-GENSAFE", Edits: []Edit{
		{File: "util.go", Old: "\t\t\tfor _, res := range childRes[1:] {\n\t\t\t\tif res == int64(0) {\n\t\t\t\t\tsafe = false\n\t\t\t\t}\n\t\t\t}\n", New: "\t\t\tfor k, res := range childRes[1:] {\n\t\t\t\tif k > 1 {\n\t\t\t\t\tbreak\n\t\t\t\t}\n\t\t\t\tif res == int64(0) {\n\t\t\t\t\tsafe = false\n\t\t\t\t}\n\t\t\t}\n"}}},
	{Name: "zero-scan-counting-loop-from-third-operand", Rule: "R-GENSAFE", Edits: []Edit{
		{File: "util.go", Old: "\t\t\tfor _, res := range childRes[1:] {\n\t\t\t\tif res == int64(0) {\n\t\t\t\t\tsafe = false\n\t\t\t\t}\n\t\t\t}\n", New: "\t\t\tfor i := 2; i < l; i++ {\n\t\t\t\tif childRes[i] == int64(0) {\n\t\t\t\t\tsafe = false\n\t\t\t\t}\n\t\t\t}\n"}}},
	{Name: "execop-dne-before-shortcuts", Rule: "R-EXECOP", Edits: []Edit{
		{File: "util.go", Old: "			switch {\n			case op == \"and\" && contains(param, false):\n				return false\n			case op == \"or\" && contains(param, true):\n				return true\n			case contains(param, DNE):\n				return DNE\n			}", New: "			switch {\n			case contains(param, DNE):\n				return DNE\n			case op == \"and\" && contains(param, false):\n				return false\n			case op == \"or\" && contains(param, true):\n				return true\n			}"}}},
	{Name: "execop-or-shortcut-on-false", Rule: "R-EXECOP", Edits: []Edit{
		{File: "util.go", Old: "			case op == \"or\" && contains(param, true):\n				return true", New: "			case op == \"or\" && contains(param, false):\n				return true"}}},
	{Name: "genif-branches-swapped", Rule: "R-GENIF", Edits: []Edit{
		{File: "util.go", Old: "			case true:\n				res = trueBranch.Res\n			case false:\n				res = falseBranch.Res", New: "			case true:\n				res = falseBranch.Res\n			case false:\n				res = trueBranch.Res"}}},
	{Name: "genif-dne-condition-takes-else", Rule: "R-GENIF", Edits: []Edit{
		{File: "util.go", Old: "			case DNE:\n				res = DNE\n			}", New: "			case DNE:\n				res = falseBranch.Res\n			}"}}},
	{Name: "division-in-safe-ops", Rule: "R-GENSAFE", Edits: []Edit{
		{File: "util.go", Old: "		numSafeOps = []string{\"+\", \"-\", \"*\"}", New: "		numSafeOps = []string{\"+\", \"-\", \"*\", \"/\"}"}}},
	{Name: "zero-scan-from-third-operand", Rule: "R-GENSAFE", Edits: []Edit{
		{File: "util.go", Old: "			for _, res := range childRes[1:] {", New: "			for _, res := range childRes[2:] {"}}},
	{Name: "zero-scan-compares-untyped-zero", Rule: "R-GENSAFE", Edits: []Edit{
		{File: "util.go", Old: "				if res == int64(0) {", New: "				if res == 0 {"}}},
	{Name: "all-ops-without-safe-flag", Rule: "R-GENSAFE", Edits: []Edit{
		{File: "util.go", Old: "			if safe {\n				op = numAllOps[r%len(numAllOps)]", New: "			if safe || r == 9 {\n				op = numAllOps[r%len(numAllOps)]"}}},
	{Name: "level-zero-returns-bare-atom", Rule: "R-GENFORM", Edits: []Edit{
		{File: "util.go", Old: "	res := helper(c.GenType, level)\n	if strings.HasPrefix(res.Expr, \"(\") {\n		return res\n	}\n", New: "	res := helper(c.GenType, level)\n	if strings.HasPrefix(res.Expr, \"(\") || level == 0 {\n		return res\n	}\n"}}},
	{Name: "genvariables-reports-raw-value", Rule: "R-GENVARS", Edits: []Edit{
		{File: "util.go", Old: "				v = UnifyType(v)\n				switch v.(type) {", New: "				switch UnifyType(v).(type) {"}}},
	{Name: "benign-execop-if-chain", Benign: true, Edits: []Edit{
		{File: "util.go", Old: "			switch {\n			case op == \"and\" && contains(param, false):\n				return false\n			case op == \"or\" && contains(param, true):\n				return true\n			case contains(param, DNE):\n				return DNE\n			}", New: "			if op == \"and\" && contains(param, false) {\n				return false\n			}\n			if op == \"or\" && contains(param, true) {\n				return true\n			}\n			if contains(param, DNE) {\n				return DNE\n			}"}}},
}...)

// phiHasConstEdge: the phi, or a join inside the loop it heads that feeds it, has an incoming constant b.
func phiHasConstEdge(p *ssa.Phi, b bool, depth int) bool {
	for _, e := range p.Edges {
		if c, ok := constBool(e); ok && c == b {
			return true
		}
		if p2, ok := e.(*ssa.Phi); ok && p2 != p && depth < 3 && p.Block().Dominates(p2.Block()) && p2.Block() != p.Block() {
			if phiHasConstEdge(p2, b, depth+1) {
				return true
			}
		}
	}
	return false
}

// countingFrom: idx is the counter of `for idx := start; idx < len(X); idx++` (start a constant >= 0, step one),
// where the bound is len(X) or, for X = make([]T, n), n itself.
func countingFrom(idx ssa.Value, X ssa.Value) (int64, bool) {
	p, ok := idx.(*ssa.Phi)
	if !ok {
		return 0, false
	}
	var start int64 = -1
	step := false
	for _, e := range p.Edges {
		if c, okc := constInt(e); okc {
			if c < 0 || (start >= 0 && start != c) {
				return 0, false
			}
			start = c
		} else if bo, okb := e.(*ssa.BinOp); okb && bo.Op == token.ADD && bo.X == ssa.Value(p) {
			if one, ok1 := constInt(bo.Y); !ok1 || one != 1 {
				return 0, false
			}
			step = true
		} else {
			return 0, false
		}
	}
	hdr := p.Block()
	if start < 0 || !step || len(hdr.Instrs) == 0 {
		return 0, false
	}
	iff, okIf := hdr.Instrs[len(hdr.Instrs)-1].(*ssa.If)
	if !okIf {
		return 0, false
	}
	cmp, okc := iff.Cond.(*ssa.BinOp)
	if !okc || cmp.Op != token.LSS || cmp.X != ssa.Value(p) {
		return 0, false
	}
	if isLenOf(cmp.Y, X) {
		return start, true
	}
	if ms, isMake := X.(*ssa.MakeSlice); isMake && cmp.Y == ms.Len {
		return start, true
	}
	return 0, false
}
