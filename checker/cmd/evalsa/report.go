package main

// Obligations, verdicts, known findings and the evidence file.

import (
	"bufio"
	"encoding/json"
	"fmt"
	"os"
	"path/filepath"
	"sort"
	"strings"
	"time"
)

type Verdict string

const (
	Discharged   Verdict = "discharged"
	Violated     Verdict = "violated"
	KnownFinding Verdict = "known-finding"
	NotDecided   Verdict = "not-decided"
)

// Obligation is one enumerated construct with the rule applied to it.
type Obligation struct {
	Rule    string  `json:"rule"`
	Pos     string  `json:"pos"`
	Func    string  `json:"func"`
	What    string  `json:"what"`              // the construct, in words / SSA text
	Verdict Verdict `json:"verdict"`           //
	Why     string  `json:"why,omitempty"`     // how it was discharged / why it fails
	Key     string  `json:"key,omitempty"`     // rule|func|construct: identity for known findings
	Config  string  `json:"config,omitempty"`  // build configuration when not the default
	Witness string  `json:"witness,omitempty"` // mutant name when produced by a self-test
}

type RuleStat struct {
	Rule        string `json:"rule"`
	Doc         string `json:"doc"`
	Instances   int    `json:"instances"`
	Floor       int    `json:"floor"`
	Discharged  int    `json:"discharged"`
	Violated    int    `json:"violated"`
	Known       int    `json:"known_findings"`
	NotDecided  int    `json:"not_decided"`
	Unresolved  int    `json:"unresolved_anchors"`
	Description string `json:"-"`
}

type Report struct {
	seen        map[string]bool
	Prop        string
	Tier        string
	Level       string
	Obls        []Obligation
	rules       map[string]*RuleStat
	ruleOrder   []string
	Notes       []string
	Extra       map[string]interface{}
	Assumptions []string
	Explanation string
	Trusted     []string
	start       time.Time
	known       *KnownFindings
	witnesses   []WitnessResult
	quiet       bool
}

type WitnessResult struct {
	Name     string `json:"name"`
	Kind     string `json:"kind"` // "mutant" (rule must fire) or "benign" (rule must stay silent)
	Rule     string `json:"rule"`
	Expected string `json:"expected"`
	Got      string `json:"got"`
	OK       bool   `json:"ok"`
	Skipped  bool   `json:"skipped,omitempty"`
	Detail   string `json:"detail,omitempty"`
}

func NewReport(prop, tier, level string, known *KnownFindings) *Report {
	return &Report{Prop: prop, Tier: tier, Level: level, rules: map[string]*RuleStat{},
		Extra: map[string]interface{}{}, start: time.Now(), known: known}
}

// Rule registers a rule with its documentation and instance floor.
func (r *Report) Rule(id, doc string, floor int) {
	if _, ok := r.rules[id]; !ok {
		r.rules[id] = &RuleStat{Rule: id, Doc: doc, Floor: floor}
		r.ruleOrder = append(r.ruleOrder, id)
	}
}

func (r *Report) stat(rule string) *RuleStat {
	s, ok := r.rules[rule]
	if !ok {
		r.Rule(rule, "", 0)
		s = r.rules[rule]
	}
	return s
}

func mkKey(rule, fn, what string) string {
	what = strings.Join(strings.Fields(what), " ")
	return rule + "|" + fn + "|" + what
}

// Add records one obligation. A violated obligation that matches a listed
// known finding becomes a KNOWN-FINDING.
func (r *Report) Add(o Obligation) {
	if o.Key == "" {
		o.Key = mkKey(o.Rule, o.Func, o.What)
	}
	if o.Verdict == Violated && r.known != nil && r.known.Has(r.Prop, o.Key) {
		o.Verdict = KnownFinding
	}
	// a rule shared by several properties may be run twice within one report (cross-inclusion): keep one copy
	if r.seen == nil {
		r.seen = map[string]bool{}
	}
	id := o.Key + "\x00" + o.Pos + "\x00" + string(o.Verdict) + "\x00" + o.Config
	if r.seen[id] {
		return
	}
	r.seen[id] = true
	s := r.stat(o.Rule)
	s.Instances++
	switch o.Verdict {
	case Discharged:
		s.Discharged++
	case Violated:
		s.Violated++
	case KnownFinding:
		s.Known++
	case NotDecided:
		s.NotDecided++
	}
	r.Obls = append(r.Obls, o)
}

func (r *Report) OK(rule, pos, fn, what, why string) {
	r.Add(Obligation{Rule: rule, Pos: pos, Func: fn, What: what, Verdict: Discharged, Why: why})
}

func (r *Report) Fail(rule, pos, fn, what, why string) {
	r.Add(Obligation{Rule: rule, Pos: pos, Func: fn, What: what, Verdict: Violated, Why: why})
}

func (r *Report) Undecided(rule, pos, fn, what, why string) {
	r.Add(Obligation{Rule: rule, Pos: pos, Func: fn, What: what, Verdict: NotDecided, Why: why})
}

// Check adds a discharged or violated obligation depending on ok.
func (r *Report) Check(ok bool, rule, pos, fn, what, whyOK, whyFail string) bool {
	if ok {
		r.OK(rule, pos, fn, what, whyOK)
	} else {
		r.Fail(rule, pos, fn, what, whyFail)
	}
	return ok
}

// Unresolved records that a rule could not find the construct it is about.
func (r *Report) Unresolved(rule, what string) {
	s := r.stat(rule)
	s.Unresolved++
	s.Violated++
	s.Instances++
	r.Obls = append(r.Obls, Obligation{Rule: rule, Pos: "-", Func: "-", What: "unresolved-anchor: " + what,
		Verdict: Violated, Why: "the rule could not locate the construct it checks; a rule that matches nothing must not pass",
		Key: mkKey(rule, "-", "unresolved-anchor: "+what)})
}

// failing: the report would make the check exit non-zero (violated obligation or rule below its floor).
func (r *Report) failing() bool { return r.countFailing() > 0 }

func (r *Report) countFailing() int {
	n := 0
	for _, o := range r.Obls {
		if o.Verdict == Violated {
			n++
		}
	}
	for _, id := range r.ruleOrder {
		if s := r.rules[id]; s.Instances < s.Floor {
			n++
		}
	}
	return n
}

func (r *Report) Note(format string, args ...interface{}) {
	r.Notes = append(r.Notes, fmt.Sprintf(format, args...))
}

// Finish applies floors, writes evidence and replay files, prints the verdict
// lines and returns the process exit code.
func (r *Report) Finish(verifDir string, seed int64, checkerCmd string) int {
	// floors: a rule that found fewer instances than confirmed by hand is an unresolved anchor
	for _, id := range r.ruleOrder {
		s := r.rules[id]
		if s.Instances < s.Floor {
			r.Unresolved(id, fmt.Sprintf("only %d instance(s) found, floor is %d", s.Instances, s.Floor))
		}
	}
	total, discharged, violated, known, undecided := 0, 0, 0, 0, 0
	for _, o := range r.Obls {
		total++
		switch o.Verdict {
		case Discharged:
			discharged++
		case Violated:
			violated++
		case KnownFinding:
			known++
		case NotDecided:
			undecided++
		}
	}
	witnessBad := 0
	for _, wr := range r.witnesses {
		if !wr.OK && !wr.Skipped {
			witnessBad++
		}
	}

	evDir := filepath.Join(verifDir, "evidence")
	_ = os.MkdirAll(evDir, 0o755)
	replayDir := filepath.Join(verifDir, "replay")

	// samples: every non-discharged obligation, plus a spread of discharged ones per rule
	var samples []Obligation
	perRule := map[string]int{}
	for _, o := range r.Obls {
		if o.Verdict != Discharged {
			if len(samples) < 400 {
				samples = append(samples, o)
			}
			continue
		}
		if perRule[o.Rule] < 6 {
			perRule[o.Rule]++
			samples = append(samples, o)
		}
	}
	var stats []*RuleStat
	for _, id := range r.ruleOrder {
		stats = append(stats, r.rules[id])
	}

	decidable := total - undecided
	cov := map[string]interface{}{
		"explanation":        r.Explanation,
		"obligations":        decidable,
		"discharged":         discharged,
		"not_decided_listed": undecided,
		"known_findings":     known,
		"violated":           violated,
		"checker_cmd":        checkerCmd,
		"trusted_base":       r.Trusted,
		"rules":              stats,
		"samples":            samples,
		"exhaustive":         true,
		"notes":              r.Notes,
	}
	if len(r.witnesses) > 0 {
		cov["self_test"] = r.witnesses
	}
	for k, v := range r.Extra {
		cov[k] = v
	}
	ev := map[string]interface{}{
		"property_id": r.Prop,
		"tier":        r.Tier,
		"seed":        seed,
		"level":       r.Level,
		"coverage":    cov,
		"assumptions": r.Assumptions,
		"wall_s":      time.Since(r.start).Seconds(),
		"violations":  violated + witnessBad,
	}
	data, _ := json.MarshalIndent(ev, "", " ")
	evPath := filepath.Join(evDir, r.Prop+".json")
	if err := os.WriteFile(evPath, append(data, '\n'), 0o644); err != nil {
		fmt.Fprintf(os.Stderr, "cannot write evidence: %v\n", err)
		return 2
	}

	if !r.quiet {
		fmt.Printf("property=%s tier=%s obligations=%d discharged=%d known-findings=%d violated=%d not-decided=%d\n",
			r.Prop, r.Tier, decidable, discharged, known, violated, undecided)
		for _, s := range stats {
			fmt.Printf("  rule %-18s instances=%-4d floor=%-3d discharged=%-4d violated=%-3d known=%-2d not-decided=%d\n",
				s.Rule, s.Instances, s.Floor, s.Discharged, s.Violated, s.Known, s.NotDecided)
		}
	}
	for _, o := range r.Obls {
		if o.Verdict == KnownFinding {
			fmt.Printf("KNOWN-FINDING: property=%s rule=%s %s %s: %s\n", r.Prop, o.Rule, o.Pos, o.Func, o.What)
		}
	}
	code := 0
	n := 0
	for _, o := range r.Obls {
		if o.Verdict != Violated {
			continue
		}
		code = 1
		n++
		_ = os.MkdirAll(replayDir, 0o755)
		rp := filepath.Join(replayDir, fmt.Sprintf("%s-%03d.json", r.Prop, n))
		rd, _ := json.MarshalIndent(map[string]interface{}{"property": r.Prop, "obligation": o}, "", " ")
		_ = os.WriteFile(rp, append(rd, '\n'), 0o644)
		fmt.Printf("VIOLATION property=%s replay=%s rule=%s at %s in %s: %s -- %s\n", r.Prop, rp, o.Rule, o.Pos, o.Func, o.What, o.Why)
	}
	for _, wr := range r.witnesses {
		if !wr.OK && !wr.Skipped {
			code = 1
			fmt.Printf("SELFTEST-FAILED property=%s %s %s (rule %s): expected %s, got %s %s\n", r.Prop, wr.Kind, wr.Name, wr.Rule, wr.Expected, wr.Got, wr.Detail)
		}
	}
	return code
}

// ---------------------------------------------------------------------------

// KnownFindings is the committed list of genuine defects that were recorded
// rather than repaired. Lines:
//
//	finding: property=<id> key=<rule|func|construct> :: <what fails>
//	fixed: property=<id> <commit> <what failed>       (suppresses nothing)
type KnownFindings struct {
	findings map[string]bool // prop + "\x00" + key
	Fixed    []string
}

func LoadKnownFindings(path string) *KnownFindings {
	k := &KnownFindings{findings: map[string]bool{}}
	f, err := os.Open(path)
	if err != nil {
		return k
	}
	defer f.Close()
	sc := bufio.NewScanner(f)
	sc.Buffer(make([]byte, 1<<20), 1<<20)
	for sc.Scan() {
		line := strings.TrimSpace(sc.Text())
		switch {
		case strings.HasPrefix(line, "fixed:"):
			k.Fixed = append(k.Fixed, line)
		case strings.HasPrefix(line, "finding:"):
			rest := strings.TrimSpace(strings.TrimPrefix(line, "finding:"))
			parts := strings.SplitN(rest, "::", 2)
			fields := strings.SplitN(strings.TrimSpace(parts[0]), " ", 2)
			if len(fields) != 2 || !strings.HasPrefix(fields[0], "property=") || !strings.HasPrefix(fields[1], "key=") {
				continue
			}
			prop := strings.TrimPrefix(fields[0], "property=")
			key := strings.TrimSpace(strings.TrimPrefix(fields[1], "key="))
			k.findings[prop+"\x00"+key] = true
		}
	}
	return k
}

func (k *KnownFindings) Has(prop, key string) bool { return k.findings[prop+"\x00"+key] }

func sortedKeys(m map[string]bool) []string {
	var out []string
	for k := range m {
		out = append(out, k)
	}
	sort.Strings(out)
	return out
}
