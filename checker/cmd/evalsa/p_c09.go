package main

// C09 — capacity limits are enforced at compile time, never by overflow.

import (
	"fmt"
	"go/token"
	"go/types"
	"sort"
	"strings"

	"golang.org/x/tools/go/ssa"
)

func init() {
	register(&Property{
		ID:    "C09",
		Level: "other",
		Explanation: "Decides placement and width of the capacity checks: (R-ORDER) in Compile every path to buildExpr passes through check(ast) with its error tested, and no call that can rewrite the tree (any function in whose call closure astNode.children or astNode.node is written: parse, optimize) can execute after check — flattening can raise an operand count, so a check placed before optimize would let 128+ operands reach the int8 field; " +
			"(R-WIDTH) every narrowing integer conversion in the compile and evaluation closures whose operand is a length (of a children list, of the program, a loop index over the program, or a tree index derived from it) is matched to the quantity check bounds: the constant check compares len(children) with is <= the maximum of every type a children count is converted to (int8), and the constant it compares the node count with is <= the maximum of every type a program length/index is converted to (int16); " +
			"(R-GROW) writers of Expr.nodes are enumerated: calAndSetNodes appends at most once per activation on each path (the recursion check counts); any other writer (event-node insertion, which doubles the program) is followed, before Compile returns the program, by a comparison of the final length with a constant <= MaxInt16 that returns an error; no arithmetic in an 8/16-bit signed type multiplies or shifts a length; " +
			"(R-STACKCLASS) in Eval and TryEval the stack allocated under maxStackSize <= K has constant length >= K, the fall-through allocates the program length, and both functions use the same classes; (R-STACKMAX) maxStackSize is a running maximum updated for every node; (R-STACKREC) the height recurrence uses one adjusted predecessor in every arm and the evaluator's per-kind stack effects as deltas, and every node's osTop is its own height minus one. NOT decided: that calAndSetStackSize computes a true upper bound of stack use (array invariants over compile-time tables), and results at the limits. Round 2: R-WIDTH fails on a narrowed length that no enforced limit bounds (only the children field of a tree node counts as bounded by the operand limit); R-NODEFRESH.",
		Run:       runC09,
		Witnesses: c09Witnesses,
	})
}

func runC09(w *World, r *Report) {
	ruleNodeFresh(w, r)
	ruleOrder(w, r)
	kc, kn := ruleCheckConstants(w, r)
	ruleCheckAll(w, r)
	ruleWidth(w, r, kc, kn)
	ruleGrow(w, r)
	ruleStackClass(w, r)
	ruleStackMax(w, r)
	ruleStackRec(w, r)
}

// ruleStackMax: Expr.maxStackSize is a running maximum to which the stack
// size of every program position contributes.
func ruleStackMax(w *World, r *Report) {
	const rule = "R-STACKMAX"
	r.Rule(rule, "the value stored into Expr.maxStackSize is a running maximum that takes in the per-position stack size f[i] of every node i (an update that skips some positions under-sizes the stack Eval allocates)", 1)
	fn := w.MustFn(r, rule, "calAndSetStackSize")
	if fn == nil {
		return
	}
	name := w.Name(fn)
	var store *ssa.Store
	EachInstr(fn, func(in ssa.Instruction) {
		if st, ok := in.(*ssa.Store); ok {
			if tn, fld, _, okf := fieldOf(st.Addr); okf && tn == "Expr" && fld == "maxStackSize" {
				store = st
			}
		}
	})
	if store == nil {
		r.Unresolved(rule, "no store of Expr.maxStackSize in calAndSetStackSize")
		return
	}
	phi, ok := store.Val.(*ssa.Phi)
	if !ok {
		r.Fail(rule, w.InstrPos(store), name, describe(store.Addr)+" = "+describe(store.Val), "not a running maximum carried by a loop")
		return
	}
	hdr := phi.Block()
	// the update: maxInt16(phi, f[idx]) (or an equivalent comparison) executed on every iteration of a full range loop
	good := false
	why := "no update max(acc, f[i]) that executes for every node"
	for _, e := range phi.Edges {
		var other ssa.Value
		var updBlock *ssa.BasicBlock
		if c, okc := e.(*ssa.Call); okc && c.Call.StaticCallee() != nil && len(c.Call.Args) == 2 && isMaxFunc(c.Call.StaticCallee()) {
			switch {
			case c.Call.Args[0] == ssa.Value(phi):
				other = c.Call.Args[1]
			case c.Call.Args[1] == ssa.Value(phi):
				other = c.Call.Args[0]
			}
			updBlock = c.Block()
		} else if q, okq := e.(*ssa.Phi); okq && len(q.Edges) == 2 {
			// the same inlined: acc' = phi(acc, x) with x taken exactly under acc < x (x > acc)
			for i2, e2 := range q.Edges {
				if e2 == ssa.Value(phi) {
					continue
				}
				if q.Edges[1-i2] != ssa.Value(phi) {
					continue
				}
				pred := q.Block().Preds[i2]
				for _, f := range append(factsAtLocal(pred), factsAtEdgeTo(pred, q.Block())...) {
					bo, okb := f.Cond.(*ssa.BinOp)
					if !okb || !f.Truth {
						continue
					}
					if x, y, okc := orientCmp(bo, token.LSS); okc && x == ssa.Value(phi) && y == e2 {
						other = e2
					}
				}
			}
			// the comparison itself is the update: it executes wherever the test block does
			if other != nil {
				if in, okI := other.(ssa.Instruction); okI {
					updBlock = in.Block()
				}
			}
		}
		if other == nil || updBlock == nil {
			continue
		}
		addr, okl := isLoad(other)
		if !okl {
			continue
		}
		ia, oki := addr.(*ssa.IndexAddr)
		if !oki {
			continue
		}
		// index: the range index over e.nodes (or 0..size)
		full := false
		if inc, okb := ia.Index.(*ssa.BinOp); okb && inc.Block() == hdr {
			iff, okIf := hdr.Instrs[len(hdr.Instrs)-1].(*ssa.If)
			if okIf {
				if cmp, okc2 := iff.Cond.(*ssa.BinOp); okc2 && cmp.Op == token.LSS && cmp.X == ssa.Value(inc) {
					if x, okx := lenArg(cmp.Y); okx {
						if _, okh := rangeIndexHeader(inc, x); okh && lengthClass(cmp.Y, 0) == "nodes" {
							full = true
						}
					}
				}
			}
		}
		if !full {
			why = "the maximum is not taken over a full range of the program's nodes"
			continue
		}
		if !loopVisitsAll(hdr, updBlock) {
			why = "the update of the maximum does not execute for every node"
			continue
		}
		good = true
	}
	r.Check(good, rule, w.InstrPos(store), name, "e.maxStackSize = running max over f[i]", "max(acc, f[i]) executes for every node index of the program", why)
}

// isMaxFunc: a two-argument function returning the larger argument.
func isMaxFunc(fn *ssa.Function) bool {
	if len(fn.Params) != 2 || len(fn.Blocks) == 0 {
		return false
	}
	a, b := ssa.Value(fn.Params[0]), ssa.Value(fn.Params[1])
	for _, ret := range allReturns(fn) {
		v := ret.Results[0]
		if v != a && v != b {
			return false
		}
		okFact := false
		for _, f := range factsAt(ret.Block()) {
			bo, ok := f.Cond.(*ssa.BinOp)
			if !ok {
				continue
			}
			// returns a under a > b (or not a <= b ...), b otherwise
			gt := (bo.Op == token.GTR && f.Truth) || (bo.Op == token.LEQ && !f.Truth)
			ge := (bo.Op == token.GEQ && f.Truth) || (bo.Op == token.LSS && !f.Truth)
			le := (bo.Op == token.LEQ && f.Truth) || (bo.Op == token.GTR && !f.Truth)
			lt := (bo.Op == token.LSS && f.Truth) || (bo.Op == token.GEQ && !f.Truth)
			if bo.X == a && bo.Y == b {
				if (v == a && (gt || ge)) || (v == b && (le || lt)) {
					okFact = true
				}
			}
			if bo.X == b && bo.Y == a {
				if (v == b && (gt || ge)) || (v == a && (le || lt)) {
					okFact = true
				}
			}
		}
		if !okFact {
			return false
		}
	}
	return true
}

// treeWriters: functions in whose VTA call closure astNode.children or
// astNode.node is written.
func treeWriters(w *World) map[*ssa.Function]bool {
	direct := map[*ssa.Function]bool{}
	for _, fn := range w.Funcs {
		EachInstr(fn, func(in ssa.Instruction) {
			if st, ok := in.(*ssa.Store); ok {
				if tn, fld, _, okf := fieldOf(st.Addr); okf && tn == "astNode" && (fld == "children" || fld == "node") {
					direct[fn] = true
				}
			}
		})
	}
	out := map[*ssa.Function]bool{}
	for _, fn := range w.Funcs {
		for f := range w.Closure(w.VTA, []*ssa.Function{fn}, true) {
			if direct[f] {
				out[fn] = true
				break
			}
		}
	}
	return out
}

func ruleOrder(w *World, r *Report) {
	const rule = "R-ORDER"
	r.Rule(rule, "in Compile: buildExpr is dominated by check(ast) with err == nil tested, on the same tree; no tree-rewriting call can execute after check", 3)
	fn := w.MustFn(r, rule, "Compile")
	chk := w.MustFn(r, rule, "check")
	be := w.MustFn(r, rule, "buildExpr")
	if fn == nil || chk == nil || be == nil {
		return
	}
	var checkCalls, buildCalls []*ssa.Call
	EachInstr(fn, func(in ssa.Instruction) {
		if c, ok := in.(*ssa.Call); ok {
			switch c.Call.StaticCallee() {
			case chk:
				checkCalls = append(checkCalls, c)
			case be:
				buildCalls = append(buildCalls, c)
			}
		}
	})
	if len(buildCalls) == 0 || len(checkCalls) == 0 {
		r.Unresolved(rule, "Compile no longer calls check and buildExpr directly")
		return
	}
	writers := treeWriters(w)
	for _, b := range buildCalls {
		// a dominating check call on the same tree whose err was tested nil
		var dom *ssa.Call
		for _, c := range checkCalls {
			if instrDominates(c, b) && len(c.Call.Args) == 1 && len(b.Call.Args) >= 2 && c.Call.Args[0] == b.Call.Args[1] {
				dom = c
			}
		}
		if dom == nil {
			r.Fail(rule, w.InstrPos(b), "Compile", describe(b), "no check of the same tree dominates the construction of the program")
			continue
		}
		// err tested: fact "(load of res.err) == nil" at b where res holds dom's result
		tested := false
		for _, f := range factsAt(b.Block()) {
			x, isNil, ok := factIsNil(f)
			if !ok || !isNil {
				continue
			}
			if base, okf := loadOfField(x, "checkRes", "err"); okf {
				if holdsCallResult(base, dom) {
					tested = true
				}
			}
			if ex, okx := x.(*ssa.Field); okx && ex.X == ssa.Value(dom) {
				tested = true
			}
		}
		r.Check(tested, rule, w.InstrPos(b), "Compile", describe(b), "dominated by check(ast) at "+w.InstrPos(dom)+" and by its err == nil", "the program is built although the size check's error was not tested")
		// the size handed to buildExpr is check's
		// no tree writer after check
		EachInstr(fn, func(in ssa.Instruction) {
			c, ok := in.(*ssa.Call)
			if !ok || c == dom {
				return
			}
			callee := c.Call.StaticCallee()
			if callee == nil || !writers[callee] {
				return
			}
			between := mayFollow(dom, c) && mayFollow(c, b)
			r.Check(!between, rule, w.InstrPos(c), "Compile", "call "+nm(callee)+" (rewrites the tree)", "cannot execute between check and buildExpr", "a tree-rewriting call can run after the size check: flattening can raise an operand count past the checked limit")
		})
	}
}

// holdsCallResult: base is the local that received the call's (struct) result.
func holdsCallResult(base ssa.Value, call *ssa.Call) bool {
	al, ok := base.(*ssa.Alloc)
	if !ok {
		return false
	}
	n := 0
	good := false
	for _, ref := range referrers(al) {
		if st, ok := ref.(*ssa.Store); ok && st.Addr == ssa.Value(al) {
			n++
			if st.Val == ssa.Value(call) {
				good = true
			}
		}
	}
	return good && n == 1
}

// ruleCheckConstants extracts the two limits enforced by check.
func ruleCheckConstants(w *World, r *Report) (kc, kn int64) {
	const rule = "R-WIDTH"
	r.Rule(rule, "limits enforced by check are within the width of every integer type a children count / program length or index is narrowed to", 12)
	kc, kn = -1, -1
	chk := w.MustFn(r, rule, "check")
	if chk == nil {
		return
	}
	for _, b := range chk.Blocks {
		iff, ok := b.Instrs[len(b.Instrs)-1].(*ssa.If)
		if !ok {
			continue
		}
		bo, ok := iff.Cond.(*ssa.BinOp)
		if !ok {
			continue
		}
		c, okc := constInt(bo.Y)
		if !okc {
			continue
		}
		// the edge on which the limit is exceeded returns the error; the test may be written either way round
		var limit int64
		errOn := func(k int) bool {
			ret := blockReturn(b.Succs[k])
			return ret != nil && returnsCheckErr(ret)
		}
		switch {
		case bo.Op == token.GTR && errOn(0):
			limit = c
		case bo.Op == token.GEQ && errOn(0):
			limit = c - 1
		case bo.Op == token.LEQ && errOn(1) && !errOn(0):
			limit = c
		case bo.Op == token.LSS && errOn(1) && !errOn(0):
			limit = c - 1
		default:
			continue
		}
		if x, okl := lenArg(bo.X); okl {
			if _, okf := loadOfField(x, "astNode", "children"); okf {
				kc = limit
				continue
			}
		}
		kn = limit
	}
	if kc < 0 || kn < 0 {
		r.Unresolved(rule, fmt.Sprintf("could not extract both limits from check (children=%d, nodes=%d)", kc, kn))
	}
	// check's node count is children counts + 1, accumulated over the recursion
	return
}

func returnsCheckErr(ret *ssa.Return) bool {
	if len(ret.Results) != 1 {
		return false
	}
	addr, ok := isLoad(ret.Results[0])
	if !ok {
		return false
	}
	al, ok := addr.(*ssa.Alloc)
	if !ok {
		return false
	}
	for _, ref := range referrers(al) {
		fa, ok := ref.(*ssa.FieldAddr)
		if !ok || fieldName(fa.X.Type(), fa.Field) != "err" {
			continue
		}
		for _, ref2 := range referrers(fa) {
			if st, ok := ref2.(*ssa.Store); ok && st.Addr == ssa.Value(fa) {
				if c, ok := st.Val.(*ssa.Call); ok && errorCallNonNil(c) {
					return true
				}
			}
		}
	}
	return false
}

func intTypeMax(t types.Type) (int64, bool) {
	b, ok := t.Underlying().(*types.Basic)
	if !ok {
		return 0, false
	}
	switch b.Kind() {
	case types.Int8:
		return 127, true
	case types.Int16:
		return 32767, true
	case types.Int32:
		return 1<<31 - 1, true
	case types.Uint8:
		return 255, true
	case types.Uint16:
		return 65535, true
	}
	return 0, false
}

func intTypeBits(t types.Type) int {
	b, ok := t.Underlying().(*types.Basic)
	if !ok {
		return 0
	}
	switch b.Kind() {
	case types.Int8, types.Uint8:
		return 8
	case types.Int16, types.Uint16:
		return 16
	case types.Int32, types.Uint32:
		return 32
	case types.Int, types.Int64, types.Uint, types.Uint64:
		return 64
	}
	return 0
}

// lengthClass classifies an integer value as derived from a children count
// ("children"), a program length / index ("nodes"), or unknown ("").
func lengthClass(v ssa.Value, depth int) string {
	if depth > 6 {
		return ""
	}
	v = resolveParam(v)
	switch x := v.(type) {
	case *ssa.Call:
		if arg, ok := lenArg(x); ok {
			cls := sliceClass(arg.Type())
			if cls == "children" {
				// only an operand list that check() has seen is bounded by the operand limit: the children field of a tree
				// node — not any other []*astNode (the infix parser's output stack has no bound)
				if _, isField := loadOfField(arg, "astNode", "children"); !isField {
					return ""
				}
			}
			return cls
		}
	case *ssa.BinOp:
		if x.Op == token.ADD || x.Op == token.SUB {
			if _, ok := constInt(x.Y); ok {
				return lengthClass(x.X, depth+1)
			}
			if _, ok := constInt(x.X); ok {
				return lengthClass(x.Y, depth+1)
			}
		}
	case *ssa.Phi:
		// range index
		for _, ref := range referrers(x) {
			if inc, ok := ref.(*ssa.BinOp); ok && inc.Op == token.ADD {
				if cls := rangeIndexClass(inc); cls != "" {
					return cls
				}
			}
		}
	case *ssa.UnOp:
		if _, ok := loadOfField(x, "astNode", "idx"); ok {
			return "nodes"
		}
		if _, ok := loadOfField(x, "astNode", "parentIdx"); ok {
			return "nodes"
		}
	case *ssa.Convert:
		return lengthClass(x.X, depth+1)
	}
	if inc, ok := v.(*ssa.BinOp); ok && inc.Op == token.ADD {
		if cls := rangeIndexClass(inc); cls != "" {
			return cls
		}
	}
	return ""
}

func rangeIndexClass(inc *ssa.BinOp) string {
	blk := inc.Block()
	iff, ok := blk.Instrs[len(blk.Instrs)-1].(*ssa.If)
	if !ok {
		return ""
	}
	cmp, ok := iff.Cond.(*ssa.BinOp)
	if !ok || cmp.Op != token.LSS || cmp.X != ssa.Value(inc) {
		return ""
	}
	if arg, ok := lenArg(cmp.Y); ok {
		if _, okh := rangeIndexHeader(inc, arg); okh {
			return sliceClass(arg.Type())
		}
	}
	return ""
}

func sliceClass(t types.Type) string {
	sl, ok := t.Underlying().(*types.Slice)
	if !ok {
		return ""
	}
	if p, ok := sl.Elem().Underlying().(*types.Pointer); ok {
		switch typeNameOf(p.Elem()) {
		case "astNode":
			return "children"
		case "node":
			return "nodes"
		}
	}
	if b, ok := sl.Elem().Underlying().(*types.Basic); ok && b.Kind() == types.Int16 {
		return "nodes" // parentIdx and sibling tables have one entry per program node
	}
	return ""
}

func ruleWidth(w *World, r *Report, kc, kn int64) {
	const rule = "R-WIDTH"
	_, cset, _ := compileClosure(w, r, rule)
	_, eset := evalClosure(w, r, rule)
	set := map[*ssa.Function]bool{}
	for f := range cset {
		set[f] = true
	}
	for f := range eset {
		set[f] = true
	}
	for _, fn := range w.SortedFuncs(set) {
		EachInstr(fn, func(in ssa.Instruction) {
			cv, ok := in.(*ssa.Convert)
			if !ok {
				return
			}
			tb, sb := intTypeBits(cv.Type()), intTypeBits(cv.X.Type())
			if tb == 0 || sb == 0 || tb >= sb {
				return // not a narrowing integer conversion
			}
			max, okm := intTypeMax(cv.Type())
			if !okm {
				return
			}
			pos := w.InstrPos(cv)
			what := describe(cv)
			switch lengthClass(cv.X, 0) {
			case "children":
				r.Check(kc >= 0 && kc <= max, rule, pos, w.Name(fn), what, fmt.Sprintf("children count: check admits at most %d <= %d", kc, max), fmt.Sprintf("check admits up to %d operands but the count is narrowed to a type holding at most %d", kc, max))
			case "nodes":
				r.Check(kn >= 0 && kn <= max, rule, pos, w.Name(fn), what, fmt.Sprintf("program length/index: check (and the final length test, R-GROW) admit at most %d <= %d", kn, max), fmt.Sprintf("check admits up to %d nodes but the length/index is narrowed to a type holding at most %d", kn, max))
			default:
				// a length (or a length plus/minus a constant) of something no enforced limit bounds — a token list, a
				// parser stack — is narrowed: it wraps once the input is long enough
				if lenDerived(cv.X, 0) {
					r.Fail(rule, pos, w.Name(fn), what, fmt.Sprintf("the length of a list that no limit bounds is narrowed to a type holding at most %d: it wraps for a long enough input", max))
				} else {
					r.Undecided(rule, pos, w.Name(fn), what, "narrowing conversion of a quantity that is not recognisably a children count or a program length")
				}
			}
		})
	}
}

// ---- R-GROW -------------------------------------------------------------------

func ruleGrow(w *World, r *Report) {
	const rule = "R-GROW"
	r.Rule(rule, "writers of Expr.nodes: single append per activation in calAndSetNodes; any other growth is followed by a final length test before Compile returns; no 8/16-bit signed arithmetic multiplies or shifts a length", 4)
	var writers []*ssa.Store
	for _, fn := range w.Funcs {
		EachInstr(fn, func(in ssa.Instruction) {
			if st, ok := in.(*ssa.Store); ok {
				if tn, fld, _, okf := fieldOf(st.Addr); okf && tn == "Expr" && fld == "nodes" {
					writers = append(writers, st)
				}
			}
		})
	}
	other := 0
	perFn := map[*ssa.Function][]*ssa.Store{}
	for _, st := range writers {
		perFn[st.Parent()] = append(perFn[st.Parent()], st)
	}
	var fns []*ssa.Function
	for f := range perFn {
		fns = append(fns, f)
	}
	sort.Slice(fns, func(i, j int) bool { return w.Name(fns[i]) < w.Name(fns[j]) })
	for _, fn := range fns {
		stores := perFn[fn]
		name := w.Name(fn)
		allAppendOne := true
		for _, st := range stores {
			c, ok := st.Val.(*ssa.Call)
			if !ok || calleeFullName(&c.Call) != "builtin.append" || len(c.Call.Args) != 2 {
				if _, isMake := st.Val.(*ssa.MakeSlice); isMake {
					continue // the initial empty program
				}
				allAppendOne = false
				continue
			}
			// appends exactly one element: varargs array of length 1
			one := false
			if sl, ok := c.Call.Args[1].(*ssa.Slice); ok {
				if al, ok := sl.X.(*ssa.Alloc); ok {
					if arr, ok := deref(al.Type()).Underlying().(*types.Array); ok && arr.Len() == 1 {
						one = true
					}
				}
			}
			if !one {
				allAppendOne = false
			}
		}
		if allAppendOne {
			// at most one append on each path, none in a loop
			single := true
			for i, a := range stores {
				if _, isMake := a.Val.(*ssa.MakeSlice); isMake {
					continue
				}
				for _, s := range a.Block().Succs {
					if reachable(s, a.Block()) {
						single = false
					}
				}
				for j, b := range stores {
					if i != j && mayFollow(a, b) {
						single = false
					}
				}
			}
			r.Check(single, rule, w.Pos(fn.Pos()), name, fmt.Sprintf("%d append site(s) of one node to Expr.nodes", len(stores)), "at most one node is appended per activation on every path: the program has as many nodes as the tree check counted", "an activation can append more than one node: the program can be longer than the size check counted")
			continue
		}
		other++
		for _, st := range stores {
			if _, isMake := st.Val.(*ssa.MakeSlice); isMake {
				continue
			}
			ok, why := finalLengthTest(w)
			r.Check(ok, rule, w.InstrPos(st), name, describe(st.Addr)+" = "+describe(st.Val), "this writer can lengthen the program after check; "+why, "this writer can lengthen the program after check and "+why)
		}
	}
	if other == 0 {
		r.Note("R-GROW: no writer of Expr.nodes other than single appends found")
	}
	// narrow signed arithmetic on lengths
	bad := 0
	for _, fn := range w.Funcs {
		EachInstr(fn, func(in ssa.Instruction) {
			bo, ok := in.(*ssa.BinOp)
			if !ok || (bo.Op != token.MUL && bo.Op != token.SHL) {
				return
			}
			bits := intTypeBits(bo.Type())
			if bits == 0 || bits > 16 {
				return
			}
			if lengthClass(bo.X, 0) != "" || lengthClass(bo.Y, 0) != "" {
				bad++
				r.Fail(rule, w.InstrPos(bo), w.Name(fn), describe(bo), fmt.Sprintf("a length is multiplied/shifted in a %d-bit type: it wraps long before the limits", bits))
			}
		})
	}
	if bad == 0 {
		r.OK(rule, "-", "-", "8/16-bit multiplications and shifts in the package", "none has a length operand")
	}
}

// finalLengthTest: every success return of Compile is dominated by
// len(expr.nodes) > K being false with K <= MaxInt16, for the returned expr.
func finalLengthTest(w *World) (bool, string) {
	fn := w.Fn("Compile")
	if fn == nil {
		return false, "Compile not found"
	}
	for _, ret := range allReturns(fn) {
		if !isNilConst(ret.Results[1]) {
			continue
		}
		expr := ret.Results[0]
		ok := false
		for _, f := range factsAt(ret.Block()) {
			bo, isBO := f.Cond.(*ssa.BinOp)
			if !isBO {
				continue
			}
			c, okc := constInt(bo.Y)
			if !okc {
				continue
			}
			x, okl := lenArg(bo.X)
			if !okl {
				continue
			}
			base, okf := loadOfField(x, "Expr", "nodes")
			if !okf || base != expr {
				continue
			}
			switch {
			case bo.Op == token.GTR && !f.Truth && c <= 32767:
				ok = true
			case bo.Op == token.GEQ && !f.Truth && c <= 32768:
				ok = true
			case bo.Op == token.LEQ && f.Truth && c <= 32767:
				ok = true
			case bo.Op == token.LSS && f.Truth && c <= 32768:
				ok = true
			}
		}
		if !ok {
			return false, "Compile returns the program at " + w.InstrPos(ret) + " without a final test of len(expr.nodes) against the 16-bit limit"
		}
	}
	return true, "every success return of Compile is dominated by len(expr.nodes) <= MaxInt16"
}

// ---- R-STACKCLASS -------------------------------------------------------------

type stackClass struct {
	upTo int64 // maxStackSize <= upTo (0 = fall-through)
	size string
}

func ruleStackClass(w *World, r *Report) {
	const rule = "R-STACKCLASS"
	r.Rule(rule, "operand stack allocation: under maxStackSize <= K the stack has constant length >= K, the fall-through allocates the program length; Eval and TryEval agree", 7)
	tables := map[string]string{}
	for _, name := range []string{"(*Expr).Eval", "(*Expr).TryEval"} {
		fn := w.MustFn(r, rule, name)
		if fn == nil {
			continue
		}
		// the stack: the []Value phi/alloc indexed by osTop; find allocations of []Value / [N]Value
		var classes []string
		// one class: a stack length together with the bounds on maxStackSize known where it is chosen
		classify := func(n int64, sizeDesc string, facts []Fact, pos string) {
			lo, hi := int64(-1), int64(-1)
			relevant := false
			for _, f := range facts {
				bo, ok := f.Cond.(*ssa.BinOp)
				if !ok {
					continue
				}
				if _, okf := loadOfFieldR(bo.X, "Expr", "maxStackSize"); !okf {
					continue
				}
				c, okc := constInt(bo.Y)
				if !okc {
					continue
				}
				relevant = true
				switch {
				case bo.Op == token.LEQ && f.Truth, bo.Op == token.GTR && !f.Truth:
					if hi < 0 || c < hi {
						hi = c
					}
				case bo.Op == token.LSS && f.Truth, bo.Op == token.GEQ && !f.Truth:
					if hi < 0 || c-1 < hi {
						hi = c - 1
					}
				case bo.Op == token.LEQ && !f.Truth, bo.Op == token.GTR && f.Truth:
					if c+1 > lo {
						lo = c + 1
					}
				}
			}
			if !relevant {
				return // not a stack class (e.g. the params slice)
			}
			if hi >= 0 {
				classes = append(classes, fmt.Sprintf("<=%d:%d", hi, n))
				r.Check(n >= hi, rule, pos, name, fmt.Sprintf("stack of %d slots under maxStackSize <= %d", n, hi), "large enough for every program in the class", fmt.Sprintf("programs needing %d..%d slots get a stack of %d: Eval indexes past its end", n+1, hi, n))
			} else {
				classes = append(classes, "else:"+sizeDesc)
				r.Check(sizeDesc == "len(nodes)", rule, pos, name, "fall-through stack of "+sizeDesc+n64(n), "the program length bounds the stack depth", "the fall-through class does not allocate the program length")
			}
		}
		lenOf := func(l ssa.Value) (int64, string) {
			if c, ok := constInt(l); ok {
				return c, ""
			}
			if lengthClass(l, 0) == "nodes" {
				return -1, "len(nodes)"
			}
			return -1, "?" + describe(l)
		}
		EachInstrDeep(fn, func(in ssa.Instruction) {
			switch x := in.(type) {
			case *ssa.Slice:
				al, ok := x.X.(*ssa.Alloc)
				if !ok || al.Comment != "makeslice" {
					return
				}
				arr, ok := deref(al.Type()).Underlying().(*types.Array)
				if !ok || typeNameOf(arr.Elem()) != "Value" {
					return
				}
				n := arr.Len()
				if h, ok := constInt(x.High); ok && h < n {
					n = h
				}
				classify(n, "", factsAt(in.Block()), w.InstrPos(in))
			case *ssa.MakeSlice:
				sl, ok := x.Type().Underlying().(*types.Slice)
				if !ok || typeNameOf(sl.Elem()) != "Value" {
					return
				}
				// the length chosen first and the stack made once: one class per way the length was chosen
				l := x.Len
				if cv, okc := l.(*ssa.Convert); okc {
					l = cv.X
				}
				if phi, isPhi := l.(*ssa.Phi); isPhi {
					var edges []leafAt
					expandPhis(phi, phi.Block(), map[*ssa.Phi]bool{}, &edges)
					for _, e := range edges {
						n, d := lenOf(e.v)
						to := phi.Block()
						facts := append(factsAt(e.from), factsAtEdgeTo(e.from, to)...)
						classify(n, d, facts, w.InstrPos(in))
					}
					return
				}
				n, d := lenOf(x.Len)
				classify(n, d, factsAt(in.Block()), w.InstrPos(in))
			}
		})
		sort.Strings(classes)
		tables[name] = strings.Join(classes, " ")
		if len(classes) < 2 {
			r.Unresolved(rule, "stack allocation classes of "+name+" not recognised")
		}
	}
	if len(tables) == 2 {
		a, b := tables["(*Expr).Eval"], tables["(*Expr).TryEval"]
		r.Check(a == b, rule, "-", "Eval/TryEval", "classes Eval ["+a+"] TryEval ["+b+"]", "sibling implementations agree", "Eval and TryEval allocate different stack classes")
	}
}

func n64(n int64) string {
	if n >= 0 {
		return fmt.Sprintf(" (%d)", n)
	}
	return ""
}

var c09Witnesses = []Witness{
	{Name: "check-skips-non-operator-children", Rule: "R-CHECKALL", Edits: []Edit{
		{File: "compiler.go", Old: "\tfor _, child := range root.children {\n\t\tres := check(child)\n\t\tif res.err != nil {\n\t\t\treturn res\n\t\t}\n\t\tsize = size + res.size\n\t}\n", New: "\tfor _, child := range root.children {\n\t\tif typ := child.node.getNodeType(); typ != operator && typ != fastOperator {\n\t\t\tsize = size + 1\n\t\t\tcontinue\n\t\t}\n\n\t\tres := check(child)\n\t\tif res.err != nil {\n\t\t\treturn res\n\t\t}\n\t\tsize = size + res.size\n\t}\n"}}},
	{Name: "check-leaves-loop-after-64-children", Rule: "R-CHECKALL", Edits: []Edit{
		{File: "compiler.go", Old: "\tfor _, child := range root.children {\n\t\tres := check(child)\n\t\tif res.err != nil {\n\t\t\treturn res\n\t\t}\n\t\tsize = size + res.size\n\t}\n", New: "\tfor k, child := range root.children {\n\t\tif k >= 64 {\n\t\t\tbreak\n\t\t}\n\t\tres := check(child)\n\t\tif res.err != nil {\n\t\t\treturn res\n\t\t}\n\t\tsize = size + res.size\n\t}\n"}}},
	{Name: "check-does-not-count-leaves", Rule: "R-CHECKALL", Edits: []Edit{
		{File: "compiler.go", Old: "\tfor _, child := range root.children {\n\t\tres := check(child)\n\t\tif res.err != nil {\n\t\t\treturn res\n\t\t}\n\t\tsize = size + res.size\n\t}\n", New: "\tfor _, child := range root.children {\n\t\tres := check(child)\n\t\tif res.err != nil {\n\t\t\treturn res\n\t\t}\n\t\tif res.size > 1 {\n\t\t\tsize = size + res.size\n\t\t}\n\t}\n"}}},
	{Name: "check-before-optimize", Rule: "R-ORDER", Edits: []Edit{
		{File: "compiler.go", Old: "	optimize(conf, ast)\n\n	res := check(ast)\n	if res.err != nil {\n		return nil, res.err\n	}\n", New: "	res := check(ast)\n	if res.err != nil {\n		return nil, res.err\n	}\n\n	optimize(conf, ast)\n"}}},
	{Name: "check-error-ignored-for-small-sources", Rule: "R-ORDER", Edits: []Edit{
		{File: "compiler.go", Old: "	res := check(ast)\n	if res.err != nil {\n		return nil, res.err\n	}\n", New: "	res := check(ast)\n	if res.err != nil && len(exprStr) > 1<<20 {\n		return nil, res.err\n	}\n"}}},
	{Name: "children-limit-255", Rule: "R-WIDTH", Edits: []Edit{
		{File: "compiler.go", Old: "	if len(root.children) > math.MaxInt8 {", New: "	if len(root.children) > math.MaxUint8 {"}}},
	{Name: "node-limit-uint16", Rule: "R-WIDTH", Edits: []Edit{
		{File: "compiler.go", Old: "	if size > math.MaxInt16 {\n		return checkRes{", New: "	if size > math.MaxUint16 {\n		return checkRes{"}}},
	{Name: "final-length-test-removed", Rule: "R-GROW", Edits: []Edit{
		{File: "compiler.go", Old: "	if len(expr.nodes) > math.MaxInt16 {\n		return nil, fmt.Errorf(\"expression cannot exceed a maximum of 32767 nodes (including event nodes), got: [%d]\", len(expr.nodes))\n	}\n", New: ""}}},
	{Name: "size-doubled-in-int16", Rule: "R-GROW", Edits: []Edit{
		{File: "compiler.go", Old: "		res            = make([]*node, 0, int(size)*2)", New: "		res            = make([]*node, 0, size*2)"}}},
	{Name: "tryeval-16-class-gets-8-slots", Rule: "R-STACKCLASS", Edits: []Edit{
		{File: "engine.go", Old: "	case m <= 16:\n		os = make([]Value, 16)\n	default:\n		os = make([]Value, size)\n	}\n\n	var (\n		param  []Value", New: "	case m <= 16:\n		os = make([]Value, 8)\n	default:\n		os = make([]Value, size)\n	}\n\n	var (\n		param  []Value"}}},
	{Name: "eval-small-class-threshold-raised", Rule: "R-STACKCLASS", Edits: []Edit{
		{File: "engine.go", Old: "	switch {\n	case m <= 8:\n		os = make([]Value, 8)\n	case m <= 16:\n		os = make([]Value, 16)\n	default:\n		os = make([]Value, size)\n	}\n\n	var (\n		params []Value", New: "	switch {\n	case m <= 9:\n		os = make([]Value, 8)\n	case m <= 16:\n		os = make([]Value, 16)\n	default:\n		os = make([]Value, size)\n	}\n\n	var (\n		params []Value"}}},
	{Name: "max-stack-counts-only-pushes", Rule: "R-STACKMAX", Edits: []Edit{
		{File: "compiler.go", Old: "	for i, n := range e.nodes {\n		maxStackSize = maxInt16(maxStackSize, f[i])\n		n.osTop = f[i] - 1\n	}", New: "	for i, n := range e.nodes {\n		if n.childCnt == 0 && n.getNodeType() != operator {\n			maxStackSize = maxInt16(maxStackSize, f[i])\n		}\n		n.osTop = f[i] - 1\n	}"}}},
	{Name: "benign-check-uses-ge", Benign: true, Edits: []Edit{
		{File: "compiler.go", Old: "	if len(root.children) > math.MaxInt8 {", New: "	if len(root.children) >= math.MaxInt8+1 {"}}},
	{Name: "benign-stack-classes-if-chain", Benign: true, Edits: []Edit{
		{File: "engine.go", Old: "	switch {\n	case m <= 8:\n		os = make([]Value, 8)\n	case m <= 16:\n		os = make([]Value, 16)\n	default:\n		os = make([]Value, size)\n	}\n\n	var (\n		params []Value", New: "	if m <= 8 {\n		os = make([]Value, 8)\n	} else if m <= 16 {\n		os = make([]Value, 16)\n	} else {\n		os = make([]Value, size)\n	}\n\n	var (\n		params []Value"},
		{File: "engine.go", Old: "	switch {\n	case m <= 8:\n		os = make([]Value, 8)\n	case m <= 16:\n		os = make([]Value, 16)\n	default:\n		os = make([]Value, size)\n	}\n\n	var (\n		param  []Value", New: "	if m <= 8 {\n		os = make([]Value, 8)\n	} else if m <= 16 {\n		os = make([]Value, 16)\n	} else {\n		os = make([]Value, size)\n	}\n\n	var (\n		param  []Value"}}},
}

// ruleCheckAll: the capacity check looks at the whole tree — check(root) calls itself on every child of root, on
// every iteration of a loop over all of root.children, adds every child's size to its own, and reports success only
// after that loop ran to its end. A child that is skipped (by kind, by position, by an early exit) hides an
// over-limit operator or an uncounted subtree below it.
func ruleCheckAll(w *World, r *Report) {
	const rule = "R-CHECKALL"
	r.Rule(rule, "check recurses into every child of every node and sums every child's size before it reports success", 2)
	fn := w.MustFn(r, rule, "check")
	if fn == nil || len(fn.Params) != 1 {
		return
	}
	name := w.Name(fn)
	root := fn.Params[0]
	isChildren := func(v ssa.Value) bool {
		base, ok := loadOfField(v, "astNode", "children")
		return ok && (base == ssa.Value(root) || varRoot(base) == root)
	}
	var rec *ssa.Call
	var hdr *ssa.BasicBlock
	EachInstr(fn, func(in ssa.Instruction) {
		c, ok := in.(*ssa.Call)
		if !ok || c.Call.StaticCallee() != fn || len(c.Call.Args) != 1 {
			return
		}
		addr, okl := isLoad(c.Call.Args[0])
		if !okl {
			return
		}
		ia, oki := addr.(*ssa.IndexAddr)
		if !oki || !isChildren(ia.X) {
			return
		}
		if h, okh := rangeIndexHeader(ia.Index, ia.X); okh {
			rec, hdr = c, h
		}
	})
	if rec == nil {
		r.Fail(rule, w.Pos(fn.Pos()), name, "check(child) for child in root.children", "no recursive call on the elements of a loop over all of root.children")
		return
	}
	every := true
	for _, p := range hdr.Preds {
		if hdr.Dominates(p) && !rec.Block().Dominates(p) {
			every = false
		}
	}
	r.Check(every, rule, w.InstrPos(rec), name, "check(child) on every iteration", "no child is passed over", "some children are not checked (the loop can go on to the next child without the recursive call): limits are not enforced below them and their nodes are not counted")
	// the size of every child is added: the size phi's back edges all add the recursive result's size
	sized := false
	for _, in := range hdr.Instrs {
		phi, ok := in.(*ssa.Phi)
		if !ok {
			break
		}
		if bt, okb := phi.Type().Underlying().(*types.Basic); !okb || bt.Info()&types.IsInteger == 0 {
			continue
		}
		all, any := true, false
		for k, e := range phi.Edges {
			if !hdr.Dominates(hdr.Preds[k]) {
				continue
			}
			bo, okB := e.(*ssa.BinOp)
			if !okB || bo.Op != token.ADD || (bo.X != ssa.Value(phi) && bo.Y != ssa.Value(phi)) {
				all = false
				continue
			}
			other := bo.Y
			if bo.Y == ssa.Value(phi) {
				other = bo.X
			}
			// res.size of the recursive call of this iteration
			fromRec := false
			if base, okf := loadOfField(other, "checkRes", "size"); okf {
				if al, isAl := base.(*ssa.Alloc); isAl {
					for _, ref := range referrers(al) {
						if st, okS := ref.(*ssa.Store); okS && st.Addr == ssa.Value(al) && st.Val == ssa.Value(rec) {
							fromRec = true
						}
					}
				}
			}
			if f, okF := other.(*ssa.Field); okF && f.X == ssa.Value(rec) {
				fromRec = true
			}
			if !fromRec {
				all = false
			}
			any = true
		}
		if all && any {
			sized = true
		}
	}
	r.Check(sized, rule, w.InstrPos(rec), name, "size += check(child).size on every iteration", "every child's node count is added", "the node count does not take in every child's subtree: a program over the node limit passes")
	// the loop over the children is left early only with a failing child: every edge out of the loop other than
	// the header's exit carries `check(child).err != nil`
	isRecErr := func(x ssa.Value) bool {
		if f, ok := x.(*ssa.Field); ok && f.X == ssa.Value(rec) {
			return true
		}
		if base, ok := loadOfField(x, "checkRes", "err"); ok {
			if al, isAl := base.(*ssa.Alloc); isAl {
				for _, ref := range referrers(al) {
					if st, okS := ref.(*ssa.Store); okS && st.Addr == ssa.Value(al) && st.Val == ssa.Value(rec) {
						return true
					}
				}
			}
		}
		return false
	}
	inLoop := map[*ssa.BasicBlock]bool{hdr: true}
	for _, b := range fn.Blocks {
		if hdr.Dominates(b) && reachable(b, hdr) {
			inLoop[b] = true
		}
	}
	whole := true
	for b := range inLoop {
		for k, sx := range b.Succs {
			if inLoop[sx] || (b == hdr && k == 1) {
				continue
			}
			failing := false
			for _, f := range append(factsAtLocal(b), factsAtEdgeTo(b, sx)...) {
				if x, isNil, ok := factIsNil(f); ok && !isNil && isRecErr(x) {
					failing = true
				}
			}
			if !failing {
				whole = false
			}
		}
	}
	r.Check(whole, rule, w.InstrPos(rec), name, "end of the loop over the children", "success is reported only after every child was checked", "check can leave the loop over the children early with a success result")
}


// lenDerived: v is len(x), possibly plus/minus a constant and through conversions.
func lenDerived(v ssa.Value, depth int) bool {
	if depth > 6 {
		return false
	}
	switch x := v.(type) {
	case *ssa.Call:
		_, ok := lenArg(x)
		return ok
	case *ssa.BinOp:
		if x.Op == token.ADD || x.Op == token.SUB {
			if _, ok := constInt(x.Y); ok {
				return lenDerived(x.X, depth+1)
			}
			if _, ok := constInt(x.X); ok {
				return lenDerived(x.Y, depth+1)
			}
		}
	case *ssa.Convert:
		return lenDerived(x.X, depth+1)
	}
	return false
}
