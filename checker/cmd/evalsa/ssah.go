package main

// SSA helpers shared by the rules: edge dominance ("this instruction executes
// only if that condition held"), condition matching, constant extraction and
// short printable descriptions of values.

import (
	"fmt"
	"go/constant"
	"go/token"
	"go/types"
	"strings"

	"golang.org/x/tools/go/ssa"
)

// ---- edge dominance -------------------------------------------------------

// edgeDominates reports whether every path from the function entry to block
// target traverses the CFG edge from -> from.Succs[k].
func edgeDominates(from *ssa.BasicBlock, k int, target *ssa.BasicBlock) bool {
	fn := from.Parent()
	if len(fn.Blocks) == 0 {
		return false
	}
	if len(from.Succs) == 2 && from.Succs[0] == from.Succs[1] {
		return false
	}
	entry := fn.Blocks[0]
	seen := make([]bool, len(fn.Blocks))
	stack := []*ssa.BasicBlock{entry}
	seen[entry.Index] = true
	if entry == target {
		return false
	}
	for len(stack) > 0 {
		b := stack[len(stack)-1]
		stack = stack[:len(stack)-1]
		for i, s := range b.Succs {
			if b == from && i == k {
				continue
			}
			if seen[s.Index] {
				continue
			}
			if s == target {
				return false
			}
			seen[s.Index] = true
			stack = append(stack, s)
		}
	}
	// target not reachable without the edge. It must be reachable with it.
	return reachable(from.Succs[k], target)
}

func reachable(from, to *ssa.BasicBlock) bool {
	if from == to {
		return true
	}
	seen := map[*ssa.BasicBlock]bool{from: true}
	stack := []*ssa.BasicBlock{from}
	for len(stack) > 0 {
		b := stack[len(stack)-1]
		stack = stack[:len(stack)-1]
		for _, s := range b.Succs {
			if s == to {
				return true
			}
			if !seen[s] {
				seen[s] = true
				stack = append(stack, s)
			}
		}
	}
	return false
}

// reachableAvoiding reports whether `to` is reachable from `from` without
// entering any block for which avoid returns true (from itself is not tested).
func reachableAvoiding(from, to *ssa.BasicBlock, avoid func(*ssa.BasicBlock) bool) bool {
	if from == to {
		return true
	}
	seen := map[*ssa.BasicBlock]bool{from: true}
	stack := []*ssa.BasicBlock{from}
	for len(stack) > 0 {
		b := stack[len(stack)-1]
		stack = stack[:len(stack)-1]
		for _, s := range b.Succs {
			if seen[s] {
				continue
			}
			if s == to {
				return true
			}
			if avoid != nil && avoid(s) {
				continue
			}
			seen[s] = true
			stack = append(stack, s)
		}
	}
	return false
}

// Fact: on every path to the block, the branch on Cond was last taken with
// outcome Truth. Negations are already folded into Truth.
type Fact struct {
	Cond  ssa.Value
	Truth bool
	If    *ssa.If
}

// factsAt returns the branch facts that hold on entry to block b.
func factsAt(b *ssa.BasicBlock) []Fact {
	out := factsAtLocal(b)
	// an extracted helper inherits what holds at its only call
	if curWorld != nil {
		fn := b.Parent()
		for depth := 0; depth < 4 && fn != nil; depth++ {
			c := curWorld.UniqueCall(fn)
			if c == nil {
				break
			}
			out = append(out, factsAtLocal(c.Block())...)
			fn = c.Parent()
		}
	}
	return out
}

func factsAtLocal(b *ssa.BasicBlock) []Fact {
	var out []Fact
	for _, ib := range b.Parent().Blocks {
		if len(ib.Instrs) == 0 {
			continue
		}
		iff, ok := ib.Instrs[len(ib.Instrs)-1].(*ssa.If)
		if !ok {
			continue
		}
		for k := 0; k < 2; k++ {
			if edgeDominates(ib, k, b) {
				c, truth := stripNot(iff.Cond, k == 0)
				out = append(out, expandFact(Fact{Cond: c, Truth: truth, If: iff}, 0)...)
			}
		}
	}
	return out
}

// expandFact decomposes a fact about a value-form `a && b && c` (true) or
// `a || b || c` (false), which go/ssa lowers to a phi with constant edges:
// the phi can only have that outcome if control arrived over its single
// non-constant edge, so every branch fact that holds there holds too.
func expandFact(f Fact, depth int) []Fact {
	out := []Fact{f}
	phi, ok := f.Cond.(*ssa.Phi)
	if !ok || depth > 6 {
		return out
	}
	nonConst := -1
	for i, e := range phi.Edges {
		if b, ok := constBool(e); ok {
			if b == f.Truth {
				return out
			}
			continue
		}
		if nonConst >= 0 {
			return out
		}
		nonConst = i
	}
	if nonConst < 0 {
		return out
	}
	pred := phi.Block().Preds[nonConst]
	out = append(out, factsAt(pred)...)
	for k, s := range pred.Succs {
		if s == phi.Block() && len(pred.Succs) == 2 && pred.Succs[0] != pred.Succs[1] {
			if iff, ok := pred.Instrs[len(pred.Instrs)-1].(*ssa.If); ok {
				c, truth := stripNot(iff.Cond, k == 0)
				out = append(out, expandFact(Fact{Cond: c, Truth: truth, If: iff}, depth+1)...)
			}
		}
	}
	c, truth := stripNot(phi.Edges[nonConst], f.Truth)
	out = append(out, expandFact(Fact{Cond: c, Truth: truth, If: f.If}, depth+1)...)
	return out
}

// factAlternatives: a disjunctive fact — a phi of `a || b` that is true (or of `a && b` that is false), as go/ssa
// produces when the expression is a switch case or is assigned rather than branched on. The result has one fact
// list per way the phi can have had that outcome (one per incoming edge that can carry it); nil when f is not
// such a phi.
func factAlternatives(f Fact) [][]Fact {
	phi, ok := f.Cond.(*ssa.Phi)
	if !ok || len(phi.Edges) < 2 {
		return nil
	}
	if b, isB := phi.Type().Underlying().(*types.Basic); !isB || b.Kind() != types.Bool {
		return nil
	}
	var alts [][]Fact
	for i, e := range phi.Edges {
		pred := phi.Block().Preds[i]
		if b, ok := constBool(e); ok {
			if b != f.Truth {
				continue
			}
			alts = append(alts, append(append([]Fact{}, factsAt(pred)...), factsAtEdgeTo(pred, phi.Block())...))
			continue
		}
		c, truth := stripNot(e, f.Truth)
		fs := append(append([]Fact{}, factsAt(pred)...), factsAtEdgeTo(pred, phi.Block())...)
		fs = append(fs, expandFact(Fact{Cond: c, Truth: truth, If: f.If}, 1)...)
		alts = append(alts, fs)
	}
	if len(alts) < 2 {
		return nil
	}
	return alts
}

// holdsWithAlternatives: check holds for the facts, or the facts contain a disjunctive fact and check holds in
// every one of its alternatives (each added to the facts).
func holdsWithAlternatives(facts []Fact, check func([]Fact) bool) bool {
	if check(facts) {
		return true
	}
	for _, f := range facts {
		alts := factAlternatives(f)
		if alts == nil {
			continue
		}
		all := true
		for _, alt := range alts {
			if !check(append(append([]Fact{}, facts...), alt...)) {
				all = false
				break
			}
		}
		if all {
			return true
		}
	}
	return false
}

// someFact: test holds for one of the facts, or — for a disjunctive fact — in every one of its alternatives.
func someFact(facts []Fact, test func(Fact) bool) bool { return someFactD(facts, test, 0) }

func someFactD(facts []Fact, test func(Fact) bool, depth int) bool {
	for _, f := range facts {
		if test(f) {
			return true
		}
	}
	if depth > 3 {
		return false
	}
	for _, f := range facts {
		alts := factAlternatives(f)
		if alts == nil {
			continue
		}
		all := true
		for _, alt := range alts {
			if !someFactD(alt, test, depth+1) {
				all = false
				break
			}
		}
		if all {
			return true
		}
	}
	return false
}

// factsAtEdge returns the facts that hold when control flows along the edge
// from -> from.Succs[k] (facts at `from` plus the branch outcome itself).
func factsAtEdge(from *ssa.BasicBlock, k int) []Fact {
	out := factsAt(from)
	if iff, ok := from.Instrs[len(from.Instrs)-1].(*ssa.If); ok && from.Succs[0] != from.Succs[1] {
		c, truth := stripNot(iff.Cond, k == 0)
		out = append(out, expandFact(Fact{Cond: c, Truth: truth, If: iff}, 0)...)
	}
	return out
}

func stripNot(v ssa.Value, truth bool) (ssa.Value, bool) {
	for {
		u, ok := v.(*ssa.UnOp)
		if !ok || u.Op != token.NOT {
			return v, truth
		}
		v = u.X
		truth = !truth
	}
}

// ---- constants ------------------------------------------------------------

func constInt(v ssa.Value) (int64, bool) {
	c, ok := v.(*ssa.Const)
	if !ok || c.Value == nil {
		return 0, false
	}
	if c.Value.Kind() != constant.Int {
		return 0, false
	}
	i, exact := constant.Int64Val(c.Value)
	if !exact {
		// large unsigned constants
		if u, ok := constant.Uint64Val(c.Value); ok {
			return int64(u), true
		}
		return 0, false
	}
	return i, true
}

func constString(v ssa.Value) (string, bool) {
	c, ok := v.(*ssa.Const)
	if !ok || c.Value == nil || c.Value.Kind() != constant.String {
		return "", false
	}
	return constant.StringVal(c.Value), true
}

func constBool(v ssa.Value) (bool, bool) {
	c, ok := v.(*ssa.Const)
	if !ok || c.Value == nil || c.Value.Kind() != constant.Bool {
		return false, false
	}
	return constant.BoolVal(c.Value), true
}

func isNilConst(v ssa.Value) bool {
	c, ok := v.(*ssa.Const)
	return ok && c.Value == nil
}

// unwrapConv strips value-preserving conversions.
func unwrapConv(v ssa.Value) ssa.Value {
	for {
		switch x := v.(type) {
		case *ssa.ChangeType:
			v = x.X
		case *ssa.Convert:
			v = x.X
		case *ssa.ChangeInterface:
			v = x.X
		default:
			return v
		}
	}
}

// unwrapIface strips MakeInterface and conversions: the concrete value boxed.
func unwrapIface(v ssa.Value) ssa.Value {
	for {
		switch x := v.(type) {
		case *ssa.MakeInterface:
			v = x.X
		case *ssa.ChangeType:
			v = x.X
		case *ssa.ChangeInterface:
			v = x.X
		default:
			return v
		}
	}
}

// ---- calls ----------------------------------------------------------------

// staticCallee returns the statically known callee of a call value.
func staticCallee(v ssa.Value) (*ssa.Call, *ssa.Function) {
	c, ok := v.(*ssa.Call)
	if !ok {
		return nil, nil
	}
	return c, c.Call.StaticCallee()
}

// calleeFullName is "pkgpath.Func" or "(pkgpath.T).Method" for static callees,
// "builtin.name" for builtins, "" for dynamic calls.
func calleeFullName(cc *ssa.CallCommon) string {
	if b, ok := cc.Value.(*ssa.Builtin); ok {
		return "builtin." + b.Name()
	}
	if cc.IsInvoke() {
		return ""
	}
	if f := cc.StaticCallee(); f != nil {
		if f.Object() != nil {
			return f.Object().(*types.Func).FullName()
		}
		return f.String()
	}
	return ""
}

// isDynamicCall reports whether the call's target is not known statically
// (function value or interface method).
func isDynamicCall(cc *ssa.CallCommon) bool {
	if cc.IsInvoke() {
		return true
	}
	if _, ok := cc.Value.(*ssa.Builtin); ok {
		return false
	}
	return cc.StaticCallee() == nil
}

// ---- description ----------------------------------------------------------

// describe renders an SSA value as a short source-like expression.
func describe(v ssa.Value) string { return describeDepth(v, 6) }

func describeDepth(v ssa.Value, d int) string {
	if v == nil {
		return "<nil>"
	}
	if d == 0 {
		return v.Name()
	}
	switch x := v.(type) {
	case *ssa.Const:
		if x.Value == nil {
			return "nil"
		}
		return x.Value.ExactString()
	case *ssa.Parameter:
		return x.Name()
	case *ssa.FreeVar:
		return x.Name()
	case *ssa.Global:
		return x.Name()
	case *ssa.Function:
		return x.Name()
	case *ssa.Builtin:
		return x.Name()
	case *ssa.Alloc:
		if x.Comment != "" {
			return "&" + x.Comment
		}
		return "new(" + types.TypeString(deref(x.Type()), relTo) + ")"
	case *ssa.FieldAddr:
		return describeDepth(x.X, d-1) + "." + fieldName(x.X.Type(), x.Field)
	case *ssa.Field:
		return describeDepth(x.X, d-1) + "." + fieldName(x.X.Type(), x.Field)
	case *ssa.IndexAddr:
		return describeDepth(x.X, d-1) + "[" + describeDepth(x.Index, d-1) + "]"
	case *ssa.Index:
		return describeDepth(x.X, d-1) + "[" + describeDepth(x.Index, d-1) + "]"
	case *ssa.Lookup:
		return describeDepth(x.X, d-1) + "[" + describeDepth(x.Index, d-1) + "]"
	case *ssa.UnOp:
		if x.Op == token.MUL {
			s := describeDepth(x.X, d-1)
			if strings.HasPrefix(s, "&") {
				return s[1:]
			}
			if _, ok := x.X.(*ssa.FieldAddr); ok {
				return s
			}
			if _, ok := x.X.(*ssa.IndexAddr); ok {
				return s
			}
			if _, ok := x.X.(*ssa.Global); ok {
				return s
			}
			if _, ok := x.X.(*ssa.FreeVar); ok {
				return s
			}
			return "*" + s
		}
		return x.Op.String() + describeDepth(x.X, d-1)
	case *ssa.BinOp:
		return "(" + describeDepth(x.X, d-1) + " " + x.Op.String() + " " + describeDepth(x.Y, d-1) + ")"
	case *ssa.Call:
		return describeCall(&x.Call, d)
	case *ssa.Slice:
		s := describeDepth(x.X, d-1) + "["
		if x.Low != nil {
			s += describeDepth(x.Low, d-1)
		}
		s += ":"
		if x.High != nil {
			s += describeDepth(x.High, d-1)
		}
		return s + "]"
	case *ssa.Convert:
		return types.TypeString(x.Type(), relTo) + "(" + describeDepth(x.X, d-1) + ")"
	case *ssa.ChangeType:
		return describeDepth(x.X, d-1)
	case *ssa.ChangeInterface:
		return describeDepth(x.X, d-1)
	case *ssa.MakeInterface:
		return describeDepth(x.X, d-1)
	case *ssa.TypeAssert:
		return describeDepth(x.X, d-1) + ".(" + types.TypeString(x.AssertedType, relTo) + ")"
	case *ssa.Extract:
		return describeDepth(x.Tuple, d-1) + "#" + fmt.Sprint(x.Index)
	case *ssa.Phi:
		if x.Comment != "" {
			return "φ" + x.Comment
		}
		return "φ(" + x.Name() + ")"
	case *ssa.MakeSlice:
		return "make(" + types.TypeString(x.Type(), relTo) + ", " + describeDepth(x.Len, d-1) + ")"
	case *ssa.MakeMap:
		return "make(" + types.TypeString(x.Type(), relTo) + ")"
	case *ssa.MakeClosure:
		return "closure(" + nm(x.Fn) + ")"
	case *ssa.Next:
		return "next(" + describeDepth(x.Iter, d-1) + ")"
	case *ssa.Range:
		return "range " + describeDepth(x.X, d-1)
	}
	return v.Name()
}

func describeCall(cc *ssa.CallCommon, d int) string {
	var args []string
	for _, a := range cc.Args {
		args = append(args, describeDepth(a, d-1))
	}
	if cc.IsInvoke() {
		return describeDepth(cc.Value, d-1) + "." + cc.Method.Name() + "(" + strings.Join(args, ", ") + ")"
	}
	name := ""
	switch f := cc.Value.(type) {
	case *ssa.Function:
		name = nm(f)
		if f.Signature.Recv() != nil && len(args) > 0 {
			return args[0] + "." + name + "(" + strings.Join(args[1:], ", ") + ")"
		}
	case *ssa.Builtin:
		name = f.Name()
	default:
		name = describeDepth(cc.Value, d-1)
	}
	return name + "(" + strings.Join(args, ", ") + ")"
}

func relTo(p *types.Package) string {
	if p.Path() == targetPkgPath {
		return ""
	}
	return p.Name()
}

func deref(t types.Type) types.Type {
	if p, ok := t.Underlying().(*types.Pointer); ok {
		return p.Elem()
	}
	return t
}

func fieldName(t types.Type, i int) string {
	st, ok := deref(t).Underlying().(*types.Struct)
	if !ok || i >= st.NumFields() {
		return fmt.Sprintf("f%d", i)
	}
	return st.Field(i).Name()
}

// fieldOf reports the (named struct, field name) addressed by a FieldAddr/Field.
func fieldOf(v ssa.Value) (typeName, field string, base ssa.Value, ok bool) {
	switch x := v.(type) {
	case *ssa.FieldAddr:
		t := deref(x.X.Type())
		return typeNameOf(t), fieldName(x.X.Type(), x.Field), x.X, true
	case *ssa.Field:
		return typeNameOf(x.X.Type()), fieldName(x.X.Type(), x.Field), x.X, true
	}
	return "", "", nil, false
}

func typeNameOf(t types.Type) string {
	if n, ok := t.(*types.Named); ok {
		return n.Obj().Name()
	}
	return types.TypeString(t, relTo)
}

// loadOfField matches `*(&x.f)` / `x.f` and returns x.
func loadOfField(v ssa.Value, typeName, field string) (ssa.Value, bool) {
	if u, ok := v.(*ssa.UnOp); ok && u.Op == token.MUL {
		if tn, f, base, ok := fieldOf(u.X); ok && tn == typeName && f == field {
			return base, true
		}
	}
	if tn, f, base, ok := fieldOf(v); ok && tn == typeName && f == field {
		if _, isAddr := v.(*ssa.FieldAddr); !isAddr {
			return base, true
		}
	}
	return nil, false
}

// loadOfFieldR is loadOfField looking through the parameters of extracted helpers (both the loaded value and
// the base it returns are replaced by the arguments of the helper's only call).
func loadOfFieldR(v ssa.Value, typeName, field string) (ssa.Value, bool) {
	base, ok := loadOfField(resolveParam(v), typeName, field)
	if !ok {
		return nil, false
	}
	return resolveParam(base), true
}

// isLoad matches a pointer dereference and returns the address.
func isLoad(v ssa.Value) (ssa.Value, bool) {
	if u, ok := v.(*ssa.UnOp); ok && u.Op == token.MUL {
		return u.X, true
	}
	return nil, false
}

// sameAddrShape reports whether two addresses denote the same location
// syntactically: same SSA value, or the same field/index chain over the same
// base values with constant indices.
func sameAddrShape(a, b ssa.Value) bool {
	if a == b {
		return true
	}
	switch x := a.(type) {
	case *ssa.FieldAddr:
		y, ok := b.(*ssa.FieldAddr)
		return ok && x.Field == y.Field && sameValueShape(x.X, y.X)
	case *ssa.IndexAddr:
		y, ok := b.(*ssa.IndexAddr)
		return ok && sameValueShape(x.X, y.X) && sameValueShape(x.Index, y.Index)
	}
	return false
}

// sameValueShape: structural equality of pure value expressions (constants,
// loads of the same address shape, same arithmetic over same shapes). Loads
// are only equal if nothing can have been stored in between; callers use this
// only for memory that the enclosing function does not write (checked by the
// rule that uses it) or for immutable SSA registers.
func sameValueShape(a, b ssa.Value) bool {
	if a == b {
		return true
	}
	switch x := a.(type) {
	case *ssa.Const:
		y, ok := b.(*ssa.Const)
		if !ok {
			return false
		}
		if x.Value == nil || y.Value == nil {
			return x.Value == nil && y.Value == nil
		}
		return constant.Compare(x.Value, token.EQL, y.Value)
	case *ssa.UnOp:
		y, ok := b.(*ssa.UnOp)
		if !ok || x.Op != y.Op {
			return false
		}
		if x.Op == token.MUL {
			return sameAddrShape(x.X, y.X)
		}
		return sameValueShape(x.X, y.X)
	case *ssa.BinOp:
		y, ok := b.(*ssa.BinOp)
		return ok && x.Op == y.Op && sameValueShape(x.X, y.X) && sameValueShape(x.Y, y.Y)
	case *ssa.Convert:
		y, ok := b.(*ssa.Convert)
		return ok && types.Identical(x.Type(), y.Type()) && sameValueShape(x.X, y.X)
	case *ssa.ChangeType:
		y, ok := b.(*ssa.ChangeType)
		return ok && sameValueShape(x.X, y.X)
	case *ssa.FieldAddr, *ssa.IndexAddr:
		return sameAddrShape(a, b)
	case *ssa.Field:
		y, ok := b.(*ssa.Field)
		return ok && x.Field == y.Field && sameValueShape(x.X, y.X)
	}
	return false
}

// blockReturns reports whether block b ends in a Return and gives it.
func blockReturn(b *ssa.BasicBlock) *ssa.Return {
	if len(b.Instrs) == 0 {
		return nil
	}
	r, _ := b.Instrs[len(b.Instrs)-1].(*ssa.Return)
	return r
}

// allReturns lists the Return instructions of fn.
func allReturns(fn *ssa.Function) []*ssa.Return {
	var out []*ssa.Return
	for _, b := range fn.Blocks {
		if r := blockReturn(b); r != nil {
			out = append(out, r)
		}
	}
	return out
}

// referrers returns the instructions that use v (nil-safe).
func referrers(v ssa.Value) []ssa.Instruction {
	if r := v.Referrers(); r != nil {
		return *r
	}
	return nil
}

// instrIndex returns the index of in within its block.
func instrIndex(in ssa.Instruction) int {
	for i, x := range in.Block().Instrs {
		if x == in {
			return i
		}
	}
	return -1
}

// instrDominates reports whether a executes before b on every path to b.
func instrDominates(a, b ssa.Instruction) bool {
	if a.Block() == b.Block() {
		return instrIndex(a) < instrIndex(b)
	}
	return a.Block().Dominates(b.Block())
}

// nilCompare matches `x == nil` / `x != nil` (constant on either side) and
// returns x and whether the operator is ==.
func nilCompare(v ssa.Value) (x ssa.Value, isEq bool, ok bool) {
	bo, isBO := v.(*ssa.BinOp)
	if !isBO || (bo.Op != token.EQL && bo.Op != token.NEQ) {
		return nil, false, false
	}
	switch {
	case isNilConst(bo.Y):
		return bo.X, bo.Op == token.EQL, true
	case isNilConst(bo.X):
		return bo.Y, bo.Op == token.EQL, true
	}
	return nil, false, false
}

// factIsNil reports whether a fact states "x == nil" (true) or "x != nil"
// (false) about some value x.
func factIsNil(f Fact) (x ssa.Value, isNil bool, ok bool) {
	v, isEq, ok := nilCompare(f.Cond)
	if !ok {
		return nil, false, false
	}
	return v, isEq == f.Truth, true
}

// loopVisitsAll reports whether a loop with header hdr (true edge = body,
// false edge = exit) executes block `must` on every iteration and can only be
// left through the header (returns inside the body are allowed, breaks are not).
func loopVisitsAll(hdr, must *ssa.BasicBlock) bool {
	if len(hdr.Succs) != 2 {
		return false
	}
	body, exit := hdr.Succs[0], hdr.Succs[1]
	if body != must && reachableAvoiding(body, hdr, func(b *ssa.BasicBlock) bool { return b == must }) {
		return false
	}
	if body == exit || reachableAvoiding(body, exit, func(b *ssa.BasicBlock) bool { return b == hdr }) {
		return false
	}
	return true
}

var cmpMirror = map[token.Token]token.Token{token.LSS: token.GTR, token.GTR: token.LSS, token.LEQ: token.GEQ, token.GEQ: token.LEQ, token.EQL: token.EQL, token.NEQ: token.NEQ}

// orientCmp reads comparison bo as `x op y` for the requested operator, whichever way round it is stored.
func orientCmp(bo *ssa.BinOp, op token.Token) (x, y ssa.Value, ok bool) {
	if bo.Op == op {
		return bo.X, bo.Y, true
	}
	if m, isCmp := cmpMirror[op]; isCmp && bo.Op == m {
		return bo.Y, bo.X, true
	}
	return nil, nil, false
}
