package main

// Q4 (guard dataflow for bounds): a forward must-analysis computing, per basic
// block, a proven lower bound on len(S) for a chosen slice value S, from the
// comparisons that guard the block. Meet is min over feasible predecessors.

import (
	"go/token"

	"golang.org/x/tools/go/ssa"
)

const lenTop = int64(1) << 40

// lenFactOnEdge returns the lower bound on len(S) implied by taking edge k of
// the conditional branch `iff` (0 if none).
func lenFactOnEdge(iff *ssa.If, k int, isLen func(ssa.Value) bool) int64 {
	cond, truth := stripNot(iff.Cond, k == 0)
	bo, ok := cond.(*ssa.BinOp)
	if !ok {
		return 0
	}
	op := bo.Op
	x, y := bo.X, bo.Y
	var c int64
	if isLen(x) {
		v, ok := constInt(y)
		if !ok {
			return 0
		}
		c = v
	} else if isLen(y) {
		v, ok := constInt(x)
		if !ok {
			return 0
		}
		c = v
		m, ok := mirror[op]
		if !ok {
			return 0
		}
		op = m
	} else {
		return 0
	}
	if !truth {
		switch op {
		case token.LSS:
			op = token.GEQ
		case token.GEQ:
			op = token.LSS
		case token.GTR:
			op = token.LEQ
		case token.LEQ:
			op = token.GTR
		case token.EQL:
			op = token.NEQ
		case token.NEQ:
			op = token.EQL
		default:
			return 0
		}
	}
	switch op {
	case token.GEQ, token.EQL:
		return c
	case token.GTR:
		return c + 1
	}
	return 0
}

// minLenAnalysis computes the proven lower bound of len(S) on entry to each
// block. isLen recognises len(S); infeasible marks CFG edges that cannot be
// taken (may be nil).
func minLenAnalysis(fn *ssa.Function, isLen func(ssa.Value) bool, infeasible func(from *ssa.BasicBlock, k int) bool) []int64 {
	in := make([]int64, len(fn.Blocks))
	for i := range in {
		in[i] = lenTop
	}
	if len(fn.Blocks) == 0 {
		return in
	}
	in[0] = 0
	changed := true
	for iter := 0; changed && iter < 4*len(fn.Blocks)+8; iter++ {
		changed = false
		for _, b := range fn.Blocks {
			if b.Index == 0 {
				continue
			}
			best := lenTop
			for _, p := range b.Preds {
				if in[p.Index] == lenTop {
					continue // not yet reached (optimistic)
				}
				for k, s := range p.Succs {
					if s != b {
						continue
					}
					if infeasible != nil && infeasible(p, k) {
						continue
					}
					v := in[p.Index]
					if iff, ok := p.Instrs[len(p.Instrs)-1].(*ssa.If); ok && p.Succs[0] != p.Succs[1] {
						if f := lenFactOnEdge(iff, k, isLen); f > v {
							v = f
						}
					}
					if v < best {
						best = v
					}
				}
			}
			if best != in[b.Index] {
				in[b.Index] = best
				changed = true
			}
		}
	}
	return in
}

// constSetAnalysis is a forward may-analysis of the set of constants a tested
// variable can equal on entry to each block. The universe is every constant
// the variable is compared with (== / !=) in the function plus "other"
// (represented by the key otherConst). Edges refine the set: x == K keeps {K}
// on the true edge and removes K on the false edge; merges take the union.
const otherConst = int64(-1) << 62

func constSetAnalysis(fn *ssa.Function, isVar func(ssa.Value) bool) []map[int64]bool {
	universe := map[int64]bool{otherConst: true}
	type test struct {
		k  int64
		eq bool
	}
	tests := map[*ssa.If]test{}
	for _, b := range fn.Blocks {
		iff, ok := b.Instrs[len(b.Instrs)-1].(*ssa.If)
		if !ok {
			continue
		}
		cond, truth := stripNot(iff.Cond, true)
		bo, ok := cond.(*ssa.BinOp)
		if !ok || (bo.Op != token.EQL && bo.Op != token.NEQ) {
			continue
		}
		x, y := bo.X, bo.Y
		if _, isC := x.(*ssa.Const); isC {
			x, y = y, x
		}
		k, okc := constInt(y)
		if !okc || !isVar(x) {
			continue
		}
		universe[k] = true
		tests[iff] = test{k: k, eq: (bo.Op == token.EQL) == truth}
	}
	in := make([]map[int64]bool, len(fn.Blocks))
	if len(fn.Blocks) == 0 {
		return in
	}
	in[0] = map[int64]bool{}
	for k := range universe {
		in[0][k] = true
	}
	for changed := true; changed; {
		changed = false
		for _, b := range fn.Blocks {
			if in[b.Index] == nil {
				continue
			}
			for k, s := range b.Succs {
				out := map[int64]bool{}
				for c := range in[b.Index] {
					out[c] = true
				}
				if iff, ok := b.Instrs[len(b.Instrs)-1].(*ssa.If); ok && b.Succs[0] != b.Succs[1] {
					if t, ok := tests[iff]; ok {
						equalEdge := (k == 0) == t.eq
						if equalEdge {
							keep := out[t.k]
							out = map[int64]bool{}
							if keep {
								out[t.k] = true
							}
						} else {
							delete(out, t.k)
						}
					}
				}
				if in[s.Index] == nil {
					in[s.Index] = map[int64]bool{}
				}
				for c := range out {
					if !in[s.Index][c] {
						in[s.Index][c] = true
						changed = true
					}
				}
			}
		}
	}
	return in
}

// intBoundsAt derives constant bounds on an integer value from the branch
// facts that hold on entry to a block (ok flags tell which bound is known).
func intBoundsAt(b *ssa.BasicBlock, v ssa.Value) (lo, hi int64, hasLo, hasHi bool) {
	for _, f := range factsAt(b) {
		bo, ok := f.Cond.(*ssa.BinOp)
		if !ok {
			continue
		}
		op := bo.Op
		x, y := bo.X, bo.Y
		if c, okc := constInt(x); okc && (y == v || sameValueShape(y, v)) {
			_ = c
			x, y = y, x
			m, okm := mirror[op]
			if !okm {
				continue
			}
			op = m
		}
		c, okc := constInt(y)
		if !okc || !(x == v || sameValueShape(x, v)) {
			continue
		}
		if !f.Truth {
			switch op {
			case token.LSS:
				op = token.GEQ
			case token.GEQ:
				op = token.LSS
			case token.GTR:
				op = token.LEQ
			case token.LEQ:
				op = token.GTR
			case token.EQL:
				op = token.NEQ
			case token.NEQ:
				op = token.EQL
			}
		}
		switch op {
		case token.LSS:
			if !hasHi || c-1 < hi {
				hi, hasHi = c-1, true
			}
		case token.LEQ:
			if !hasHi || c < hi {
				hi, hasHi = c, true
			}
		case token.GTR:
			if !hasLo || c+1 > lo {
				lo, hasLo = c+1, true
			}
		case token.GEQ:
			if !hasLo || c > lo {
				lo, hasLo = c, true
			}
		case token.EQL:
			lo, hi, hasLo, hasHi = c, c, true, true
		}
	}
	return
}

// constSetOnEdge refines the set that holds on entry to pred by the outcome of
// pred's terminating test along its edge to succ.
func constSetOnEdge(in []map[int64]bool, pred, succ *ssa.BasicBlock, isVar func(ssa.Value) bool) map[int64]bool {
	out := map[int64]bool{}
	for c := range in[pred.Index] {
		out[c] = true
	}
	iff, ok := pred.Instrs[len(pred.Instrs)-1].(*ssa.If)
	if !ok || pred.Succs[0] == pred.Succs[1] {
		return out
	}
	cond, truth := stripNot(iff.Cond, true)
	bo, ok := cond.(*ssa.BinOp)
	if !ok || (bo.Op != token.EQL && bo.Op != token.NEQ) {
		return out
	}
	x, y := bo.X, bo.Y
	if _, isC := x.(*ssa.Const); isC {
		x, y = y, x
	}
	k, okc := constInt(y)
	if !okc || !isVar(x) {
		return out
	}
	eq := (bo.Op == token.EQL) == truth
	for i, s := range pred.Succs {
		if s != succ {
			continue
		}
		if (i == 0) == eq {
			keep := out[k]
			out = map[int64]bool{}
			if keep {
				out[k] = true
			}
		} else {
			delete(out, k)
		}
	}
	return out
}
