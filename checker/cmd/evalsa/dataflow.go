package main

// Q4 (guard dataflow for bounds): a forward must-analysis computing, per basic
// block, a proven lower bound on len(S) for a chosen slice value S, from the
// comparisons that guard the block. Meet is min over feasible predecessors.

import (
	"go/token"

	"golang.org/x/tools/go/ssa"
)

const lenTop = int64(1) << 40

// lenFactOnEdge returns the lower bound on len(S) implied by taking edge k of
// the conditional branch `iff` (0 if none).
func lenFactOnEdge(iff *ssa.If, k int, isLen func(ssa.Value) bool) int64 {
	cond, truth := stripNot(iff.Cond, k == 0)
	bo, ok := cond.(*ssa.BinOp)
	if !ok {
		return 0
	}
	op := bo.Op
	x, y := bo.X, bo.Y
	var c int64
	if isLen(x) {
		v, ok := constInt(y)
		if !ok {
			return 0
		}
		c = v
	} else if isLen(y) {
		v, ok := constInt(x)
		if !ok {
			return 0
		}
		c = v
		m, ok := mirror[op]
		if !ok {
			return 0
		}
		op = m
	} else {
		return 0
	}
	if !truth {
		switch op {
		case token.LSS:
			op = token.GEQ
		case token.GEQ:
			op = token.LSS
		case token.GTR:
			op = token.LEQ
		case token.LEQ:
			op = token.GTR
		case token.EQL:
			op = token.NEQ
		case token.NEQ:
			op = token.EQL
		default:
			return 0
		}
	}
	switch op {
	case token.GEQ, token.EQL:
		return c
	case token.GTR:
		return c + 1
	}
	return 0
}

// minLenAnalysis computes the proven lower bound of len(S) on entry to each
// block. isLen recognises len(S); infeasible marks CFG edges that cannot be
// taken (may be nil).
func minLenAnalysis(fn *ssa.Function, isLen func(ssa.Value) bool, infeasible func(from *ssa.BasicBlock, k int) bool) []int64 {
	in := make([]int64, len(fn.Blocks))
	for i := range in {
		in[i] = lenTop
	}
	if len(fn.Blocks) == 0 {
		return in
	}
	in[0] = 0
	changed := true
	for iter := 0; changed && iter < 4*len(fn.Blocks)+8; iter++ {
		changed = false
		for _, b := range fn.Blocks {
			if b.Index == 0 {
				continue
			}
			best := lenTop
			for _, p := range b.Preds {
				if in[p.Index] == lenTop {
					continue // not yet reached (optimistic)
				}
				for k, s := range p.Succs {
					if s != b {
						continue
					}
					if infeasible != nil && infeasible(p, k) {
						continue
					}
					v := in[p.Index]
					if iff, ok := p.Instrs[len(p.Instrs)-1].(*ssa.If); ok && p.Succs[0] != p.Succs[1] {
						if f := lenFactOnEdge(iff, k, isLen); f > v {
							v = f
						}
					}
					if v < best {
						best = v
					}
				}
			}
			if best != in[b.Index] {
				in[b.Index] = best
				changed = true
			}
		}
	}
	return in
}
