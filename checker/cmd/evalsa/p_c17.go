package main

// C17 — in / overlap: dispatch matrix over operand types, accepted collection
// types, mismatch => error, and the shape of the scan and hash paths.

import (
	"fmt"
	"go/token"
	"go/types"
	"sort"
	"strings"

	"golang.org/x/tools/go/ssa"
)

func init() {
	register(&Property{
		ID:    "C17",
		Level: "other",
		Explanation: "Decides the dispatch clauses by abstract interpretation of listIn / listOverlap over the dynamic types of their two operands (type tests are resolved by the assumed types, every other branch is explored both ways): (R-OVSYM) the outcome matrix of overlap — (type of operand 1, type of operand 2) -> {value, error, value only if the []string operand is empty} — is symmetric under swapping the operands, same-typed lists give a value, anything else an error: 'overlap is symmetric' and 'the empty list literal behaves as an empty list of either type on either side' both fail if (A,B) is handled and (B,A) is an error; " +
			"(R-INSETS) the matrix of `in`: string probe accepts []string and map[string]struct{}, int64 probe accepts []int64, map[int64]struct{} and the empty []string literal, every other combination is an error, never false (pre-built sets accepted; mismatches are errors); (R-TYPEERR, R-ARITY as in C18, restricted to the two operators). " +
			"(R-SETSHAPE) structural necessary conditions of the set semantics: every `true` is returned only under equality of an element of one operand with an element of the other (or a successful lookup in a set built from every element of one operand, probed with elements of the other), every loop involved ranges over a whole operand from index 0 in steps of 1, and `false` for same-typed lists is returned only at the exit of such a loop; the large-list path builds its set from one operand and probes with the other whichever is shorter. " +
			"(R-INTBASE) every integer parse of the lexer/parser reads base 10, so a list element and a scalar probe with the same spelling denote the same number. NOT decided: the set semantics as a value relation, and that the scan and the hashing path agree (values of list elements; the threshold constant changes nothing observable, so no constant rule is a necessary condition).",
		Run:       runC17,
		Witnesses: c17Witnesses,
	})
}

func runC17(w *World, r *Report) {
	ruleOvSym(w, r)
	ruleInSets(w, r)
	ruleSetShape(w, r)
	ruleIntBase(w, r)
	// arity / type-error discipline of the two operators
	restrictTo(w, r, []string{"listIn", "listOverlap"})
}

// restrictTo runs R-ARITY and R-TYPEERR and keeps only obligations of the named functions.
func restrictTo(w *World, r *Report, fns []string) {
	sub := NewReport(r.Prop, r.Tier, r.Level, r.known)
	sub.quiet = true
	ruleArity(w, sub)
	ruleTypeErr(w, sub)
	keep := map[string]bool{}
	for _, f := range fns {
		keep[f] = true
	}
	r.Rule("R-ARITY", "no params[k] before a len(params) test admits k (as in C18), for in/overlap", 4)
	r.Rule("R-TYPEERR", "a failed type test of an operand reaches only error returns unless another test of it succeeded (as in C18), for in/overlap", 6)
	for _, o := range sub.Obls {
		if keep[o.Func] {
			r.Add(o)
		}
	}
}

// returnsUnderTypes walks the CFG of fn resolving type tests of params[k] by
// the assumed dynamic types t[k] (type strings); other branches are explored
// both ways. It returns the reachable returns.
func returnsUnderTypes(fn *ssa.Function, params ssa.Value, assumed map[int64]string) []*ssa.Return {
	var out []*ssa.Return
	seen := map[*ssa.BasicBlock]bool{}
	stack := []*ssa.BasicBlock{fn.Blocks[0]}
	for len(stack) > 0 {
		b := stack[len(stack)-1]
		stack = stack[:len(stack)-1]
		if seen[b] {
			continue
		}
		seen[b] = true
		if ret := blockReturn(b); ret != nil {
			out = append(out, ret)
			continue
		}
		last := b.Instrs[len(b.Instrs)-1]
		if iff, ok := last.(*ssa.If); ok {
			cond, truth := stripNot(iff.Cond, true)
			// the matrix is about calls with exactly two operands: resolve tests of len(params)
			if bo, ok := cond.(*ssa.BinOp); ok && isLenOf(bo.X, params) {
				if c, okc := constInt(bo.Y); okc {
					var holds, known bool
					switch bo.Op {
					case token.EQL:
						holds, known = 2 == c, true
					case token.NEQ:
						holds, known = 2 != c, true
					case token.LSS:
						holds, known = 2 < c, true
					case token.LEQ:
						holds, known = 2 <= c, true
					case token.GTR:
						holds, known = 2 > c, true
					case token.GEQ:
						holds, known = 2 >= c, true
					}
					if known {
						edge := 0
						if holds != truth {
							edge = 1
						}
						stack = append(stack, b.Succs[edge])
						continue
					}
				}
			}
			if ex, ok := cond.(*ssa.Extract); ok && ex.Index == 1 {
				if ta, ok := ex.Tuple.(*ssa.TypeAssert); ok && ta.CommaOk {
					if k, okk := paramIndex(ta.X, params); okk {
						if at, known := assumed[k]; known {
							holds := types.TypeString(ta.AssertedType, nil) == at
							edge := 0
							if holds != truth {
								edge = 1
							}
							stack = append(stack, b.Succs[edge])
							continue
						}
					}
				}
			}
		}
		stack = append(stack, b.Succs...)
	}
	sort.Slice(out, func(i, j int) bool { return out[i].Block().Index < out[j].Block().Index })
	return out
}

// cellSignature summarises the reachable returns: "value", "error",
// "value[strlist-empty]" (a value returned only under len(<[]string operand>) == 0).
func cellSignature(rets []*ssa.Return, params ssa.Value) string {
	set := map[string]bool{}
	for _, ret := range rets {
		nonNil, isNil := isErrorReturn(ret)
		switch {
		case nonNil:
			set["error"] = true
		case isNil:
			cond := ""
			for _, f := range factsAt(ret.Block()) {
				bo, ok := f.Cond.(*ssa.BinOp)
				if !ok {
					continue
				}
				x, okl := lenArg(bo.X)
				c, okc := constInt(bo.Y)
				if !okl || !okc || c != 0 {
					continue
				}
				if sl, ok := x.Type().Underlying().(*types.Slice); !ok || !isStringLike(sl.Elem()) {
					continue
				}
				if (bo.Op == token.EQL) == f.Truth && (bo.Op == token.EQL || bo.Op == token.NEQ) {
					cond = "[strlist-empty]"
				}
			}
			set["value"+cond] = true
		default:
			set["?"] = true
		}
	}
	var parts []string
	for k := range set {
		parts = append(parts, k)
	}
	sort.Strings(parts)
	return strings.Join(parts, "+")
}

func ruleOvSym(w *World, r *Report) {
	const rule = "R-OVSYM"
	r.Rule(rule, "overlap's outcome matrix over operand types is symmetric; same-typed lists give a value, everything else an error except the empty []string literal against an int list", 6)
	fn := w.MustFn(r, rule, "listOverlap")
	if fn == nil {
		return
	}
	params := paramsParam(fn)
	ts := []string{"[]string", "[]int64", "string"}
	sig := map[[2]string]string{}
	for _, a := range ts {
		for _, b := range ts {
			sig[[2]string{a, b}] = cellSignature(returnsUnderTypes(fn, params, map[int64]string{0: a, 1: b}), params)
		}
	}
	matrix := map[string]string{}
	for k, v := range sig {
		matrix["("+k[0]+", "+k[1]+")"] = v
	}
	r.Extra["overlap_matrix"] = matrix
	pos := w.Pos(fn.Pos())
	for i, a := range ts {
		for _, b := range ts[i+1:] {
			x, y := sig[[2]string{a, b}], sig[[2]string{b, a}]
			r.Check(x == y, rule, pos, "listOverlap", fmt.Sprintf("(%s, %s) -> %s ; (%s, %s) -> %s", a, b, x, b, a, y), "symmetric", "overlap is not symmetric in its operand types: one order is handled, the other is an error")
		}
	}
	r.Check(sig[[2]string{"[]string", "[]string"}] == "value", rule, pos, "listOverlap", "([]string, []string) -> "+sig[[2]string{"[]string", "[]string"}], "always a value", "two string lists can yield an error")
	r.Check(sig[[2]string{"[]int64", "[]int64"}] == "value", rule, pos, "listOverlap", "([]int64, []int64) -> "+sig[[2]string{"[]int64", "[]int64"}], "always a value", "two int lists can yield an error")
	mixed := sig[[2]string{"[]int64", "[]string"}]
	r.Check(mixed == "error+value[strlist-empty]", rule, pos, "listOverlap", "([]int64, []string) -> "+mixed, "a value only when the []string operand is the empty literal, otherwise a type error", "an element-type mismatch is reported as a value, or the empty literal is rejected")
	r.Check(sig[[2]string{"string", "string"}] == "error", rule, pos, "listOverlap", "(string, string) -> "+sig[[2]string{"string", "string"}], "not a list: error", "non-list operands do not yield an error")
}

func ruleInSets(w *World, r *Report) {
	const rule = "R-INSETS"
	r.Rule(rule, "in's outcome matrix: string probe accepts []string and map[string]struct{}; int64 probe accepts []int64, map[int64]struct{} and the empty []string literal; everything else is an error", 10)
	fn := w.MustFn(r, rule, "listIn")
	if fn == nil {
		return
	}
	params := paramsParam(fn)
	probes := []string{"string", "int64", "bool"}
	colls := []string{"[]string", "[]int64", "map[string]struct{}", "map[int64]struct{}", "string"}
	want := map[[2]string]string{
		{"string", "[]string"}: "value", {"string", "map[string]struct{}"}: "value",
		{"string", "[]int64"}: "error", {"string", "map[int64]struct{}"}: "error", {"string", "string"}: "error",
		{"int64", "[]int64"}: "value", {"int64", "map[int64]struct{}"}: "value", {"int64", "[]string"}: "error+value[strlist-empty]",
		{"int64", "map[string]struct{}"}: "error", {"int64", "string"}: "error",
		{"bool", "[]string"}: "error", {"bool", "[]int64"}: "error", {"bool", "map[string]struct{}"}: "error", {"bool", "map[int64]struct{}"}: "error", {"bool", "string"}: "error",
	}
	matrix := map[string]string{}
	pos := w.Pos(fn.Pos())
	for _, p := range probes {
		for _, c := range colls {
			got := cellSignature(returnsUnderTypes(fn, params, map[int64]string{0: p, 1: c}), params)
			matrix["("+p+", "+c+")"] = got
			wv := want[[2]string{p, c}]
			r.Check(got == wv, rule, pos, "listIn", fmt.Sprintf("(%s in %s) -> %s", p, c, got), "as documented", "want "+wv)
		}
	}
	r.Extra["in_matrix"] = matrix
}

// ---- R-SETSHAPE ---------------------------------------------------------------

// operandOf resolves a slice/map value to the operand index it is asserted
// from (through the A/B swap phis); -1 if none. For phis it returns the set of
// operand indices the value may denote.
func operandsOf(v ssa.Value, params ssa.Value, depth int) map[int64]bool {
	out := map[int64]bool{}
	if depth > 4 {
		return out
	}
	switch x := v.(type) {
	case *ssa.Extract:
		if ta, ok := x.Tuple.(*ssa.TypeAssert); ok && x.Index == 0 {
			if k, okk := paramIndex(ta.X, params); okk {
				out[k] = true
			}
		}
	case *ssa.TypeAssert:
		if k, okk := paramIndex(x.X, params); okk {
			out[k] = true
		}
	case *ssa.Phi:
		for _, e := range x.Edges {
			for k := range operandsOf(e, params, depth+1) {
				out[k] = true
			}
		}
	}
	return out
}

// elemOfOperand matches a load of X[i] where i is a full forward range index
// over X and X denotes operand(s); returns the operand set.
func elemOfOperand(v ssa.Value, params ssa.Value) (map[int64]bool, bool) {
	addr, ok := isLoad(v)
	if !ok {
		return nil, false
	}
	ia, ok := addr.(*ssa.IndexAddr)
	if !ok {
		return nil, false
	}
	if _, okh := rangeIndexHeader(ia.Index, ia.X); !okh {
		return nil, false
	}
	ops := operandsOf(ia.X, params, 0)
	return ops, len(ops) > 0
}

func ruleSetShape(w *World, r *Report) {
	const rule = "R-SETSHAPE"
	r.Rule(rule, "every `true` of in/overlap is returned under equality of elements of the two operands (or a hit in a set built from all elements of one, probed with elements of the other); loops range over whole operands", 8)
	for _, fname := range []string{"listOverlap", "listIn"} {
		fn := w.MustFn(r, rule, fname)
		if fn == nil {
			continue
		}
		params := paramsParam(fn)
		// sets built in this function: set[k] = ... for every element k of an operand
		setFrom := map[*ssa.MakeMap]map[int64]bool{}
		EachInstr(fn, func(in ssa.Instruction) {
			mu, ok := in.(*ssa.MapUpdate)
			if !ok {
				return
			}
			mm, ok := mu.Map.(*ssa.MakeMap)
			if !ok {
				return
			}
			ops, okE := elemOfOperand(mu.Key, params)
			pos := w.InstrPos(mu)
			if !okE {
				r.Fail(rule, pos, fname, effectText(Effect{Instr: mu}), "the set is not filled from a whole operand")
				return
			}
			// unconditional in the loop body
			ia := mustIndexAddr(mu.Key)
			hdr, _ := rangeIndexHeader(ia.Index, ia.X)
			every := loopVisitsAll(hdr, mu.Block())
			r.Check(every, rule, pos, fname, effectText(Effect{Instr: mu}), "every element of the operand enters the set", "some elements are skipped when the set is built")
			setFrom[mm] = ops
		})
		// every element is examined: a set probe / an element comparison executes on every iteration of the
		// loop(s) that produce its operands (a `continue` that skips some elements loses members)
		EachInstr(fn, func(in ssa.Instruction) {
			var elems []ssa.Value
			what := ""
			switch x := in.(type) {
			case *ssa.Lookup:
				if _, isSet := x.X.(*ssa.MakeMap); !isSet {
					return
				}
				elems = []ssa.Value{x.Index}
				what = "probe " + describe(x)
			case *ssa.BinOp:
				if x.Op != token.EQL && x.Op != token.NEQ {
					return
				}
				_, okx := elemOfOperand(x.X, params)
				_, oky := elemOfOperand(x.Y, params)
				if !okx && !oky {
					return
				}
				elems = []ssa.Value{x.X, x.Y}
				what = "comparison " + describe(x)
			default:
				return
			}
			for _, e := range elems {
				ia := mustIndexAddr(e)
				if ia == nil {
					continue
				}
				hdr, okh := rangeIndexHeader(ia.Index, ia.X)
				if !okh {
					continue
				}
				r.Check(loopVisitsAll(hdr, in.Block()) || nestedVisitsAll(hdr, in.Block()), rule, w.InstrPos(in), fname, what, "executes for every element of the ranged operand", "some elements of an operand are never examined (a skipped iteration): members can be missed")
			}
		})
		for _, ret := range valueReturns(fn) {
			v := unwrapIface(ret.Results[0])
			pos := w.InstrPos(ret)
			b, isConst := constBool(v)
			if !isConst {
				// `return exist` of a lookup in a pre-built set operand
				if ex, ok := v.(*ssa.Extract); ok && ex.Index == 1 {
					if lk, ok := ex.Tuple.(*ssa.Lookup); ok {
						collOps := operandsOf(lk.X, params, 0)
						probeOps := operandsOf(lk.Index, params, 0)
						r.Check(collOps[1] && probeOps[0] && len(collOps) == 1 && len(probeOps) == 1, rule, pos, fname, "return "+describe(v), "membership of the probe (operand 1) in the pre-built set (operand 2)", "the set lookup does not look the probe up in the collection")
						continue
					}
				}
				r.Fail(rule, pos, fname, "return "+describe(v), "unexpected value")
				continue
			}
			if b {
				ok, why := trueGate(ret, params, setFrom)
				r.Check(ok, rule, pos, fname, "return true", why, "a `true` is returned without a dominating equality between an element of one operand and an element (or the probe) of the other")
				continue
			}
			// false: at the exit of a full loop over an operand, or the empty-literal case
			okFalse := false
			why := ""
			for _, f := range factsAt(ret.Block()) {
				bo, ok := f.Cond.(*ssa.BinOp)
				if !ok {
					continue
				}
				if bo.Op == token.LSS && !f.Truth {
					if x, okl := lenArg(bo.Y); okl && len(operandsOf(x, params, 0)) > 0 {
						if _, okh := rangeIndexHeader(bo.X, x); okh {
							okFalse = true
							why = "at the exit of a loop over a whole operand"
						}
					}
				}
				if x, okl := lenArg(bo.X); okl && (bo.Op == token.EQL) == f.Truth {
					if c, okc := constInt(bo.Y); okc && c == 0 && len(operandsOf(x, params, 0)) > 0 {
						okFalse = true
						why = "the empty list literal"
					}
				}
			}
			r.Check(okFalse, rule, pos, fname, "return false", why, "a `false` is returned before every element was examined")
		}
	}
}

// nestedVisitsAll: blk lies in an inner loop that itself runs on every
// iteration of the outer loop hdr (the nested scan: for a in A { for b in B { cmp } }).
func nestedVisitsAll(hdr, blk *ssa.BasicBlock) bool {
	// find the inner loop header: a block dominated by hdr's body edge, in a cycle avoiding hdr, dominating blk
	for _, h := range hdr.Parent().Blocks {
		if h == hdr || len(h.Succs) != 2 || !h.Dominates(blk) || !edgeDominates(hdr, 0, h) {
			continue
		}
		if !reachableAvoiding(h.Succs[0], h, func(b *ssa.BasicBlock) bool { return b == hdr }) {
			continue
		}
		// the inner loop is entered on every outer iteration, and blk on every inner iteration
		if loopVisitsAll(hdr, h) && loopVisitsAll(h, blk) {
			return true
		}
	}
	return false
}

func mustIndexAddr(v ssa.Value) *ssa.IndexAddr {
	addr, _ := isLoad(v)
	ia, _ := addr.(*ssa.IndexAddr)
	return ia
}

// trueGate: the block is dominated by (x == y) with x an element of one
// operand and y an element of / the other operand, or by a hit in a set built
// from one operand probed with an element of the other.
func trueGate(ret *ssa.Return, params ssa.Value, setFrom map[*ssa.MakeMap]map[int64]bool) (bool, string) {
	disjointOK := func(a, b map[int64]bool) bool {
		// the two sides must be able to denote different operands, and together cover both
		if len(a) == 0 || len(b) == 0 {
			return false
		}
		all := map[int64]bool{}
		for k := range a {
			all[k] = true
		}
		for k := range b {
			all[k] = true
		}
		if !(all[0] && all[1]) {
			return false
		}
		if len(a) == 1 && len(b) == 1 {
			for k := range a {
				if b[k] {
					return false
				}
			}
		}
		return true
	}
	side := func(v ssa.Value) map[int64]bool {
		if ops, ok := elemOfOperand(v, params); ok {
			return ops
		}
		return operandsOf(v, params, 0) // the scalar probe itself
	}
	for _, f := range factsAt(ret.Block()) {
		switch c := f.Cond.(type) {
		case *ssa.BinOp:
			if !((c.Op == token.EQL && f.Truth) || (c.Op == token.NEQ && !f.Truth)) {
				continue
			}
			if disjointOK(side(c.X), side(c.Y)) {
				return true, "under equality of an element of one operand with an element (or the probe) of the other"
			}
		case *ssa.Extract:
			if c.Index != 1 || !f.Truth {
				continue
			}
			lk, ok := c.Tuple.(*ssa.Lookup)
			if !ok {
				continue
			}
			mm, ok := lk.X.(*ssa.MakeMap)
			if !ok {
				continue
			}
			if from, ok := setFrom[mm]; ok && disjointOK(from, side(lk.Index)) {
				// when both are swap-phis they must select opposite operands on every path
				if swapConsistent(lk, mm, params) {
					return true, "under a hit in the set built from every element of one operand, probed with an element of the other"
				}
			}
		}
	}
	return false, ""
}

// swapConsistent: if the set source and the probe source are phis (A, B = B, A),
// they must take different operands on each incoming path.
func swapConsistent(lk *ssa.Lookup, mm *ssa.MakeMap, params ssa.Value) bool {
	var setSrc ssa.Value
	for _, ref := range referrers(mm) {
		if mu, ok := ref.(*ssa.MapUpdate); ok {
			if ia := mustIndexAddr(mu.Key); ia != nil {
				setSrc = ia.X
			}
		}
	}
	ia := mustIndexAddr(lk.Index)
	if setSrc == nil || ia == nil {
		return false
	}
	p1, ok1 := setSrc.(*ssa.Phi)
	p2, ok2 := ia.X.(*ssa.Phi)
	if !ok1 || !ok2 {
		a, b := operandsOf(setSrc, params, 0), operandsOf(ia.X, params, 0)
		if len(a) == 1 && len(b) == 1 {
			for k := range a {
				return !b[k]
			}
		}
		return false
	}
	if p1.Block() != p2.Block() || len(p1.Edges) != len(p2.Edges) {
		return false
	}
	for i := range p1.Edges {
		a, b := operandsOf(p1.Edges[i], params, 0), operandsOf(p2.Edges[i], params, 0)
		if len(a) != 1 || len(b) != 1 {
			return false
		}
		for k := range a {
			if b[k] {
				return false
			}
		}
	}
	return true
}

var c17Witnesses = []Witness{
	{Name: "empty-literal-left-rejected-again", Rule: "R-OVSYM", Edits: []Edit{
		{File: "operator.go", Old: "			// the empty list is parsed to a string list\n			if _, isIntList := params[1].([]int64); isIntList && len(A) == 0 {\n				return false, nil\n			}\n", New: ""}}},
	{Name: "int-vs-string-lists-are-false", Rule: "R-OVSYM", Edits: []Edit{
		{File: "operator.go", Old: "			// the empty list is parsed to a string list\n			if len(B) != 0 {\n				return nil, ParamTypeError(op, typeStrList, params[1])\n			}\n			return false, nil", New: "			return false, nil"}}},
	{Name: "in-mismatch-is-false", Rule: "R-INSETS", Edits: []Edit{
		{File: "operator.go", Old: "		default:\n			return nil, ParamTypeError(op, typeStrList, params[1])\n		}\n	case int64:", New: "		default:\n			return false, nil\n		}\n	case int64:"}}},
	{Name: "in-int-set-case-deleted", Rule: "R-INSETS", Edits: []Edit{
		{File: "operator.go", Old: "		case map[int64]struct{}:\n			_, exist := coll[v]\n			return exist, nil\n		}", New: "		}"}}},
	{Name: "in-nonempty-string-list-false-for-int", Rule: "R-INSETS", Edits: []Edit{
		{File: "operator.go", Old: "		case []string: // the empty list is parsed to a string list\n			if len(coll) == 0 {\n				return false, nil\n			}", New: "		case []string: // the empty list is parsed to a string list\n			return false, nil"}}},
	{Name: "hash-path-probes-same-list", Rule: "R-SETSHAPE", Edits: []Edit{
		{File: "operator.go", Old: "			set := make(map[int64]struct{}, len(A))\n			for _, i := range A {\n				set[i] = empty\n			}\n			for _, i := range B {", New: "			set := make(map[int64]struct{}, len(A))\n			for _, i := range A {\n				set[i] = empty\n			}\n			for _, i := range A {"}}},
	{Name: "hash-set-skips-after-100", Rule: "R-SETSHAPE", Edits: []Edit{
		{File: "operator.go", Old: "		set := make(map[string]struct{}, len(A))\n		for _, i := range A {\n			set[i] = empty\n		}", New: "		set := make(map[string]struct{}, len(A))\n		for n, i := range A {\n			if n >= 100 {\n				break\n			}\n			set[i] = empty\n		}"}}},
	{Name: "scan-stops-after-first-element", Rule: "R-SETSHAPE", Edits: []Edit{
		{File: "operator.go", Old: "				for _, i := range A {\n					for _, j := range B {\n						if i == j {\n							return true, nil\n						}\n					}\n				}\n				return false, nil\n			}\n			if len(A) > len(B) {\n				A, B = B, A\n			}\n			set := make(map[int64]struct{}, len(A))", New: "				for _, i := range A {\n					for _, j := range B {\n						if i == j {\n							return true, nil\n						}\n					}\n					return false, nil\n				}\n				return false, nil\n			}\n			if len(A) > len(B) {\n				A, B = B, A\n			}\n			set := make(map[int64]struct{}, len(A))"}}},
	{Name: "swap-only-one-side", Rule: "R-SETSHAPE", Edits: []Edit{
		{File: "operator.go", Old: "			if len(A) > len(B) {\n				A, B = B, A\n			}\n			set := make(map[int64]struct{}, len(A))", New: "			if len(A) > len(B) {\n				A = B\n			}\n			set := make(map[int64]struct{}, len(A))"}}},
	{Name: "hash-probe-skips-out-of-range-values", Rule: "R-SETSHAPE", Edits: []Edit{
		{File: "operator.go", Old: "			for _, i := range B {\n				if _, exist := set[i]; exist {\n					return true, nil\n				}\n			}\n			return false, nil\n		case []string:", New: "			for _, i := range B {\n				if i < 0 {\n					continue\n				}\n				if _, exist := set[i]; exist {\n					return true, nil\n				}\n			}\n			return false, nil\n		case []string:"}}},
	{Name: "benign-overlap-threshold-50", Benign: true, Edits: []Edit{
		{File: "operator.go", Old: "			if len(A)+len(B) < 100 {\n				for _, i := range A {\n					for _, j := range B {\n						if i == j {\n							return true, nil\n						}\n					}\n				}\n				return false, nil\n			}\n			if len(A) > len(B) {\n				A, B = B, A\n			}\n			set := make(map[int64]struct{}, len(A))", New: "			if len(A)+len(B) < 50 {\n				for _, i := range A {\n					for _, j := range B {\n						if i == j {\n							return true, nil\n						}\n					}\n				}\n				return false, nil\n			}\n			if len(A) > len(B) {\n				A, B = B, A\n			}\n			set := make(map[int64]struct{}, len(A))"}}},
	{Name: "benign-in-string-scan-inverted", Benign: true, Edits: []Edit{
		{File: "operator.go", Old: "		case []string:\n			for _, i := range coll {\n				if i == v {\n					return true, nil\n				}\n			}\n			return false, nil\n		case map[string]struct{}:", New: "		case []string:\n			for _, s := range coll {\n				if v != s {\n					continue\n				}\n				return true, nil\n			}\n			return false, nil\n		case map[string]struct{}:"}}},
}
