package main

// C14 — whitespace, comments and IndentByParentheses never change meaning:
// token-class agreement between lexer and formatter, the shared space
// predicate, and the position rule for directives.

import (
	"fmt"
	"go/token"
	"go/types"
	"sort"
	"strings"

	"golang.org/x/tools/go/ssa"
)

func init() {
	register(&Property{
		ID:    "C14",
		Level: "other",
		Explanation: "Decides the token-class agreement and directive-position clauses: (R-FMTCLASS) the lexer has token classes whose interior is taken verbatim and may contain delimiter characters — each is found as a rune constant that, at the start of a token, hands control to a scanning closure, together with the rune that closure stops at (today: ';' up to line break, '\"' up to '\"'); the oracle is that every such opening rune is also a distinguished case of the formatter's main loop with a copy-through loop (writing A[i] unchanged) that stops at the same terminator: a formatter without a '\"' state necessarily re-spaces the inside of string literals; the copy-through state is entered for every occurrence of the opening rune the main loop meets, whatever the formatter's own state (within one iteration every path from the top of the body back to the loop head enters the copy loop, or has seen 'current rune != opener', or took a case decided by the current rune alone); the copy loops are left only on the terminator or at the end of the input; " +
			"(R-SPACE) lexer and formatter classify separators with the same predicate (unicode.IsSpace on the current rune), the lexer's delimiter set is the constant \"()[];,\" and the formatter's bracket pairs are drawn from it; (R-DIRFIRST) in parseConfig every write of an option executes only for a token of type comment inside a loop that leaves at the first non-comment token, and parseAstTree drops all comment tokens (keeps a token only under typ != comment, then truncates) before check and parsing, so no parser function ever sees one. " +
			"NOT decided: that arbitrary re-layout yields the same token sequence, that the formatter preserves every token outside verbatim classes, idempotence of formatting.",
		Run:       runC14,
		Witnesses: append(append([]Witness{}, wave10Witnesses14...), c14Witnesses...),
	})
}

func runC14(w *World, r *Report) {
	ruleFmtClass(w, r)
	ruleSpace(w, r)
	ruleDirFirst(w, r)
}

// runeCompares collects the rune constants that elements of slice-like A are
// compared with (==) in the given blocks.
func runeCompares(blocks []*ssa.BasicBlock) map[int64]bool {
	out := map[int64]bool{}
	for _, b := range blocks {
		for _, in := range b.Instrs {
			bo, ok := in.(*ssa.BinOp)
			if !ok || (bo.Op != token.EQL && bo.Op != token.NEQ) {
				continue
			}
			x, y := bo.X, bo.Y
			if _, isC := x.(*ssa.Const); isC {
				x, y = y, x
			}
			c, okc := constInt(y)
			if !okc {
				continue
			}
			if bt, okb := y.Type().Underlying().(*types.Basic); !okb || bt.Kind() != types.Int32 {
				continue
			}
			if addr, okl := isLoad(x); okl {
				if _, oki := addr.(*ssa.IndexAddr); oki {
					out[c] = true
				}
			}
		}
	}
	return out
}

// closureBehind resolves a call through a captured func variable to the
// closure stored in it.
func closureBehind(v ssa.Value) *ssa.Function {
	switch x := v.(type) {
	case *ssa.Function: // a named function called directly
		return x
	case *ssa.MakeClosure:
		f, _ := x.Fn.(*ssa.Function)
		return f
	}
	addr, ok := isLoad(v)
	if !ok {
		return nil
	}
	cell := resolveCell(addr)
	if cell == nil {
		return nil
	}
	var fn *ssa.Function
	for _, st := range cellStores(cell) {
		var f *ssa.Function
		switch x := st.Val.(type) {
		case *ssa.MakeClosure:
			f, _ = x.Fn.(*ssa.Function)
		case *ssa.Function:
			f = x
		}
		if f == nil || (fn != nil && fn != f) {
			return nil
		}
		fn = f
	}
	return fn
}

func ruleFmtClass(w *World, r *Report) {
	const rule = "R-FMTCLASS"
	r.Rule(rule, "every verbatim token class of the lexer (opening rune, terminating rune) has a copy-through state with the same terminator in the formatter", 2)
	lex := w.MustFn(r, rule, "(*parser).lex")
	fm := w.MustFn(r, rule, "IndentByParentheses")
	if lex == nil || fm == nil {
		return
	}
	// lexer classes
	lexer := map[int64][]int64{}
	var lexCond []string
	for _, an := range lex.AnonFuncs {
		EachInstr(an, func(in ssa.Instruction) {
			iff, ok := in.(*ssa.If)
			if !ok {
				return
			}
			bo, ok := iff.Cond.(*ssa.BinOp)
			if !ok || bo.Op != token.EQL {
				return
			}
			c, okc := constInt(bo.Y)
			if !okc {
				return
			}
			if addr, okl := isLoad(bo.X); !okl {
				return
			} else if _, oki := addr.(*ssa.IndexAddr); !oki {
				return
			}
			// the true edge calls another lexing closure and returns its result
			tb := iff.Block().Succs[0]
			for _, in2 := range tb.Instrs {
				call, okcall := in2.(*ssa.Call)
				if !okcall || !isDynamicCall(&call.Call) {
					continue
				}
				target := closureBehind(call.Call.Value)
				if target == nil || target.Parent() != lex {
					continue
				}
				var terms []int64
				for t := range runeCompares(target.Blocks) {
					terms = append(terms, t)
				}
				sort.Slice(terms, func(i, j int) bool { return terms[i] < terms[j] })
				lexer[c] = terms
				// the token ends AT its terminating rune, unconditionally: once `A[i] == T` holds the scanning loop is
				// not re-entered (a doubled-quote escape, say, would let two adjacent literals fuse into one token while
				// the formatter — and a reader — still see two)
				for _, tb := range target.Blocks {
					iff2, okIf := tb.Instrs[len(tb.Instrs)-1].(*ssa.If)
					if !okIf {
						continue
					}
					bo2, okB := iff2.Cond.(*ssa.BinOp)
					if !okB || bo2.Op != token.EQL {
						continue
					}
					if _, okc := constInt(bo2.Y); !okc {
						continue
					}
					if addr, okl := isLoad(bo2.X); !okl {
						continue
					} else if _, oki := addr.(*ssa.IndexAddr); !oki {
						continue
					}
					if reachable(tb.Succs[0], tb) {
						lexCond = append(lexCond, fmt.Sprintf("class %q at %s", rune(c), w.InstrPos(iff2)))
					}
				}
			}
		})
	}
	// formatter classes
	formatter := map[int64][]int64{}
	fmtCopy := map[int64]map[*ssa.BasicBlock]bool{}
	fmtRune := map[int64]ssa.Value{}
	var extraExits []string
	// main loop header: the loop header that dominates every other loop header
	var hdr *ssa.BasicBlock
	for _, b := range fm.Blocks {
		if len(b.Succs) == 2 && reachable(b.Succs[0], b) {
			iff, ok := b.Instrs[len(b.Instrs)-1].(*ssa.If)
			if !ok {
				continue
			}
			if cmp, ok := iff.Cond.(*ssa.BinOp); ok && cmp.Op == token.LSS {
				if _, okl := lenArg(cmp.Y); okl {
					if hdr == nil || b.Dominates(hdr) {
						// prefer the outermost loop over the rune slice that contains a rune comparison
						if len(runeCompares(loopBlocks(b))) > 0 {
							hdr = b
						}
					}
				}
			}
		}
	}
	if hdr == nil {
		r.Unresolved(rule, "main loop of the formatter not found")
		return
	}
	for _, b := range fm.Blocks {
		if !hdr.Dominates(b) {
			continue
		}
		for _, f := range factsAtEdgeOnly(b) {
			bo, ok := f.Cond.(*ssa.BinOp)
			if !ok || bo.Op != token.EQL || !f.Truth {
				continue
			}
			c, okc := constInt(bo.Y)
			if !okc {
				continue
			}
			if addr, okl := isLoad(bo.X); !okl {
				continue
			} else if _, oki := addr.(*ssa.IndexAddr); !oki {
				continue
			}
			// inner loops under this case: blocks dominated by the case edge that lie on a cycle avoiding the main header
			var inner []*ssa.BasicBlock
			caseBlock := b
			for _, x := range fm.Blocks {
				if !caseBlock.Dominates(x) {
					continue
				}
				cyc := false
				for _, s := range x.Succs {
					if s == x || reachableAvoiding(s, x, func(y *ssa.BasicBlock) bool { return y == hdr }) {
						cyc = true
					}
				}
				if cyc {
					inner = append(inner, x)
				}
			}
			if len(inner) == 0 {
				continue
			}
			// copy-through: a WriteRune of an element of the rune slice inside the inner loop
			copies := false
			for _, x := range inner {
				for _, in := range x.Instrs {
					if call, ok := in.(*ssa.Call); ok && calleeFullName(&call.Call) == "(*strings.Builder).WriteRune" {
						if addr, okl := isLoad(call.Call.Args[1]); okl {
							if _, oki := addr.(*ssa.IndexAddr); oki {
								copies = true
							}
						}
					}
				}
			}
			if !copies {
				continue
			}
			// a terminator counts only if matching it leaves the copy loop unconditionally:
			// the true edge of `A[i] == T` goes straight out of the inner loop
			innerSet := map[*ssa.BasicBlock]bool{}
			for _, x := range inner {
				innerSet[x] = true
			}
			var wbs []*ssa.BasicBlock
			for _, x := range inner {
				for _, in := range x.Instrs {
					if call, ok := in.(*ssa.Call); ok && calleeFullName(&call.Call) == "(*strings.Builder).WriteRune" {
						if addr, okl := isLoad(call.Call.Args[1]); okl {
							if _, oki := addr.(*ssa.IndexAddr); oki {
								wbs = append(wbs, x)
							}
						}
					}
				}
			}
			avoidMain := func(y *ssa.BasicBlock) bool { return y == hdr }
			copySet := map[*ssa.BasicBlock]bool{}
			for _, x := range inner {
				for _, wb := range wbs {
					if x == wb || (reachableAvoiding(x, wb, avoidMain) && reachableAvoiding(wb, x, avoidMain)) {
						copySet[x] = true
					}
				}
			}
			var terms []int64
			for _, x := range inner {
				if !copySet[x] {
					continue
				}
				iff, ok := x.Instrs[len(x.Instrs)-1].(*ssa.If)
				if !ok {
					continue
				}
				bo2, ok := iff.Cond.(*ssa.BinOp)
				if !ok || bo2.Op != token.EQL {
					continue
				}
				t, okt := constInt(bo2.Y)
				if !okt {
					continue
				}
				if addr, okl := isLoad(bo2.X); !okl {
					continue
				} else if _, oki := addr.(*ssa.IndexAddr); !oki {
					continue
				}
				if !copySet[x.Succs[0]] {
					terms = append(terms, t)
				}
			}
			sort.Slice(terms, func(i, j int) bool { return terms[i] < terms[j] })
			formatter[c] = terms
			fmtCopy[c] = copySet
			fmtRune[c] = bo.X
			// the copy loop is left only by a terminator or by the end of the input
			for _, x := range inner {
				if !copySet[x] {
					continue
				}
				for k, sx := range x.Succs {
					if copySet[sx] {
						continue
					}
					okExit := false
					if iff, ok := x.Instrs[len(x.Instrs)-1].(*ssa.If); ok {
						if bo2, ok := iff.Cond.(*ssa.BinOp); ok {
							if bo2.Op == token.EQL && k == 0 {
								if _, okt := constInt(bo2.Y); okt {
									if addr, okl := isLoad(bo2.X); okl {
										if _, oki := addr.(*ssa.IndexAddr); oki {
											okExit = true
										}
									}
								}
							}
							if bo2.Op == token.LSS && k == 1 {
								if _, okl := lenArg(bo2.Y); okl {
									okExit = true
								}
							}
						}
					}
					if !okExit {
						extraExits = append(extraExits, fmt.Sprintf("class %q at %s", rune(c), w.InstrPos(x.Instrs[len(x.Instrs)-1])))
					}
				}
			}
		}
	}
	// the whole input is formatted: the result is produced only when the main loop over the runes ran to its end
	whole := true
	for _, ret := range allReturns(fm) {
		if hdr.Dominates(ret.Block()) && !edgeDominates(hdr, 1, ret.Block()) {
			whole = false
		}
	}
	r.Check(whole, rule, w.Pos(fm.Pos()), w.Name(fm), "end of the main loop", "the result is returned only after every rune of the input was looked at", "the main loop over the input can be left before the end: the rest of the text is missing from the result")
	r.Check(len(lexCond) == 0, rule, w.Pos(lex.Pos()), w.Name(lex), "the lexer's verbatim tokens end at their terminating rune", "matching the terminator leaves the scanning loop for good", fmt.Sprintf("after the terminating rune the lexer can go on scanning the same token (%v): where the token ends depends on what follows it, so adjacent tokens fuse when the whitespace between them is removed", lexCond))
	r.Check(len(extraExits) == 0, rule, w.Pos(fm.Pos()), w.Name(fm), "exits of the copy-through loops", "left only on the terminating rune or at the end of the input", fmt.Sprintf("a copy-through loop can be left in the middle of the token (%v): the rest of a string or comment is then formatted as code", extraExits))
	show := func(m map[int64][]int64) map[string]string {
		out := map[string]string{}
		for k, v := range m {
			out[fmt.Sprintf("%q", rune(k))] = fmt.Sprintf("%q", runes(v))
		}
		return out
	}
	r.Extra["verbatim_classes"] = map[string]interface{}{"lexer": show(lexer), "formatter": show(formatter)}
	if len(lexer) < 2 {
		r.Unresolved(rule, fmt.Sprintf("verbatim classes of the lexer not recognised (%v)", show(lexer)))
	}
	var opens []int64
	for k := range lexer {
		opens = append(opens, k)
	}
	sort.Slice(opens, func(i, j int) bool { return opens[i] < opens[j] })
	for _, k := range opens {
		lt := lexer[k]
		ft, ok := formatter[k]
		same := ok && len(lt) > 0
		if same {
			// the formatter's copy-through loop ends on exactly the runes that end the lexer's token
			set, lset := map[int64]bool{}, map[int64]bool{}
			for _, t := range ft {
				set[t] = true
			}
			for _, t := range lt {
				lset[t] = true
				if !set[t] {
					same = false
				}
			}
			for _, t := range ft {
				if !lset[t] {
					same = false
				}
			}
		}
		r.Check(same, rule, w.Pos(fm.Pos()), "IndentByParentheses", fmt.Sprintf("lexer class %q…%q; formatter state %q", rune(k), runes(lt), runes(ft)),
			"the formatter copies this class through verbatim up to the same terminator", fmt.Sprintf("the formatter has no copy-through state for tokens opened by %q (or stops elsewhere): their interior is re-spaced or split", rune(k)))
		// the copy-through state is entered for EVERY occurrence of the opening rune the main loop comes across,
		// whatever the formatter's own state (previous token class, indentation): within one iteration of the main
		// loop, every path from the top of the body back to the loop head either enters the copy loop, or has seen
		// "current rune != opener", or took a case that is decided by the current rune alone (another class).
		if cs, okc := fmtCopy[k]; okc && same {
			cur := fmtRune[k]
			isCur := func(v ssa.Value) bool { return v == cur || sameValueShape(unwrapConv(v), unwrapConv(cur)) }
			excused := func(from, to *ssa.BasicBlock) bool {
				for _, f := range factsAtEdgeTo(from, to) {
					switch c := f.Cond.(type) {
					case *ssa.BinOp:
						if c.Op == token.EQL && isCur(c.X) {
							if v, okv := constInt(c.Y); okv && ((v == k && !f.Truth) || (v != k && f.Truth)) {
								return true
							}
						}
					case *ssa.Lookup:
						if f.Truth && isCur(c.Index) {
							return true
						}
					case *ssa.Call:
						// a classifier of the current rune alone: a unicode predicate, or a function / closure of the
						// rune that captures nothing
						if f.Truth && len(c.Call.Args) == 1 && isCur(c.Call.Args[0]) {
							if strings.HasPrefix(calleeFullName(&c.Call), "unicode.") {
								return true
							}
							if callee := c.Call.StaticCallee(); callee != nil && callee.Package() == fm.Package() && len(callee.FreeVars) == 0 && len(callee.Params) == 1 {
								return true
							}
						}
					}
				}
				return false
			}
			var body *ssa.BasicBlock
			for _, sx := range hdr.Succs {
				if reachable(sx, hdr) {
					body = sx
				}
			}
			var bad *ssa.BasicBlock
			if body != nil {
				seen := map[*ssa.BasicBlock]bool{body: true}
				stack := []*ssa.BasicBlock{body}
				for len(stack) > 0 && bad == nil {
					x := stack[len(stack)-1]
					stack = stack[:len(stack)-1]
					for _, sx := range x.Succs {
						if cs[sx] || excused(x, sx) {
							continue
						}
						if sx == hdr || len(sx.Succs) == 0 {
							bad = x
							break
						}
						if !seen[sx] {
							seen[sx] = true
							stack = append(stack, sx)
						}
					}
				}
			}
			where := w.Pos(fm.Pos())
			if bad != nil && len(bad.Instrs) > 0 {
				where = w.InstrPos(bad.Instrs[len(bad.Instrs)-1])
			}
			r.Check(body != nil && bad == nil, rule, where, "IndentByParentheses", fmt.Sprintf("entry of the copy-through state for %q", rune(k)),
				"every occurrence of the opening rune the main loop meets enters the copy-through state, whatever the formatter's own state",
				fmt.Sprintf("an iteration of the main loop can end without entering the copy-through state although the current rune may be %q (the entry also depends on the formatter's own state, or comes after a case that is not decided by the rune alone): such a token is re-spaced or split", rune(k)))
		}
	}
}

// factsAtEdgeOnly: the facts contributed by the edges that enter b directly
// (the outcome of the predecessor's test), not inherited ones.
func factsAtEdgeOnly(b *ssa.BasicBlock) []Fact {
	var out []Fact
	if len(b.Preds) != 1 {
		return nil
	}
	return append(out, factsAtEdgeTo(b.Preds[0], b)...)
}

func loopBlocks(hdr *ssa.BasicBlock) []*ssa.BasicBlock {
	var out []*ssa.BasicBlock
	for _, b := range hdr.Parent().Blocks {
		if hdr.Dominates(b) && reachable(b, hdr) {
			out = append(out, b)
		}
	}
	return out
}

// ---- R-SPACE ------------------------------------------------------------------

func ruleSpace(w *World, r *Report) {
	const rule = "R-SPACE"
	r.Rule(rule, "lexer and formatter use the same space predicate; the lexer's delimiter set is the constant \"()[];,\" and the formatter's bracket pairs are drawn from it", 3)
	lex := w.MustFn(r, rule, "(*parser).lex")
	fm := w.MustFn(r, rule, "IndentByParentheses")
	if lex == nil || fm == nil {
		return
	}
	spaceCalls := func(fns []*ssa.Function) (n int, others []string) {
		for _, fn := range fns {
			EachInstr(fn, func(in ssa.Instruction) {
				c, ok := in.(*ssa.Call)
				if !ok {
					return
				}
				name := calleeFullName(&c.Call)
				if name == "unicode.IsSpace" {
					n++
				} else if strings.HasPrefix(name, "unicode.Is") && name != "unicode.IsLetter" && name != "unicode.IsNumber" {
					others = append(others, name)
				}
			})
		}
		return
	}
	ln, lo := spaceCalls(append([]*ssa.Function{lex}, lex.AnonFuncs...))
	fn, fo := spaceCalls(append([]*ssa.Function{fm}, fm.AnonFuncs...))
	r.Check(ln >= 1 && fn >= 1 && len(lo) == 0 && len(fo) == 0, rule, w.Pos(fm.Pos()), "lex/IndentByParentheses", fmt.Sprintf("unicode.IsSpace calls: lexer %d, formatter %d; other classifiers %v %v", ln, fn, lo, fo), "one shared predicate", "lexer and formatter disagree on what a separator is")
	// delimiter constant
	var delims string
	for _, an := range lex.AnonFuncs {
		EachInstr(an, func(in ssa.Instruction) {
			if c, ok := in.(*ssa.Call); ok && calleeFullName(&c.Call) == "strings.ContainsRune" {
				if s, oks := constString(c.Call.Args[0]); oks {
					delims = s
				}
			}
		})
	}
	if delims == "" {
		// the same set as a predicate over a rune: r == '(' || … (a switch) in a helper the token scanner calls
		for _, an := range lex.AnonFuncs {
			EachInstr(an, func(in ssa.Instruction) {
				c, ok := in.(*ssa.Call)
				if !ok {
					return
				}
				h := c.Call.StaticCallee()
				if h == nil || !w.funcSet[h] || len(h.Params) != 1 || h.Signature.Results().Len() != 1 {
					return
				}
				if bt, okb := h.Params[0].Type().Underlying().(*types.Basic); !okb || bt.Kind() != types.Int32 {
					return
				}
				set := map[rune]bool{}
				clean := true
				positives := func(facts []Fact) []rune {
					var out []rune
					for _, f := range facts {
						if bo, ok := f.Cond.(*ssa.BinOp); ok && bo.Op == token.EQL && f.Truth {
							if x, y, okc := orientCmp(bo, token.EQL); okc {
								if x == ssa.Value(h.Params[0]) {
									if cv, okv := constInt(y); okv {
										out = append(out, rune(cv))
									}
								} else if y == ssa.Value(h.Params[0]) {
									if cv, okv := constInt(x); okv {
										out = append(out, rune(cv))
									}
								}
							}
						}
					}
					return out
				}
				for _, ret := range allReturns(h) {
					b, okb := constBool(ret.Results[0])
					if !okb {
						clean = false
						continue
					}
					if !b {
						continue
					}
					if ps := positives(factsAtLocal(ret.Block())); len(ps) > 0 {
						for _, x := range ps {
							set[x] = true
						}
						continue
					}
					for _, p := range ret.Block().Preds {
						for kk, sc := range p.Succs {
							if sc != ret.Block() {
								continue
							}
							ps := positives(factsAtEdge(p, kk))
							if len(ps) == 0 {
								clean = false
							}
							for _, x := range ps {
								set[x] = true
							}
						}
					}
				}
				if clean && len(set) > 0 {
					var rs []rune
					for x := range set {
						rs = append(rs, x)
					}
					sort.Slice(rs, func(i, j int) bool { return rs[i] < rs[j] })
					delims = string(rs)
				}
			})
		}
	}
	want := map[rune]bool{'(': true, ')': true, '[': true, ']': true, ';': true, ',': true}
	okDelims := len(delims) == len(want)
	for _, c := range delims {
		if !want[c] {
			okDelims = false
		}
	}
	r.Check(okDelims, rule, w.Pos(lex.Pos()), w.Name(lex), fmt.Sprintf("delimiter set %q", delims), "parentheses, brackets, semicolon, comma", "the set of single-character tokens changed: spacing around the dropped/added character now changes tokens")
	// formatter pairs
	var pairs []string
	EachInstr(fm, func(in ssa.Instruction) {
		st, ok := in.(*ssa.Store)
		if !ok {
			return
		}
		if s, oks := constString(st.Val); oks && len(s) == 2 {
			pairs = append(pairs, s)
		}
	})
	if len(pairs) == 0 {
		// the same brackets as rune constants: keys of a map filled with constants, or the runes a one-parameter
		// predicate closure of the formatter compares its parameter with
		seen := map[rune]bool{}
		EachInstr(fm, func(in ssa.Instruction) {
			if mu, ok := in.(*ssa.MapUpdate); ok {
				if cv, okc := constInt(mu.Key); okc {
					seen[rune(cv)] = true
				}
			}
		})
		for _, an := range fm.AnonFuncs {
			if len(an.Params) != 1 || len(an.FreeVars) != 0 || an.Signature.Results().Len() != 1 {
				continue
			}
			if bt, okb := an.Params[0].Type().Underlying().(*types.Basic); !okb || bt.Kind() != types.Int32 {
				continue
			}
			EachInstr(an, func(in ssa.Instruction) {
				if bo, ok := in.(*ssa.BinOp); ok && bo.Op == token.EQL && unwrapConv(bo.X) == ssa.Value(an.Params[0]) {
					if cv, okc := constInt(bo.Y); okc {
						seen[rune(cv)] = true
					}
				}
			})
		}
		for c := range seen {
			pairs = append(pairs, string(c))
		}
	}
	sort.Strings(pairs)
	okPairs := len(pairs) >= 1
	for _, p := range pairs {
		for _, c := range p {
			if !strings.ContainsRune(delims, c) {
				okPairs = false
			}
		}
	}
	r.Check(okPairs, rule, w.Pos(fm.Pos()), w.Name(fm), fmt.Sprintf("bracket pairs %q", pairs), "every bracket the formatter re-spaces is a single-character token of the lexer", "the formatter inserts spacing around a character that is not a token delimiter: identifiers containing it are split")
}

// ---- R-DIRFIRST ---------------------------------------------------------------

func ruleDirFirst(w *World, r *Report) {
	const rule = "R-DIRFIRST"
	r.Rule(rule, "options are written only for comment tokens before the first other token; comment tokens are removed before check and parsing", 4)
	pc := w.MustFn(r, rule, "(*parser).parseConfig")
	if pc != nil {
		name := w.Name(pc)
		n := 0
		isCommentTest := func(f Fact, elemBase ssa.Value) (bool, bool) {
			bo, ok := f.Cond.(*ssa.BinOp)
			if !ok || (bo.Op != token.EQL && bo.Op != token.NEQ) {
				return false, false
			}
			s, oks := constString(unwrapConv(bo.Y))
			if !oks || s != "comment" {
				return false, false
			}
			if _, okf := loadOfField(bo.X, "token", "typ"); !okf {
				return false, false
			}
			return true, (bo.Op == token.EQL) == f.Truth
		}
		var hdr *ssa.BasicBlock
		EachInstr(pc, func(in ssa.Instruction) {
			mu, ok := in.(*ssa.MapUpdate)
			if !ok {
				return
			}
			if _, okf := loadOfField(mu.Map, "Config", "CompileOptions"); !okf {
				return
			}
			n++
			gated := false
			for _, f := range factsAt(mu.Block()) {
				if is, isComment := isCommentTest(f, nil); is && isComment {
					gated = true
					hdr = f.If.Block()
				}
			}
			r.Check(gated, rule, w.InstrPos(mu), name, effectText(Effect{Instr: mu}), "written only while looking at a comment token", "an option can be set from a token that is not a comment")
		})
		if n == 0 {
			r.Unresolved(rule, "parseConfig no longer writes CompileOptions")
		}
		// the non-comment edge leaves the loop
		if hdr != nil {
			iff := hdr.Instrs[len(hdr.Instrs)-1].(*ssa.If)
			_, isComment := isCommentTest(Fact{Cond: iff.Cond, Truth: true}, nil)
			otherEdge := 1
			if !isComment {
				otherEdge = 0
			}
			nb := hdr.Succs[otherEdge]
			// from there no option write and no way back into the loop body
			leaves := true
			seen := map[*ssa.BasicBlock]bool{}
			stack := []*ssa.BasicBlock{nb}
			for len(stack) > 0 {
				b := stack[len(stack)-1]
				stack = stack[:len(stack)-1]
				if seen[b] {
					continue
				}
				seen[b] = true
				if b == hdr {
					leaves = false
					break
				}
				stack = append(stack, b.Succs...)
			}
			r.Check(leaves, rule, w.InstrPos(iff), name, "first token that is not a comment", "ends the directive scan: directives are honoured only before the first token", "the directive scan continues past the first token: a `;;;;` comment in the middle of an expression changes how it is compiled")
		}
	}
	pa := w.MustFn(r, rule, "(*parser).parseAstTree")
	if pa == nil {
		return
	}
	name := w.Name(pa)
	// tokens kept only under typ != comment
	keepOK := false
	var trunc *ssa.Store
	EachInstr(pa, func(in ssa.Instruction) {
		st, ok := in.(*ssa.Store)
		if !ok {
			return
		}
		if ia, oki := st.Addr.(*ssa.IndexAddr); oki {
			if _, okf := loadOfField(ia.X, "parser", "tokens"); okf {
				for _, f := range factsAt(st.Block()) {
					bo, ok := f.Cond.(*ssa.BinOp)
					if !ok {
						continue
					}
					if s, oks := constString(unwrapConv(bo.Y)); oks && s == "comment" && ((bo.Op == token.NEQ) == f.Truth) {
						keepOK = true
					}
				}
			}
		}
		if tn, fld, _, okf := fieldOf(st.Addr); okf && tn == "parser" && fld == "tokens" {
			if _, isSlice := st.Val.(*ssa.Slice); isSlice {
				trunc = st
			}
		}
	})
	r.Check(keepOK && trunc != nil, rule, w.Pos(pa.Pos()), name, "token compaction", "a token is kept only if its type is not comment, then the list is truncated", "comment tokens are not removed before parsing")
	if trunc != nil {
		late := true
		EachInstr(pa, func(in ssa.Instruction) {
			c, ok := in.(*ssa.Call)
			if !ok || c.Call.StaticCallee() == nil {
				return
			}
			switch nm(c.Call.StaticCallee()) {
			case "check", "parseExpression", "parseInfixExpression", "setLeafNodeParsers":
				if !instrDominates(trunc, c) {
					late = false
				}
			}
		})
		r.Check(late, rule, w.InstrPos(trunc), name, "order", "the structural check and both parsers run after the comments are gone", "a parser runs before comment removal")
	}
}

var c14Witnesses = []Witness{
	{Name: "formatter-comment-ends-on-carriage-return", Rule: "R-FMTCLASS", Edits: []Edit{
		{File: "util.go", Old: "				sb.WriteRune(A[i])\n				if A[i] == '\\n' {\n					break\n				}", New: "				sb.WriteRune(A[i])\n				if A[i] == '\\n' || A[i] == '\\r' {\n					break\n				}"}}},
	{Name: "formatter-string-copy-leaves-after-eight-runes", Rule: "R-FMTCLASS", Edits: []Edit{
		{File: "util.go", Old: "			for i++; i < len(A); i++ {\n				sb.WriteRune(A[i])\n				if A[i] == '\"' {\n					break\n				}\n			}", New: "			for n := 0; i+1 < len(A); n++ {\n				i++\n				sb.WriteRune(A[i])\n				if A[i] == '\"' || n > 7 {\n					break\n				}\n			}"}}},
	{Name: "formatter-stops-after-thousand-runes", Rule: "R-FMTCLASS", Edits: []Edit{
		{File: "util.go", Old: "		default:\n			appendRune(c, prev, indent)\n			prev = normal\n		}\n	}\n\n	return strings.TrimSpace(sb.String())", New: "		default:\n			appendRune(c, prev, indent)\n			prev = normal\n		}\n		if i > 1000 {\n			break\n		}\n	}\n\n	return strings.TrimSpace(sb.String())"}}},
	{Name: "formatter-loses-string-state", Rule: "R-FMTCLASS", Edits: []Edit{
		{File: "util.go", Old: "		case c == '\"':\n			// copy string literals through verbatim\n			appendRune(c, prev, indent)\n			for i++; i < len(A); i++ {\n				sb.WriteRune(A[i])\n				if A[i] == '\"' {\n					break\n				}\n			}\n			prev = normal\n", New: ""}}},
	{Name: "formatter-string-state-stops-at-space", Rule: "R-FMTCLASS", Edits: []Edit{
		{File: "util.go", Old: "				sb.WriteRune(A[i])\n				if A[i] == '\"' {\n					break\n				}", New: "				sb.WriteRune(A[i])\n				if A[i] == ' ' {\n					break\n				}"}}},
	{Name: "formatter-honours-backslash-escapes", Rule: "R-FMTCLASS", Edits: []Edit{
		{File: "util.go", Old: "				if A[i] == '\"' {\n					break\n				}\n			}\n			prev = normal", New: "				if A[i] == '\"' && A[i-1] != '\\\\' {\n					break\n				}\n			}\n			prev = normal"}}},
	{Name: "lexer-gains-backquote-strings", Rule: "R-FMTCLASS", Edits: []Edit{
		{File: "parser.go", Old: "				if i == start && r == '\"' {\n					return lexString()\n				}", New: "				if i == start && r == '\"' {\n					return lexString()\n				}\n				if i == start && r == '`' {\n					return lexRaw()\n				}"},
		{File: "parser.go", Old: "		nextToken = func() (string, error) {", New: "		lexRaw = func() (string, error) {\n			start := i\n			i += 1\n			for ; i < len(A); i++ {\n				if A[i] == '`' {\n					i++\n					return \"\\\"\" + string(A[start+1:i-1]) + \"\\\"\", nil\n				}\n			}\n			return \"\", errors.New(\"unclosed quotes\")\n		}\n\n		nextToken = func() (string, error) {"}}},
	{Name: "lexer-space-is-ascii-only", Rule: "R-SPACE", Edits: []Edit{
		{File: "parser.go", Old: "				if unicode.IsSpace(r) {\n					if i == start {", New: "				if r == ' ' || r == '\\n' || r == '\\t' {\n					if i == start {"}}},
	{Name: "comma-no-longer-a-delimiter", Rule: "R-SPACE", Edits: []Edit{
		{File: "parser.go", Old: "				if strings.ContainsRune(\"()[];,\", r) {", New: "				if strings.ContainsRune(\"()[];\", r) {"}}},
	{Name: "formatter-spaces-braces", Rule: "R-SPACE", Edits: []Edit{
		{File: "util.go", Old: "	for _, pair := range []string{\"[]\", \"()\"} {", New: "	for _, pair := range []string{\"[]\", \"()\", \"{}\"} {"}}},
	{Name: "directives-honoured-anywhere", Rule: "R-DIRFIRST", Edits: []Edit{
		{File: "parser.go", Old: "		if t.typ != comment {\n			break\n		}\n		cmt := strings.TrimSpace(t.val)", New: "		if t.typ != comment {\n			continue\n		}\n		cmt := strings.TrimSpace(t.val)"}}},
	{Name: "comments-kept-for-infix", Rule: "R-DIRFIRST", Edits: []Edit{
		{File: "parser.go", Old: "		if t.typ != comment {\n			p.tokens[n] = t\n			n++\n		}", New: "		if t.typ != comment || p.isInfixNotation() {\n			p.tokens[n] = t\n			n++\n		}"}}},
	{Name: "formatter-string-entry-depends-on-previous-token", Rule: "R-FMTCLASS", Edits: []Edit{
		{File: "util.go", Old: "		case c == '\"':\n			// copy string literals through verbatim", New: "		case c == '\"' && prev != normal:\n			// copy string literals through verbatim"}},
		Doc: "seeded change C14-g: a literal directly after another literal (or at the start of the text) is re-spaced"},
	{Name: "formatter-string-entry-tested-after-state", Rule: "R-FMTCLASS", Edits: []Edit{
		{File: "util.go", Old: "		case c == '\"':\n			// copy string literals through verbatim", New: "		case prev != comment && c == '\"':\n			// copy string literals through verbatim"}}},
	{Name: "formatter-comment-entry-only-at-depth-zero", Rule: "R-FMTCLASS", Edits: []Edit{
		{File: "util.go", Old: "		case c == ';':\n			if prev == comment {", New: "		case c == ';' && indent >= 0:\n			if prev == comment {"}}},
	{Name: "benign-formatter-string-case-reloads-rune", Benign: true, Edits: []Edit{
		{File: "util.go", Old: "		case c == '\"':\n			// copy string literals through verbatim", New: "		case A[i] == '\"':\n			// copy string literals through verbatim"}}},
	{Name: "benign-formatter-string-case-first", Benign: true, Edits: []Edit{
		{File: "util.go", Old: "		switch {\n		case left[c]:\n			appendLeft(c, prev, indent)", New: "		if c == '\"' {\n			appendRune(c, prev, indent)\n			for i++; i < len(A); i++ {\n				sb.WriteRune(A[i])\n				if A[i] == '\"' {\n					break\n				}\n			}\n			prev = normal\n			continue\n		}\n		switch {\n		case left[c]:\n			appendLeft(c, prev, indent)"},
		{File: "util.go", Old: "		case c == '\"':\n			// copy string literals through verbatim\n			appendRune(c, prev, indent)\n			for i++; i < len(A); i++ {\n				sb.WriteRune(A[i])\n				if A[i] == '\"' {\n					break\n				}\n			}\n			prev = normal\n", New: ""}}},
	{Name: "benign-formatter-string-loop-respelled", Benign: true, Edits: []Edit{
		{File: "util.go", Old: "			for i++; i < len(A); i++ {\n				sb.WriteRune(A[i])\n				if A[i] == '\"' {\n					break\n				}\n			}\n			prev = normal", New: "			i++\n			for i < len(A) {\n				ch := A[i]\n				sb.WriteRune(ch)\n				if ch == '\"' {\n					break\n				}\n				i++\n			}\n			prev = normal"}}},
}
