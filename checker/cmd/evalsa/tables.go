package main

// Q5: tables read from the typed syntax tree as data (composite literals,
// const blocks, switch case lists). Values are resolved objects and constant
// values, never source text.

import (
	"fmt"
	"go/ast"
	"go/constant"
	"go/token"
	"go/types"
	"sort"
	"strings"
)

// OpImpl is one value of the builtinOperators table.
type OpImpl struct {
	Key    string
	Pos    token.Pos
	Func   *types.Func               // plain function or method object
	Recv   string                    // receiver type name for method values ("" for functions)
	Fields map[string]constant.Value // constant fields of the receiver literal
	Opaque []string                  // non-constant field expressions (none today)
	Nil    bool
}

// Canon is the identity used to compare two table values.
func (o *OpImpl) Canon() string {
	if o.Nil {
		return "nil"
	}
	if o.Func == nil {
		return "?"
	}
	if o.Recv == "" {
		return "func " + o.Func.Name()
	}
	var fs []string
	for k, v := range o.Fields {
		fs = append(fs, k+"="+v.ExactString())
	}
	sort.Strings(fs)
	for _, x := range o.Opaque {
		fs = append(fs, "?"+x)
	}
	return fmt.Sprintf("method %s.%s{%s}", o.Recv, o.Func.Name(), strings.Join(fs, ","))
}

// FieldInt returns a constant integer field of the receiver literal.
func (o *OpImpl) FieldInt(name string) (int64, bool) {
	v, ok := o.Fields[name]
	if !ok || v.Kind() != constant.Int {
		return 0, false
	}
	return constant.Int64Val(v)
}

func (o *OpImpl) FieldString(name string) (string, bool) {
	v, ok := o.Fields[name]
	if !ok || v.Kind() != constant.String {
		return "", false
	}
	return constant.StringVal(v), true
}

// globalInit returns the initialiser expression of a package-level variable.
func (w *World) globalInit(name string) (ast.Expr, token.Pos) {
	for _, f := range w.Pkg.Syntax {
		for _, d := range f.Decls {
			gd, ok := d.(*ast.GenDecl)
			if !ok || gd.Tok != token.VAR {
				continue
			}
			for _, s := range gd.Specs {
				vs := s.(*ast.ValueSpec)
				for i, id := range vs.Names {
					if id.Name == name && i < len(vs.Values) {
						return vs.Values[i], id.Pos()
					}
				}
			}
		}
	}
	return nil, token.NoPos
}

// OperatorTable extracts a map[string]Operator composite literal.
func (w *World) OperatorTable(global string) ([]*OpImpl, error) {
	init, _ := w.globalInit(global)
	if init == nil {
		return nil, fmt.Errorf("package variable %s with an initialiser not found", global)
	}
	cl, ok := ast.Unparen(init).(*ast.CompositeLit)
	if !ok {
		return nil, fmt.Errorf("%s is not initialised by a composite literal", global)
	}
	if _, ok := w.Info.TypeOf(cl).Underlying().(*types.Map); !ok {
		return nil, fmt.Errorf("%s is not a map", global)
	}
	var out []*OpImpl
	for _, el := range cl.Elts {
		kv, ok := el.(*ast.KeyValueExpr)
		if !ok {
			return nil, fmt.Errorf("%s: element without key", global)
		}
		tv := w.Info.Types[kv.Key]
		if tv.Value == nil || tv.Value.Kind() != constant.String {
			return nil, fmt.Errorf("%s: non-constant key at %s", global, w.Pos(kv.Key.Pos()))
		}
		impl := &OpImpl{Key: constant.StringVal(tv.Value), Pos: kv.Pos(), Fields: map[string]constant.Value{}}
		w.resolveOpValue(ast.Unparen(kv.Value), impl)
		out = append(out, impl)
	}
	return out, nil
}

func (w *World) resolveOpValue(e ast.Expr, impl *OpImpl) {
	switch x := e.(type) {
	case *ast.Ident:
		switch o := w.Info.Uses[x].(type) {
		case *types.Func:
			impl.Func = o
		case *types.Nil:
			impl.Nil = true
		}
	case *ast.CallExpr: // conversion Operator(f)
		if len(x.Args) == 1 && w.Info.Types[x.Fun].IsType() {
			w.resolveOpValue(ast.Unparen(x.Args[0]), impl)
		}
	case *ast.SelectorExpr:
		sel := w.Info.Selections[x]
		if sel == nil {
			// package-qualified function
			if f, ok := w.Info.Uses[x.Sel].(*types.Func); ok {
				impl.Func = f
			}
			return
		}
		f, ok := sel.Obj().(*types.Func)
		if !ok {
			return
		}
		impl.Func = f
		recv := sel.Recv()
		impl.Recv = typeNameOf(deref(recv))
		lit, ok := ast.Unparen(x.X).(*ast.CompositeLit)
		if u, isAddr := ast.Unparen(x.X).(*ast.UnaryExpr); !ok && isAddr && u.Op == token.AND {
			lit, ok = ast.Unparen(u.X).(*ast.CompositeLit)
		}
		if !ok {
			impl.Opaque = append(impl.Opaque, types.ExprString(x.X))
			return
		}
		st, _ := deref(recv).Underlying().(*types.Struct)
		for i, el := range lit.Elts {
			name := ""
			val := el
			if kv, ok := el.(*ast.KeyValueExpr); ok {
				if id, ok := kv.Key.(*ast.Ident); ok {
					name = id.Name
				}
				val = kv.Value
			} else if st != nil && i < st.NumFields() {
				name = st.Field(i).Name()
			}
			tv := w.Info.Types[val]
			if tv.Value != nil {
				impl.Fields[name] = tv.Value
			} else {
				impl.Opaque = append(impl.Opaque, name+":"+types.ExprString(val))
			}
		}
		// zero-valued fields that are not mentioned are constants too
		if st != nil {
			for i := 0; i < st.NumFields(); i++ {
				f := st.Field(i)
				if _, ok := impl.Fields[f.Name()]; ok {
					continue
				}
				mentioned := false
				for _, o := range impl.Opaque {
					if strings.HasPrefix(o, f.Name()+":") {
						mentioned = true
					}
				}
				if mentioned {
					continue
				}
				if b, ok := f.Type().Underlying().(*types.Basic); ok {
					switch {
					case b.Info()&types.IsInteger != 0:
						impl.Fields[f.Name()] = constant.MakeInt64(0)
					case b.Info()&types.IsString != 0:
						impl.Fields[f.Name()] = constant.MakeString("")
					case b.Info()&types.IsBoolean != 0:
						impl.Fields[f.Name()] = constant.MakeBool(false)
					}
				}
			}
		}
	}
}

// StringList extracts a []string / [...]T-of-string-kind composite literal of constants.
func (w *World) StringList(global string) ([]string, token.Pos, error) {
	init, pos := w.globalInit(global)
	if init == nil {
		return nil, pos, fmt.Errorf("package variable %s with an initialiser not found", global)
	}
	cl, ok := ast.Unparen(init).(*ast.CompositeLit)
	if !ok {
		return nil, pos, fmt.Errorf("%s is not initialised by a composite literal", global)
	}
	var out []string
	for _, el := range cl.Elts {
		if kv, ok := el.(*ast.KeyValueExpr); ok {
			el = kv.Value
		}
		tv := w.Info.Types[el]
		if tv.Value == nil || tv.Value.Kind() != constant.String {
			return nil, pos, fmt.Errorf("%s: non-constant element at %s", global, w.Pos(el.Pos()))
		}
		out = append(out, constant.StringVal(tv.Value))
	}
	return out, pos, nil
}

// ConstInt returns the value of a package-level integer constant.
func (w *World) ConstInt(name string) (int64, bool) {
	c := w.ConstObj(name)
	if c == nil || c.Val().Kind() != constant.Int {
		return 0, false
	}
	return constant.Int64Val(c.Val())
}

// ConstsOfType lists the package-level constants whose type is the named type.
func (w *World) ConstsOfType(typeName string) map[string]constant.Value {
	out := map[string]constant.Value{}
	scope := w.Types.Scope()
	for _, n := range scope.Names() {
		if c, ok := scope.Lookup(n).(*types.Const); ok {
			if typeNameOf(c.Type()) == typeName {
				out[n] = c.Val()
			}
		}
	}
	return out
}

// findSwitches visits the switch statements in a function body.
func findSwitches(body *ast.BlockStmt, f func(*ast.SwitchStmt)) {
	ast.Inspect(body, func(n ast.Node) bool {
		if s, ok := n.(*ast.SwitchStmt); ok {
			f(s)
		}
		return true
	})
}

func identical(a, b []string) bool {
	if len(a) != len(b) {
		return false
	}
	for i := range a {
		if a[i] != b[i] {
			return false
		}
	}
	return true
}
