package main

// C18 — scalar operators obey their algebra: alias identity, zero-divisor
// guards, arity and type discipline, fold direction and operator/mode tables,
// safe interface equality.

import (
	"fmt"
	"go/ast"
	"go/constant"
	"go/token"
	"go/types"
	"sort"
	"strings"

	"golang.org/x/tools/go/ssa"
)

func init() {
	register(&Property{
		ID:    "C18",
		Level: "other",
		Explanation: "Decides the structural clauses of C18 from the source: (R-ALIAS) every documented alias resolves to the same implementation object with equal constant receiver fields as its named form; " +
			"(R-DIV0) every integer / and % in the package whose divisor is not a non-zero constant executes only on the non-zero edge of a test of that same divisor, and in operators the zero edge returns a non-nil error; " +
			"(R-ARITY) no built-in indexes params[k] unless a dominating len(params) test admits k (forward must-dataflow); (R-TYPEERR) a failed type test of an operand reaches only error returns; " +
			"(R-FOLD) arithmetic/logic are left folds acc = acc OP v with the Go operator their public name denotes, comparisons map gt/lt/ge/le to > < >= <= on (params[0], params[1]), between is inclusive on both ends, ne is != on the operands eq compares with ==, not is !; " +
			"(R-IFACEEQ) == / != on two interface values is reached only after every operand passed a comparability guard. " +
			"(R-BOOLARITY) an and/or node is never built with fewer than two operands (the engine can decide them without calling the operator, so the arity error is enforced where the node is built; D14). NOT decided: numeric results (wrap-around and MinInt64/-1 are Go's int64 semantics for the built-in operators the rule checks are used), and the n-ary eq loop's value beyond the operands it compares. Round 2: R-IFACEEQ verifies the value-level comparability walk of eq/ne structurally (a type-level answer is rejected, D17); R-PAIRBOOL, R-FLATTEN and the fold rules shared.",
		Run:       runC18,
		Witnesses: append(append(append(append([]Witness{}, valueWalkWitnesses...), wave9Witnesses18...), betweenArrayWitnesses...), c18Witnesses...),
	})
}

func runC18(w *World, r *Report) {
	ruleAlias(w, r)
	ruleDiv0(w, r)
	ruleArity(w, r)
	ruleTypeErr(w, r)
	ruleFold(w, r)
	ruleIfaceEq(w, r)
	ruleBoolArity(w, r)
	// an operator's own arity/type errors are lost if the node is inlined as a leaf and never executed
	ruleKind(w, r)
	// and/or/xor are boolean folds only if no pass merges operands across different operators: the flattening pass relies
	// on "bool operator and not `and`" meaning `or`
	rulePairBool(w, r)
	ruleFlatten(w, r)
	// ... and only if the folding pass never drops the operator itself: a type error of and/or exists only as long
	// as the node does (fold only on success, or on a deciding constant)
	runC10Core(w, r)
}

// ---- R-ALIAS ----------------------------------------------------------------

// Alias groups from the README operator table and the "infix notation patch".
var aliasGroups = [][]string{
	{"add", "+"}, {"sub", "-"}, {"mul", "*"}, {"div", "/"}, {"mod", "%"},
	{"and", "&", "&&"}, {"or", "|", "||"}, {"not", "!"},
	{"eq", "=", "=="}, {"ne", "!="}, {"gt", ">"}, {"lt", "<"}, {"ge", ">="}, {"le", "<="},
	{"date", "to_date"}, {"datetime", "to_datetime"}, {"version", "to_version"},
}

func ruleAlias(w *World, r *Report) {
	const rule = "R-ALIAS"
	r.Rule(rule, "every alias in the operator table resolves to the same implementation (same function, or same method with equal constant receiver fields) as its named form; no table value is nil", 17+40)
	table, err := w.OperatorTable("builtinOperators")
	if err != nil {
		r.Unresolved(rule, err.Error())
		return
	}
	byKey := map[string]*OpImpl{}
	for _, impl := range table {
		if prev, dup := byKey[impl.Key]; dup {
			r.Fail(rule, w.Pos(impl.Pos), "builtinOperators", fmt.Sprintf("duplicate key %q", impl.Key), "also at "+w.Pos(prev.Pos))
		}
		byKey[impl.Key] = impl
		ok := !impl.Nil && impl.Func != nil && len(impl.Opaque) == 0
		r.Check(ok, rule, w.Pos(impl.Pos), "builtinOperators", fmt.Sprintf("entry %q = %s", impl.Key, impl.Canon()),
			"resolves to a function object with constant receiver fields", "value is nil, unresolved or has non-constant receiver fields")
	}
	for _, g := range aliasGroups {
		first := byKey[g[0]]
		if first == nil {
			r.Fail(rule, "-", "builtinOperators", fmt.Sprintf("alias group %v", g), fmt.Sprintf("name %q is not a key of the table", g[0]))
			continue
		}
		ok := true
		why := ""
		for _, name := range g[1:] {
			impl := byKey[name]
			if impl == nil {
				ok, why = false, fmt.Sprintf("name %q is not a key of the table", name)
				break
			}
			if impl.Canon() != first.Canon() {
				ok, why = false, fmt.Sprintf("%q = %s but %q = %s", g[0], first.Canon(), name, impl.Canon())
				break
			}
		}
		pos := w.Pos(first.Pos)
		r.Check(ok, rule, pos, "builtinOperators", fmt.Sprintf("alias group %v", g), "all names map to "+first.Canon(), why)
	}
}

// ---- R-DIV0 -----------------------------------------------------------------

func ruleDiv0(w *World, r *Report) {
	const rule = "R-DIV0"
	r.Rule(rule, "every integer / and % whose divisor is not a non-zero constant is dominated by the non-zero edge of a test of the same divisor; in operators the zero edge returns a non-nil error", 6)
	opFuncs, _, _ := builtinOpFuncs(w)
	for _, fn := range w.Funcs {
		EachInstr(fn, func(in ssa.Instruction) {
			bo, ok := in.(*ssa.BinOp)
			if !ok || (bo.Op != token.QUO && bo.Op != token.REM) {
				return
			}
			bt, ok := bo.Type().Underlying().(*types.Basic)
			if !ok || bt.Info()&types.IsInteger == 0 {
				return
			}
			what := fmt.Sprintf("%s  [divisor %s]", describe(bo), describe(bo.Y))
			pos := w.InstrPos(bo)
			if c, ok := constInt(bo.Y); ok {
				r.Check(c != 0, rule, pos, w.Name(fn), what, "constant non-zero divisor", "constant zero divisor")
				return
			}
			if n, ok := constLenOfCell(w, bo.Y); ok {
				r.Check(n > 0, rule, pos, w.Name(fn), what, fmt.Sprintf("divisor is the length of a slice of a %d-element array literal that is never reassigned", n), "divisor is the length of an empty literal")
				return
			}
			// dominated by a non-zero test of the same value
			guard := nonZeroGuard(bo.Block(), bo.Y)
			if guard == nil {
				r.Fail(rule, pos, w.Name(fn), what, "no dominating test `divisor != 0` of the same value on every path to the division")
				return
			}
			why := "dominated by the non-zero edge of " + describe(guard.If.Cond) + " at " + w.InstrPos(guard.If)
			if _, isOp := opFuncs[fn]; isOp {
				// zero edge must return a non-nil error
				zeroEdge := 0
				c, truth := stripNot(guard.If.Cond, true)
				if b, ok := c.(*ssa.BinOp); ok && ((b.Op == token.NEQ) == truth) {
					zeroEdge = 1 // `v != 0` true edge is the non-zero one
				}
				zb := guard.If.Block().Succs[zeroEdge]
				ret := blockReturn(zb)
				nonNil := false
				if ret != nil {
					nonNil, _ = isErrorReturn(ret)
				}
				if !nonNil {
					r.Fail(rule, pos, w.Name(fn), what, "the zero edge of the divisor test does not return a non-nil error")
					return
				}
				why += "; zero edge returns a non-nil error"
			}
			r.OK(rule, pos, w.Name(fn), what, why)
		})
	}
}

// nonZeroGuard finds a dominating fact "v != 0" for the value v (same SSA
// value or same pure shape, e.g. len of the same field).
func nonZeroGuard(b *ssa.BasicBlock, v ssa.Value) *Fact {
	for _, f := range factsAt(b) {
		bo, ok := f.Cond.(*ssa.BinOp)
		if !ok {
			continue
		}
		x, y := bo.X, bo.Y
		if c, ok := constInt(x); ok && c == 0 {
			x, y = y, x
		}
		if c, ok := constInt(y); !ok || c != 0 {
			continue
		}
		if !(x == v || sameValueShape(x, v) || sameLenShape(x, v)) {
			continue
		}
		nonZero := (bo.Op == token.NEQ && f.Truth) || (bo.Op == token.EQL && !f.Truth) ||
			(bo.Op == token.GTR && f.Truth) || (bo.Op == token.LEQ && !f.Truth && isLenCall(x))
		if nonZero {
			ff := f
			return &ff
		}
	}
	return nil
}

func isLenCall(v ssa.Value) bool {
	_, ok := lenArg(v)
	return ok
}

// sameLenShape: len(a) and len(b) over the same pure location.
func sameLenShape(a, b ssa.Value) bool {
	x, ok1 := lenArg(a)
	y, ok2 := lenArg(b)
	return ok1 && ok2 && (x == y || sameValueShape(x, y))
}

// constLenOfCell recognises len(*cell) where cell is a local or captured
// variable that is assigned exactly once, with a slice of a constant-size
// array literal (e.g. boolUnaryOps := []string{"not"}).
func constLenOfCell(w *World, v ssa.Value) (int64, bool) {
	x, ok := lenArg(v)
	if !ok {
		return 0, false
	}
	addr, ok := isLoad(x)
	if !ok {
		// direct SSA register: a Slice of an array alloc
		return sliceOfArrayLen(x)
	}
	cell := resolveCell(addr)
	if cell == nil {
		return 0, false
	}
	stores := cellStores(cell)
	if len(stores) != 1 {
		return 0, false
	}
	return sliceOfArrayLen(stores[0].Val)
}

func sliceOfArrayLen(v ssa.Value) (int64, bool) {
	sl, ok := v.(*ssa.Slice)
	if !ok || sl.Low != nil || sl.High != nil {
		return 0, false
	}
	al, ok := sl.X.(*ssa.Alloc)
	if !ok {
		return 0, false
	}
	arr, ok := deref(al.Type()).Underlying().(*types.Array)
	if !ok {
		return 0, false
	}
	return arr.Len(), true
}

// resolveCell maps an address (Alloc, or FreeVar bound to an Alloc of the
// enclosing function) to the Alloc that is the variable's cell.
func resolveCell(addr ssa.Value) *ssa.Alloc {
	switch x := addr.(type) {
	case *ssa.Alloc:
		return x
	case *ssa.FreeVar:
		fn := x.Parent()
		parent := fn.Parent()
		if parent == nil {
			return nil
		}
		idx := -1
		for i, fv := range fn.FreeVars {
			if fv == x {
				idx = i
			}
		}
		if idx < 0 {
			return nil
		}
		var found *ssa.Alloc
		ok := true
		var visit func(p *ssa.Function)
		visit = func(p *ssa.Function) {
			EachInstr(p, func(in ssa.Instruction) {
				mc, isMC := in.(*ssa.MakeClosure)
				if !isMC || mc.Fn != fn {
					return
				}
				b := mc.Bindings[idx]
				c := resolveCell(b)
				if c == nil || (found != nil && found != c) {
					ok = false
					return
				}
				found = c
			})
		}
		visit(parent)
		if !ok {
			return nil
		}
		return found
	}
	return nil
}

// cellStores lists every Store to the cell, in its function and in all
// closures (transitively) that capture it.
func cellStores(cell *ssa.Alloc) []*ssa.Store {
	var out []*ssa.Store
	seen := map[ssa.Value]bool{}
	var visit func(addr ssa.Value)
	visit = func(addr ssa.Value) {
		if seen[addr] {
			return
		}
		seen[addr] = true
		for _, ref := range referrers(addr) {
			switch x := ref.(type) {
			case *ssa.Store:
				if x.Addr == addr {
					out = append(out, x)
				}
			case *ssa.MakeClosure:
				fn := x.Fn.(*ssa.Function)
				for i, b := range x.Bindings {
					if b == addr {
						visit(fn.FreeVars[i])
					}
				}
			}
		}
	}
	visit(cell)
	return out
}

// ---- R-ARITY ----------------------------------------------------------------

// receiverModeLiterals lists the constant values of field `field` in every
// composite literal of the named struct type in the package; ok is false if
// some literal leaves it non-constant.
func receiverFieldLiterals(w *World, typeName, field string) (vals map[int64]bool, ok bool) {
	vals = map[int64]bool{}
	ok = true
	named := w.NamedType(typeName)
	if named == nil {
		return vals, false
	}
	st, _ := named.Underlying().(*types.Struct)
	for _, f := range w.Pkg.Syntax {
		ast.Inspect(f, func(n ast.Node) bool {
			cl, isCL := n.(*ast.CompositeLit)
			if !isCL {
				return true
			}
			t := w.Info.TypeOf(cl)
			if t == nil || !types.Identical(t, named) {
				return true
			}
			found := false
			for i, el := range cl.Elts {
				name := ""
				val := el
				if kv, isKV := el.(*ast.KeyValueExpr); isKV {
					if id, isID := kv.Key.(*ast.Ident); isID {
						name = id.Name
					}
					val = kv.Value
				} else if st != nil && i < st.NumFields() {
					name = st.Field(i).Name()
				}
				if name != field {
					continue
				}
				found = true
				tv := w.Info.Types[val]
				if tv.Value == nil || tv.Value.Kind() != constant.Int {
					ok = false
					continue
				}
				v, _ := constant.Int64Val(tv.Value)
				vals[v] = true
			}
			if !found {
				vals[0] = true
			}
			return true
		})
	}
	return vals, ok
}

// modeSwitchInfeasible returns a predicate marking the "no case matched" edge
// of a switch over the receiver's mode field as infeasible when the cases
// cover every value the field is ever constructed with.
func modeSwitchInfeasible(w *World, fn *ssa.Function) (func(from *ssa.BasicBlock, k int) bool, string) {
	if fn.Signature.Recv() == nil {
		return nil, ""
	}
	recvName := typeNameOf(deref(fn.Signature.Recv().Type()))
	vals, ok := receiverFieldLiterals(w, recvName, "mode")
	if !ok || len(vals) == 0 {
		return nil, ""
	}
	note := fmt.Sprintf("modes constructed for %s anywhere in the package: %v", recvName, sortedInts(vals))
	return func(from *ssa.BasicBlock, k int) bool {
		if k != 1 {
			return false
		}
		excluded := map[int64]bool{}
		for _, f := range factsAtEdge(from, k) {
			bo, isBO := f.Cond.(*ssa.BinOp)
			if !isBO || !((bo.Op == token.EQL && !f.Truth) || (bo.Op == token.NEQ && f.Truth)) {
				continue
			}
			x, y := bo.X, bo.Y
			if _, isC := x.(*ssa.Const); isC {
				x, y = y, x
			}
			c, isC := constInt(y)
			if !isC || !isRecvField(x, "mode") {
				continue
			}
			excluded[c] = true
		}
		for v := range vals {
			if !excluded[v] {
				return false
			}
		}
		return true
	}, note
}

func sortedInts(m map[int64]bool) []int64 {
	var out []int64
	for k := range m {
		out = append(out, k)
	}
	sort.Slice(out, func(i, j int) bool { return out[i] < out[j] })
	return out
}

func ruleArity(w *World, r *Report) {
	const rule = "R-ARITY"
	r.Rule(rule, "in every built-in operator (and the exported Destruct helpers) a constant index params[k] is reached only with len(params) > k proven by the dominating len tests (forward must-dataflow; the no-case edge of a mode switch is infeasible when the cases cover every constructed mode)", 25)
	opFuncs, _, err := builtinOpFuncs(w)
	if err != nil {
		r.Unresolved(rule, err.Error())
		return
	}
	fns := map[*ssa.Function]bool{}
	for fn := range opFuncs {
		fns[fn] = true
	}
	for _, extra := range []string{"DestructParamsStr2", "DestructParamsInt2"} {
		if fn := w.Fn(extra); fn != nil {
			fns[fn] = true
		}
	}
	// the if/fi closures are operators too
	if bk := w.Fn("(*parser).buildKeywordNode"); bk != nil {
		for _, anon := range bk.AnonFuncs {
			fns[anon] = true
		}
	}
	for _, fn := range w.SortedFuncs(fns) {
		params := paramsParam(fn)
		if params == nil {
			r.Unresolved(rule, "operator "+w.Name(fn)+" has no []Value parameter")
			continue
		}
		isLen := func(v ssa.Value) bool { return isLenOf(v, params) }
		infeasible, note := modeSwitchInfeasible(w, fn)
		in := minLenAnalysis(fn, isLen, infeasible)
		EachInstr(fn, func(instr ssa.Instruction) {
			ia, ok := instr.(*ssa.IndexAddr)
			if !ok || ia.X != params {
				return
			}
			k, isConst := constInt(ia.Index)
			if !isConst {
				return // range/loop indices are C06's ledger
			}
			what := fmt.Sprintf("params[%d]", k)
			have := in[ia.Block().Index]
			pos := w.InstrPos(ia)
			if isCondOperatorFn(w, fn) {
				// the `if` closure is only ever called by the engine with a one-element literal
				// (checked by C06 R-CONDARG); it has no len test of its own.
				r.Undecided(rule, pos, w.Name(fn), what, "cond-node closure: called only by the evaluator with []Value{res}; see C06 R-CONDARG")
				return
			}
			if have == lenTop {
				r.OK(rule, pos, w.Name(fn), what, "unreachable under the feasible edges")
				return
			}
			why := fmt.Sprintf("len(params) >= %d proven on every feasible path", have)
			if note != "" && infeasible != nil {
				why += " (" + note + ")"
			}
			r.Check(have > k, rule, pos, w.Name(fn), what, why,
				fmt.Sprintf("only len(params) >= %d is proven on some path to this index", have))
		})
	}
}

// ---- R-TYPEERR --------------------------------------------------------------

func ruleTypeErr(w *World, r *Report) {
	const rule = "R-TYPEERR"
	r.Rule(rule, "in every built-in operator, after a failed type test of an operand no value is returned unless another type test of the same operand succeeded: mismatches are errors, never default values", 20)
	opFuncs, _, err := builtinOpFuncs(w)
	if err != nil {
		r.Unresolved(rule, err.Error())
		return
	}
	fns := map[*ssa.Function]bool{}
	for fn := range opFuncs {
		fns[fn] = true
	}
	for _, extra := range []string{"DestructParamsStr2", "DestructParamsInt2"} {
		if fn := w.Fn(extra); fn != nil {
			fns[fn] = true
		}
	}
	if bk := w.Fn("(*parser).buildKeywordNode"); bk != nil {
		for _, anon := range bk.AnonFuncs {
			fns[anon] = true
		}
	}
	for _, fn := range w.SortedFuncs(fns) {
		params := paramsParam(fn)
		if params == nil {
			continue
		}
		for _, b := range fn.Blocks {
			iff, ok := b.Instrs[len(b.Instrs)-1].(*ssa.If)
			if !ok {
				continue
			}
			cond, truth := stripNot(iff.Cond, true)
			ex, ok := cond.(*ssa.Extract)
			if !ok || ex.Index != 1 {
				continue
			}
			ta, ok := ex.Tuple.(*ssa.TypeAssert)
			if !ok || !ta.CommaOk || !derivedFromParams(ta.X, params) {
				continue
			}
			failEdge := 1
			if !truth {
				failEdge = 0
			}
			what := fmt.Sprintf("%s.(%s) fails", describe(ta.X), types.TypeString(ta.AssertedType, relTo))
			bad := valueReturnAfterFailedAssert(b.Succs[failEdge], ta, params)
			pos := w.InstrPos(ta)
			if bad == nil {
				r.OK(rule, pos, w.Name(fn), what, "every return reachable from the failing edge carries a non-nil error or follows a successful test of the same operand")
			} else {
				r.Fail(rule, pos, w.Name(fn), what, "a value is returned at "+w.InstrPos(bad)+" although no type test of the operand succeeded")
			}
		}
	}
}

func derivedFromParams(v ssa.Value, params ssa.Value) bool {
	addr, ok := isLoad(v)
	if !ok {
		return false
	}
	ia, ok := addr.(*ssa.IndexAddr)
	return ok && ia.X == params
}

// valueReturnAfterFailedAssert explores forward from the failing edge of a type
// test. Exploration stops at the success edge of another type test of the
// same operand. It returns a Return that yields a value (nil error) if one is
// reachable.
func valueReturnAfterFailedAssert(start *ssa.BasicBlock, failed *ssa.TypeAssert, params ssa.Value) *ssa.Return {
	seen := map[*ssa.BasicBlock]bool{}
	stack := []*ssa.BasicBlock{start}
	for len(stack) > 0 {
		b := stack[len(stack)-1]
		stack = stack[:len(stack)-1]
		if seen[b] {
			continue
		}
		seen[b] = true
		if ret := blockReturn(b); ret != nil {
			nonNil, _ := isErrorReturn(ret)
			if !nonNil {
				return ret
			}
			continue
		}
		last := b.Instrs[len(b.Instrs)-1]
		if iff, ok := last.(*ssa.If); ok {
			cond, truth := stripNot(iff.Cond, true)
			if ex, ok := cond.(*ssa.Extract); ok && ex.Index == 1 {
				if ta, ok := ex.Tuple.(*ssa.TypeAssert); ok && ta.CommaOk &&
					(ta.X == failed.X || sameValueShape(ta.X, failed.X)) {
					okEdge := 0
					if !truth {
						okEdge = 1
					}
					// only continue along the failing edge of this further test
					stack = append(stack, b.Succs[1-okEdge])
					continue
				}
			}
		}
		stack = append(stack, b.Succs...)
	}
	return nil
}

// ---- R-FOLD -----------------------------------------------------------------

func ruleFold(w *World, r *Report) {
	const rule = "R-FOLD"
	r.Rule(rule, "operator/mode tables read from the implementations: arithmetic and logic are left folds acc = acc OP v with the operator the public name denotes; gt/lt/ge/le are > < >= <= on (params[0], params[1]); between is inclusive; ne is != where eq is ==; not is !", 30)
	_, table, err := builtinOpFuncs(w)
	if err != nil {
		r.Unresolved(rule, err.Error())
		return
	}
	wantArith := map[string]token.Token{"add": token.ADD, "+": token.ADD, "sub": token.SUB, "-": token.SUB,
		"mul": token.MUL, "*": token.MUL, "div": token.QUO, "/": token.QUO, "mod": token.REM, "%": token.REM}
	wantLogic := map[string]string{"and": "(ACC && V)", "&": "(ACC && V)", "&&": "(ACC && V)",
		"or": "(ACC || V)", "|": "(ACC || V)", "||": "(ACC || V)", "xor": "(ACC != V)"}
	wantCmp := map[string]string{"gt": "(P0 > P1)", ">": "(P0 > P1)", "lt": "(P0 < P1)", "<": "(P0 < P1)",
		"ge": "(P0 >= P1)", ">=": "(P0 >= P1)", "le": "(P0 <= P1)", "<=": "(P0 <= P1)"}

	for _, impl := range table {
		if impl.Func == nil {
			continue
		}
		fn := w.Prog.FuncValue(impl.Func)
		if fn == nil || len(fn.Blocks) == 0 {
			continue
		}
		pos := w.Pos(impl.Pos)
		name := fmt.Sprintf("%q -> %s", impl.Key, impl.Canon())
		if op, ok := wantArith[impl.Key]; ok {
			mode, okm := impl.FieldInt("mode")
			if !okm {
				r.Fail(rule, pos, w.Name(fn), name, "no constant mode in the table entry")
				continue
			}
			got, why := foldOpUnderMode(fn, mode, "int64")
			want := "(ACC " + op.String() + " V)"
			r.Check(got == want, rule, pos, w.Name(fn), name+" folds with "+want,
				"under mode=="+fmt.Sprint(mode)+" the loop-carried accumulator (initialised from operand 0, returned at loop exit) is updated as "+got,
				"under mode=="+fmt.Sprint(mode)+" the accumulator update is "+got+" "+why)
			continue
		}
		if want, ok := wantLogic[impl.Key]; ok {
			mode, okm := impl.FieldInt("mode")
			if !okm {
				r.Fail(rule, pos, w.Name(fn), name, "no constant mode in the table entry")
				continue
			}
			got, why := foldOpUnderMode(fn, mode, "bool")
			r.Check(got == want, rule, pos, w.Name(fn), name+" folds with "+want,
				"under mode=="+fmt.Sprint(mode)+" the accumulator update is "+got,
				"under mode=="+fmt.Sprint(mode)+" the accumulator update is "+got+" "+why)
			continue
		}
		if want, ok := wantCmp[impl.Key]; ok {
			mode, okm := impl.FieldInt("mode")
			if !okm {
				r.Fail(rule, pos, w.Name(fn), name, "no constant mode in the table entry")
				continue
			}
			got := returnTermUnderMode(fn, mode)
			want = normaliseWant(want)
			r.Check(got == want, rule, pos, w.Name(fn), name+" computes "+want,
				"under mode=="+fmt.Sprint(mode)+" the value returned is "+got,
				"under mode=="+fmt.Sprint(mode)+" the value returned is "+got)
			continue
		}
		switch impl.Key {
		case "not", "!":
			got := singleValueReturnTerm(fn)
			r.Check(got == "!P0", rule, pos, w.Name(fn), name+" computes !P0", "the only value returned is "+got, "the value returned is "+got)
		case "between":
			got := singleValueReturnTerm(fn)
			want := "((P0 <= P2) && (P0 >= P1))"
			r.Check(got == want, rule, pos, w.Name(fn), name+" computes P1 <= P0 && P0 <= P2 (inclusive)", "the only value returned is "+got, "the value returned is "+got+", want "+want)
		case "ne", "!=":
			got := singleValueReturnTerm(fn)
			r.Check(got == "(P0 != P1)", rule, pos, w.Name(fn), name+" computes P0 != P1", "the only value returned is "+got, "the value returned is "+got)
		case "eq", "=", "==":
			ok, why := checkEqShape(fn)
			r.Check(ok, rule, pos, w.Name(fn), name+" is all-equal: two operands P0 == P1, more: false as soon as an operand differs from P0, else true", why, why)
		}
	}
}

func normaliseWant(s string) string {
	// want strings are written in canonical operand order already (P0 < P1 lexicographically)
	return s
}

// paramTermCtx names params[k] as Pk.
func paramTermCtx(fn *ssa.Function, extra func(v ssa.Value) string) *termCtx {
	params := paramsParam(fn)
	return &termCtx{leaf: func(v ssa.Value) string {
		if extra != nil {
			if s := extra(v); s != "" {
				return s
			}
		}
		if _, isLoadV := isLoad(v); isLoadV && params != nil {
			if k, ok := paramIndex(v, params); ok {
				return fmt.Sprintf("P%d", k)
			}
			// the operands collected into a local array first: var xs [N]T; for i, p := range params { xs[i] = p.(T) }
			if k, ok := arrayCollectedParam(v, params); ok {
				return fmt.Sprintf("P%d", k)
			}
		}
		return ""
	}}
}

// arrayCollectedParam: v loads element k (a constant) of a local array that a complete range loop over params fills with
// xs[i] = params[i].(T), i the range index; the load lies behind the exit edge of that loop.
func arrayCollectedParam(v ssa.Value, params ssa.Value) (int64, bool) {
	addr, ok := isLoad(v)
	if !ok {
		return 0, false
	}
	ia, ok := addr.(*ssa.IndexAddr)
	if !ok {
		return 0, false
	}
	arr, ok := ia.X.(*ssa.Alloc)
	if !ok {
		return 0, false
	}
	if _, isArr := deref(arr.Type()).Underlying().(*types.Array); !isArr {
		return 0, false
	}
	k, ok := constInt(ia.Index)
	if !ok {
		return 0, false
	}
	// exactly one store into the array, of the asserted element at the range index
	var fill *ssa.Store
	for _, ref := range referrers(arr) {
		ea, ok := ref.(*ssa.IndexAddr)
		if !ok {
			continue
		}
		for _, ref2 := range referrers(ea) {
			if st, ok := ref2.(*ssa.Store); ok && st.Addr == ssa.Value(ea) {
				if fill != nil {
					return 0, false
				}
				fill = st
			}
		}
	}
	if fill == nil {
		return 0, false
	}
	ex, ok := fill.Val.(*ssa.Extract)
	if !ok || ex.Index != 0 {
		return 0, false
	}
	ta, ok := ex.Tuple.(*ssa.TypeAssert)
	if !ok {
		return 0, false
	}
	hdr, idx, ok := rangeElemOf(ta.X, params)
	if !ok || fill.Addr.(*ssa.IndexAddr).Index != idx {
		return 0, false
	}
	// every iteration stores, and the load is reached over the loop's exit edge only
	for _, p := range hdr.Preds {
		if hdr.Dominates(p) && !fill.Block().Dominates(p) {
			return 0, false
		}
	}
	ld, _ := v.(ssa.Instruction)
	if ld == nil || !edgeDominates(hdr, 1, ld.Block()) {
		return 0, false
	}
	return k, true
}

// valueReturns lists the returns that yield a value with a nil error.
func valueReturns(fn *ssa.Function) []*ssa.Return {
	var out []*ssa.Return
	for _, ret := range allReturns(fn) {
		if _, isNil := isErrorReturn(ret); isNil {
			out = append(out, ret)
		}
	}
	return out
}

func singleValueReturnTerm(fn *ssa.Function) string {
	rets := valueReturns(fn)
	if len(rets) != 1 {
		return fmt.Sprintf("?%d value returns", len(rets))
	}
	return paramTermCtx(fn, nil).term(rets[0].Results[0])
}

func returnTermUnderMode(fn *ssa.Function, mode int64) string {
	var terms []string
	for _, ret := range valueReturns(fn) {
		ks := recvFieldConstFacts(ret.Block(), "mode")
		if len(ks) == 1 && ks[0] == mode {
			terms = append(terms, paramTermCtx(fn, nil).term(ret.Results[0]))
		}
	}
	if len(terms) != 1 {
		return fmt.Sprintf("?%d value returns under the mode", len(terms))
	}
	return terms[0]
}

// foldOpUnderMode analyses a fold loop of the shape
//
//	for i, p := range params { v := p.(T); if i == 0 { acc = v } else { switch mode { case K: acc = acc OP v } } }
//	return acc
//
// and returns the update term under mode K with atoms ACC and V.
func foldOpUnderMode(fn *ssa.Function, mode int64, elemType string) (string, string) {
	params := paramsParam(fn)
	if params == nil {
		return "?", "(no params)"
	}
	// accumulator: the phi returned (boxed) by the only value return
	rets := valueReturns(fn)
	var acc *ssa.Phi
	for _, ret := range rets {
		if p, ok := unwrapIface(ret.Results[0]).(*ssa.Phi); ok {
			if acc != nil && acc != p {
				return "?", "(several accumulators returned)"
			}
			acc = p
		} else {
			return "?", "(a value return does not return the accumulator: " + describe(ret.Results[0]) + ")"
		}
	}
	if acc == nil {
		return "?", "(no accumulator phi is returned)"
	}
	// the loop must be the range over params, and acc must live in its header
	var elem ssa.Value // the asserted operand value v
	var hdr *ssa.BasicBlock
	var idx ssa.Value
	EachInstr(fn, func(in ssa.Instruction) {
		ta, ok := in.(*ssa.TypeAssert)
		if !ok {
			return
		}
		if h, i, ok := rangeElemOf(ta.X, params); ok {
			hdr, idx = h, i
			if ta.CommaOk {
				for _, ref := range referrers(ta) {
					if ex, ok := ref.(*ssa.Extract); ok && ex.Index == 0 {
						elem = ex
					}
				}
			} else {
				elem = ta
			}
		}
	})
	if hdr == nil || elem == nil {
		return "?", "(no type-asserted range element of params)"
	}
	if acc.Block() != hdr {
		return "?", "(accumulator is not carried by the range loop over params)"
	}
	// every operand takes part: the accumulated value is returned only when the loop over params ran to its end
	for _, ret := range rets {
		if !edgeDominates(hdr, 1, ret.Block()) {
			return "?", "(the accumulated value can be returned before every operand was folded in: the loop over params can be left early)"
		}
	}
	tc := &termCtx{leaf: func(v ssa.Value) string {
		if v == acc {
			return "ACC"
		}
		if v == elem {
			return "V"
		}
		return ""
	}}
	// classify every incoming edge of the accumulator
	var update []string
	initOK := false
	// the values the accumulator receives per path: a counting loop joins the arms in its post block first, so a
	// back-edge value that is itself a join inside the loop is taken apart into its own incoming edges
	type accEdge struct {
		e        ssa.Value
		pred, to *ssa.BasicBlock
	}
	var edges []accEdge
	var expand func(e ssa.Value, pred, to *ssa.BasicBlock, depth int)
	expand = func(e ssa.Value, pred, to *ssa.BasicBlock, depth int) {
		if p2, isPhi := e.(*ssa.Phi); isPhi && p2 != acc && depth < 4 && hdr.Dominates(p2.Block()) && p2.Block() != hdr && p2.Comment != "&&" && p2.Comment != "||" {
			for j, e2 := range p2.Edges {
				expand(e2, p2.Block().Preds[j], p2.Block(), depth+1)
			}
			return
		}
		edges = append(edges, accEdge{e, pred, to})
	}
	for i, e := range acc.Edges {
		pred := hdr.Preds[i]
		if !hdr.Dominates(pred) {
			// loop entry edge: the initial value is irrelevant because index 0 overwrites it
			continue
		}
		expand(e, pred, hdr, 0)
	}
	for _, ae := range edges {
		e, pred := ae.e, ae.pred
		facts := factsAt(pred)
		facts = append(facts, factsAtEdgeTo(pred, ae.to)...)
		// first-iteration edge: idx == 0
		isInit := false
		for _, f := range facts {
			if bo, ok := f.Cond.(*ssa.BinOp); ok && bo.Op == token.EQL && f.Truth && bo.X == idx {
				if c, ok := constInt(bo.Y); ok && c == 0 {
					isInit = true
				}
			}
		}
		if isInit {
			if e == elem {
				initOK = true
			} else {
				return "?", "(on the first operand the accumulator receives " + tc.term(e) + ", not the operand)"
			}
			continue
		}
		var ks []int64
		for _, f := range facts {
			if k, ok := recvFieldEq(f, "mode"); ok {
				ks = append(ks, k)
			}
		}
		if len(ks) == 1 && ks[0] == mode {
			update = append(update, tc.term(e))
		}
	}
	if !initOK {
		return "?", "(the accumulator is not initialised from operand 0)"
	}
	if len(update) != 1 {
		return fmt.Sprintf("?%d updates", len(update)), "(expected exactly one accumulator update under the mode)"
	}
	_ = elemType
	return update[0], ""
}

// factsAtEdgeTo: the branch outcome of pred's terminator on its edge to succ.
func factsAtEdgeTo(pred, succ *ssa.BasicBlock) []Fact {
	iff, ok := pred.Instrs[len(pred.Instrs)-1].(*ssa.If)
	if !ok || pred.Succs[0] == pred.Succs[1] {
		return nil
	}
	for k, s := range pred.Succs {
		if s == succ {
			c, truth := stripNot(iff.Cond, k == 0)
			return expandFact(Fact{Cond: c, Truth: truth, If: iff}, 0)
		}
	}
	return nil
}

// factsOnAllEdgesInto: true if every CFG edge into b satisfies pred (given
// the facts that hold along that edge). Used for blocks shared by several
// cases of a switch ("case nil, int64, string, bool:").
func everyEdgeInto(b *ssa.BasicBlock, ok func(facts []Fact) bool) bool {
	if len(b.Preds) == 0 {
		return false
	}
	for _, p := range b.Preds {
		for k, s := range p.Succs {
			if s == b {
				if !ok(factsAtEdge(p, k)) {
					return false
				}
			}
		}
	}
	return true
}

// checkEqShape: comparisonEquals returns (P0 == P1) when len == 2; otherwise
// false exactly when some range element differs from P0, and true after the loop.
func checkEqShape(fn *ssa.Function) (bool, string) {
	params := paramsParam(fn)
	if params == nil {
		return false, "no params"
	}
	var direct, falseRet, trueRet int
	var problems []string
	var trueBlocks, cmpHdrs []*ssa.BasicBlock // where true is returned; headers of the loops that compare with P0
	for _, ret := range valueReturns(fn) {
		v := unwrapIface(ret.Results[0])
		if b, ok := constBool(v); ok {
			if b {
				// true only at the exit of a range loop over params whose body compares with P0
				trueRet++
				trueBlocks = append(trueBlocks, ret.Block())
				continue
			}
			// false: dominated by (P0 != elem) true
			okFalse := false
			for _, f := range factsAt(ret.Block()) {
				bo, isBO := f.Cond.(*ssa.BinOp)
				if !isBO {
					continue
				}
				if !((bo.Op == token.NEQ && f.Truth) || (bo.Op == token.EQL && !f.Truth)) {
					continue
				}
				x, y := bo.X, bo.Y
				kx, okx := paramIndex(x, params)
				ch, _, oky := rangeElemOf(y, params)
				if !(okx && oky) {
					ky, oky2 := paramIndex(y, params)
					h2, _, okx2 := rangeElemOf(x, params)
					if oky2 && okx2 {
						kx, okx, oky, ch = ky, true, true, h2
					}
				}
				if okx && oky && kx == 0 {
					okFalse = true
					cmpHdrs = append(cmpHdrs, ch)
				}
			}
			if okFalse {
				falseRet++
			} else {
				problems = append(problems, "a constant false is returned without a dominating `P0 != operand`")
			}
			continue
		}
		if ok, why := eqFlagLoop(fn, params, ret, v); ok {
			// the flag form: all := true; for i := 0; i < len(params) && all; i++ { all = P0 == params[i] }; return all
			trueRet++
			falseRet++
			continue
		} else if why != "" {
			problems = append(problems, why)
			continue
		}
		t := paramTermCtx(fn, nil).term(ret.Results[0])
		if t == "(P0 == P1)" {
			direct++
			// must be under len(params) == 2
			in2 := false
			for _, f := range factsAt(ret.Block()) {
				if bo, ok := f.Cond.(*ssa.BinOp); ok && bo.Op == token.EQL && f.Truth && isLenOf(bo.X, params) {
					if c, ok := constInt(bo.Y); ok && c == 2 {
						in2 = true
					}
				}
			}
			if !in2 {
				problems = append(problems, "P0 == P1 is returned without a dominating len(params) == 2")
			}
		} else {
			problems = append(problems, "unexpected value return "+t)
		}
	}
	if trueRet != 1 {
		problems = append(problems, fmt.Sprintf("%d constant-true returns (want 1, after the loop)", trueRet))
	}
	for _, tb := range trueBlocks {
		complete := false
		for _, h := range cmpHdrs {
			if h != nil && edgeDominates(h, 1, tb) {
				complete = true
			}
		}
		if !complete {
			problems = append(problems, "true is returned on a path that is not the completion of the loop that compares every operand with P0")
		}
	}
	if falseRet < 1 {
		problems = append(problems, "no `false` return under P0 != operand")
	}
	if len(problems) > 0 {
		return false, strings.Join(problems, "; ")
	}
	return true, fmt.Sprintf("value returns: %d× (P0 == P1) under len==2, %d× false under P0 != operand, true after the loop", direct, falseRet)
}

// eqFlagLoop: the returned value is a loop-carried flag that starts true, is set to `P0 == params[i]` by every
// iteration of a loop over all operands, and the loop continues only while it is true — so it ends false at the
// first operand that differs from P0 and true when none does. A non-empty reason means "a flag loop, but not
// this one".
func eqFlagLoop(fn *ssa.Function, params ssa.Value, ret *ssa.Return, v ssa.Value) (bool, string) {
	flag, ok := v.(*ssa.Phi)
	if !ok {
		return false, ""
	}
	if bt, okb := flag.Type().Underlying().(*types.Basic); !okb || bt.Kind() != types.Bool {
		return false, ""
	}
	hdr := flag.Block()
	if !hdr.Dominates(ret.Block()) || reachable(ret.Block(), hdr) {
		return false, ""
	}
	back := 0
	type fe struct {
		e        ssa.Value
		pred, to *ssa.BasicBlock
	}
	var edges []fe
	var expand func(e ssa.Value, pred, to *ssa.BasicBlock, depth int)
	expand = func(e ssa.Value, pred, to *ssa.BasicBlock, depth int) {
		if p2, isPhi := e.(*ssa.Phi); isPhi && p2 != flag && depth < 4 && hdr.Dominates(p2.Block()) && p2.Block() != hdr && p2.Comment != "&&" && p2.Comment != "||" {
			for j, e2 := range p2.Edges {
				expand(e2, p2.Block().Preds[j], p2.Block(), depth+1)
			}
			return
		}
		edges = append(edges, fe{e, pred, to})
	}
	for i, e := range flag.Edges {
		pred := hdr.Preds[i]
		if !hdr.Dominates(pred) {
			if b, okc := constBool(e); !okc || !b {
				return false, "the all-equal flag does not start true"
			}
			continue
		}
		expand(e, pred, hdr, 0)
	}
	for _, ed := range edges {
		back++
		bo, okB := ed.e.(*ssa.BinOp)
		if !okB || bo.Op != token.EQL {
			return false, "the all-equal flag is updated with something other than P0 == operand: " + describe(ed.e)
		}
		x, y := bo.X, bo.Y
		if _, _, isElem := rangeElemOf(x, params); isElem {
			x, y = y, x
		}
		k, okx := paramIndex(x, params)
		h2, _, oky := rangeElemOf(y, params)
		if !okx || k != 0 || !oky || h2 != hdr {
			return false, "the all-equal flag is not updated with P0 == the operand of this iteration"
		}
		// the loop goes on only while the flag is true
		cont := false
		for _, f := range append(factsAt(ed.pred), factsAtEdgeTo(ed.pred, ed.to)...) {
			if f.Cond == ssa.Value(flag) && f.Truth {
				cont = true
			}
		}
		if !cont {
			return false, "the loop goes on after an operand differed: the flag only reflects the last operand"
		}
	}
	if back == 0 {
		return false, ""
	}
	return true, ""
}

// ---- R-IFACEEQ ----------------------------------------------------------------

// comparableBasic reports whether a static type is always safely comparable
// when boxed in an interface (no run-time panic possible).
func comparableStatic(t types.Type) bool {
	switch u := t.Underlying().(type) {
	case *types.Basic:
		return true
	case *types.Pointer, *types.Chan:
		return true
	case *types.Struct:
		for i := 0; i < u.NumFields(); i++ {
			if !comparableStatic(u.Field(i).Type()) {
				return false
			}
		}
		return true
	case *types.Array:
		return comparableStatic(u.Elem())
	}
	return false
}

// safeIfaceOperand: the operand is a boxed value of statically comparable
// type (constant true/false, DNE, keywordIf, "fi"...). Comparing anything
// with such a value never panics.
func safeIfaceOperand(w *World, v ssa.Value, depth int) bool {
	if depth > 3 {
		return false
	}
	if isNilConst(v) {
		return true
	}
	switch x := v.(type) {
	case *ssa.MakeInterface:
		return comparableStatic(x.X.Type())
	case *ssa.ChangeInterface:
		return safeIfaceOperand(w, x.X, depth+1)
	case *ssa.ChangeType:
		return safeIfaceOperand(w, x.X, depth+1)
	case *ssa.Parameter:
		// safe if every call site in the package passes a safe operand
		fn := x.Parent()
		idx := -1
		for i, p := range fn.Params {
			if p == x {
				idx = i
			}
		}
		if idx < 0 || fn.Object() == nil || ast.IsExported(fn.Name()) {
			return false
		}
		node := w.VTA.Nodes[fn]
		if node == nil || len(node.In) == 0 {
			return false
		}
		// the function must not be used as a value anywhere (all callers visible)
		if funcUsedAsValue(w, fn) {
			return false
		}
		for _, e := range node.In {
			args := e.Site.Common().Args
			if len(args) != len(fn.Params) {
				return false
			}
			a := args[idx]
			if !safeIfaceOperand(w, a, depth+1) {
				return false
			}
		}
		return true
	}
	return false
}

func funcUsedAsValue(w *World, fn *ssa.Function) bool {
	used := false
	for _, g := range w.Funcs {
		EachInstr(g, func(in ssa.Instruction) {
			var ops []*ssa.Value
			for _, op := range in.Operands(ops) {
				if *op != fn {
					continue
				}
				if ci, ok := in.(ssa.CallInstruction); ok && ci.Common().Value == fn {
					// callee position; but fn could also be an argument
					for _, a := range ci.Common().Args {
						if a == fn {
							used = true
						}
					}
					continue
				}
				used = true
			}
		})
	}
	return used
}

func ruleIfaceEq(w *World, r *Report) {
	const rule = "R-IFACEEQ"
	r.Rule(rule, "== / != on two interface values can panic on uncomparable dynamic types: every such comparison in the package has one operand of statically comparable boxed type, or is reached only after every compared operand passed a sound comparability guard", 8)
	guardOK, guardWhy := checkComparableGuard(w)
	for _, fn := range w.Funcs {
		EachInstr(fn, func(in ssa.Instruction) {
			bo, ok := in.(*ssa.BinOp)
			if !ok || (bo.Op != token.EQL && bo.Op != token.NEQ) {
				return
			}
			if !types.IsInterface(bo.X.Type()) || !types.IsInterface(bo.Y.Type()) {
				return
			}
			if isNilConst(bo.X) || isNilConst(bo.Y) {
				return // comparison with the nil constant cannot panic and is not an obligation
			}
			what := describe(bo)
			pos := w.InstrPos(bo)
			// error comparisons with nil etc.
			if safeIfaceOperand(w, bo.X, 0) || safeIfaceOperand(w, bo.Y, 0) {
				r.OK(rule, pos, w.Name(fn), what, "one operand is a boxed value of statically comparable type (or nil): the comparison cannot panic")
				return
			}
			if types.Identical(bo.X.Type(), types.Universe.Lookup("error").Type()) {
				r.Undecided(rule, pos, w.Name(fn), what, "comparison of two error values; outside the operand domain of the property")
				return
			}
			// guarded by a completed range loop over params that returns an error for uncomparable operands
			params := paramsParam(fn)
			if params != nil && guardOK && guardedByComparableLoop(w, bo, params) {
				r.OK(rule, pos, w.Name(fn), what, "dominated by the exit edge of a range loop over params whose body returns a non-nil error unless isComparable(operand); "+guardWhy)
				return
			}
			why := "both operands are arbitrary interface values and no comparability guard over all operands dominates the comparison"
			if !guardOK {
				why += " (" + guardWhy + ")"
			}
			r.Fail(rule, pos, w.Name(fn), what, why)
		})
	}
}

// checkComparableGuard verifies that isComparable returns true only for
// nil/basic comparable dynamic types or when reflect says the type is comparable.
func checkComparableGuard(w *World) (bool, string) {
	fn := w.Fn("isComparable")
	if fn == nil {
		return false, "no function isComparable in the package"
	}
	if len(fn.Params) != 1 {
		return false, "isComparable does not take one operand"
	}
	p := fn.Params[0]
	for _, ret := range allReturns(fn) {
		if len(ret.Results) != 1 {
			return false, "unexpected result arity"
		}
		v := ret.Results[0]
		if b, ok := constBool(v); ok {
			if !b {
				continue
			}
			// constant true: must be dominated by a successful type test of p against a comparable type, or p == nil
			qualifies := func(facts []Fact) bool {
				for _, f := range facts {
					if !f.Truth {
						continue
					}
					switch c := f.Cond.(type) {
					case *ssa.Extract:
						if ta, ok := c.Tuple.(*ssa.TypeAssert); ok && c.Index == 1 && ta.X == p && comparableStatic(ta.AssertedType) && !types.IsInterface(ta.AssertedType) {
							return true
						}
					case *ssa.BinOp:
						if c.Op == token.EQL && ((c.X == p && isNilConst(c.Y)) || (c.Y == p && isNilConst(c.X))) {
							return true
						}
					}
				}
				return false
			}
			okTrue := qualifies(factsAt(ret.Block())) || everyEdgeInto(ret.Block(), qualifies)
			if !okTrue {
				return false, "isComparable returns true at " + w.InstrPos(ret) + " without a successful test against a comparable type"
			}
			continue
		}
		// dynamic: a value-level walk H(reflect.ValueOf(p)). The type-level answer reflect.TypeOf(p).Comparable() is NOT
		// enough: an array or struct type with interface elements is comparable, a value of it that holds a slice or a
		// map makes == panic (defect D17)
		call, ok := v.(*ssa.Call)
		if !ok {
			return false, "isComparable returns " + describe(v) + " at " + w.InstrPos(ret)
		}
		if call.Call.IsInvoke() && nm(call.Call.Method) == "Comparable" {
			return false, "isComparable answers with reflect.Type.Comparable() at " + w.InstrPos(ret) + ": comparability of the type does not make == on the value safe (an array or struct with interface elements can hold a slice)"
		}
		h := call.Call.StaticCallee()
		if h == nil || !w.InPkg(h) || len(call.Call.Args) != 1 {
			return false, "isComparable returns " + describe(v) + " at " + w.InstrPos(ret)
		}
		inner, ok := call.Call.Args[0].(*ssa.Call)
		if !ok || calleeFullName(&inner.Call) != "reflect.ValueOf" || len(inner.Call.Args) != 1 || unwrapConv(inner.Call.Args[0]) != p {
			return false, "the value-level walk is not applied to reflect.ValueOf(operand)"
		}
		if okH, why := checkValueWalk(w, h); !okH {
			return false, why
		}
	}
	return true, "isComparable is true only for nil, a successful test against a comparable basic type, or a value-level walk that refuses slices, maps and funcs at every depth"
}

// checkValueWalk verifies H(v reflect.Value) bool: H answers true only when v's kind is none of slice, map, func,
// and — for the kinds that contain other values (interface, array, struct) — only after H answered true for every
// contained value.
func checkValueWalk(w *World, h *ssa.Function) (bool, string) {
	if len(h.Params) != 1 || h.Params[0].Type().String() != "reflect.Value" {
		return false, w.Name(h) + " does not take one reflect.Value"
	}
	pv := ssa.Value(h.Params[0])
	const (
		kArray, kFunc, kInterface, kMap, kSlice, kStruct = 17, 19, 20, 21, 23, 25
	)
	isKindOfP := func(v ssa.Value) bool {
		c, ok := unwrapConv(v).(*ssa.Call)
		return ok && calleeFullName(&c.Call) == "(reflect.Value).Kind" && len(c.Call.Args) == 1 && c.Call.Args[0] == pv
	}
	// kinds still possible under a list of facts (nil = no kind test seen)
	possible := func(facts []Fact) map[int64]bool {
		all := map[int64]bool{}
		for k := int64(0); k <= 26; k++ {
			all[k] = true
		}
		for _, f := range facts {
			bo, ok := f.Cond.(*ssa.BinOp)
			if !ok || bo.Op != token.EQL || !isKindOfP(bo.X) {
				continue
			}
			c, okc := constInt(bo.Y)
			if !okc {
				continue
			}
			if f.Truth {
				for k := range all {
					if k != c {
						delete(all, k)
					}
				}
			} else {
				delete(all, c)
			}
		}
		return all
	}
	// a recursive call on a value contained in p: H(p.Elem()), H(p.Index(i)), H(p.Field(i))
	containedCall := func(v ssa.Value, accessor string) bool {
		c, ok := v.(*ssa.Call)
		if !ok || c.Call.StaticCallee() != h || len(c.Call.Args) != 1 {
			return false
		}
		a, ok := c.Call.Args[0].(*ssa.Call)
		return ok && calleeFullName(&a.Call) == "(reflect.Value)."+accessor && len(a.Call.Args) >= 1 && a.Call.Args[0] == pv
	}
	// loops: every back edge requires the recursive answer true for the element at the loop index, and the loop runs
	// from 0 below Len()/NumField()
	loopOK := func(hdr *ssa.BasicBlock, accessor, bound string) bool {
		iff, ok := hdr.Instrs[len(hdr.Instrs)-1].(*ssa.If)
		if !ok {
			return false
		}
		cmp, ok := iff.Cond.(*ssa.BinOp)
		if !ok || cmp.Op != token.LSS {
			return false
		}
		bc, ok := cmp.Y.(*ssa.Call)
		if !ok || calleeFullName(&bc.Call) != "(reflect.Value)."+bound || bc.Call.Args[0] != pv {
			return false
		}
		phi, ok := cmp.X.(*ssa.Phi)
		if !ok || phi.Block() != hdr {
			return false
		}
		for i, e := range phi.Edges {
			if hdr.Dominates(hdr.Preds[i]) {
				bo, okb := e.(*ssa.BinOp)
				one, ok1 := int64(0), false
				if okb {
					one, ok1 = constInt(bo.Y)
				}
				if !okb || bo.Op != token.ADD || bo.X != ssa.Value(phi) || !ok1 || one != 1 {
					return false
				}
			} else if c, okc := constInt(e); !okc || c != 0 {
				return false
			}
		}
		for _, p := range hdr.Preds {
			if !hdr.Dominates(p) {
				continue
			}
			good := false
			for _, f := range append(factsAt(p), factsAtEdgeTo(p, hdr)...) {
				if !f.Truth {
					continue
				}
				c, ok := f.Cond.(*ssa.Call)
				if !ok || c.Call.StaticCallee() != h || len(c.Call.Args) != 1 {
					continue
				}
				a, ok := c.Call.Args[0].(*ssa.Call)
				if ok && calleeFullName(&a.Call) == "(reflect.Value)."+accessor && a.Call.Args[0] == pv && len(a.Call.Args) == 2 && a.Call.Args[1] == ssa.Value(phi) {
					good = true
				}
			}
			if !good {
				return false
			}
		}
		return true
	}
	wayOK := func(pred, blk *ssa.BasicBlock) bool {
		facts := factsAt(blk)
		if pred != nil {
			facts = append(append([]Fact{}, factsAt(pred)...), factsAtEdgeTo(pred, blk)...)
		}
		ks := possible(facts)
		if !ks[kSlice] && !ks[kMap] && !ks[kFunc] && !ks[kInterface] && !ks[kArray] && !ks[kStruct] {
			return true
		}
		// a nil interface value
		if len(ks) == 1 && ks[kInterface] {
			for _, f := range facts {
				if c, okc := f.Cond.(*ssa.Call); okc && f.Truth && calleeFullName(&c.Call) == "(reflect.Value).IsNil" && c.Call.Args[0] == pv {
					return true
				}
			}
		}
		// the exit edge of a complete element loop, under the matching kind
		if pred != nil && len(pred.Succs) == 2 && pred.Succs[1] == blk && reachable(pred.Succs[0], pred) {
			if len(ks) == 1 && ks[kArray] && loopOK(pred, "Index", "Len") {
				return true
			}
			if len(ks) == 1 && ks[kStruct] && loopOK(pred, "Field", "NumField") {
				return true
			}
		}
		return false
	}
	for _, ret := range allReturns(h) {
		if len(ret.Results) != 1 {
			return false, "unexpected result arity in " + w.Name(h)
		}
		v := ret.Results[0]
		if b, ok := constBool(v); ok {
			if !b {
				continue
			}
			blk := ret.Block()
			good := true
			if len(blk.Preds) <= 1 {
				var pred *ssa.BasicBlock
				if len(blk.Preds) == 1 {
					pred = blk.Preds[0]
				}
				good = wayOK(pred, blk)
			} else {
				for _, p := range blk.Preds {
					if !wayOK(p, blk) {
						good = false
					}
				}
			}
			if !good {
				return false, w.Name(h) + " answers true at " + w.InstrPos(ret) + " for a kind that can be, or can contain, a slice, map or func, without having walked its elements"
			}
			continue
		}
		// v.IsNil() || H(v.Elem()) under kind == interface
		ks := possible(factsAt(ret.Block()))
		okDyn := false
		if phi, ok := v.(*ssa.Phi); ok && len(ks) == 1 && ks[kInterface] {
			okDyn = true
			for i, e := range phi.Edges {
				if b, okb := constBool(e); okb {
					if !b {
						continue
					}
					nilWay := false
					pred := phi.Block().Preds[i]
					for _, f := range append(factsAt(pred), factsAtEdgeTo(pred, phi.Block())...) {
						if c, okc := f.Cond.(*ssa.Call); okc && f.Truth && calleeFullName(&c.Call) == "(reflect.Value).IsNil" && c.Call.Args[0] == pv {
							nilWay = true
						}
					}
					if !nilWay {
						okDyn = false
					}
				} else if !containedCall(e, "Elem") {
					okDyn = false
				}
			}
		} else if len(ks) == 1 && ks[kInterface] && containedCall(v, "Elem") {
			okDyn = true
		}
		if !okDyn {
			return false, w.Name(h) + " returns " + describe(v) + " at " + w.InstrPos(ret) + ": not a recognised walk into the contained value"
		}
	}
	return true, ""
}

// guardedByComparableLoop: the comparison is dominated by the exit edge of a
// range loop over params in which isComparable(params[i]) is called and whose
// not-comparable edge reaches only non-nil error returns.
func guardedByComparableLoop(w *World, cmp *ssa.BinOp, params ssa.Value) bool {
	if comparableLoopIn(w, cmp.Parent(), params, cmp.Block()) {
		return true
	}
	// the same check extracted into a validation helper: err := check(…, params); if err != nil { return … } — the
	// comparison is reached only when the helper answered nil, and the helper answers nil only after its own loop
	// found every element comparable
	for _, f := range factsAt(cmp.Block()) {
		x, isNil, ok := factIsNil(f)
		if !ok || !isNil {
			continue
		}
		call, okc := x.(*ssa.Call)
		if !okc {
			continue
		}
		h := call.Call.StaticCallee()
		if h == nil || !w.funcSet[h] || h.Signature.Results().Len() != 1 || !isErrorType(h.Signature.Results().At(0).Type()) {
			continue
		}
		pi := -1
		for i, a := range call.Call.Args {
			if a == params {
				pi = i
			}
		}
		if pi < 0 {
			continue
		}
		okAll := false
		for _, ret := range allReturns(h) {
			if isNilConst(ret.Results[0]) {
				if comparableLoopIn(w, h, h.Params[pi], ret.Block()) {
					okAll = true
				} else {
					okAll = false
					break
				}
			}
		}
		if okAll {
			return true
		}
	}
	return false
}

// comparableLoopIn: in fn, a complete loop over slice `params` that leaves with an error unless isComparable(element)
// dominates block `at`.
func comparableLoopIn(w *World, fn *ssa.Function, params ssa.Value, at *ssa.BasicBlock) bool {
	guard := w.Fn("isComparable")
	found := false
	EachInstr(fn, func(in ssa.Instruction) {
		call, ok := in.(*ssa.Call)
		if !ok || call.Call.StaticCallee() != guard || len(call.Call.Args) != 1 {
			return
		}
		hdr, _, ok := rangeElemOf(call.Call.Args[0], params)
		if !ok {
			return
		}
		// the loop's exit edge (header false edge) must dominate the comparison
		if !edgeDominates(hdr, 1, at) {
			return
		}
		// the call's result must be branched on in its own block, with the false
		// edge reaching only error returns and the true edge returning to the loop
		blk := call.Block()
		iff, ok := blk.Instrs[len(blk.Instrs)-1].(*ssa.If)
		if !ok {
			return
		}
		c, truth := stripNot(iff.Cond, true)
		if c != call {
			return
		}
		badEdge := 1
		if !truth {
			badEdge = 0
		}
		if !onlyErrorReturnsFrom(blk.Succs[badEdge]) {
			return
		}
		found = true
	})
	return found
}

// onlyErrorReturnsFrom: every path from b ends in a Return with a non-nil
// error without looping.
func onlyErrorReturnsFrom(b *ssa.BasicBlock) bool {
	seen := map[*ssa.BasicBlock]bool{}
	stack := []*ssa.BasicBlock{b}
	for len(stack) > 0 {
		x := stack[len(stack)-1]
		stack = stack[:len(stack)-1]
		if seen[x] {
			return false // a cycle: could leave the error path
		}
		seen[x] = true
		if ret := blockReturn(x); ret != nil {
			if nonNil, _ := isErrorReturn(ret); !nonNil {
				return false
			}
			continue
		}
		if len(x.Succs) == 0 {
			continue // panic
		}
		stack = append(stack, x.Succs...)
	}
	return true
}

// ---- witnesses --------------------------------------------------------------

var c18Witnesses = []Witness{
	{Name: "benign-equals-all-equal-flag-loop", Rule: "R-FOLD", Benign: true, Edits: []Edit{
		{File: "operator.go", Old: "\tv := params[0]\n\tfor _, p := range params {\n\t\tif v != p {\n\t\t\treturn false, nil\n\t\t}\n\t}\n\treturn true, nil\n}\n\nfunc comparisonNotEquals(", New: "\tv := params[0]\n\tallEqual := true\n\tfor i := 0; i < len(params) && allEqual; i++ {\n\t\tallEqual = v == params[i]\n\t}\n\treturn allEqual, nil\n}\n\nfunc comparisonNotEquals("}}},
	{Name: "equals-flag-loop-keeps-last-comparison", Rule: "R-FOLD", Edits: []Edit{
		{File: "operator.go", Old: "\tv := params[0]\n\tfor _, p := range params {\n\t\tif v != p {\n\t\t\treturn false, nil\n\t\t}\n\t}\n\treturn true, nil\n}\n\nfunc comparisonNotEquals(", New: "\tv := params[0]\n\tallEqual := true\n\tfor i := 0; i < len(params); i++ {\n\t\tallEqual = v == params[i]\n\t}\n\treturn allEqual, nil\n}\n\nfunc comparisonNotEquals("}}},
	{Name: "equals-scan-stops-after-three-operands", Rule: "R-FOLD", Edits: []Edit{
		{File: "operator.go", Old: "\tv := params[0]\n\tfor _, p := range params {\n\t\tif v != p {\n\t\t\treturn false, nil\n\t\t}\n\t}\n\treturn true, nil\n}\n\nfunc comparisonNotEquals(", New: "\tv := params[0]\n\tfor i, p := range params {\n\t\tif i > 2 {\n\t\t\tbreak\n\t\t}\n\t\tif v != p {\n\t\t\treturn false, nil\n\t\t}\n\t}\n\treturn true, nil\n}\n\nfunc comparisonNotEquals("}}},
	{Name: "alias-mod-is-div", Rule: "R-ALIAS", Edits: []Edit{{File: "operator.go", Old: `"%":   arithmetic{mode: mod}.execute,`, New: `"%":   arithmetic{mode: div}.execute,`}}},
	{Name: "alias-andand-is-or", Rule: "R-ALIAS", Edits: []Edit{{File: "operator.go", Old: `"&&": logic{mode: and}.execute,`, New: `"&&": logic{mode: or}.execute,`}}},
	{Name: "mod-zero-test-deleted", Rule: "R-DIV0", Edits: []Edit{{File: "operator.go", Old: `			case mod:
				if v == 0 {
					return nil, OpExecError("mod", errors.New("divide by zero"))
				}
				res %= v`, New: `			case mod:
				res %= v`}}},
	{Name: "div-zero-returns-zero", Rule: "R-DIV0", Edits: []Edit{{File: "operator.go", Old: `					return nil, OpExecError("div", errors.New("divide by zero"))`, New: `					return int64(0), nil`}}},
	{Name: "div-zero-test-first-operand-only", Rule: "R-DIV0", Edits: []Edit{{File: "operator.go", Old: `				if v == 0 {
					return nil, OpExecError("div", errors.New("divide by zero"))
				}
				res /= v`, New: `				if v == 0 && i == 1 {
					return nil, OpExecError("div", errors.New("divide by zero"))
				}
				res /= v`}}},
	{Name: "comparison-arity-test-deleted", Rule: "R-ARITY", Edits: []Edit{{File: "operator.go", Old: `func (c comparison) execute(_ *Ctx, params []Value) (Value, error) {
	if len(params) != 2 {
		return nil, errCnt2(c.mode, params)
	}
`, New: `func (c comparison) execute(_ *Ctx, params []Value) (Value, error) {
`}}},
	{Name: "between-arity-off-by-one", Rule: "R-ARITY", Edits: []Edit{{File: "operator.go", Old: `	if len(params) != 3 {
		return nil, ParamsCountError(op, 3, len(params))`, New: `	if len(params) < 2 {
		return nil, ParamsCountError(op, 3, len(params))`}}},
	{Name: "or-nonbool-operand-is-false", Rule: "R-TYPEERR", Edits: []Edit{{File: "operator.go", Old: `		v, ok := p.(bool)
		if !ok {
			return nil, errTypeBool(c.mode, p)
		}`, New: `		v, ok := p.(bool)
		if !ok && c.mode != or {
			return nil, errTypeBool(c.mode, p)
		}`}}},
	{Name: "sub-fold-reversed", Rule: "R-FOLD", Edits: []Edit{{File: "operator.go", Old: `				res -= v`, New: `				res = v - res`}}},
	{Name: "le-is-lt", Rule: "R-FOLD", Edits: []Edit{{File: "operator.go", Old: `		return i <= j, nil`, New: `		return i < j, nil`}}},
	{Name: "between-exclusive-upper", Rule: "R-FOLD", Edits: []Edit{{File: "operator.go", Old: `	return a <= v && v <= b, nil`, New: `	return a <= v && v < b, nil`}}},
	{Name: "xor-is-or", Rule: "R-FOLD", Edits: []Edit{{File: "operator.go", Old: `				res = res != v`, New: `				res = res || v`}}},
	{Name: "fold-skips-first-operand-init", Rule: "R-FOLD", Edits: []Edit{{File: "operator.go", Old: `		if i == 0 {
			res = v
		} else {
			switch a.mode {`, New: `		if i == 1 {
			res = v
		} else {
			switch a.mode {`}}},
	{Name: "ne-guard-dropped", Rule: "R-IFACEEQ", Edits: []Edit{{File: "operator.go", Old: `	for _, p := range params {
		if !isComparable(p) {
			return nil, ParamTypeError(modeNames[notEquals], "comparable", p)
		}
	}
`, New: ``}}},
	{Name: "eq-guard-first-operand-only", Rule: "R-IFACEEQ", Edits: []Edit{{File: "operator.go", Old: `	for _, p := range params {
		if !isComparable(p) {
			return nil, ParamTypeError(modeNames[equals], "comparable", p)
		}
	}
`, New: `	if !isComparable(params[0]) {
		return nil, ParamTypeError(modeNames[equals], "comparable", params[0])
	}
`}}},
	{Name: "benign-between-respelled", Benign: true, Edits: []Edit{{File: "operator.go", Old: `	return a <= v && v <= b, nil`, New: `	return v >= a && b >= v, nil`}}},
	{Name: "benign-comparison-switch-to-if", Benign: true, Edits: []Edit{{File: "operator.go", Old: `	switch c.mode {
	case greater:
		return i > j, nil
	case less:
		return i < j, nil`, New: `	if c.mode == greater {
		return i > j, nil
	}
	switch c.mode {
	case less:
		return j > i, nil`}}},
}
