package main

// Self-test both ways. A witness mutant is a one-construct edit of the current
// source, applied in memory through the loader's overlay: the named rule must
// report a violation on it. A benign variant is a behaviour-preserving edit:
// every rule of the property must stay silent on it. The verdict of a run is
// only ever about /repo itself; a witness whose anchor text is no longer
// present in the tree under test is reported as skipped.

import (
	"fmt"
	"os"
	"path/filepath"
	"runtime"
	"sort"
	"strings"

	"golang.org/x/tools/go/ssa"
)

type Edit struct {
	File string
	Old  string
	New  string
}

type Witness struct {
	Name   string
	Benign bool
	Rule   string // rule expected to fire ("" for benign)
	Edits  []Edit
	Doc    string
}

func applyEdits(repo string, edits []Edit) (map[string][]byte, string) {
	overlay := map[string][]byte{}
	for _, e := range edits {
		path := filepath.Join(repo, e.File)
		var src []byte
		if cur, ok := overlay[path]; ok {
			src = cur
		} else {
			b, err := os.ReadFile(path)
			if err != nil {
				return nil, "cannot read " + e.File
			}
			src = b
		}
		s := string(src)
		if n := strings.Count(s, e.Old); n != 1 {
			return nil, fmt.Sprintf("anchor text occurs %d times in %s (need exactly 1): %q", n, e.File, firstLines(e.Old, 2))
		}
		overlay[path] = []byte(strings.Replace(s, e.Old, e.New, 1))
	}
	return overlay, ""
}

func runWitnesses(p *Property, repo string, known *KnownFindings, only string) []WitnessResult {
	var out []WitnessResult
	for _, wt := range p.Witnesses {
		if only != "" && !strings.Contains(wt.Name, only) {
			continue
		}
		kind := "mutant"
		expected := "violation of " + wt.Rule
		if wt.Benign {
			kind = "benign"
			expected = "no violation"
		}
		res := WitnessResult{Name: wt.Name, Kind: kind, Rule: wt.Rule, Expected: expected}
		overlay, why := applyEdits(repo, wt.Edits)
		if overlay == nil {
			res.Skipped = true
			res.Got = "skipped"
			res.Detail = why
			out = append(out, res)
			continue
		}
		w, err := Load(LoadConfig{Dir: repo, Overlay: overlay})
		if err != nil {
			res.Got = "does not load"
			res.Detail = err.Error()
			res.OK = false
			out = append(out, res)
			continue
		}
		sub := NewReport(p.ID, "quick", p.Level, known)
		sub.quiet = true
		runGuarded(p, w, sub, "")
		// floors
		for _, id := range sub.ruleOrder {
			s := sub.rules[id]
			if s.Instances < s.Floor {
				sub.Unresolved(id, fmt.Sprintf("only %d instance(s) found, floor is %d", s.Instances, s.Floor))
			}
		}
		var fired []string
		firedRules := map[string]bool{}
		for _, o := range sub.Obls {
			if o.Verdict == Violated {
				firedRules[o.Rule] = true
				if len(fired) < 3 {
					fired = append(fired, fmt.Sprintf("%s@%s %s", o.Rule, o.Pos, truncate(o.What, 90)))
				}
			}
		}
		if wt.Benign {
			res.OK = len(firedRules) == 0
			if res.OK {
				res.Got = "no violation"
			} else {
				res.Got = "violation"
				res.Detail = strings.Join(fired, "; ")
			}
		} else {
			res.OK = firedRules[wt.Rule]
			if res.OK {
				res.Got = "violation of " + wt.Rule
				for _, o := range sub.Obls {
					if o.Verdict == Violated && o.Rule == wt.Rule {
						res.Detail = fmt.Sprintf("%s in %s: %s", o.Pos, o.Func, truncate(o.What, 120))
						break
					}
				}
			} else {
				var rs []string
				for k := range firedRules {
					rs = append(rs, k)
				}
				sort.Strings(rs)
				res.Got = "rules fired: [" + strings.Join(rs, " ") + "]"
				res.Detail = strings.Join(fired, "; ")
			}
		}
		out = append(out, res)
		w = nil
		runtime.GC()
	}
	return out
}

func truncate(s string, n int) string {
	s = strings.Join(strings.Fields(s), " ")
	if len(s) > n {
		return s[:n] + "…"
	}
	return s
}

func runSelfTest(repo, verif, only string) int {
	known := LoadKnownFindings(filepath.Join(verif, "KNOWN_FINDINGS.txt"))
	var ids []string
	for id := range registry {
		ids = append(ids, id)
	}
	sort.Strings(ids)
	bad, total, skipped := 0, 0, 0
	for _, id := range ids {
		p := registry[id]
		for _, wr := range runWitnesses(p, repo, known, only) {
			total++
			status := "ok"
			if wr.Skipped {
				status = "skipped"
				skipped++
			} else if !wr.OK {
				status = "FAILED"
				bad++
			}
			fmt.Printf("selftest %s %-7s %-34s %-8s expected %s; got %s %s\n", id, wr.Kind, wr.Name, status, wr.Expected, wr.Got, truncate(wr.Detail, 160))
		}
	}
	fmt.Printf("selftest: %d witnesses, %d failed, %d skipped\n", total, bad, skipped)
	if bad > 0 {
		return 1
	}
	return 0
}

// ---------------------------------------------------------------------------

// checkAssumptionA2 verifies on every run that the package does not use
// unsafe, cgo or linkname and that reflection is limited to inspection.
func checkAssumptionA2(w *World, r *Report) {
	const rule = "A2"
	r.Rule(rule, "assumption check: no unsafe/cgo/linkname in the package; reflection limited to non-mutating inspection", 1)
	ok := true
	for _, f := range w.Pkg.Syntax {
		for _, imp := range f.Imports {
			path := strings.Trim(imp.Path.Value, `"`)
			if path == "unsafe" || path == "C" {
				ok = false
				r.Fail(rule, w.Pos(imp.Pos()), "-", "import "+path, "the effect rules are unsound in the presence of "+path)
			}
		}
		for _, cg := range f.Comments {
			for _, c := range cg.List {
				if strings.HasPrefix(c.Text, "//go:linkname") {
					ok = false
					r.Fail(rule, w.Pos(c.Pos()), "-", c.Text, "linkname defeats the package-level ownership analysis")
				}
			}
		}
	}
	allowedReflect := map[string]bool{
		"reflect.TypeOf":            true,
		"reflect.ValueOf":           true,
		"(reflect.Value).Kind":      true,
		"(reflect.Value).IsNil":     true,
		"(reflect.Value).Elem":      true,
		"(reflect.Value).Len":       true,
		"(reflect.Value).Index":     true,
		"(reflect.Value).NumField":  true,
		"(reflect.Value).Field":     true,
		"(reflect.Type).Comparable": true,
		"(reflect.Type).Kind":       true,
		"(reflect.Type).String":     true,
		"(reflect.Kind).String":     true,
	}
	for _, fn := range w.Funcs {
		EachInstr(fn, func(in ssa.Instruction) {
			ci, okc := in.(ssa.CallInstruction)
			if !okc {
				return
			}
			cc := ci.Common()
			name := ""
			if cc.IsInvoke() {
				recv := cc.Value.Type().String()
				if strings.HasPrefix(recv, "reflect.") {
					name = "(" + recv + ")." + cc.Method.Name()
				}
			} else {
				name = calleeFullName(cc)
			}
			if strings.HasPrefix(name, "reflect.") || strings.HasPrefix(name, "(reflect.") || strings.HasPrefix(name, "(*reflect.") {
				if !allowedReflect[name] && name != "reflect.init" {
					ok = false
					r.Fail(rule, w.InstrPos(in), w.Name(fn), "call "+name, "reflection outside the frozen inspection-only set: unsound under A2")
				}
			}
		})
	}
	if ok {
		r.OK(rule, "-", "-", "imports, directives and reflect callees of the package", fmt.Sprintf("%d files scanned; no unsafe, cgo, linkname; reflect callees within the inspection set", len(w.Pkg.Syntax)))
	}
}
